#!/usr/bin/env python3-vt
import json, sys, glob, jsonschema
m = json.load(open('/verif/MANIFEST.json'))
jsonschema.validate(m, json.load(open('/root/.vp/MANIFEST.schema.json')))
es = json.load(open('/root/.vp/EVIDENCE.schema.json'))
n = 0
for c in m['checks']:
    try:
        jsonschema.validate(json.load(open(c['evidence_file'])), es); n += 1
    except FileNotFoundError:
        print("missing evidence", c['evidence_file'])
props = [json.loads(l)['id'] for l in open('/verif/properties.jsonl')]
claimed = {c['property_id'] for c in m['checks']}
na = {x['property_id'] for x in m.get('not_applicable', [])}
assert claimed | na == set(props) and not (claimed & na), (sorted(claimed), sorted(na))
print("manifest valid; checks=%d evidence_valid=%d not_applicable=%d" % (len(m['checks']), n, len(na)))
