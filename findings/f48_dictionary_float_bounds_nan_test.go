package parquet_test

// F48 (C05, C17): the bounds of dictionary-encoded FLOAT/DOUBLE pages did not
// ignore NaN the way plain pages do (floatPage.Bounds, doublePage.Bounds skip
// NaN values): the portable loop compared with `<`/`>` starting from the first
// value, the assembly kernel used min/max instructions, and with a NaN among
// the values the two gave different — and both wrong — statistics, so values
// could fall outside [min, max] of their page and chunk and the file bytes
// depended on the build.
// Usage: copy into /repo as zz_f48_test.go;
//   go test -run ZZF48 .   and   go test -tags purego -run ZZF48 .

import (
	"bytes"
	"math"
	"testing"

	"github.com/parquet-go/parquet-go"
)

func TestZZF48DictionaryFloatBoundsIgnoreNaN(t *testing.T) {
	type Row struct {
		F float32 `parquet:"f,dict"`
		D float64 `parquet:"d,dict"`
	}
	nan32 := float32(math.NaN())
	nan64 := math.NaN()
	for _, rows := range [][]Row{
		{{5, 5}, {nan32, nan64}, {7, 7}, {6, 6}},
		{{nan32, nan64}, {5, 5}, {7, 7}, {3, 3}},
		{{5, 5}, {7, 7}, {3, 3}, {nan32, nan64}},
	} {
		var buf bytes.Buffer
		w := parquet.NewGenericWriter[Row](&buf)
		if _, err := w.Write(rows); err != nil {
			t.Fatal(err)
		}
		if err := w.Close(); err != nil {
			t.Fatal(err)
		}
		f, err := parquet.OpenFile(bytes.NewReader(buf.Bytes()), int64(buf.Len()))
		if err != nil {
			t.Fatal(err)
		}
		for i, chunk := range f.RowGroups()[0].ColumnChunks() {
			index, err := chunk.ColumnIndex()
			if err != nil {
				t.Fatal(err)
			}
			lo, hi := math.Inf(1), math.Inf(-1)
			for _, r := range rows {
				v := float64(r.F)
				if i == 1 {
					v = r.D
				}
				if !math.IsNaN(v) {
					lo, hi = math.Min(lo, v), math.Max(hi, v)
				}
			}
			min, max := index.MinValue(0), index.MaxValue(0)
			gotMin, gotMax := min.Double(), max.Double()
			if i == 0 {
				gotMin, gotMax = float64(min.Float()), float64(max.Float())
			}
			if gotMin != lo || gotMax != hi {
				t.Errorf("rows %v column %d: page bounds [%v, %v], want [%v, %v]", rows, i, gotMin, gotMax, lo, hi)
			}
		}
	}
}
