package parquet_test

// F47 (C17, C03): an `optional` non-pointer float field holding -0.0 was a
// value in the accelerated build (the null scanners test the raw 32/64-bit word)
// and a null in the portable one (nullIndex[float32] tests `v != 0`, and
// -0.0 == 0): the same rows gave different files with and without -tags purego,
// and the typed path disagreed with reflect's IsZero, which the reflection path
// follows.
// Usage: copy into /repo as zz_f47_test.go;
//   go test -run ZZF47 .   and   go test -tags purego -run ZZF47 .

import (
	"bytes"
	"math"
	"testing"

	"github.com/parquet-go/parquet-go"
)

func TestZZF47NegativeZeroOptionalFloat(t *testing.T) {
	type Row struct {
		F float32 `parquet:"f,optional"`
		D float64 `parquet:"d,optional"`
	}
	negZero32 := math.Float32frombits(1 << 31)
	negZero64 := math.Copysign(0, -1)
	rows := []Row{{1, 1}, {negZero32, negZero64}, {0, 0}, {2, 2}}
	var buf bytes.Buffer
	w := parquet.NewGenericWriter[Row](&buf)
	if _, err := w.Write(rows); err != nil {
		t.Fatal(err)
	}
	if err := w.Close(); err != nil {
		t.Fatal(err)
	}
	f, err := parquet.OpenFile(bytes.NewReader(buf.Bytes()), int64(buf.Len()))
	if err != nil {
		t.Fatal(err)
	}
	for i, col := range f.Metadata().RowGroups[0].Columns {
		if n := col.MetaData.Statistics.NullCount; n != 1 {
			t.Errorf("column %d: null count %d, want 1 (only +0.0 is the zero value; -0.0 has a bit set)", i, n)
		}
	}
}
