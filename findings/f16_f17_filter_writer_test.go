package parquet_test

// F16 (C14): FilterRowWriter.WriteRows shadows err and returns nil when the
// underlying writer fails.  F17 (C16): its deferred cleanup zeroes the values
// of the rows the caller passed in.
// Usage: copy into /repo as zz_f1617_test.go; go test -run ZZF1[67] .

import (
	"errors"
	"testing"

	"github.com/parquet-go/parquet-go"
)

type zzFailingRowWriter struct{ err error }

func (w zzFailingRowWriter) WriteRows(rows []parquet.Row) (int, error) { return 0, w.err }

type zzCountingRowWriter struct{ n int }

func (w *zzCountingRowWriter) WriteRows(rows []parquet.Row) (int, error) {
	w.n += len(rows)
	return len(rows), nil
}

func TestZZF16FilterRowWriterReportsWriteError(t *testing.T) {
	want := errors.New("sink failed")
	w := parquet.FilterRowWriter(zzFailingRowWriter{want}, func(parquet.Row) bool { return true })
	_, err := w.WriteRows([]parquet.Row{{parquet.Int64Value(1).Level(0, 0, 0)}})
	if !errors.Is(err, want) {
		t.Fatalf("WriteRows returned err=%v, want the error of the underlying writer", err)
	}
}

func TestZZF17FilterRowWriterKeepsCallerRows(t *testing.T) {
	w := parquet.FilterRowWriter(&zzCountingRowWriter{}, func(parquet.Row) bool { return true })
	rows := []parquet.Row{{parquet.Int64Value(42).Level(0, 0, 0)}, {parquet.Int64Value(43).Level(0, 0, 0)}}
	if _, err := w.WriteRows(rows); err != nil {
		t.Fatal(err)
	}
	if rows[0][0].Int64() != 42 || rows[1][0].Int64() != 43 {
		t.Fatalf("rows passed to WriteRows were modified: %v %v", rows[0], rows[1])
	}
}
