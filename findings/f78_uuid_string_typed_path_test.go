package parquet_test

// F78 (C01/C03): a string field tagged `uuid` written through the typed path
// of GenericWriter/GenericBuffer stored the 16 bytes of the Go string HEADER
// (data pointer and length) instead of the parsed UUID: the value read back is
// garbage and a heap address leaks into the file. The reflection path
// (Writer.Write) parses the string. (Reported by a wave-7 red-team agent.)
// Usage: copy into /repo as zz_f78_test.go; go test -run ZZF78 .

import (
	"bytes"
	"testing"

	"github.com/parquet-go/parquet-go"
)

func TestZZF78UUIDStringTypedPath(t *testing.T) {
	type R struct {
		ID  string   `parquet:"id,uuid"`
		Opt string   `parquet:"opt,optional,uuid"`
		L   []string `parquet:"l,list" parquet-element:",uuid"`
	}
	a, b := "00112233-4455-6677-8899-aabbccddeeff", "ffeeddcc-bbaa-9988-7766-554433221100"
	rows := []R{
		{ID: a, Opt: b, L: []string{a, b}},
		{ID: b, Opt: "", L: nil},
		{ID: a, Opt: a, L: []string{b}},
	}
	check := func(name string, data []byte) {
		r := parquet.NewGenericReader[R](bytes.NewReader(data))
		defer r.Close()
		got := make([]R, len(rows)+1)
		n, _ := r.Read(got)
		if n != len(rows) {
			t.Errorf("%s: read %d rows", name, n)
			return
		}
		for i := range rows {
			if got[i].ID != rows[i].ID || got[i].Opt != rows[i].Opt {
				t.Errorf("%s: row %d: ID=%q Opt=%q, want %q %q", name, i, got[i].ID, got[i].Opt, rows[i].ID, rows[i].Opt)
			}
			if len(got[i].L) != len(rows[i].L) {
				t.Errorf("%s: row %d: L=%q want %q", name, i, got[i].L, rows[i].L)
				continue
			}
			for j := range rows[i].L {
				if got[i].L[j] != rows[i].L[j] {
					t.Errorf("%s: row %d: L=%q want %q", name, i, got[i].L, rows[i].L)
				}
			}
		}
	}

	typed := new(bytes.Buffer)
	w := parquet.NewGenericWriter[R](typed)
	if _, err := w.Write(rows); err != nil {
		t.Fatal(err)
	}
	if err := w.Close(); err != nil {
		t.Fatal(err)
	}
	check("GenericWriter", typed.Bytes())

	refl := new(bytes.Buffer)
	w2 := parquet.NewWriter(refl, parquet.SchemaOf(R{}))
	for i := range rows {
		if err := w2.Write(&rows[i]); err != nil {
			t.Fatal(err)
		}
	}
	if err := w2.Close(); err != nil {
		t.Fatal(err)
	}
	check("Writer.Write", refl.Bytes())
}
