package parquet_test

// F40 (C14): an io.EOF from the source io.ReaderAt in the middle of a column
// chunk (a file cut short after it was opened, a reader that loses the tail)
// was taken for the regular end of the column: FilePages.ReadPage returned a
// bare io.EOF at a page boundary, and the rows from there on went missing
// without any error.
// Usage: copy into /repo as zz_f40_test.go; go test -run ZZF40 .

import (
	"bytes"
	"io"
	"testing"

	"github.com/parquet-go/parquet-go"
)

// zzCut40 serves the file but pretends it ends at offset cut (after OpenFile has read the footer).
type zzCut40 struct {
	r   io.ReaderAt
	cut int64
}

func (z *zzCut40) ReadAt(p []byte, off int64) (int, error) {
	if z.cut > 0 && off >= z.cut {
		return 0, io.EOF
	}
	if z.cut > 0 && off+int64(len(p)) > z.cut {
		n, _ := z.r.ReadAt(p[:z.cut-off], off)
		return n, io.EOF
	}
	return z.r.ReadAt(p, off)
}

func TestZZF40EOFInTheMiddleOfAChunk(t *testing.T) {
	type Row struct {
		A int64 `parquet:"a,plain"`
	}
	var buf bytes.Buffer
	w := parquet.NewGenericWriter[Row](&buf, parquet.PageBufferSize(256))
	rows := make([]Row, 500)
	for i := range rows {
		rows[i].A = int64(i)
	}
	w.Write(rows)
	w.Close()
	src := &zzCut40{r: bytes.NewReader(buf.Bytes())}
	f, err := parquet.OpenFile(src, int64(buf.Len()), parquet.ReadBufferSize(64))
	if err != nil {
		t.Fatal(err)
	}
	index, err := f.RowGroups()[0].ColumnChunks()[0].OffsetIndex()
	if err != nil || index.NumPages() < 4 {
		t.Fatalf("need several pages: %v", err)
	}
	for _, cut := range []int64{index.Offset(2), index.Offset(3) + 9} { // a page boundary; inside a page
		src.cut = cut
		pages := f.RowGroups()[0].ColumnChunks()[0].Pages()
		total := int64(0)
		var last error
		for {
			p, err := pages.ReadPage()
			if err != nil {
				last = err
				break
			}
			total += p.NumRows()
			parquet.Release(p)
		}
		pages.Close()
		if last == io.EOF && total < 500 {
			t.Errorf("source cut at offset %d: %d of 500 rows read, then a clean io.EOF", cut, total)
		}
	}
}
