package parquet_test

// F53 (C08, C03): rowBufferPage.Slice and Clone built the new page without the
// maximum repetition and definition levels of the column: the pages that a
// RowBuffer column chunk returns after SeekToRow(k>0), and any slice or clone of
// its pages, reported empty RepetitionLevels()/DefinitionLevels() — the column
// stream of the same rows differs from what a fresh sequential read returns.
// (First seen by two wave-5 red-team agents.)
// Usage: copy into /repo as zz_f53_test.go; go test -run ZZF53 .

import (
	"fmt"
	"testing"

	"github.com/parquet-go/parquet-go"
)

func TestZZF53RowBufferPageSliceKeepsLevels(t *testing.T) {
	type Row struct {
		A *int64 `parquet:"a,optional"`
	}
	one := int64(1)
	rb := parquet.NewRowBuffer[Row]()
	if _, err := rb.Write([]Row{{A: &one}, {A: nil}, {A: &one}}); err != nil {
		t.Fatal(err)
	}
	pages := rb.ColumnChunks()[0].Pages()
	defer pages.Close()
	p, err := pages.ReadPage()
	if err != nil {
		t.Fatal(err)
	}
	if got := fmt.Sprint(p.DefinitionLevels()); got != "[1 0 1]" {
		t.Fatalf("page definition levels = %s", got)
	}
	if got := fmt.Sprint(p.Slice(1, 3).DefinitionLevels()); got != "[0 1]" {
		t.Errorf("definition levels of page.Slice(1,3) = %s, want [0 1]", got)
	}
	if c, ok := p.(interface{ Clone() parquet.Page }); ok {
		if got := fmt.Sprint(c.Clone().DefinitionLevels()); got != "[1 0 1]" {
			t.Errorf("definition levels of page.Clone() = %s, want [1 0 1]", got)
		}
	}
	// the page served after a seek is a slice of the page
	pages2 := rb.ColumnChunks()[0].Pages()
	defer pages2.Close()
	if err := pages2.SeekToRow(1); err != nil {
		t.Fatal(err)
	}
	p2, err := pages2.ReadPage()
	if err != nil {
		t.Fatal(err)
	}
	if got := fmt.Sprint(p2.DefinitionLevels()); got != "[0 1]" {
		t.Errorf("definition levels after SeekToRow(1) = %s, want [0 1]", got)
	}
}
