package parquet_test

// F1 (C13): a corrupted dictionary page body must be reported on the
// seek-then-read path (lazy dictionary load), not only on sequential reads.
// Usage: copy into /repo as zz_f01_test.go and `go test -run ZZF01 .`

import (
	"bytes"
	"errors"
	"fmt"
	"io"
	"testing"

	"github.com/parquet-go/parquet-go"
)

func TestZZF01DictionaryCRCAfterSeek(t *testing.T) {
	type Row struct {
		S string `parquet:"s,dict"`
	}
	var buf bytes.Buffer
	w := parquet.NewGenericWriter[Row](&buf, parquet.PageBufferSize(256), parquet.DataPageStatistics(true))
	rows := make([]Row, 4000)
	for i := range rows {
		rows[i].S = fmt.Sprintf("value-%02d", i%50)
	}
	if _, err := w.Write(rows); err != nil {
		t.Fatal(err)
	}
	if err := w.Close(); err != nil {
		t.Fatal(err)
	}
	data := buf.Bytes()
	i := bytes.Index(data, []byte("value-09"))
	if i < 0 {
		t.Fatal("dictionary entry not found in file bytes")
	}
	corrupted := append([]byte{}, data...)
	corrupted[i+5] ^= 0x01 // '-' -> ','

	f, err := parquet.OpenFile(bytes.NewReader(corrupted), int64(len(corrupted)))
	if err != nil {
		t.Fatal(err)
	}
	pages := f.RowGroups()[0].ColumnChunks()[0].Pages()
	defer pages.Close()
	if err := pages.SeekToRow(1500); err != nil {
		t.Fatal(err)
	}
	for {
		p, err := pages.ReadPage()
		if err != nil {
			if errors.Is(err, parquet.ErrCorrupted) {
				return // reported
			}
			if err == io.EOF {
				break
			}
			t.Fatalf("unexpected error: %v", err)
		}
		vals := make([]parquet.Value, p.NumValues())
		n, _ := p.Values().ReadValues(vals)
		for _, v := range vals[:n] {
			if bytes.Contains(v.ByteArray(), []byte(",")) {
				t.Fatalf("corrupted dictionary value %q returned without error", v.ByteArray())
			}
		}
		parquet.Release(p)
	}
	t.Fatal("corruption in the dictionary page was not reported")
}
