package parquet_test

// F39 (C18, C11): a column whose key the KeyRetriever does not have
// (ErrKeyNotFound) was left without a decryption key, which the rest of the
// library takes to mean "not encrypted": reading it in signed-plaintext-footer
// mode panicked instead of returning an error, and WriteRowGroup of such a row
// group into a plain writer copied the ciphertext verbatim and reported success.
// Usage: copy into /repo as zz_f39_test.go; go test -run ZZF39 .

import (
	"bytes"
	"fmt"
	"testing"

	"github.com/parquet-go/parquet-go"
)

type zzKeys39 struct{ footer []byte }

func (z zzKeys39) FooterKey([]byte) ([]byte, error) { return z.footer, nil }
func (z zzKeys39) ColumnKey(path []string, _ []byte) ([]byte, error) {
	return nil, fmt.Errorf("no key for %v: %w", path, parquet.ErrKeyNotFound)
}

func TestZZF39MissingColumnKey(t *testing.T) {
	type Row struct {
		ID   int64  `parquet:"id"`
		Name string `parquet:"name"`
	}
	footer := []byte("0123456789abcdef")
	nameKey := []byte("fedcba9876543210")
	for _, encryptedFooter := range []bool{false, true} {
		var buf bytes.Buffer
		w := parquet.NewGenericWriter[Row](&buf, parquet.WithEncryption(&parquet.EncryptionConfig{
			FooterKey: footer, ColumnKeys: map[string][]byte{"name": nameKey}, EncryptedFooter: encryptedFooter,
		}))
		rows := make([]Row, 40)
		for i := range rows {
			rows[i] = Row{int64(i), fmt.Sprintf("secret-%02d", i)}
		}
		w.Write(rows)
		if err := w.Close(); err != nil {
			t.Fatal(err)
		}
		f, err := parquet.OpenFile(bytes.NewReader(buf.Bytes()), int64(buf.Len()), parquet.WithDecryption(zzKeys39{footer}))
		if err != nil {
			continue // refusing the file altogether is fine too
		}
		func() {
			defer func() {
				if r := recover(); r != nil {
					t.Errorf("encryptedFooter=%v: reading a column without its key panicked: %v", encryptedFooter, r)
				}
			}()
			r := parquet.NewGenericReader[Row](f)
			defer r.Close()
			out := make([]Row, 40)
			n, err := r.Read(out)
			if err == nil || n > 0 && out[0].Name != "" {
				t.Errorf("encryptedFooter=%v: read %d rows, err=%v, first name %q", encryptedFooter, n, err, out[0].Name)
			}
		}()
		// copying the row group into a plain writer must not succeed silently
		var out bytes.Buffer
		pw := parquet.NewGenericWriter[Row](&out)
		func() {
			defer func() {
				if r := recover(); r != nil {
					t.Errorf("encryptedFooter=%v: WriteRowGroup panicked: %v", encryptedFooter, r)
				}
			}()
			n, err := pw.WriteRowGroup(f.RowGroups()[0])
			if err == nil {
				if cerr := pw.Close(); cerr == nil {
					t.Errorf("encryptedFooter=%v: WriteRowGroup of a row group with an undecryptable column wrote %d rows without error", encryptedFooter, n)
				}
			}
		}()
	}
}
