package parquet_test

// F76 (C03/C14): the value reader of a RowBuffer page moved on to the next row
// whenever the destination buffer filled up, even in the middle of a row: the
// remaining values of that row in the column were never returned. A row with a
// 10-element list read 7 values at a time yielded 1..7 and then the values of
// the next row. (Reported by a wave-7 red-team agent.)
// Usage: copy into /repo as zz_f76_test.go; go test -run ZZF76 .

import (
	"errors"
	"io"
	"testing"

	"github.com/parquet-go/parquet-go"
)

type f76Row struct {
	L []int32
	X int32
}

func TestZZF76RowBufferPageValuesAnyBatchSize(t *testing.T) {
	rb := parquet.NewRowBuffer[f76Row]()
	if _, err := rb.Write([]f76Row{{L: []int32{1, 2, 3, 4, 5, 6, 7, 8, 9, 10}, X: 1}, {L: []int32{11, 12}, X: 2}}); err != nil {
		t.Fatal(err)
	}
	read := func(batch int) (out []int32) {
		pages := rb.ColumnChunks()[0].Pages()
		defer pages.Close()
		for {
			p, err := pages.ReadPage()
			if err != nil {
				if !errors.Is(err, io.EOF) {
					t.Fatal(err)
				}
				return out
			}
			vr := p.Values()
			buf := make([]parquet.Value, batch)
			for {
				n, err := vr.ReadValues(buf)
				for _, v := range buf[:n] {
					out = append(out, v.Int32())
				}
				if err != nil {
					if !errors.Is(err, io.EOF) {
						t.Fatal(err)
					}
					break
				}
				if n == 0 {
					t.Fatal("no progress")
				}
			}
		}
	}
	all := read(4096)
	if len(all) != 12 {
		t.Fatalf("reading all at once: %v", all)
	}
	for _, batch := range []int{1, 3, 7, 10, 11} {
		got := read(batch)
		if len(got) != len(all) {
			t.Errorf("reading %d values at a time: %v, want %v", batch, got, all)
			continue
		}
		for i := range got {
			if got[i] != all[i] {
				t.Errorf("reading %d values at a time: %v, want %v", batch, got, all)
				break
			}
		}
	}
}
