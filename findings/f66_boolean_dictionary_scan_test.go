package parquet_test

// F66 (C04, C01): newBooleanDictionary scanned the bits of a dictionary page
// for the first false and the first true with a loop that indexed the byte
// array by bit position (values[i] with i stepping by 8), stopped as soon as
// either value was found, and took trailing-zero counts past the number of
// values. A dictionary page holding the single value true got
// indexOfFalse = 1, past its end: inserting false afterwards returned index 1
// without growing the dictionary — indexes pointing outside it; a page of nine
// or more entries indexed the byte array out of range.
// (First seen by a wave-5 red-team agent.)
// Usage: copy into /repo as zz_f66_test.go; go test -run ZZF66 .

import (
	"testing"

	"github.com/parquet-go/parquet-go"
)

func TestZZF66BooleanDictionaryScan(t *testing.T) {
	typ := parquet.BooleanType
	for _, page := range []struct {
		bits []byte
		n    int
	}{
		{[]byte{0x01}, 1},       // [true]
		{[]byte{0x00}, 1},       // [false]
		{[]byte{0x00, 0x01}, 9}, // eight false then true
	} {
		dict := typ.NewDictionary(0, page.n, typ.NewValues(page.bits, nil))
		before := dict.Len()
		indexes := make([]int32, 2)
		dict.Insert(indexes, []parquet.Value{parquet.ValueOf(false), parquet.ValueOf(true)})
		for k, want := range []bool{false, true} {
			if int(indexes[k]) >= dict.Len() {
				t.Errorf("page %08b (%d values): index of %v is %d, beyond the %d dictionary entries", page.bits, before, want, indexes[k], dict.Len())
				continue
			}
			if got := dict.Index(indexes[k]).Boolean(); got != want {
				t.Errorf("page %08b (%d values): dict[%d] = %v, want %v", page.bits, before, indexes[k], got, want)
			}
		}
	}
}
