package parquet_test

// F31 (C16, C01): reconstructFuncOfMap reused the map found in the destination:
// reading row after row into the same slice accumulated the entries of every
// earlier row in the map, and the maps the caller kept from earlier reads
// changed under it.
// Usage: copy into /repo as zz_f31_test.go; go test -run ZZF31 .

import (
	"bytes"
	"fmt"
	"testing"

	"github.com/parquet-go/parquet-go"
)

func TestZZF31ReadReusesMapsOfTheDestination(t *testing.T) {
	type Row struct {
		ID int64            `parquet:"id"`
		M  map[string]int64 `parquet:"m"`
		P  *int64           `parquet:"p,optional"`
	}
	v := func(x int64) *int64 { return &x }
	in := []Row{
		{1, map[string]int64{"a": 1}, v(10)},
		{2, map[string]int64{"b": 2}, v(20)},
		{3, map[string]int64{"c": 3}, v(30)},
	}
	var buf bytes.Buffer
	w := parquet.NewGenericWriter[Row](&buf)
	w.Write(in)
	w.Close()
	r := parquet.NewGenericReader[Row](bytes.NewReader(buf.Bytes()))
	defer r.Close()
	batch := make([]Row, 1)
	var kept []Row
	for i := 0; i < len(in); i++ {
		if n, err := r.Read(batch); n != 1 {
			t.Fatalf("read %d: n=%d err=%v", i, n, err)
		}
		if fmt.Sprint(batch[0].M) != fmt.Sprint(in[i].M) || *batch[0].P != *in[i].P {
			t.Errorf("row %d read as M=%v P=%d, want M=%v P=%d", i, batch[0].M, *batch[0].P, in[i].M, *in[i].P)
		}
		kept = append(kept, batch[0]) // the caller keeps the value it was given
	}
	for i := range kept {
		if fmt.Sprint(kept[i].M) != fmt.Sprint(in[i].M) || *kept[i].P != *in[i].P {
			t.Errorf("row %d kept from an earlier Read now is M=%v P=%d, want M=%v P=%d", i, kept[i].M, *kept[i].P, in[i].M, *in[i].P)
		}
	}
}
