package parquet_test

// F10 (C08): a stale serveLastPage flag set by one SeekToRow survives a later
// SeekToRow to another page.  F11 (C08): seeking on merged rows returns the
// skipped rows.  Usage: copy into /repo as zz_f1011_test.go; go test -run ZZF1 .

import (
	"bytes"
	"io"
	"testing"

	"github.com/parquet-go/parquet-go"
)

type zzSeekRow struct {
	ID int64 `parquet:"id"`
}

func TestZZF10SeekSeekRead(t *testing.T) {
	var buf bytes.Buffer
	w := parquet.NewGenericWriter[zzSeekRow](&buf, parquet.PageBufferSize(64), parquet.DataPageVersion(2))
	rows := make([]zzSeekRow, 1000)
	for i := range rows {
		rows[i].ID = int64(i)
	}
	w.Write(rows)
	if err := w.Close(); err != nil {
		t.Fatal(err)
	}
	f, err := parquet.OpenFile(bytes.NewReader(buf.Bytes()), int64(buf.Len()))
	if err != nil {
		t.Fatal(err)
	}
	first := func(p parquet.Pages) int64 {
		pg, err := p.ReadPage()
		if err != nil {
			t.Fatal(err)
		}
		defer parquet.Release(pg)
		v := make([]parquet.Value, 1)
		pg.Values().ReadValues(v)
		return v[0].Int64()
	}
	pages := f.RowGroups()[0].ColumnChunks()[0].Pages()
	defer pages.Close()
	first(pages) // page 0 becomes the cached last page
	if err := pages.SeekToRow(5); err != nil { // inside page 0: serve the cached page
		t.Fatal(err)
	}
	if err := pages.SeekToRow(135); err != nil { // another page
		t.Fatal(err)
	}
	if got := first(pages); got != 135 {
		t.Fatalf("after SeekToRow(5), SeekToRow(135) the next value is %d, want 135", got)
	}
}

func TestZZF11MergedRowsSeek(t *testing.T) {
	mk := func(ids ...int64) parquet.RowGroup {
		b := parquet.NewGenericBuffer[zzSeekRow](parquet.SortingRowGroupConfig(parquet.SortingColumns(parquet.Ascending("id"))))
		rows := make([]zzSeekRow, len(ids))
		for i, id := range ids {
			rows[i].ID = id
		}
		b.Write(rows)
		return b
	}
	m, err := parquet.MergeRowGroups([]parquet.RowGroup{mk(0, 2, 4, 6, 8), mk(1, 3, 5, 7, 9)},
		parquet.SortingRowGroupConfig(parquet.SortingColumns(parquet.Ascending("id"))))
	if err != nil {
		t.Fatal(err)
	}
	rows := m.Rows()
	defer rows.Close()
	if err := rows.SeekToRow(3); err != nil {
		t.Fatal(err)
	}
	buf := make([]parquet.Row, 10)
	n, err := rows.ReadRows(buf)
	if err != nil && err != io.EOF {
		t.Fatal(err)
	}
	if n == 0 || buf[0][0].Int64() != 3 {
		t.Fatalf("after SeekToRow(3) read %d rows starting at id %d, want first id 3", n, buf[0][0].Int64())
	}
	for i := 0; i < n; i++ {
		if got := buf[i][0].Int64(); got != int64(3+i) {
			t.Fatalf("row %d after the seek has id %d, want %d", i, got, 3+i)
		}
	}
}
