package parquet_test

// F64 (C09): the range refinement of MergeRowGroups (page-granular cuts of a
// long lone stretch of one input) refused row groups whose sorting column has
// null *pages*, but accepted pages that mix values and nulls — whose bounds
// ignore the nulls. With keys 0..1999 followed by five null keys (nulls last)
// merged with keys 3000..3099, the cut took the null rows along with the lone
// stretch: the output read 0..1999, null x5, 3000..3099 — not sorted. Mirror
// case with nulls first. (First seen by a wave-5 red-team agent.)
// Usage: copy into /repo as zz_f64_test.go; go test -run ZZF64 .

import (
	"bytes"
	"io"
	"testing"

	"github.com/parquet-go/parquet-go"
)

type f64NullRow struct {
	Key *int64 `parquet:"key,optional"`
	Src string `parquet:"src"`
}

func f64NullFile(t *testing.T, sorting parquet.SortingColumn, rows []f64NullRow) parquet.RowGroup {
	t.Helper()
	var buf bytes.Buffer
	w := parquet.NewGenericWriter[f64NullRow](&buf,
		parquet.SortingWriterConfig(parquet.SortingColumns(sorting)),
		parquet.PageBufferSize(512))
	if _, err := w.Write(rows); err != nil {
		t.Fatal(err)
	}
	if err := w.Close(); err != nil {
		t.Fatal(err)
	}
	f, err := parquet.OpenFile(bytes.NewReader(buf.Bytes()), int64(buf.Len()))
	if err != nil {
		t.Fatal(err)
	}
	return f.RowGroups()[0]
}

// Control: same shape, but the lone stretch of a is shorter than
// minStreamedRegionRows (1024) so the planner does not slice it: passes.
func TestZZF64NullsLastSmallControl(t *testing.T) { f64NullsLast(t, 900) }

func TestZZF64NullsLastRefine(t *testing.T) { f64NullsLast(t, 2000) }

func f64NullsLast(t *testing.T, numA int) {
	p := func(v int64) *int64 { return &v }
	var a, b []f64NullRow
	for i := 0; i < numA; i++ {
		a = append(a, f64NullRow{Key: p(int64(i)), Src: "a"})
	}
	for i := 0; i < 5; i++ {
		a = append(a, f64NullRow{Key: nil, Src: "a"})
	}
	for i := 3000; i < 3100; i++ {
		b = append(b, f64NullRow{Key: p(int64(i)), Src: "b"})
	}
	sorting := parquet.Ascending("key") // nulls last
	m, err := parquet.MergeRowGroups(
		[]parquet.RowGroup{f64NullFile(t, sorting, a), f64NullFile(t, sorting, b)},
		parquet.SortingRowGroupConfig(parquet.SortingColumns(sorting)))
	if err != nil {
		t.Fatal(err)
	}
	t.Logf("merged type %T", m)
	rows := m.Rows()
	defer rows.Close()
	buf := make([]parquet.Row, 50)
	seenNull := false
	total := 0
	for {
		n, err := rows.ReadRows(buf)
		for _, r := range buf[:n] {
			total++
			if r[0].IsNull() {
				seenNull = true
			} else if seenNull {
				t.Fatalf("row %d: non-null key %v after a null key with nulls last", total, r[0])
			}
		}
		if err == io.EOF {
			break
		}
		if err != nil {
			t.Fatal(err)
		}
	}
	if total != numA+105 {
		t.Fatalf("got %d rows", total)
	}
}

func TestZZF64NullsFirstRefine(t *testing.T) {
	p := func(v int64) *int64 { return &v }
	var a, b []f64NullRow
	for i := 0; i < 5; i++ {
		a = append(a, f64NullRow{Key: nil, Src: "a"})
	}
	for i := 0; i < 2000; i++ {
		a = append(a, f64NullRow{Key: p(int64(i)), Src: "a"})
	}
	for i := -100; i < 0; i++ {
		b = append(b, f64NullRow{Key: p(int64(i)), Src: "b"})
	}
	sorting := parquet.NullsFirst(parquet.Ascending("key"))
	m, err := parquet.MergeRowGroups(
		[]parquet.RowGroup{f64NullFile(t, sorting, a), f64NullFile(t, sorting, b)},
		parquet.SortingRowGroupConfig(parquet.SortingColumns(sorting)))
	if err != nil {
		t.Fatal(err)
	}
	t.Logf("merged type %T", m)
	rows := m.Rows()
	defer rows.Close()
	buf := make([]parquet.Row, 50)
	seenNonNull := false
	total := 0
	for {
		n, err := rows.ReadRows(buf)
		for _, r := range buf[:n] {
			total++
			if !r[0].IsNull() {
				seenNonNull = true
			} else if seenNonNull {
				t.Fatalf("row %d: null key after a non-null key with nulls first", total)
			}
		}
		if err == io.EOF {
			break
		}
		if err != nil {
			t.Fatal(err)
		}
	}
	if total != 2105 {
		t.Fatalf("got %d rows", total)
	}
}
