package parquet_test

// F25 (C13, C08): after ReadPage failed on a corrupted page k (its bytes
// consumed, the page cursor not advanced), SeekToRow into page k found the
// cursor "already positioned" and did not move the stream: the next ReadPage
// returned the rows of page k+1 as if they were those of page k, without error.
// Usage: copy into /repo as zz_f25_test.go; go test -run ZZF25 .

import (
	"bytes"
	"encoding/binary"
	"errors"
	"testing"

	"github.com/parquet-go/parquet-go"
)

func TestZZF25SeekIntoPageThatFailed(t *testing.T) {
	type Row struct {
		ID int64 `parquet:"id,plain"`
	}
	var buf bytes.Buffer
	w := parquet.NewGenericWriter[Row](&buf, parquet.PageBufferSize(256))
	rows := make([]Row, 400)
	for i := range rows {
		rows[i].ID = int64(0x1122334400000000) + int64(i)
	}
	if _, err := w.Write(rows); err != nil {
		t.Fatal(err)
	}
	if err := w.Close(); err != nil {
		t.Fatal(err)
	}
	clean, err := parquet.OpenFile(bytes.NewReader(buf.Bytes()), int64(buf.Len()))
	if err != nil {
		t.Fatal(err)
	}
	index, err := clean.RowGroups()[0].ColumnChunks()[0].OffsetIndex()
	if err != nil || index.NumPages() < 4 {
		t.Fatalf("need several pages: %v", err)
	}
	first := index.FirstRowIndex(1) // first row of page 1
	var needle [8]byte
	binary.LittleEndian.PutUint64(needle[:], uint64(rows[first+2].ID))
	data := append([]byte{}, buf.Bytes()...)
	at := bytes.Index(data, needle[:])
	if at < 0 {
		t.Fatal("value not found in file")
	}
	data[at+5] ^= 0x40 // a bit of a value stored in page 1

	f, err := parquet.OpenFile(bytes.NewReader(data), int64(len(data)))
	if err != nil {
		t.Fatal(err)
	}
	pages := f.RowGroups()[0].ColumnChunks()[0].Pages()
	defer pages.Close()
	p0, err := pages.ReadPage()
	if err != nil {
		t.Fatal(err)
	}
	parquet.Release(p0)
	if _, err := pages.ReadPage(); !errors.Is(err, parquet.ErrCorrupted) {
		t.Fatalf("reading the corrupted page: %v", err)
	}
	if err := pages.SeekToRow(first); err != nil {
		t.Fatal(err)
	}
	p, err := pages.ReadPage()
	if err != nil {
		return // the corruption is reported again
	}
	vals := make([]parquet.Value, 1)
	p.Values().ReadValues(vals)
	t.Fatalf("after SeekToRow(%d) into the corrupted page, ReadPage returned a page starting with id %d without error (row %d holds %d)",
		first, vals[0].Int64()-0x1122334400000000, first, first)
}
