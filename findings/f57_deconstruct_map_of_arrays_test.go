package parquet_test

// F57 (C01, C03): Schema.Deconstruct (Writer.Write, Buffer.Write, RowBuffer)
// reused one addressable key/value struct for every entry of a map, and
// fixed-size array values are taken by address: the Values appended to the row
// for all entries pointed into the same scratch field, which the next entry
// overwrote. A map[string][4]byte came back with every value equal to the last
// entry deconstructed; with map[[4]byte]string the keys collapsed into one.
// The typed path (GenericWriter.Write) stored the same map correctly.
// (First seen by a wave-5 red-team agent.)
// Usage: copy into /repo as zz_f57_test.go; go test -run ZZF57 .

import (
	"bytes"
	"reflect"
	"testing"

	"github.com/parquet-go/parquet-go"
)

func TestZZF57DeconstructMapOfArrays(t *testing.T) {
	type ByValue struct {
		M map[string][4]byte `parquet:"m"`
	}
	type ByKey struct {
		M map[[4]byte]string `parquet:"m"`
	}
	{
		row := ByValue{M: map[string][4]byte{"a": {1, 1, 1, 1}, "b": {2, 2, 2, 2}, "c": {3, 3, 3, 3}}}
		var buf bytes.Buffer
		w := parquet.NewWriter(&buf, parquet.SchemaOf(ByValue{}))
		if err := w.Write(&row); err != nil {
			t.Fatal(err)
		}
		if err := w.Close(); err != nil {
			t.Fatal(err)
		}
		got, err := parquet.Read[ByValue](bytes.NewReader(buf.Bytes()), int64(buf.Len()))
		if err != nil {
			t.Fatal(err)
		}
		if len(got) != 1 || !reflect.DeepEqual(got[0].M, row.M) {
			t.Errorf("map[string][4]byte: wrote %v, read %v", row.M, got)
		}
	}
	{
		row := ByKey{M: map[[4]byte]string{{1, 1, 1, 1}: "a", {2, 2, 2, 2}: "b", {3, 3, 3, 3}: "c"}}
		var buf bytes.Buffer
		w := parquet.NewWriter(&buf, parquet.SchemaOf(ByKey{}))
		if err := w.Write(&row); err != nil {
			t.Fatal(err)
		}
		if err := w.Close(); err != nil {
			t.Fatal(err)
		}
		got, err := parquet.Read[ByKey](bytes.NewReader(buf.Bytes()), int64(buf.Len()))
		if err != nil {
			t.Fatal(err)
		}
		if len(got) != 1 || !reflect.DeepEqual(got[0].M, row.M) {
			t.Errorf("map[[4]byte]string: wrote %v, read %v", row.M, got)
		}
	}
}
