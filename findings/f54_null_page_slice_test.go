package parquet_test

// F54 (C08, C02): nullPage.Slice(i, j) returned a page of count-(j-i) values
// instead of j-i, and without its Type: slicing a page of 10 nulls to rows
// [2, 5) gave a page of 7 rows whose Type() is nil. Seeking into a NullType
// column (SeekToRow slices the page it lands in) then returned the wrong number
// of rows. Found by the sibling rule C08.slicekeep written for F53 (the literal
// leaves a field out), the count by reading the same line.
// Usage: copy into /repo as zz_f54_test.go; go test -run ZZF54 .

import (
	"testing"

	"github.com/parquet-go/parquet-go"
)

func TestZZF54NullPageSlice(t *testing.T) {
	typ := parquet.Leaf(parquet.NullType).Type()
	page := typ.NewPage(0, 10, typ.NewValues(nil, nil))
	if page.NumRows() != 10 {
		t.Fatalf("page of %d rows", page.NumRows())
	}
	s := page.Slice(2, 5)
	if s.NumRows() != 3 || s.NumValues() != 3 || s.NumNulls() != 3 {
		t.Errorf("Slice(2, 5) of a page of 10 nulls has %d rows, %d values, %d nulls; want 3", s.NumRows(), s.NumValues(), s.NumNulls())
	}
	if s.Type() == nil {
		t.Errorf("Slice(2, 5) lost the type of the page")
	}
}
