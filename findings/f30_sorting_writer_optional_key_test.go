package parquet_test

// F30 (C10, C09): the key range of a sorted row group was taken from the page
// bounds of its sorting column, which ignore nulls. Sorted runs with disjoint
// value ranges were therefore concatenated instead of merged although each run
// ends (or starts) with its null rows: a SortingWriter with an optional sorting
// column wrote the nulls of every run in the middle of the file.
// Usage: copy into /repo as zz_f30_test.go; go test -run ZZF30 .

import (
	"bytes"
	"fmt"
	"testing"

	"github.com/parquet-go/parquet-go"
)

func TestZZF30SortingWriterOptionalKey(t *testing.T) {
	type Row struct {
		A *int64 `parquet:"a,optional"`
	}
	p := func(v int64) *int64 { return &v }
	for _, tc := range []struct {
		name string
		col  parquet.SortingColumn
	}{
		{"ascending nulls last", parquet.Ascending("a")},
		{"ascending nulls first", parquet.NullsFirst(parquet.Ascending("a"))},
		{"descending nulls last", parquet.Descending("a")},
	} {
		var buf bytes.Buffer
		w := parquet.NewSortingWriter[Row](&buf, 100, parquet.SortingWriterConfig(parquet.SortingColumns(tc.col)))
		// three runs of 100 rows with disjoint value ranges, each with some nulls
		for run := 0; run < 3; run++ {
			rows := make([]Row, 100)
			for i := range rows {
				if i%10 == 0 {
					rows[i].A = nil
				} else {
					rows[i].A = p(int64(run*1000 + (i*37)%100))
				}
			}
			if _, err := w.Write(rows); err != nil {
				t.Fatal(err)
			}
		}
		if err := w.Close(); err != nil {
			t.Fatal(err)
		}
		got, err := parquet.Read[Row](bytes.NewReader(buf.Bytes()), int64(buf.Len()))
		if err != nil {
			t.Fatal(err)
		}
		if len(got) != 300 {
			t.Fatalf("%s: %d rows", tc.name, len(got))
		}
		schema := parquet.SchemaOf(Row{})
		cmp := schema.Comparator(tc.col)
		rows := make([]parquet.Row, len(got))
		for i := range got {
			rows[i] = schema.Deconstruct(nil, &got[i])
		}
		for i := 1; i < len(rows); i++ {
			if cmp(rows[i-1], rows[i]) > 0 {
				s := func(r Row) string {
					if r.A == nil {
						return "null"
					}
					return fmt.Sprint(*r.A)
				}
				t.Errorf("%s: row %d (%s) is followed by row %d (%s)", tc.name, i-1, s(got[i-1]), i, s(got[i]))
				break
			}
		}
	}
}
