package parquet_test

// F29 (C10): a descending sorting column of a Buffer is wrapped in a comparison
// reverser that also inverted the placement of nulls: Descending put nulls
// first, NullsFirst(Descending) put them last, against the declared sorting
// column and against Schema.Comparator.
// Usage: copy into /repo as zz_f29_test.go; go test -run ZZF29 .

import (
	"fmt"
	"io"
	"sort"
	"testing"

	"github.com/parquet-go/parquet-go"
)

func TestZZF29DescendingNullPlacement(t *testing.T) {
	type Row struct {
		A *int64 `parquet:"a,optional"`
	}
	p := func(v int64) *int64 { return &v }
	in := []Row{{p(3)}, {nil}, {p(9)}, {nil}, {p(1)}}
	for _, tc := range []struct {
		name string
		col  parquet.SortingColumn
		want string
	}{
		{"descending nulls last", parquet.Descending("a"), "9 3 1 <null> <null> "},
		{"descending nulls first", parquet.NullsFirst(parquet.Descending("a")), "<null> <null> 9 3 1 "},
		{"ascending nulls last", parquet.Ascending("a"), "1 3 9 <null> <null> "},
		{"ascending nulls first", parquet.NullsFirst(parquet.Ascending("a")), "<null> <null> 1 3 9 "},
	} {
		buf := parquet.NewGenericBuffer[Row](parquet.SortingRowGroupConfig(parquet.SortingColumns(tc.col)))
		buf.Write(in)
		sort.Sort(buf)
		rows := buf.Rows()
		out := make([]parquet.Row, 8)
		n, err := rows.ReadRows(out)
		if err != nil && err != io.EOF {
			t.Fatal(err)
		}
		rows.Close()
		got := ""
		for _, r := range out[:n] {
			got += fmt.Sprintf("%v ", r[0])
		}
		if got != tc.want {
			t.Errorf("%s: got %s want %s", tc.name, got, tc.want)
		}
		// the comparator of the schema for the same sorting column
		cmp := buf.Schema().Comparator(tc.col)
		for i := 1; i < n; i++ {
			if cmp(out[i-1], out[i]) > 0 {
				t.Errorf("%s: rows %d and %d are out of order according to Schema.Comparator", tc.name, i-1, i)
			}
		}
	}
}
