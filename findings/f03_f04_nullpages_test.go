package parquet_test

// F3 (C06): binary search over an ASCENDING column index ignores null pages.
// F4 (C05/C02): FIXED_LEN_BYTE_ARRAY and UUID column indexers append nothing
// for a null page, so min_values/max_values are shorter than null_pages.
// Usage: copy into /repo as zz_f0304_test.go; go test -run 'ZZF0[34]' .

import (
	"bytes"
	"testing"

	"github.com/google/uuid"
	"github.com/parquet-go/parquet-go"
)

func TestZZF03SearchAscendingIndexWithNullPage(t *testing.T) {
	type Row struct {
		V *int32 `parquet:"v,optional"`
	}
	p := func(v int32) *int32 { return &v }
	var buf bytes.Buffer
	w := parquet.NewGenericWriter[Row](&buf, parquet.DataPageStatistics(true))
	flush := func(rows []Row) {
		if _, err := w.Write(rows); err != nil {
			t.Fatal(err)
		}
		for _, c := range w.ColumnWriters() {
			if err := c.Flush(); err != nil {
				t.Fatal(err)
			}
		}
	}
	flush([]Row{{p(-5)}, {p(-3)}, {p(-1)}})
	flush([]Row{{nil}, {nil}})
	flush([]Row{{p(3)}, {p(5)}, {p(9)}})
	if err := w.Close(); err != nil {
		t.Fatal(err)
	}
	f, err := parquet.OpenFile(bytes.NewReader(buf.Bytes()), int64(buf.Len()))
	if err != nil {
		t.Fatal(err)
	}
	chunk := f.RowGroups()[0].ColumnChunks()[0]
	index, err := chunk.ColumnIndex()
	if err != nil {
		t.Fatal(err)
	}
	if index.NumPages() != 3 || !index.NullPage(1) || !index.IsAscending() {
		t.Skipf("layout not as expected: pages=%d nullpage1=%v ascending=%v", index.NumPages(), index.NullPage(1), index.IsAscending())
	}
	for _, v := range []int32{3, 5, 9} {
		if got := parquet.Search(index, parquet.Int32Value(v), chunk.Type()); got != 2 {
			t.Errorf("Search(%d) = %d, want page 2 (NumPages=%d means: not found)", v, got, index.NumPages())
		}
	}
	for _, v := range []int32{-5, -1} {
		if got := parquet.Search(index, parquet.Int32Value(v), chunk.Type()); got != 0 {
			t.Errorf("Search(%d) = %d, want page 0", v, got)
		}
	}
	if got := parquet.Search(index, parquet.Int32Value(1), chunk.Type()); got != index.NumPages() {
		t.Errorf("Search(1) = %d, want NumPages", got)
	}
}

func TestZZF04FixedLenIndexKeepsNullPagesAligned(t *testing.T) {
	type Row struct {
		ID *uuid.UUID `parquet:"id,optional"`
		F  *[4]byte   `parquet:"f,optional"`
	}
	u := func(b byte) *uuid.UUID { x := uuid.UUID{b}; return &x }
	a := func(b byte) *[4]byte { return &[4]byte{b} }
	var buf bytes.Buffer
	w := parquet.NewGenericWriter[Row](&buf, parquet.DataPageStatistics(true))
	flush := func(rows []Row) {
		if _, err := w.Write(rows); err != nil {
			t.Fatal(err)
		}
		for _, c := range w.ColumnWriters() {
			if err := c.Flush(); err != nil {
				t.Fatal(err)
			}
		}
	}
	flush([]Row{{u(1), a(1)}, {u(2), a(2)}})
	flush([]Row{{nil, nil}, {nil, nil}})
	flush([]Row{{u(7), a(7)}, {u(9), a(9)}})
	if err := w.Close(); err != nil {
		t.Fatal(err)
	}
	f, err := parquet.OpenFile(bytes.NewReader(buf.Bytes()), int64(buf.Len()))
	if err != nil {
		t.Fatal(err)
	}
	for ci, chunk := range f.RowGroups()[0].ColumnChunks() {
		index, err := chunk.ColumnIndex()
		if err != nil {
			t.Fatal(err)
		}
		raw := f.ColumnIndexes()[ci]
		if len(raw.MinValues) != len(raw.NullPages) || len(raw.MaxValues) != len(raw.NullPages) {
			t.Errorf("column %d: %d null_pages but %d min_values and %d max_values", ci, len(raw.NullPages), len(raw.MinValues), len(raw.MaxValues))
			continue
		}
		for i := 0; i < index.NumPages(); i++ { // panics when the arrays are not aligned
			_ = index.MinValue(i)
			_ = index.MaxValue(i)
		}
		if got := index.MinValue(2).ByteArray()[0]; got != 7 {
			t.Errorf("column %d: min of page 2 starts with %d, want 7", ci, got)
		}
	}
}
