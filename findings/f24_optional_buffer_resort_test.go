package parquet_test

// F24 (C10): optionalColumnBuffer.Page renumbered the row indexes of the
// non-null rows at the wrong positions (rows[i] instead of rows[k]) after
// materialising a sort: with nulls ordered before values the positions of the
// nulls were overwritten and the non-null positions kept stale indexes, so
// sort, read, sort (or write more, sort) compared the wrong values and the
// next read panicked or returned rows in the wrong order.
// Usage: copy into /repo as zz_f24_test.go; go test -run ZZF24 .

import (
	"fmt"
	"io"
	"sort"
	"testing"

	"github.com/parquet-go/parquet-go"
)

func TestZZF24OptionalBufferSortReadSort(t *testing.T) {
	type Row struct {
		ID int64  `parquet:"id"`
		A  *int64 `parquet:"a,optional"`
	}
	p := func(v int64) *int64 { return &v }
	in := []Row{{1, nil}, {2, p(5)}, {3, nil}, {4, p(3)}, {5, p(9)}, {6, nil}, {7, p(1)}}
	buf := parquet.NewGenericBuffer[Row](parquet.SortingRowGroupConfig(parquet.SortingColumns(parquet.NullsFirst(parquet.Ascending("a")))))
	if _, err := buf.Write(in); err != nil {
		t.Fatal(err)
	}
	read := func() string {
		rows := buf.Rows()
		defer rows.Close()
		out := make([]parquet.Row, len(in)+8)
		n, err := rows.ReadRows(out)
		if err != nil && err != io.EOF {
			t.Fatal(err)
		}
		s := ""
		for _, r := range out[:n] {
			s += fmt.Sprintf("(%v,%v) ", r[0], r[1])
		}
		return s
	}
	sort.Sort(buf)
	first := read()
	// sorting an already sorted buffer again, then adding rows and sorting once more
	sort.Sort(buf)
	second := read()
	if first != second {
		t.Errorf("sort, read, sort, read:\n first  %s\n second %s", first, second)
	}
	if _, err := buf.Write([]Row{{8, p(4)}, {9, nil}, {10, p(0)}}); err != nil {
		t.Fatal(err)
	}
	sort.Sort(buf)
	third := read()
	fresh := parquet.NewGenericBuffer[Row](parquet.SortingRowGroupConfig(parquet.SortingColumns(parquet.NullsFirst(parquet.Ascending("a")))))
	fresh.Write(append(append([]Row{}, in...), Row{8, p(4)}, Row{9, nil}, Row{10, p(0)}))
	sort.Sort(fresh)
	buf = fresh
	want := read()
	// compare only the sort key column: ties between nulls may be ordered differently
	key := func(s string) string {
		out := ""
		for _, f := range splitFields(s) {
			out += f[1] + " "
		}
		return out
	}
	if key(third) != key(want) {
		t.Errorf("sort, read, write more, sort:\n got  %s\n want %s", third, want)
	}
}

func splitFields(s string) [][2]string {
	var out [][2]string
	for len(s) > 0 {
		var a, b string
		i := 0
		for s[i] != ')' {
			i++
		}
		item := s[1:i]
		s = s[i+2:]
		for j := 0; j < len(item); j++ {
			if item[j] == ',' {
				a, b = item[:j], item[j+1:]
			}
		}
		out = append(out, [2]string{a, b})
	}
	return out
}
