package parquet_test

// F70 (C10, C08): optionalColumnBuffer.ReadValuesAt spread the non-null values
// it read from its base column over the output starting from index
// numNulls-1 instead of (length-numNulls)-1 — with 3 values and 1 null it
// indexed -1 and panicked, with other counts it put values in the wrong rows —
// and, like its repeated sibling, it did not limit the range it works on to
// the length of the destination: reading 3 of 10 values panicked or returned
// values of other rows. Rows read through ReadValuesAt were not the rows
// written. (First seen by a wave-6 red-team agent.)
// Usage: copy into /repo as zz_f70_test.go; go test -run ZZF70 .

import (
	"fmt"
	"io"
	"testing"

	"github.com/parquet-go/parquet-go"
)

func TestZZF70OptionalBufferReadValuesAt(t *testing.T) {
	type Row struct {
		V *int64  `parquet:"v,optional"`
		L []int64 `parquet:"l"`
	}
	p := func(v int64) *int64 { return &v }
	rows := []Row{{p(1), []int64{1, 2}}, {nil, nil}, {p(3), []int64{3}}, {p(4), nil}, {nil, []int64{5, 6, 7}}, {p(6), []int64{8}}}
	buffer := parquet.NewGenericBuffer[Row]()
	if _, err := buffer.Write(rows); err != nil {
		t.Fatal(err)
	}
	for c, col := range buffer.ColumnBuffers() {
		// what a sequential read of the page returns
		var want []string
		vals := make([]parquet.Value, 64)
		n, _ := col.Page().Values().ReadValues(vals)
		for _, v := range vals[:n] {
			want = append(want, fmt.Sprintf("%v/%d/%d", v, v.RepetitionLevel(), v.DefinitionLevel()))
		}
		for _, size := range []int{64, 3, 1} {
			func() {
				defer func() {
					if r := recover(); r != nil {
						t.Errorf("column %d, destination of %d values: ReadValuesAt panicked: %v", c, size, r)
					}
				}()
				var got []string
				for off := int64(0); ; {
					dst := make([]parquet.Value, size)
					n, err := col.ReadValuesAt(dst, off)
					for _, v := range dst[:n] {
						got = append(got, fmt.Sprintf("%v/%d/%d", v, v.RepetitionLevel(), v.DefinitionLevel()))
					}
					off += int64(n)
					if err == io.EOF || n == 0 {
						break
					}
					if err != nil {
						t.Fatal(err)
					}
				}
				if fmt.Sprint(got) != fmt.Sprint(want) {
					t.Errorf("column %d, destination of %d values:\n ReadValuesAt %v\n page values  %v", c, size, got, want)
				}
			}()
		}
	}
}
