package parquet_test

// F52 (C02, C17): ColumnWriter.reset cleared BloomFilterOffset between row
// groups but not BloomFilterLength. A dictionary-encoded, bloom-filtered column
// whose later row group holds only nulls gets an empty filter, which
// writeRowGroup skips: the footer of that row group then carried the
// bloom_filter_length of the *previous* row group with no bloom_filter_offset.
// (Hidden by an exemption of C17.reset that believed "a reader ignores the
// length when the offset is 0"; reported by a wave-5 red-team agent.)
// Usage: copy into /repo as zz_f52_test.go; go test -run ZZF52 .

import (
	"bytes"
	"testing"

	"github.com/parquet-go/parquet-go"
)

func TestZZF52StaleBloomFilterLength(t *testing.T) {
	type row struct {
		Name *string `parquet:"name,optional,dict"`
	}
	out := new(bytes.Buffer)
	w := parquet.NewGenericWriter[row](out, parquet.BloomFilters(parquet.SplitBlockFilter(10, "name")))
	s := "hello"
	w.Write([]row{{&s}, {nil}, {&s}})
	w.Flush()
	w.Write([]row{{nil}, {nil}})
	w.Flush()
	if err := w.Close(); err != nil {
		t.Fatal(err)
	}
	f, err := parquet.OpenFile(bytes.NewReader(out.Bytes()), int64(out.Len()))
	if err != nil {
		t.Fatal(err)
	}
	for i, rg := range f.Metadata().RowGroups {
		md := rg.Columns[0].MetaData
		if md.BloomFilterOffset == 0 && md.BloomFilterLength != 0 {
			t.Errorf("row group %d: bloom_filter_length=%d without bloom_filter_offset", i, md.BloomFilterLength)
		}
	}
}
