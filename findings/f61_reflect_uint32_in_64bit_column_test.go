package parquet_test

// F61 (C03, C01): the reflection write path (a GenericWriter given a schema
// that differs from SchemaOf(T)) narrowed every uint32 to int32 before handing
// it to the column buffer. In a 64-bit column (uint(64) / int(64) in the
// schema) values from 2^31 up were sign-extended: 4000000000 was stored as
// 18446744073414584320. The typed path widens (see F51 for its small-integer
// sibling). (First seen by a wave-5 red-team agent.)
// Usage: copy into /repo as zz_f61_test.go; go test -run ZZF61 .

import (
	"bytes"
	"testing"

	"github.com/parquet-go/parquet-go"
)

func TestZZF61ReflectUint32In64BitColumn(t *testing.T) {
	type In struct {
		X uint32 `parquet:"x"`
	}
	type Out struct {
		X uint64 `parquet:"x"`
	}
	schema := parquet.NewSchema("row", parquet.Group{"x": parquet.Uint(64)})
	var buf bytes.Buffer
	w := parquet.NewGenericWriter[In](&buf, schema)
	if _, err := w.Write([]In{{1}, {4000000000}}); err != nil {
		t.Fatal(err)
	}
	if err := w.Close(); err != nil {
		t.Fatal(err)
	}
	rows, err := parquet.Read[Out](bytes.NewReader(buf.Bytes()), int64(buf.Len()))
	if err != nil {
		t.Fatal(err)
	}
	if len(rows) != 2 || rows[0].X != 1 || rows[1].X != 4000000000 {
		t.Errorf("wrote 1, 4000000000; read %v", rows)
	}
}
