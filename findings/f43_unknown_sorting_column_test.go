package parquet_test

// F43 (C05): a declared sorting column whose path is not a leaf of the schema
// left its pre-sized slot of the writer's sorting columns zero-valued: the file
// recorded {ColumnIdx:0 ascending}, a sort order the caller never declared (and
// that the data does not have).
// Usage: copy into /repo as zz_f43_test.go; go test -run ZZF43 .

import (
	"bytes"
	"testing"

	"github.com/parquet-go/parquet-go"
)

func TestZZF43UnknownSortingColumn(t *testing.T) {
	type Row struct {
		A int64 `parquet:"a"`
		B int64 `parquet:"b"`
	}
	var buf bytes.Buffer
	w := parquet.NewGenericWriter[Row](&buf, parquet.SortingWriterConfig(parquet.SortingColumns(parquet.Descending("b"), parquet.Ascending("zzz"), parquet.Ascending("a"))))
	w.Write([]Row{{3, 9}, {1, 8}, {2, 7}})
	if err := w.Close(); err != nil {
		t.Fatal(err)
	}
	f, err := parquet.OpenFile(bytes.NewReader(buf.Bytes()), int64(buf.Len()))
	if err != nil {
		t.Fatal(err)
	}
	for _, sc := range f.Metadata().RowGroups[0].SortingColumns {
		// only {b descending} was declared on an existing column before the unknown one
		if !(sc.ColumnIdx == 1 && sc.Descending) {
			t.Errorf("the file records sorting column %+v, which the caller did not declare", sc)
		}
	}
}
