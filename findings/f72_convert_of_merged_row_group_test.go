package parquet_test

// F72 (C09, C12): ConvertRowGroup rebuilt the row group it converts from the
// source's column chunks (masking the columns the target does not need) and
// read rows from that copy. For a source whose Rows() means more than its
// chunks — a merged row group, whose chunks are the concatenation of its inputs,
// or a deduplicating one — the conversion silently undid the merge: reading a
// merged row group through a typed reader whose field order differs from the
// merged schema, or merging it again with an input of another schema, returned
// input A followed by input B. (First seen by a wave-6 red-team agent; the
// wave-6 agent of C12 noted the same.)
// Usage: copy into /repo as zz_f72_test.go; go test -run ZZF72 .

import (
	"io"
	"sort"
	"testing"

	"github.com/parquet-go/parquet-go"
)

// Field order (key, aaa) differs from the alphabetical column order (aaa, key)
// that MergeRowGroups gives the schema of the merged row group when no schema
// is configured.
type f72Row struct {
	Key int64 `parquet:"key"`
	Aaa int64 `parquet:"aaa"`
}

// Reading a merged row group through a conversion (here the one that
// NewGenericRowGroupReader[T] applies because the column order of T differs
// from the merged schema) yields the concatenation of the inputs instead of
// the merged order.
func TestZZF72ConvertedMergedRowGroupIsNotMerged(t *testing.T) {
	sorting := parquet.SortingRowGroupConfig(parquet.SortingColumns(parquet.Ascending("key")))
	inputs := make([]parquet.RowGroup, 2)
	for k := range inputs {
		b := parquet.NewGenericBuffer[f72Row](sorting)
		rows := make([]f72Row, 50)
		for i := range rows {
			rows[i] = f72Row{Key: int64(2*i + k), Aaa: int64(k)}
		}
		b.Write(rows)
		sort.Sort(b)
		inputs[k] = b
	}
	merged, err := parquet.MergeRowGroups(inputs, sorting)
	if err != nil {
		t.Fatal(err)
	}
	t.Logf("merged %T schema:\n%v", merged, merged.Schema())

	// Direct read: sorted.
	{
		rows := merged.Rows()
		buf := make([]parquet.Row, 200)
		n, _ := rows.ReadRows(buf)
		rows.Close()
		keyColumn := 1 // columns are (aaa, key)
		for i := 1; i < n; i++ {
			if buf[i][keyColumn].Int64() < buf[i-1][keyColumn].Int64() {
				t.Fatalf("Rows(): row %d out of order", i)
			}
		}
	}

	// Read through the typed reader: NOT sorted on the clean tree.
	reader := parquet.NewGenericRowGroupReader[f72Row](merged)
	defer reader.Close()
	got := make([]f72Row, 200)
	n, err := reader.Read(got)
	if err != nil && err != io.EOF {
		t.Fatal(err)
	}
	got = got[:n]
	if len(got) != 100 {
		t.Fatalf("read %d rows, want 100", len(got))
	}
	for i := 1; i < len(got); i++ {
		if got[i].Key < got[i-1].Key {
			t.Fatalf("typed reader: row %d has key %d after key %d", i, got[i].Key, got[i-1].Key)
		}
	}
}

// Same root cause inside MergeRowGroups itself: a merged row group used as an
// input of a second merge whose schema differs (the other input has an extra
// column) is wrapped by ConvertRowGroup, whose Rows() reads the concatenated
// chunks of the first merge: the second merge is fed an unsorted input.
func TestZZF72MergeOfMergedRowGroupWithOtherSchema(t *testing.T) {
	type narrow struct {
		Key int64 `parquet:"key"`
	}
	type wide struct {
		Extra int64 `parquet:"extra"`
		Key   int64 `parquet:"key"`
	}
	sorting := parquet.SortingRowGroupConfig(parquet.SortingColumns(parquet.Ascending("key")))

	newNarrow := func(first int64) parquet.RowGroup {
		b := parquet.NewGenericBuffer[narrow](sorting)
		rows := make([]narrow, 50)
		for i := range rows {
			rows[i].Key = first + int64(2*i)
		}
		b.Write(rows)
		sort.Sort(b)
		return b
	}
	w := parquet.NewGenericBuffer[wide](sorting)
	w.Write([]wide{{Extra: 1, Key: 5}, {Extra: 1, Key: 55}})
	sort.Sort(w)

	first, err := parquet.MergeRowGroups([]parquet.RowGroup{newNarrow(0), newNarrow(1)}, sorting)
	if err != nil {
		t.Fatal(err)
	}
	second, err := parquet.MergeRowGroups([]parquet.RowGroup{first, w}, sorting)
	if err != nil {
		t.Fatal(err)
	}
	keyColumn := -1
	for i, path := range second.Schema().Columns() {
		if path[0] == "key" {
			keyColumn = i
		}
	}
	rows := second.Rows()
	defer rows.Close()
	var keys []int64
	buf := make([]parquet.Row, 10)
	for {
		n, err := rows.ReadRows(buf)
		for _, row := range buf[:n] {
			keys = append(keys, row[keyColumn].Int64())
		}
		if err != nil {
			if err != io.EOF {
				t.Fatal(err)
			}
			break
		}
	}
	if len(keys) != 102 {
		t.Fatalf("read %d rows, want 102", len(keys))
	}
	for i := 1; i < len(keys); i++ {
		if keys[i] < keys[i-1] {
			t.Fatalf("row %d has key %d after key %d", i, keys[i], keys[i-1])
		}
	}
}
