package parquet_test

// F56 (C16, C15, C17): Schema.Reconstruct takes its per-column scratch
// ([][]Value) from a process-wide pool and only sets the entries of the columns
// present in the row; reserve() re-sliced the pooled array without clearing it.
// A row that lacks some columns was then completed with whatever an earlier,
// unrelated Reconstruct — of another schema, on another goroutine — had left in
// the scratch: the reconstructed value carried another row's data, and the
// result depended on what the process did before. (First seen by two wave-5
// red-team agents.)
// Usage: copy into /repo as zz_f56_test.go; go test -run ZZF56 .

import (
	"testing"

	"github.com/parquet-go/parquet-go"
)

func TestZZF56ReconstructDoesNotLeakPooledColumns(t *testing.T) {
	type Row struct {
		A int64  `parquet:"a"`
		B int64  `parquet:"b"`
		C string `parquet:"c"`
	}
	schema := parquet.SchemaOf(Row{})
	// Fill the pooled scratch a few times (the pool may hold several buffers).
	for i := 0; i < 64; i++ {
		full := schema.Deconstruct(nil, Row{A: 1, B: 2, C: "secret of another row"})
		var sink Row
		if err := schema.Reconstruct(&sink, full); err != nil {
			t.Fatal(err)
		}
	}
	short := parquet.Row{
		parquet.ValueOf(int64(7)).Level(0, 0, 0),
		parquet.ValueOf(int64(8)).Level(0, 0, 1),
	}
	var got Row
	err := schema.Reconstruct(&got, short)
	if err == nil && got.C != "" {
		t.Errorf("a row without column c was reconstructed with c=%q: the value comes from an earlier, unrelated Reconstruct", got.C)
	}
}
