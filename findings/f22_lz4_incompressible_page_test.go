package parquet_test

// F22 (C01, C20): Column.decompress ignored the slice returned by the codec
// when the codec had to reallocate its destination and the decoded length was
// exactly the expected page size: the page kept the untouched pooled buffer.
// lz4.Decode reallocates whenever the destination is smaller than 3x the
// compressed input... so poorly compressible LZ4_RAW pages read back as garbage.
// Usage: copy into /repo as zz_f22_test.go; go test -run ZZF22 .

import (
	"bytes"
	"math/rand"
	"testing"

	"github.com/parquet-go/parquet-go"
	"github.com/parquet-go/parquet-go/compress/lz4"
)

func TestZZF22Lz4IncompressiblePage(t *testing.T) {
	type Row struct {
		Data []byte `parquet:"data,plain"`
	}
	prng := rand.New(rand.NewSource(1))
	rows := make([]Row, 200)
	for i := range rows {
		rows[i].Data = make([]byte, 100+prng.Intn(100))
		prng.Read(rows[i].Data)
	}
	var buf bytes.Buffer
	w := parquet.NewGenericWriter[Row](&buf, parquet.Compression(&lz4.Codec{}))
	if _, err := w.Write(rows); err != nil {
		t.Fatal(err)
	}
	if err := w.Close(); err != nil {
		t.Fatal(err)
	}
	got, err := parquet.Read[Row](bytes.NewReader(buf.Bytes()), int64(buf.Len()))
	if err != nil {
		t.Fatalf("reading back: %v", err)
	}
	if len(got) != len(rows) {
		t.Fatalf("read %d rows, wrote %d", len(got), len(rows))
	}
	for i := range rows {
		if !bytes.Equal(got[i].Data, rows[i].Data) {
			t.Fatalf("row %d differs", i)
		}
	}
}
