package parquet_test

// F51 (C03, C01): an 8- or 16-bit Go integer field tagged int(64)/uint(64) was
// written by the typed path (GenericWriter, GenericBuffer) as garbage:
// writeRowsFuncOfSmallInt always widened to a 4-byte-stride []int32 scratch and
// handed it to the INT64 column buffer, which gathered 8 bytes per element —
// two neighbouring values glued together, and 4 bytes past the end of the
// scratch for the last one. The reflection path (Buffer.Write) was right, so
// the same Go value was stored differently depending on how it was handed over.
// (First seen by a red-team sub-agent.)
// Usage: copy into /repo as zz_f51_test.go; go test -run ZZF51 .

import (
	"testing"

	"github.com/parquet-go/parquet-go"
)

func TestZZF51SmallIntIn64BitColumn(t *testing.T) {
	type Row struct {
		A int8   `parquet:"a,int(64)"`
		B int16  `parquet:"b,int(64)"`
		C uint8  `parquet:"c,uint(64)"`
		D uint16 `parquet:"d,uint(64)"`
	}
	rows := []Row{{-2, -300, 200, 60000}, {3, 4, 5, 6}, {5, 6, 7, 8}}
	buffer := parquet.NewGenericBuffer[Row]()
	if _, err := buffer.Write(rows); err != nil {
		t.Fatal(err)
	}
	back := make([]Row, len(rows))
	r := parquet.NewGenericRowGroupReader[Row](buffer)
	if n, _ := r.Read(back); n != len(rows) {
		t.Fatalf("read %d rows", n)
	}
	for i := range rows {
		if back[i] != rows[i] {
			t.Errorf("row %d: wrote %+v, read %+v", i, rows[i], back[i])
		}
	}
	want := [][]int64{{-2, 3, 5}, {-300, 4, 6}, {200, 5, 7}, {60000, 6, 8}}
	for c, chunk := range buffer.ColumnChunks() {
		pages := chunk.Pages()
		p, err := pages.ReadPage()
		if err != nil {
			t.Fatal(err)
		}
		values := make([]parquet.Value, 4)
		n, _ := p.Values().ReadValues(values)
		for i, v := range values[:n] {
			if v.Int64() != want[c][i] {
				t.Errorf("column %d value %d: stored %d, want %d", c, i, v.Int64(), want[c][i])
			}
		}
		pages.Close()
	}
}
