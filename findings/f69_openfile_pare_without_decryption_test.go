package parquet_test

// F69 (C18): OpenFile checks for a missing DecryptionConfig when the *leading*
// magic of the file is "PARE", but decrypts the footer according to the
// *trailing* magic. A file whose first four bytes were changed to "PAR1" (or
// that is opened with SkipMagicBytes) and whose footer is encrypted made
// OpenFile dereference the nil configuration and panic instead of returning an
// error. (First seen by a wave-6 red-team agent.)
// Usage: copy into /repo as zz_f69_test.go; go test -run ZZF69 .

import (
	"bytes"
	"testing"

	"github.com/parquet-go/parquet-go"
)

func TestZZF69OpenEncryptedFooterWithoutDecryptionConfig(t *testing.T) {
	type Row struct {
		Name string `parquet:"name"`
		N    int64  `parquet:"n"`
	}
	key := bytes.Repeat([]byte{0x42}, 16)
	var buf bytes.Buffer
	w := parquet.NewGenericWriter[Row](&buf, parquet.WithEncryption(&parquet.EncryptionConfig{
		FooterKey: key, EncryptedFooter: true,
	}))
	w.Write([]Row{{"a", 1}})
	if err := w.Close(); err != nil {
		t.Fatal(err)
	}
	open := func(name string, data []byte, options ...parquet.FileOption) {
		defer func() {
			if r := recover(); r != nil {
				t.Errorf("%s: OpenFile panicked: %v", name, r)
			}
		}()
		if _, err := parquet.OpenFile(bytes.NewReader(data), int64(len(data)), options...); err == nil {
			t.Errorf("%s: expected an error", name)
		}
	}
	tampered := bytes.Clone(buf.Bytes())
	copy(tampered[:4], "PAR1")
	open("leading magic overwritten", tampered)
	open("magic bytes skipped", buf.Bytes(), parquet.SkipMagicBytes(true))
}
