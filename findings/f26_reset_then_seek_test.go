package parquet_test

// F26 (C08): rowGroupRows.Reset rewound its column readers but kept its own
// row index: after reading k rows and Reset, SeekToRow(k) was taken for a
// no-op and the reader returned row 0 instead of row k.
// Usage: copy into /repo as zz_f26_test.go; go test -run ZZF26 .

import (
	"bytes"
	"testing"

	"github.com/parquet-go/parquet-go"
)

func TestZZF26ResetThenSeekToTheOldPosition(t *testing.T) {
	type Row struct {
		ID int64 `parquet:"id"`
	}
	var buf bytes.Buffer
	w := parquet.NewGenericWriter[Row](&buf)
	rows := make([]Row, 100)
	for i := range rows {
		rows[i].ID = int64(i)
	}
	if _, err := w.Write(rows); err != nil {
		t.Fatal(err)
	}
	if err := w.Close(); err != nil {
		t.Fatal(err)
	}
	r := parquet.NewGenericReader[Row](bytes.NewReader(buf.Bytes()))
	defer r.Close()
	out := make([]Row, 10)
	if n, err := r.Read(out); n != 10 || err != nil {
		t.Fatalf("read %d %v", n, err)
	}
	r.Reset()
	if err := r.SeekToRow(10); err != nil {
		t.Fatal(err)
	}
	n, _ := r.Read(out[:1])
	if n != 1 || out[0].ID != 10 {
		t.Fatalf("read 10 rows, Reset, SeekToRow(10), Read returned id %d (n=%d), want 10", out[0].ID, n)
	}
}
