package parquet_test

// F14 (C17/C05): RowGroup.SortingColumns of finished row groups aliases the
// writer's configured sorting columns; Reset clears it in place, so the second
// file written by a reused writer records zeroed sorting metadata.
// Usage: copy into /repo as zz_f14_test.go and `go test -run ZZF14 .`

import (
	"bytes"
	"testing"

	"github.com/parquet-go/parquet-go"
)

func TestZZF14SortingColumnsSurviveReset(t *testing.T) {
	type Row struct {
		A int64 `parquet:"a"`
		B int64 `parquet:"b"`
	}
	write := func(w *parquet.GenericWriter[Row]) {
		if _, err := w.Write([]Row{{1, 9}, {2, 8}, {3, 7}}); err != nil {
			t.Fatal(err)
		}
		if err := w.Close(); err != nil {
			t.Fatal(err)
		}
	}
	opts := []parquet.WriterOption{
		parquet.SortingWriterConfig(parquet.SortingColumns(parquet.Descending("b"), parquet.Ascending("a"))),
	}
	var first, second bytes.Buffer
	w := parquet.NewGenericWriter[Row](&first, opts...)
	write(w)
	w.Reset(&second)
	write(w)

	if !bytes.Equal(first.Bytes(), second.Bytes()) {
		f1, _ := parquet.OpenFile(bytes.NewReader(first.Bytes()), int64(first.Len()))
		f2, _ := parquet.OpenFile(bytes.NewReader(second.Bytes()), int64(second.Len()))
		t.Fatalf("file written after Reset differs from the first one:\n first sorting columns: %+v\nsecond sorting columns: %+v",
			f1.Metadata().RowGroups[0].SortingColumns, f2.Metadata().RowGroups[0].SortingColumns)
	}
}
