package parquet_test

// F35 (C08): forwardRowSeeker.ReadRows (the seeking wrapper ConvertRowReader
// puts around readers that cannot seek themselves) compacted the rows after
// the seek target with a loop that never advanced its source index: seeking to
// a row inside a batch panicked with an index out of range.
// Usage: copy into /repo as zz_f35_test.go; go test -run ZZF35 .

import (
	"bytes"
	"testing"
	"time"

	"github.com/parquet-go/parquet-go"
)

func TestZZF35ForwardRowSeeker(t *testing.T) {
	type R1 struct{ A, B int64 }
	type R2 struct{ B, A int64 }
	buf := new(bytes.Buffer)
	w := parquet.NewGenericWriter[R1](buf)
	for i := 0; i < 100; i++ {
		w.Write([]R1{{A: int64(i), B: int64(i * 10)}})
	}
	w.Close()
	f, _ := parquet.OpenFile(bytes.NewReader(buf.Bytes()), int64(buf.Len()))
	conv, err := parquet.Convert(parquet.SchemaOf(R2{}), f.Schema())
	if err != nil {
		t.Fatal(err)
	}
	done := make(chan struct{})
	go func() {
		defer close(done)
		defer func() {
			if r := recover(); r != nil {
				t.Errorf("panic: %v", r)
			}
		}()
		rows := parquet.ConvertRowReader(f.RowGroups()[0].Rows(), conv)
		if err := rows.(parquet.RowSeeker).SeekToRow(5); err != nil {
			t.Error(err)
			return
		}
		rbuf := make([]parquet.Row, 10)
		n, err := rows.ReadRows(rbuf)
		t.Logf("n=%d err=%v", n, err)
		for i := 0; i < n; i++ {
			if got, want := rbuf[i][1].Int64(), int64(5+i); got != want {
				t.Errorf("row %d after SeekToRow(5) has A=%d, want %d", i, got, want)
			}
		}
		if n == 0 {
			t.Errorf("no rows after SeekToRow(5): %v", err)
		}
	}()
	select {
	case <-done:
	case <-time.After(5 * time.Second):
		t.Fatal("timeout (infinite loop)")
	}
}
