package parquet_test

// F13 (C17): key/value metadata added with SetKeyValueMetadata for one file
// survives Reset and is written into the next file, so a reused writer and a
// fresh writer given the same rows and options produce different bytes.
// Usage: copy into /repo as zz_f13_test.go and `go test -run ZZF13 .`

import (
	"bytes"
	"testing"

	"github.com/parquet-go/parquet-go"
)

func TestZZF13KeyValueMetadataSurvivesReset(t *testing.T) {
	type Row struct {
		A int64 `parquet:"a"`
	}
	rows := []Row{{1}, {2}, {3}}

	var fresh bytes.Buffer
	fw := parquet.NewGenericWriter[Row](&fresh)
	fw.Write(rows)
	if err := fw.Close(); err != nil {
		t.Fatal(err)
	}

	var first, second bytes.Buffer
	w := parquet.NewGenericWriter[Row](&first)
	w.SetKeyValueMetadata("previous-file", "secret")
	w.Write(rows)
	if err := w.Close(); err != nil {
		t.Fatal(err)
	}
	w.Reset(&second)
	w.Write(rows)
	if err := w.Close(); err != nil {
		t.Fatal(err)
	}
	if !bytes.Equal(fresh.Bytes(), second.Bytes()) {
		f, _ := parquet.OpenFile(bytes.NewReader(second.Bytes()), int64(second.Len()))
		v, _ := f.Lookup("previous-file")
		t.Fatalf("file written after Reset differs from the one written by a fresh writer; it carries previous-file=%q", v)
	}
}
