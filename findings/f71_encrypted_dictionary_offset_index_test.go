package parquet_test

// F71 (C02, C18): after an encrypted page is written, patchEncryptedCompressedSize
// replaces the plaintext size recorded for it in the offset index by the size of
// the encrypted modules. It patched "the last page location" — but the
// dictionary page of a column is written after its data pages and has no page
// location of its own: the compressed_page_size of the *last data page* was
// overwritten with the size of the dictionary page. Readers that trust the
// offset index mis-read the last page of every encrypted dictionary column.
// (First seen by two red-team agents, waves 5 and 6.)
// Usage: copy into /repo as zz_f71_test.go; go test -run ZZF71 .

import (
	"bytes"
	"testing"

	"github.com/parquet-go/parquet-go"
)

type f71Keys struct{ footer []byte }

func (k *f71Keys) FooterKey([]byte) ([]byte, error)            { return k.footer, nil }
func (k *f71Keys) ColumnKey([]string, []byte) ([]byte, error) { return k.footer, nil }

type f71Row struct {
	Name string `parquet:"name,dict"`
}

// The offset index of an encrypted, dictionary-encoded column records the size
// of the dictionary page as the compressed size of the last data page.
func TestZZF71OffsetIndexLastPageSizeWithDictionary(t *testing.T) {
	key := bytes.Repeat([]byte{0x42}, 16)
	var buf bytes.Buffer
	w := parquet.NewGenericWriter[f71Row](&buf,
		parquet.WithEncryption(&parquet.EncryptionConfig{FooterKey: key, EncryptedFooter: true}),
		parquet.PageBufferSize(256),
	)
	rows := make([]f71Row, 1000)
	for i := range rows {
		rows[i].Name = []string{"a", "bb", "ccc", "dddd-dddd-dddd-dddd-dddd-dddd-dddd-dddd-dddd-dddd-dddd"}[i%4]
	}
	w.Write(rows)
	if err := w.Close(); err != nil {
		t.Fatal(err)
	}
	data := buf.Bytes()
	f, err := parquet.OpenFile(bytes.NewReader(data), int64(len(data)), parquet.WithDecryption(&f71Keys{key}))
	if err != nil {
		t.Fatal(err)
	}
	meta := f.Metadata().RowGroups[0].Columns[0].MetaData
	index, err := f.RowGroups()[0].ColumnChunks()[0].OffsetIndex()
	if err != nil {
		t.Fatal(err)
	}
	n := index.NumPages()
	for i := 0; i < n; i++ {
		end := meta.DictionaryPageOffset + meta.TotalCompressedSize
		if i+1 < n {
			end = index.Offset(i + 1)
		}
		if got, want := index.CompressedPageSize(i), end-index.Offset(i); got != want {
			t.Errorf("page %d of %d: offset index says %d bytes, the page occupies %d bytes (dictionary page: %d bytes)",
				i, n, got, want, meta.DataPageOffset-meta.DictionaryPageOffset)
		}
	}
}
