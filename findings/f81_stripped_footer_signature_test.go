package parquet_test

// F81 (C18): a file written in plaintext-footer mode carries a 28-byte AES-GCM
// signature after its footer. OpenFile accepted the same footer with the
// signature cut off as an ordinary unsigned footer, even when the footer still
// declares the encryption algorithm and the caller supplied keys: every field
// of the footer (schema, row counts, key/value metadata, offsets) could then be
// altered without the reader noticing. (Reported by agents of waves 5 and 8.)
// Usage: copy into /repo as zz_f81_test.go; go test -run ZZF81 .

// Tests for the observations of clean_tree_notes.md. They FAIL on the clean
// tree (each failure is one of the observations). Drop the file in the
// worktree root as zz_clean_tree_notes_test.go and run
//   go test -vet=off -count=1 -run TestCleanTreeC18w8 -v .

import (
	"bytes"
	"encoding/binary"
	"testing"

	"github.com/parquet-go/parquet-go"
)

type ctC18w8Row struct {
	Name  string `parquet:"name"`
	Value int64  `parquet:"value"`
}

type ctC18w8Keys struct {
	footer  []byte
	columns map[string][]byte // nil: every column key is the footer key
}

func (k ctC18w8Keys) FooterKey([]byte) ([]byte, error) { return k.footer, nil }
func (k ctC18w8Keys) ColumnKey(path []string, _ []byte) ([]byte, error) {
	if k.columns == nil {
		return k.footer, nil
	}
	if key, ok := k.columns[path[0]]; ok {
		return key, nil
	}
	return nil, parquet.ErrKeyNotFound
}

// 2. A signed plaintext footer whose signature was cut off is taken for an
// unsigned one, even though the reader was given keys and the footer says that
// the file is encrypted: the footer can then be modified at will.
func TestZZF81StrippedFooterSignature(t *testing.T) {
	key := bytes.Repeat([]byte{7}, 16)
	var buf bytes.Buffer
	w := parquet.NewGenericWriter[ctC18w8Row](&buf,
		parquet.WithEncryption(&parquet.EncryptionConfig{FooterKey: key, EncryptedFooter: false}),
		parquet.KeyValueMetadata("who", "original"))
	if _, err := w.Write([]ctC18w8Row{{"a", 1}, {"b", 2}}); err != nil {
		t.Fatal(err)
	}
	if err := w.Close(); err != nil {
		t.Fatal(err)
	}
	data := buf.Bytes()
	n := len(data)
	footerLen := int(binary.LittleEndian.Uint32(data[n-8:]))
	footer := bytes.Replace(bytes.Clone(data[n-8-footerLen:n-8-28]), []byte("original"), []byte("tampered"), 1)
	out := append([]byte{}, data[:n-8-footerLen]...)
	out = append(out, footer...)
	out = binary.LittleEndian.AppendUint32(out, uint32(len(footer)))
	out = append(out, "PAR1"...)

	f, err := parquet.OpenFile(bytes.NewReader(out), int64(len(out)), parquet.WithDecryption(ctC18w8Keys{footer: key}), parquet.SkipPageIndex(true))
	if err != nil {
		return // detected
	}
	who, _ := f.Lookup("who")
	r := parquet.NewGenericReader[ctC18w8Row](f)
	got := make([]ctC18w8Row, 3)
	cnt, rerr := r.Read(got)
	r.Close()
	t.Errorf("a plaintext footer with its signature removed and its content modified opens without error: who=%q NumRows=%d; reading returns n=%d err=%v", who, f.NumRows(), cnt, rerr)
}

