package parquet_test

// F41 (C14): the verbatim copy of a column chunk (WriteRowGroup of a row group
// of another file written with the same configuration) streams byte ranges of
// the source with ReadFrom and never compared the number of bytes copied with
// the length of the range: a source that ends early (short read with io.EOF)
// produced a truncated chunk, and WriteRowGroup and Close both reported success.
// Usage: copy into /repo as zz_f41_test.go; go test -run ZZF41 .

import (
	"bytes"
	"fmt"
	"io"
	"testing"

	"github.com/parquet-go/parquet-go"
)

type zzCut41 struct {
	r   io.ReaderAt
	cut int64
}

func (z *zzCut41) ReadAt(p []byte, off int64) (int, error) {
	if z.cut > 0 && off >= z.cut {
		return 0, io.EOF
	}
	if z.cut > 0 && off+int64(len(p)) > z.cut {
		n, _ := z.r.ReadAt(p[:z.cut-off], off)
		return n, io.EOF
	}
	return z.r.ReadAt(p, off)
}

func TestZZF41CopyFromASourceThatEndsEarly(t *testing.T) {
	type Row struct {
		A int64  `parquet:"a"`
		B string `parquet:"b"`
	}
	var src bytes.Buffer
	w := parquet.NewGenericWriter[Row](&src, parquet.PageBufferSize(512))
	rows := make([]Row, 2000)
	for i := range rows {
		rows[i] = Row{int64(i), fmt.Sprintf("value-%06d", i)}
	}
	w.Write(rows)
	w.Close()
	cut := &zzCut41{r: bytes.NewReader(src.Bytes())}
	f, err := parquet.OpenFile(cut, int64(src.Len()))
	if err != nil {
		t.Fatal(err)
	}
	md := f.Metadata().RowGroups[0].Columns[1].MetaData
	cut.cut = md.DataPageOffset + md.TotalCompressedSize/2 // the source loses the second half of column b

	var out bytes.Buffer
	cw := parquet.NewGenericWriter[Row](&out, parquet.PageBufferSize(512))
	_, werr := cw.WriteRowGroup(f.RowGroups()[0])
	cerr := cw.Close()
	if werr != nil || cerr != nil {
		return // reported
	}
	got, rerr := parquet.Read[Row](bytes.NewReader(out.Bytes()), int64(out.Len()))
	if rerr != nil || len(got) != len(rows) {
		t.Fatalf("WriteRowGroup and Close reported success, but the output holds %d readable rows of %d (read error: %v)", len(got), len(rows), rerr)
	}
}
