package parquet_test

// F58 (C10): repeatedColumnBuffer.Less walked the elements of the two rows with
// a loop whose base-value indexes never advanced: every iteration compared the
// first stored value of each row (only the definition levels varied). Rows
// equal on their first element were left in insertion order, against
// Schema.Comparator for the same sorting column — a GenericBuffer and a
// RowBuffer given the same rows sorted them differently.
// (First seen by a wave-5 red-team agent.)
// Usage: copy into /repo as zz_f58_test.go; go test -run ZZF58 .

import (
	"fmt"
	"sort"
	"testing"

	"github.com/parquet-go/parquet-go"
)

func TestZZF58RepeatedColumnSortComparesAllElements(t *testing.T) {
	type Row struct {
		L []int32 `parquet:"l"`
	}
	rows := []Row{{L: []int32{1, 3}}, {L: []int32{1, 2}}, {L: []int32{0, 9}}, {L: []int32{1, 2, 0}}, {L: []int32{1}}}
	buffer := parquet.NewGenericBuffer[Row](parquet.SortingRowGroupConfig(parquet.SortingColumns(parquet.Ascending("l"))))
	if _, err := buffer.Write(rows); err != nil {
		t.Fatal(err)
	}
	sort.Sort(buffer)
	got := make([]Row, len(rows))
	r := parquet.NewGenericRowGroupReader[Row](buffer)
	if n, _ := r.Read(got); n != len(rows) {
		t.Fatalf("read %d rows", n)
	}
	want := "[{[0 9]} {[1]} {[1 2]} {[1 2 0]} {[1 3]}]"
	if fmt.Sprint(got) != want {
		t.Errorf("sorted by l: %v, want %v", got, want)
	}
	// the order agrees with the schema's comparator
	schema := parquet.SchemaOf(Row{})
	cmp := schema.Comparator(parquet.Ascending("l"))
	for i := 1; i < len(got); i++ {
		a := schema.Deconstruct(nil, got[i-1])
		b := schema.Deconstruct(nil, got[i])
		if cmp(a, b) > 0 {
			t.Errorf("rows %v and %v are in the order the comparator rejects", got[i-1], got[i])
		}
	}
}
