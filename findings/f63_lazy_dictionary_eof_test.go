package parquet_test

// F63 (C14): when the dictionary page of a column is loaded lazily (after a seek
// past the first page) and the source answers the read at the dictionary offset
// with (0, io.EOF), the error came back from ReadPage as "decoding page …: EOF",
// wrapping io.EOF: CopyRows and everything else that tests errors.Is(err,
// io.EOF) took it for the regular end and reported success after 0 of the
// remaining rows. The end of the source in the middle of a dictionary page is
// never the end of the column (F40 handled the page headers of the main loop
// only). (First seen by a wave-5 red-team agent.)
// Usage: copy into /repo as zz_f63_test.go; go test -run ZZF63 .

import (
	"bytes"
	"fmt"
	"io"
	"testing"

	"github.com/parquet-go/parquet-go"
)

type f63Row struct {
	ID   int64  `parquet:"id"`
	Name string `parquet:"name,dict"`
}

type f63ReaderAt struct {
	r     io.ReaderAt
	at    int64
	armed bool
	hits  int
}

func (f *f63ReaderAt) ReadAt(p []byte, off int64) (int, error) {
	if f.armed && off == f.at {
		f.hits++
		return 0, io.EOF
	}
	return f.r.ReadAt(p, off)
}

func TestZZF63LazyDictionaryEOF(t *testing.T) {
	var buf bytes.Buffer
	w := parquet.NewGenericWriter[f63Row](&buf, parquet.PageBufferSize(256))
	rows := make([]f63Row, 2000)
	for i := range rows {
		rows[i] = f63Row{ID: int64(i), Name: fmt.Sprintf("n%02d", i%7)}
	}
	w.Write(rows)
	if err := w.Close(); err != nil {
		t.Fatal(err)
	}

	src := &f63ReaderAt{r: bytes.NewReader(buf.Bytes())}
	f, err := parquet.OpenFile(src, int64(buf.Len()))
	if err != nil {
		t.Fatal(err)
	}
	// The one faulty read: the source reports (0, io.EOF) for the read that
	// starts at the dictionary page of the "name" column.
	src.at = f.Metadata().RowGroups[0].Columns[1].MetaData.DictionaryPageOffset
	src.armed = true

	rr := f.RowGroups()[0].Rows()
	defer rr.Close()
	// Seeking past the first page makes the page reader skip the dictionary page
	// and load it lazily (FilePages.readDictionary) when the first data page is
	// decoded.
	if err := rr.SeekToRow(1000); err != nil {
		t.Fatal(err)
	}
	count := 0
	_, err = parquet.CopyRows(parquet.RowWriterFunc(func(rows []parquet.Row) (int, error) {
		count += len(rows)
		return len(rows), nil
	}), rr)
	if src.hits == 0 {
		t.Fatal("the faulty read was not issued")
	}
	if err == nil && count != 1000 {
		t.Errorf("CopyRows returned nil after %d of 1000 rows although the source failed a read", count)
	}
}

