package parquet_test

// F67 (C04, C01): the DELTA_LENGTH_BYTE_ARRAY encoder took the lengths of the
// values from the offsets it is given but appended the *whole* values buffer,
// whatever the first and last offsets are. A sliced byte array page keeps the
// values buffer of its parent and narrows the offsets: page.Slice(3, 6)
// encoded the right lengths over the bytes of values 0.. (and carried every
// other value as trailing garbage). PLAIN and DELTA_BYTE_ARRAY honour the first
// offset. (First seen by two wave-5 red-team agents.)
// Usage: copy into /repo as zz_f67_test.go; go test -run ZZF67 .

import (
	"fmt"
	"testing"

	"github.com/parquet-go/parquet-go"
)

func TestZZF67DeltaLengthByteArraySlicedPage(t *testing.T) {
	type Row struct {
		Name string `parquet:"name"`
	}
	rows := make([]Row, 10)
	for i := range rows {
		rows[i].Name = fmt.Sprintf("value-%d", i*i*i)
	}
	buffer := parquet.NewGenericBuffer[Row]()
	buffer.Write(rows)
	page := buffer.ColumnBuffers()[0].Page()
	typ := page.Type()
	enc := &parquet.DeltaLengthByteArray
	whole, err := typ.Encode(nil, page.Data(), enc)
	if err != nil {
		t.Fatal(err)
	}
	sliced := page.Slice(3, 6)
	encoded, err := typ.Encode(nil, sliced.Data(), enc)
	if err != nil {
		t.Fatal(err)
	}
	if len(encoded) >= len(whole) {
		t.Errorf("3 of the 10 values encode to %d bytes, all 10 to %d", len(encoded), len(whole))
	}
	decoded, err := typ.Decode(typ.NewValues(nil, nil), encoded, enc)
	if err != nil {
		t.Fatal(err)
	}
	values, offsets := decoded.ByteArray()
	for k := range offsets[1:] {
		got, want := string(values[offsets[k]:offsets[k+1]]), rows[3+k].Name
		if got != want {
			t.Errorf("value %d: want %q got %q", k, want, got)
		}
	}
}
