package parquet_test

// F37 (C05, C06): the merged column index of several row groups compared only
// adjacent chunks and skipped every pair in which one chunk had no page with
// bounds. With a chunk made of null pages between two chunks with values, the
// two were never compared: A=[1000..1099], B=nulls, C=[0..99] claimed an ascending
// boundary order and Search missed values of A.
// Usage: copy into /repo as zz_f37_test.go; go test -run ZZF37 .

import (
	"bytes"
	"testing"

	"github.com/parquet-go/parquet-go"
)

func TestZZF37NullChunkBetween(t *testing.T) {
	type Row struct {
		V *int64 `parquet:"v,optional"`
	}
	p := func(x int64) *int64 { return &x }
	var buf bytes.Buffer
	w := parquet.NewGenericWriter[Row](&buf, parquet.PageBufferSize(128))
	write := func(rows []Row) {
		if _, err := w.Write(rows); err != nil {
			t.Fatal(err)
		}
		if err := w.Flush(); err != nil {
			t.Fatal(err)
		}
	}
	a := []Row{}
	for i := int64(1000); i < 1100; i++ {
		a = append(a, Row{p(i)})
	}
	b := make([]Row, 300)
	c := []Row{}
	for i := int64(0); i < 100; i++ {
		c = append(c, Row{p(i)})
	}
	write(a)
	write(b)
	write(c)
	if err := w.Close(); err != nil {
		t.Fatal(err)
	}
	f, err := parquet.OpenFile(bytes.NewReader(buf.Bytes()), int64(buf.Len()))
	if err != nil {
		t.Fatal(err)
	}
	chunk := parquet.MultiRowGroup(f.RowGroups()...).ColumnChunks()[0]
	index, err := chunk.ColumnIndex()
	if err != nil {
		t.Fatal(err)
	}
	typ := chunk.Type()
	for i, rg := range f.RowGroups() {
		ci, _ := rg.ColumnChunks()[0].ColumnIndex()
		t.Logf("rg %d: pages=%d asc=%v desc=%v", i, ci.NumPages(), ci.IsAscending(), ci.IsDescending())
	}
	t.Logf("merged: pages=%d asc=%v", index.NumPages(), index.IsAscending())
	probe := parquet.ValueOf(int64(1050))
	want := -1
	for i := 0; i < index.NumPages(); i++ {
		if !index.NullPage(i) && typ.Compare(index.MinValue(i), probe) <= 0 && typ.Compare(probe, index.MaxValue(i)) <= 0 {
			want = i
			break
		}
	}
	if want < 0 {
		t.Fatal("1050 is in no page")
	}
	if got := parquet.Search(index, probe, typ); got != want {
		t.Errorf("ascending=%v: Search(1050) = %d of %d pages, the value is in page %d", index.IsAscending(), got, index.NumPages(), want)
	}
}
