package parquet_test

// F8 (C11/C02/C01): the column-oriented re-encode path hands ColumnWriter.WriteRowValues
// batches that end in the middle of a row; a page flush inside the call splits the row.
// Usage: copy into /repo as zz_f08_test.go; go test -run ZZF08 .

import (
	"bytes"
	"testing"

	"github.com/parquet-go/parquet-go"
)

type zzF08Row struct {
	ID   int64   `parquet:"id"`
	Vals []int64 `parquet:"vals"`
}

func TestZZF08ReencodeKeepsRowsWhole(t *testing.T) {
	rows := make([]zzF08Row, 400)
	for i := range rows {
		rows[i].ID = int64(i)
		for j := 0; j < 37; j++ {
			rows[i].Vals = append(rows[i].Vals, int64(i*100+j))
		}
	}
	var src bytes.Buffer
	sw := parquet.NewGenericWriter[zzF08Row](&src)
	if _, err := sw.Write(rows); err != nil {
		t.Fatal(err)
	}
	if err := sw.Close(); err != nil {
		t.Fatal(err)
	}
	sf, err := parquet.OpenFile(bytes.NewReader(src.Bytes()), int64(src.Len()))
	if err != nil {
		t.Fatal(err)
	}

	var dst bytes.Buffer
	dw := parquet.NewGenericWriter[zzF08Row](&dst,
		parquet.Compression(&parquet.Snappy), // differs from source => re-encode, not verbatim copy
		parquet.PageBufferSize(1024),
	)
	for _, rg := range sf.RowGroups() {
		if _, err := dw.WriteRowGroup(rg); err != nil {
			t.Fatal(err)
		}
	}
	if err := dw.Close(); err != nil {
		t.Fatal(err)
	}
	df, err := parquet.OpenFile(bytes.NewReader(dst.Bytes()), int64(dst.Len()))
	if err != nil {
		t.Fatal(err)
	}
	for _, rg := range df.RowGroups() {
		pages := rg.ColumnChunks()[1].Pages()
		for n := 0; ; n++ {
			p, err := pages.ReadPage()
			if err != nil {
				if err.Error() != "EOF" {
					t.Errorf("page %d: %v", n, err)
				}
				break
			}
			if rl := p.RepetitionLevels(); len(rl) > 0 && rl[0] != 0 {
				t.Errorf("page %d starts with repetition level %d (mid-row)", n, rl[0])
			}
			parquet.Release(p)
		}
		pages.Close()
	}
}
