package parquet_test

// F80 (C01, C03): a time.Duration field tagged `time(millisecond)` or
// `time(microsecond)` was stored in nanoseconds by both write paths, while
// timeType.AssignValue scales the stored count by the column's unit when it
// reads it back: 3h written to a TIME(MICROS) column read back as 3000h (and the
// file tells other readers 10800000000000 microseconds).
// (Reported by a wave-7 red-team agent.)
// Usage: copy into /repo as zz_f80_test.go; go test -run ZZF80 .

import (
	"bytes"
	"testing"
	"time"

	"github.com/parquet-go/parquet-go"
)

func TestZZF80DurationTimeOfDay(t *testing.T) {
	type R struct {
		MS time.Duration  `parquet:"ms,time(millisecond)"`
		US time.Duration  `parquet:"us,time(microsecond)"`
		NS time.Duration  `parquet:"ns,time(nanosecond)"`
		P  *time.Duration `parquet:"p,time(microsecond)"`
	}
	h := 3 * time.Hour
	rows := []R{
		{MS: 3 * time.Hour, US: 3 * time.Hour, NS: 3 * time.Hour, P: &h},
		{MS: time.Millisecond, US: time.Microsecond, NS: time.Nanosecond},
		{MS: 23*time.Hour + 59*time.Minute, US: 23*time.Hour + 59*time.Minute + 59*time.Second + 999999*time.Microsecond, NS: 1},
	}
	wantRaw := [][]int64{{10800000, 1, 86340000}, {10800000000, 1, 86399999999}, {10800000000000, 1, 1}}
	check := func(name string, data []byte) {
		f, err := parquet.OpenFile(bytes.NewReader(data), int64(len(data)))
		if err != nil {
			t.Fatal(err)
		}
		for c := 0; c < 3; c++ {
			raw := make([]parquet.Value, 8)
			pages := f.RowGroups()[0].ColumnChunks()[c].Pages()
			pg, err := pages.ReadPage()
			if err != nil {
				t.Fatal(err)
			}
			n, _ := pg.Values().ReadValues(raw)
			pages.Close()
			for i, w := range wantRaw[c] {
				var got int64
				if i < n {
					if raw[i].Kind() == parquet.Int32 {
						got = int64(raw[i].Int32())
					} else {
						got = raw[i].Int64()
					}
				}
				if i >= n || got != w {
					t.Errorf("%s: column %d stores %v, want %v", name, c, raw[:n], wantRaw[c])
					break
				}
			}
		}
		r := parquet.NewGenericReader[R](bytes.NewReader(data))
		defer r.Close()
		got := make([]R, len(rows)+1)
		m, _ := r.Read(got)
		if m != len(rows) {
			t.Fatalf("%s: read %d rows", name, m)
		}
		for i := range rows {
			if got[i].MS != rows[i].MS || got[i].US != rows[i].US || got[i].NS != rows[i].NS {
				t.Errorf("%s: row %d: got %v %v %v want %v %v %v", name, i, got[i].MS, got[i].US, got[i].NS, rows[i].MS, rows[i].US, rows[i].NS)
			}
			if (got[i].P == nil) != (rows[i].P == nil) || (got[i].P != nil && *got[i].P != *rows[i].P) {
				t.Errorf("%s: row %d P differs", name, i)
			}
		}
	}
	typed := new(bytes.Buffer)
	w := parquet.NewGenericWriter[R](typed)
	if _, err := w.Write(rows); err != nil {
		t.Fatal(err)
	}
	if err := w.Close(); err != nil {
		t.Fatal(err)
	}
	check("GenericWriter", typed.Bytes())

	refl := new(bytes.Buffer)
	w2 := parquet.NewWriter(refl, parquet.SchemaOf(R{}))
	for i := range rows {
		if err := w2.Write(&rows[i]); err != nil {
			t.Fatal(err)
		}
	}
	if err := w2.Close(); err != nil {
		t.Fatal(err)
	}
	check("Writer.Write", refl.Bytes())
}
