package parquet_test

// F46 (C12): MergeRowGroups without sorting columns returned a plain
// multi-row-group over the converted inputs, whose Rows() reads the flattened
// column chunks. A conversion that changes values (timestamp units) is applied
// by the converted row group's Rows() only, so the merged rows came back
// unconverted, although the merged schema announces the target type.
// Usage: copy into /repo as zz_f46_test.go; go test -run ZZF46 .

import (
	"bytes"
	"io"
	"testing"
	"time"

	"github.com/parquet-go/parquet-go"
)

func TestZZF46UnsortedMergeConvertsValues(t *testing.T) {
	type Millis struct {
		TS time.Time `parquet:"ts,timestamp(millisecond)"`
	}
	type Micros struct {
		TS time.Time `parquet:"ts,timestamp(microsecond)"`
	}
	ts := time.Unix(1700000000, 0).UTC()
	var b1, b2 bytes.Buffer
	w1 := parquet.NewGenericWriter[Millis](&b1)
	w1.Write([]Millis{{ts}})
	w1.Close()
	w2 := parquet.NewGenericWriter[Micros](&b2)
	w2.Write([]Micros{{ts.Add(time.Second)}})
	w2.Close()
	f1, _ := parquet.OpenFile(bytes.NewReader(b1.Bytes()), int64(b1.Len()))
	f2, _ := parquet.OpenFile(bytes.NewReader(b2.Bytes()), int64(b2.Len()))
	merged, err := parquet.MergeRowGroups([]parquet.RowGroup{f1.RowGroups()[0], f2.RowGroups()[0]}, parquet.SchemaOf(Micros{}))
	if err != nil {
		t.Fatal(err)
	}
	rows := merged.Rows()
	defer rows.Close()
	var buf []parquet.Row
	for {
		batch := make([]parquet.Row, 4)
		n, err := rows.ReadRows(batch)
		for _, r := range batch[:n] {
			buf = append(buf, r.Clone())
		}
		if err == io.EOF {
			break
		}
		if err != nil {
			t.Fatal(err)
		}
	}
	if len(buf) != 2 {
		t.Fatalf("%d rows", len(buf))
	}
	if got, want := buf[0][0].Int64(), ts.UnixMicro(); got != want {
		t.Errorf("row 0 of the merged row group holds %d under a microsecond schema, want %d (the millisecond value was not converted)", got, want)
	}
	if got, want := buf[1][0].Int64(), ts.Add(time.Second).UnixMicro(); got != want {
		t.Errorf("row 1 holds %d, want %d", got, want)
	}
}
