package parquet_test

// F12 (C18/C15): column writers created by BeginRowGroup never receive the
// encryption state, so their pages are written in clear inside an encrypted file.
// Usage: copy into /repo as zz_f12_test.go; go test -run ZZF12 .

import (
	"bytes"
	"fmt"
	"testing"

	"github.com/parquet-go/parquet-go"
)

func TestZZF12BeginRowGroupEncrypts(t *testing.T) {
	type Row struct {
		S string `parquet:"s"`
	}
	key := []byte("0123456789abcdef")
	var buf bytes.Buffer
	w := parquet.NewGenericWriter[Row](&buf, parquet.WithEncryption(&parquet.EncryptionConfig{FooterKey: key, EncryptedFooter: true}))
	rg := w.BeginRowGroup()
	rows := make([]parquet.Row, 5)
	for i := range rows {
		rows[i] = parquet.Row{parquet.ByteArrayValue([]byte(fmt.Sprintf("TOP-SECRET-%d", i))).Level(0, 0, 0)}
	}
	if _, err := rg.WriteRows(rows); err != nil {
		t.Fatal(err)
	}
	if _, err := rg.Commit(); err != nil {
		t.Fatal(err)
	}
	if err := w.Close(); err != nil {
		t.Fatal(err)
	}
	if bytes.Contains(buf.Bytes(), []byte("TOP-SECRET-3")) {
		t.Fatal("value of an encrypted column is visible in clear in the file bytes")
	}
}
