package parquet_test

// F82 (C08): the rows of a merged row group skip to a pending seek position by
// reading into the caller's slice; with an empty slice nothing is ever read and
// ReadRows never returns. (Reported by a wave-8 red-team agent.)
// Usage: copy into /repo as zz_f82_test.go; go test -run ZZF82 .

import (
	"bytes"
	"testing"
	"time"

	"github.com/parquet-go/parquet-go"
)

type f82Row struct {
	ID int64 `parquet:"id"`
}

func TestZZF82MergedEmptyReadAfterSeek(t *testing.T) {
	mk := func(start int64) parquet.RowGroup {
		buf := new(bytes.Buffer)
		w := parquet.NewGenericWriter[f82Row](buf, parquet.SortingWriterConfig(parquet.SortingColumns(parquet.Ascending("id"))))
		for i := int64(0); i < 10; i++ {
			w.Write([]f82Row{{ID: start + 2*i}})
		}
		w.Close()
		f, err := parquet.OpenFile(bytes.NewReader(buf.Bytes()), int64(buf.Len()))
		if err != nil {
			t.Fatal(err)
		}
		return f.RowGroups()[0]
	}
	m, err := parquet.MergeRowGroups([]parquet.RowGroup{mk(0), mk(1)}, parquet.SortingRowGroupConfig(parquet.SortingColumns(parquet.Ascending("id"))))
	if err != nil {
		t.Fatal(err)
	}
	rows := m.Rows()
	t.Logf("%T", rows)
	if err := rows.SeekToRow(5); err != nil {
		t.Fatal(err)
	}
	done := make(chan struct{})
	go func() {
		n, err := rows.ReadRows(nil)
		t.Logf("n=%d err=%v", n, err)
		close(done)
	}()
	select {
	case <-done:
	case <-time.After(2 * time.Second):
		t.Fatal("ReadRows(nil) after SeekToRow did not return")
	}
}
