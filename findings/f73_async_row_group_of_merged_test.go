package parquet_test

// F73 (C09): AsyncRowGroup rebuilds the row group it is given from its column
// chunks (each wrapped to read its pages ahead). The chunks of a merged row
// group are the concatenation of its inputs, so AsyncRowGroup(merged).Rows()
// returned input A followed by input B instead of the merged order — and the
// result still advertised the sorting columns. Found by the rule written for
// F72 (C09.rebuild).
// Usage: copy into /repo as zz_f73_test.go; go test -run ZZF73 .

import (
	"io"
	"sort"
	"testing"

	"github.com/parquet-go/parquet-go"
)

func TestZZF73AsyncRowGroupOfMergedRowGroup(t *testing.T) {
	type Row struct {
		Key int64 `parquet:"key"`
	}
	sorting := parquet.SortingRowGroupConfig(parquet.SortingColumns(parquet.Ascending("key")))
	makeBuffer := func(start int64) parquet.RowGroup {
		b := parquet.NewGenericBuffer[Row](sorting)
		for k := start; k < 100; k += 2 {
			b.Write([]Row{{k}})
		}
		sort.Sort(b)
		return b
	}
	merged, err := parquet.MergeRowGroups([]parquet.RowGroup{makeBuffer(0), makeBuffer(1)}, sorting)
	if err != nil {
		t.Fatal(err)
	}
	rows := parquet.AsyncRowGroup(merged).Rows()
	defer rows.Close()
	buf := make([]parquet.Row, 16)
	last, total := int64(-1), 0
	for {
		n, err := rows.ReadRows(buf)
		for _, r := range buf[:n] {
			k := r[0].Int64()
			if k < last {
				t.Fatalf("row %d has key %d after key %d", total, k, last)
			}
			last = k
			total++
		}
		if err == io.EOF {
			break
		}
		if err != nil {
			t.Fatal(err)
		}
	}
	if total != 100 {
		t.Fatalf("read %d rows", total)
	}
}
