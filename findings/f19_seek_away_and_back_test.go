package parquet_test

// F19 (C08): SeekToRow back into the cached last page after an intermediate
// SeekToRow moved the stream elsewhere served the cached page and then read
// the following pages from the wrong position.  Usage: copy into /repo as
// zz_f19_test.go; go test -run ZZF19 .

import (
	"bytes"
	"io"
	"testing"

	"github.com/parquet-go/parquet-go"
)

type zzSeek19Row struct {
	ID int64 `parquet:"id"`
}

func TestZZF19SeekAwayAndBack(t *testing.T) {
	var buf bytes.Buffer
	w := parquet.NewGenericWriter[zzSeek19Row](&buf, parquet.PageBufferSize(64), parquet.DataPageVersion(2))
	rows := make([]zzSeek19Row, 1000)
	for i := range rows {
		rows[i].ID = int64(i)
	}
	w.Write(rows)
	if err := w.Close(); err != nil {
		t.Fatal(err)
	}
	f, err := parquet.OpenFile(bytes.NewReader(buf.Bytes()), int64(buf.Len()))
	if err != nil {
		t.Fatal(err)
	}
	pages := f.RowGroups()[0].ColumnChunks()[0].Pages()
	defer pages.Close()
	pg, err := pages.ReadPage() // page 0 becomes the cached last page
	if err != nil {
		t.Fatal(err)
	}
	n0 := pg.NumRows()
	parquet.Release(pg)
	if err := pages.SeekToRow(500); err != nil { // far away: the stream is repositioned
		t.Fatal(err)
	}
	if err := pages.SeekToRow(n0 - 1); err != nil { // back into the cached page
		t.Fatal(err)
	}
	var got []int64
	for len(got) < 5 {
		pg, err := pages.ReadPage()
		if err == io.EOF {
			break
		}
		if err != nil {
			t.Fatal(err)
		}
		v := make([]parquet.Value, pg.NumValues())
		k, _ := pg.Values().ReadValues(v)
		for _, x := range v[:k] {
			got = append(got, x.Int64())
		}
		parquet.Release(pg)
	}
	for i, g := range got[:5] {
		if want := n0 - 1 + int64(i); g != want {
			t.Fatalf("value %d after SeekToRow(500), SeekToRow(%d) is %d, want %d (got %v)", i, n0-1, g, want, got[:5])
		}
	}
}
