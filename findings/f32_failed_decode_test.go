package parquet_test

// F32 (C20): inputs that fail to decode
//  (a) poisoned the pooled brotli reader: the next Decode of a valid stream on
//      the same codec failed;
//  (b) made lz4 Decode double its output buffer forever;
//  (c) made gzip Decode panic on a bad header instead of returning an error.
// Usage: copy into /repo as zz_f32_test.go; go test -run ZZF32 .

import (
	"bytes"
	"math/rand"
	"testing"
	"time"

	"github.com/parquet-go/parquet-go/compress/brotli"
	"github.com/parquet-go/parquet-go/compress/gzip"
	"github.com/parquet-go/parquet-go/compress/lz4"
)

func TestZZF32BrotliAfterFailedDecode(t *testing.T) {
	prng := rand.New(rand.NewSource(1))
	x1, x2 := make([]byte, 1000), make([]byte, 900)
	prng.Read(x1)
	prng.Read(x2)
	c := &brotli.Codec{Quality: brotli.DefaultQuality, LGWin: brotli.DefaultLGWin}
	e1, _ := c.Encode(nil, x1)
	e2, _ := c.Encode(nil, x2)
	if got, err := c.Decode(nil, e2); err != nil || !bytes.Equal(got, x2) {
		t.Fatalf("warm up: %v", err)
	}
	bad := append(append([]byte{}, e2...), e1[len(e1)/2:]...)
	if _, err := c.Decode(nil, bad); err == nil {
		t.Skip("the trailing garbage was accepted")
	}
	got, err := c.Decode(nil, e2)
	if err != nil || !bytes.Equal(got, x2) {
		t.Fatalf("valid input decoded after a failing one: err=%v equal=%v", err, bytes.Equal(got, x2))
	}
}

func TestZZF32Lz4InvalidInputReturns(t *testing.T) {
	done := make(chan error, 1)
	go func() {
		c := &lz4.Codec{}
		_, err := c.Decode(nil, []byte{0xF0, 0x01, 0x02})
		done <- err
	}()
	select {
	case err := <-done:
		if err == nil {
			t.Fatal("garbage decoded without error")
		}
	case <-time.After(3 * time.Second):
		t.Fatal("lz4 Decode of 3 garbage bytes did not return within 3s (output buffer doubled without bound)")
	}
}

func TestZZF32GzipBadHeaderIsAnError(t *testing.T) {
	defer func() {
		if r := recover(); r != nil {
			t.Fatalf("gzip Decode panicked on a bad header: %v", r)
		}
	}()
	c := &gzip.Codec{}
	if _, err := c.Decode(nil, []byte("not a gzip stream")); err == nil {
		t.Fatal("bad header decoded without error")
	}
	// and the codec still works afterwards
	x := []byte("hello hello hello hello")
	e, err := c.Encode(nil, x)
	if err != nil {
		t.Fatal(err)
	}
	if got, err := c.Decode(nil, e); err != nil || !bytes.Equal(got, x) {
		t.Fatalf("valid input after a failing one: %v", err)
	}
}
