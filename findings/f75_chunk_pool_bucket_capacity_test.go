// F75 (C15): ChunkBuffer took its chunks from, and returned them to, the bucket
// of the process-wide slice pools that can hold chunkSize bytes, but allocated
// them with exactly chunkSize bytes. Above 256 KiB the buckets are not powers
// of two (384K, 576K, 864K, …) while chunk sizes are: a 512 KiB chunk went to
// the 576 KiB bucket, and an unrelated reader or writer of the same process
// that asked the bucket for 560000 bytes received it and panicked in
// SliceBuffer.Resize. (Reported by a wave-7 red-team agent.)
// Usage: copy into /repo as zz_f75_test.go; go test -run ZZF75 .
package parquet_test

import (
	"bytes"
	"io"
	"testing"

	"github.com/parquet-go/parquet-go"
)

// CLEAN-TREE FINDING (not a mutant). Public API only.
//
// A writer configured with ColumnPageBuffers(NewChunkBufferPool(512KiB))
// returns its 512KiB chunks to the process-wide slice pool bucket of 576KiB
// (ChunkBuffer.Reset uses bucketIndexOfGet(chunkSize), which rounds UP). An
// unrelated reader in the same process that needs a page buffer between
// 512KiB and 576KiB then receives that short slice and panics in
// SliceBuffer.Resize.
func TestZZF75ChunkPoolKeepsSlicePoolBuckets(t *testing.T) {
	type Row struct {
		V int64 `parquet:"v"`
	}
	rows := make([]Row, 70000) // one 560000 byte PLAIN page
	for i := range rows {
		rows[i].V = int64(i)
	}

	write := func(opts ...parquet.WriterOption) []byte {
		out := new(bytes.Buffer)
		opts = append(opts, parquet.PageBufferSize(8*1024*1024))
		w := parquet.NewGenericWriter[Row](out, opts...)
		if _, err := w.Write(rows); err != nil {
			t.Fatal(err)
		}
		if err := w.Close(); err != nil {
			t.Fatal(err)
		}
		return out.Bytes()
	}

	read := func(data []byte) int {
		f, err := parquet.OpenFile(bytes.NewReader(data), int64(len(data)))
		if err != nil {
			t.Fatal(err)
		}
		r := parquet.NewGenericReader[Row](f)
		defer r.Close()
		buf := make([]Row, 1000)
		total := 0
		for {
			n, err := r.Read(buf)
			total += n
			if err == io.EOF {
				return total
			}
			if err != nil {
				t.Fatal(err)
			}
		}
	}

	// workload 1: default page buffers (reading this file on its own works, see the control test).
	file := write()

	// workload 2: an independent writer with 512KiB chunk page buffers.
	write(parquet.ColumnPageBuffers(parquet.NewChunkBufferPool(512 * 1024)))

	// workload 1: reading the file now panics.
	if n := read(file); n != len(rows) {
		t.Fatalf("read %d rows", n)
	}
}

// Control: without the 512KiB chunk pool workload the same read succeeds.
func TestZZF75ChunkPoolControl(t *testing.T) {
	type Row struct {
		V int64 `parquet:"v"`
	}
	rows := make([]Row, 70000)
	out := new(bytes.Buffer)
	w := parquet.NewGenericWriter[Row](out, parquet.PageBufferSize(8*1024*1024))
	w.Write(rows)
	w.Close()
	got, err := parquet.Read[Row](bytes.NewReader(out.Bytes()), int64(out.Len()))
	if err != nil || len(got) != len(rows) {
		t.Fatalf("n=%d err=%v", len(got), err)
	}
}
