package parquet_test

// F55 (C08, C12): forwardRowSeeker (what ConvertRowReader wraps its source in)
// advanced its row index only while it was discarding rows for a pending seek:
// rows handed out by plain reads were not counted. After reading 10 rows,
// SeekToRow(15) skipped 15 more rows and returned row 25; the same stale index
// made it accept backward seeks it cannot perform. (First seen by two wave-5
// red-team agents.)
// Usage: copy into /repo as zz_f55_test.go; go test -run ZZF55 .

import (
	"testing"

	"github.com/parquet-go/parquet-go"
)

func TestZZF55ConvertRowReaderSeekAfterRead(t *testing.T) {
	type Wide struct {
		ID int64  `parquet:"id"`
		S  string `parquet:"s"`
	}
	type Narrow struct {
		ID int64 `parquet:"id"`
	}
	buf := parquet.NewGenericBuffer[Wide]()
	rows := make([]Wide, 100)
	for i := range rows {
		rows[i] = Wide{ID: int64(i), S: "x"}
	}
	buf.Write(rows)
	conv, err := parquet.Convert(parquet.SchemaOf(Narrow{}), buf.Schema())
	if err != nil {
		t.Fatal(err)
	}
	src := buf.Rows()
	defer src.Close()
	r := parquet.ConvertRowReader(src, conv)
	out := make([]parquet.Row, 10)
	if n, err := r.ReadRows(out); n != 10 || err != nil {
		t.Fatalf("n=%d err=%v", n, err)
	}
	if err := r.(parquet.RowSeeker).SeekToRow(15); err != nil {
		t.Fatal(err)
	}
	n, err := r.ReadRows(out)
	if n == 0 {
		t.Fatalf("n=%d err=%v", n, err)
	}
	if got := out[0][0].Int64(); got != 15 {
		t.Errorf("after reading 10 rows then SeekToRow(15): first row has id %d, want 15", got)
	}
	// 10 + n rows were consumed: going back to row 3 is not possible and must be refused
	if err := r.(parquet.RowSeeker).SeekToRow(3); err == nil {
		n, _ := r.ReadRows(out)
		if n > 0 && out[0][0].Int64() != 3 {
			t.Errorf("SeekToRow(3) after %d rows were read was accepted and the next row has id %d", 10+n, out[0][0].Int64())
		}
	}
}
