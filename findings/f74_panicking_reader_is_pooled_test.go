package parquet_test

// F74 (C20): Decompressor.Decode returns a reader to its pool only when the
// decode succeeded ("a reader that failed … is not reused"), and recovers the
// panics its pool callbacks and readers report errors with. The two deferred
// functions ran in the wrong order: the release ran first, while the error
// result was still nil because the panic had not been recovered yet, so a
// reader that failed by panicking went back to the pool and broke the next
// Decode of a valid input. (First seen by a wave-7 red-team agent; latent with
// the shipped codecs.)
// Usage: copy into /repo as zz_f74_test.go; go test -run ZZF74 .

import (
	"errors"
	"io"
	"testing"

	"github.com/parquet-go/parquet-go/compress"
)

// A compress.Reader whose Read panics with an error value once (as a
// decompressor hitting an internal bounds error on corrupt input would: a
// runtime.Error is an error too), and which remembers that it is broken.
type f74Reader struct {
	r      io.Reader
	id     int
	broken bool
}

func (n *f74Reader) Read(p []byte) (int, error) {
	if n.broken {
		return 0, errors.New("reader reused after it panicked")
	}
	b := make([]byte, 1)
	if _, err := n.r.Read(b); err == nil && b[0] == '!' {
		n.broken = true
		panic(errors.New("internal error on corrupt input"))
	}
	return 0, io.EOF
}
func (n *f74Reader) Close() error            { return nil }
func (n *f74Reader) Reset(r io.Reader) error { n.r = r; return nil } // like brotli: Reset does not clear everything

func TestZZF74PanickingReaderIsNotPooled(t *testing.T) {
	var d compress.Decompressor
	created := 0
	newReader := func(r io.Reader) (compress.Reader, error) {
		created++
		return &f74Reader{r: r, id: created}, nil
	}
	if _, err := d.Decode(nil, []byte("!"), newReader); err == nil {
		t.Fatal("expected the panic to be reported as an error")
	}
	// The failed reader must not be reused (that is what the comment in
	// Decompressor.Decode promises), so this Decode must succeed.
	if _, err := d.Decode(nil, []byte("ok"), newReader); err != nil {
		t.Errorf("Decode after a failed Decode: %v (readers created: %d)", err, created)
	}
}
