package parquet_test

// F5, F6, F7 (C17/C18/C02): state of a writer that is lost or leaks across
// row groups / Reset.
// Usage: copy into /repo as zz_f567_test.go and `go test -run ZZF0 .`

import (
	"bytes"
	"fmt"
	"io"
	"testing"

	"github.com/parquet-go/parquet-go"
)

type zzKeys struct{ key []byte }

func (k zzKeys) FooterKey([]byte) ([]byte, error)           { return k.key, nil }
func (k zzKeys) ColumnKey([]string, []byte) ([]byte, error) { return k.key, nil }

type zzRow struct {
	ID   int64  `parquet:"id"`
	Name string `parquet:"name,zstd"`
}

func zzRows(n, base int) []zzRow {
	rows := make([]zzRow, n)
	for i := range rows {
		rows[i] = zzRow{ID: int64(base + i), Name: fmt.Sprintf("name-%d", base+i)}
	}
	return rows
}

func zzReadAll(t *testing.T, data []byte, opts ...parquet.FileOption) []zzRow {
	t.Helper()
	f, err := parquet.OpenFile(bytes.NewReader(data), int64(len(data)), opts...)
	if err != nil {
		t.Fatalf("open: %v", err)
	}
	r := parquet.NewGenericReader[zzRow](f)
	defer r.Close()
	out := make([]zzRow, 0, r.NumRows())
	buf := make([]zzRow, 64)
	for {
		n, err := r.Read(buf)
		out = append(out, buf[:n]...)
		if err == io.EOF {
			return out
		}
		if err != nil {
			t.Fatalf("read: %v", err)
		}
	}
}

// F7: path_in_schema of the second file written after Reset.
func TestZZF07ResetKeepsPathInSchema(t *testing.T) {
	var first, second bytes.Buffer
	w := parquet.NewGenericWriter[zzRow](&first)
	w.Write(zzRows(10, 0))
	if err := w.Close(); err != nil {
		t.Fatal(err)
	}
	w.Reset(&second)
	w.Write(zzRows(10, 0))
	if err := w.Close(); err != nil {
		t.Fatal(err)
	}
	if !bytes.Equal(first.Bytes(), second.Bytes()) {
		f2, err := parquet.OpenFile(bytes.NewReader(second.Bytes()), int64(second.Len()))
		if err != nil {
			t.Fatalf("second file differs and cannot be opened: %v", err)
		}
		t.Fatalf("second file differs; path_in_schema of its columns: %q %q",
			f2.Metadata().RowGroups[0].Columns[0].MetaData.PathInSchema,
			f2.Metadata().RowGroups[0].Columns[1].MetaData.PathInSchema)
	}
}

// F5: plaintext-footer encryption, two row groups.
func TestZZF05PlaintextFooterSecondRowGroup(t *testing.T) {
	key := []byte("0123456789abcdef")
	var buf bytes.Buffer
	w := parquet.NewGenericWriter[zzRow](&buf, parquet.WithEncryption(&parquet.EncryptionConfig{FooterKey: key, EncryptedFooter: false}))
	w.Write(zzRows(100, 0))
	if err := w.Flush(); err != nil {
		t.Fatal(err)
	}
	w.Write(zzRows(100, 100))
	if err := w.Close(); err != nil {
		t.Fatal(err)
	}
	got := zzReadAll(t, buf.Bytes(), parquet.WithDecryption(zzKeys{key}))
	if len(got) != 200 || got[150] != (zzRow{ID: 150, Name: "name-150"}) {
		t.Fatalf("read back %d rows, row 150 = %+v", len(got), got[min(150, len(got)-1)])
	}
	f, err := parquet.OpenFile(bytes.NewReader(buf.Bytes()), int64(buf.Len()), parquet.WithDecryption(zzKeys{key}))
	if err != nil {
		t.Fatal(err)
	}
	rgs := f.Metadata().RowGroups
	for j := range rgs[0].Columns {
		a, b := rgs[0].Columns[j].MetaData, rgs[1].Columns[j].MetaData
		if a.Type != b.Type || a.Codec != b.Codec || fmt.Sprint(a.PathInSchema) != fmt.Sprint(b.PathInSchema) || fmt.Sprint(a.Encoding) != fmt.Sprint(b.Encoding) {
			t.Errorf("column %d: row group 0 metadata type=%v codec=%v path=%q encodings=%v, row group 1 type=%v codec=%v path=%q encodings=%v",
				j, a.Type, a.Codec, a.PathInSchema, a.Encoding, b.Type, b.Codec, b.PathInSchema, b.Encoding)
		}
	}
}

// F6: encrypted writer reused through Reset after a file with two row groups.
func TestZZF06ResetRestartsRowGroupOrdinal(t *testing.T) {
	key := []byte("0123456789abcdef")
	var first, second bytes.Buffer
	w := parquet.NewGenericWriter[zzRow](&first,
		parquet.PageBufferSize(512),
		parquet.WithEncryption(&parquet.EncryptionConfig{FooterKey: key, EncryptedFooter: true, FileIdentifier: []byte("12345678")}))
	w.Write(zzRows(500, 0))
	w.Flush()
	w.Write(zzRows(500, 500))
	if err := w.Close(); err != nil {
		t.Fatal(err)
	}
	w.Reset(&second)
	w.Write(zzRows(500, 0)) // pages are flushed to the page buffer before the first row group is committed
	if err := w.Close(); err != nil {
		t.Fatal(err)
	}
	got := zzReadAll(t, second.Bytes(), parquet.WithDecryption(zzKeys{key}))
	if len(got) != 500 {
		t.Fatalf("read back %d rows", len(got))
	}
}
