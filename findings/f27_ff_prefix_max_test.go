package parquet_test

// F27 (C05, C06): the maximum of a page recorded in the column index is
// truncated to ColumnIndexSizeLimit bytes and incremented. When the kept
// prefix is all 0xFF the increment overflows and the prefix was kept as is,
// which is smaller than the real maximum: the recorded bound is not an upper
// bound, and Search skips the page that holds the value.
// Usage: copy into /repo as zz_f27_test.go; go test -run ZZF27 .

import (
	"bytes"
	"testing"

	"github.com/parquet-go/parquet-go"
)

func TestZZF27TruncatedMaxOfFFPrefix(t *testing.T) {
	type Row struct {
		B []byte `parquet:"b,plain"`
	}
	big := []byte{0xFF, 0xFF, 0xFF, 0xFF, 0x01, 0x02}
	rows := []Row{{[]byte{0x01}}, {[]byte{0x7F, 0x00}}, {big}}
	var buf bytes.Buffer
	w := parquet.NewGenericWriter[Row](&buf, parquet.ColumnIndexSizeLimit(func([]string) int { return 4 }))
	if _, err := w.Write(rows); err != nil {
		t.Fatal(err)
	}
	if err := w.Close(); err != nil {
		t.Fatal(err)
	}
	f, err := parquet.OpenFile(bytes.NewReader(buf.Bytes()), int64(buf.Len()))
	if err != nil {
		t.Fatal(err)
	}
	chunk := f.RowGroups()[0].ColumnChunks()[0]
	index, err := chunk.ColumnIndex()
	if err != nil {
		t.Fatal(err)
	}
	typ := chunk.Type()
	probe := parquet.ByteArrayValue(big)
	for p := 0; p < index.NumPages(); p++ {
		if typ.Compare(probe, index.MaxValue(p)) > 0 {
			t.Errorf("page %d holds %x but records the maximum %x", p, big, index.MaxValue(p).ByteArray())
		}
	}
	if got := parquet.Search(index, probe, typ); got >= index.NumPages() {
		t.Errorf("Search(%x) = %d: the value is in page 0 of %d", big, got, index.NumPages())
	}
}
