package parquet_test

// F23 (C01, C03): the typed write path of an optional time.Time field decided
// whether a pointer wrapper had already accounted for the optional level with
// "definition level > 0", which is also true for a non-pointer optional field
// below any optional or repeated group: those values were written one
// definition level short and read back as null (zero time).
// Usage: copy into /repo as zz_f23_test.go; go test -run ZZF23 .

import (
	"bytes"
	"testing"
	"time"

	"github.com/parquet-go/parquet-go"
)

func TestZZF23OptionalTimeInOptionalStruct(t *testing.T) {
	type Inner struct {
		At time.Time `parquet:"at,optional,timestamp(millisecond)"`
		N  int64     `parquet:"n,optional"`
	}
	type Row struct {
		ID    int64  `parquet:"id"`
		Inner *Inner `parquet:"inner,optional"`
	}
	ts := time.Date(2024, 5, 6, 7, 8, 9, 0, time.UTC)
	rows := []Row{{ID: 1, Inner: &Inner{At: ts, N: 7}}, {ID: 2}, {ID: 3, Inner: &Inner{At: ts.Add(time.Hour), N: 8}}}
	var buf bytes.Buffer
	w := parquet.NewGenericWriter[Row](&buf)
	if _, err := w.Write(rows); err != nil {
		t.Fatal(err)
	}
	if err := w.Close(); err != nil {
		t.Fatal(err)
	}
	got, err := parquet.Read[Row](bytes.NewReader(buf.Bytes()), int64(buf.Len()))
	if err != nil {
		t.Fatal(err)
	}
	for i := range rows {
		switch {
		case (rows[i].Inner == nil) != (got[i].Inner == nil):
			t.Errorf("row %d: inner nil mismatch", i)
		case rows[i].Inner != nil && (!rows[i].Inner.At.Equal(got[i].Inner.At) || rows[i].Inner.N != got[i].Inner.N):
			t.Errorf("row %d: wrote %v/%d, read %v/%d", i, rows[i].Inner.At, rows[i].Inner.N, got[i].Inner.At, got[i].Inner.N)
		}
	}
	// the reflection based writer agrees with the typed one
	var buf2 bytes.Buffer
	w2 := parquet.NewWriter(&buf2, parquet.SchemaOf(Row{}))
	for i := range rows {
		if err := w2.Write(&rows[i]); err != nil {
			t.Fatal(err)
		}
	}
	if err := w2.Close(); err != nil {
		t.Fatal(err)
	}
	got2, err := parquet.Read[Row](bytes.NewReader(buf2.Bytes()), int64(buf2.Len()))
	if err != nil {
		t.Fatal(err)
	}
	for i := range rows {
		if rows[i].Inner != nil && !rows[i].Inner.At.Equal(got2[i].Inner.At) {
			t.Errorf("reflection writer row %d: wrote %v, read %v", i, rows[i].Inner.At, got2[i].Inner.At)
		}
	}
}

func TestZZF23OtherTimeShapes(t *testing.T) {
	type Elem struct {
		At time.Time `parquet:"at,optional,timestamp(millisecond)"`
	}
	type Row struct {
		P    *time.Time `parquet:"p,optional,timestamp(millisecond)"`
		O    time.Time  `parquet:"o,optional,timestamp(millisecond)"`
		R    time.Time  `parquet:"r,timestamp(millisecond)"`
		List []Elem     `parquet:"list,list"`
		Ptrs []*Elem    `parquet:"ptrs,list"`
	}
	ts := time.Date(2024, 5, 6, 7, 8, 9, 0, time.UTC)
	rows := []Row{
		{P: &ts, O: ts, R: ts, List: []Elem{{ts}, {}, {ts.Add(time.Minute)}}, Ptrs: []*Elem{{ts}, {}}},
		{R: ts},
		{O: ts.Add(time.Hour), R: ts, List: []Elem{{}}},
	}
	var buf bytes.Buffer
	w := parquet.NewGenericWriter[Row](&buf)
	if _, err := w.Write(rows); err != nil {
		t.Fatal(err)
	}
	if err := w.Close(); err != nil {
		t.Fatal(err)
	}
	got, err := parquet.Read[Row](bytes.NewReader(buf.Bytes()), int64(buf.Len()))
	if err != nil {
		t.Fatal(err)
	}
	eq := func(a, b time.Time) bool { return a.Equal(b) }
	for i := range rows {
		a, b := rows[i], got[i]
		if (a.P == nil) != (b.P == nil) || (a.P != nil && !eq(*a.P, *b.P)) || !eq(a.O, b.O) || !eq(a.R, b.R) || len(a.List) != len(b.List) || len(a.Ptrs) != len(b.Ptrs) {
			t.Errorf("row %d: wrote %+v read %+v", i, a, b)
			continue
		}
		for j := range a.List {
			if !eq(a.List[j].At, b.List[j].At) {
				t.Errorf("row %d list %d: wrote %v read %v", i, j, a.List[j].At, b.List[j].At)
			}
		}
		for j := range a.Ptrs {
			if (a.Ptrs[j] == nil) != (b.Ptrs[j] == nil) || (a.Ptrs[j] != nil && !eq(a.Ptrs[j].At, b.Ptrs[j].At)) {
				t.Errorf("row %d ptrs %d differ", i, j)
			}
		}
	}
}
