package parquet_test

// F59 (C10): byteArrayColumnBuffer.page() rewrote the values in row order only
// when the offsets were no longer ascending, and the test accepted non-strictly
// ascending offsets. An empty value has the same offset as the value stored
// right after it: swapping exactly those two rows leaves the offsets as they
// were, the rewrite was skipped, and the page (which reads value i between
// offsets i and i+1) still showed "", X where the sort had put X, "". The
// value moved to the other row: sorted rows were no longer the rows written.
// (First seen by a wave-5 red-team agent.)
// Usage: copy into /repo as zz_f59_test.go; go test -run ZZF59 .

import (
	"fmt"
	"sort"
	"testing"

	"github.com/parquet-go/parquet-go"
)

func TestZZF59SortKeepsEmptyStringsWithTheirRows(t *testing.T) {
	type Row struct {
		Key int64  `parquet:"key"`
		S   string `parquet:"s"`
	}
	buffer := parquet.NewGenericBuffer[Row](parquet.SortingRowGroupConfig(parquet.SortingColumns(parquet.Ascending("key"))))
	if _, err := buffer.Write([]Row{{2, ""}, {1, "a"}}); err != nil {
		t.Fatal(err)
	}
	sort.Sort(buffer)
	got := make([]Row, 2)
	r := parquet.NewGenericRowGroupReader[Row](buffer)
	if n, _ := r.Read(got); n != 2 {
		t.Fatalf("read %d rows", n)
	}
	if want := "[{1 a} {2 }]"; fmt.Sprint(got) != want {
		t.Errorf("sorted by key: %v, want %v", got, want)
	}

	type S struct {
		S string `parquet:"s"`
	}
	b2 := parquet.NewGenericBuffer[S](parquet.SortingRowGroupConfig(parquet.SortingColumns(parquet.Descending("s"))))
	b2.Write([]S{{"c"}, {""}, {"a"}})
	sort.Sort(b2)
	got2 := make([]S, 3)
	r2 := parquet.NewGenericRowGroupReader[S](b2)
	r2.Read(got2)
	if want := "[{c} {a} {}]"; fmt.Sprint(got2) != want {
		t.Errorf("sorted by s descending: %v, want %v", got2, want)
	}
}
