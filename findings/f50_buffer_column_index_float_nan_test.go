package parquet_test

// F50 (C05, C06, C17): the column index of an in-memory FLOAT/DOUBLE page
// (floatColumnIndex / doubleColumnIndex, what Buffer column chunks hand out)
// took its bounds from the raw min/max kernels, which do not skip NaN, while
// the Bounds method of the very same page does: with a NaN among the values the
// index reported bounds that depended on the position of the NaN and on the
// build, values fell outside them and Find skipped the page.
// Usage: copy into /repo as zz_f50_test.go;
//   go test -run ZZF50 .   and   go test -tags purego -run ZZF50 .

import (
	"math"
	"testing"

	"github.com/parquet-go/parquet-go"
)

func TestZZF50BufferColumnIndexIgnoresNaN(t *testing.T) {
	type Row struct {
		F float32 `parquet:"f"`
		D float64 `parquet:"d"`
	}
	nan32, nan64 := float32(math.NaN()), math.NaN()
	for _, rows := range [][]Row{
		{{5, 5}, {nan32, nan64}, {7, 7}, {6, 6}},
		{{nan32, nan64}, {5, 5}, {7, 7}, {3, 3}},
		{{5, 5}, {7, 7}, {3, 3}, {nan32, nan64}},
	} {
		buffer := parquet.NewGenericBuffer[Row]()
		if _, err := buffer.Write(rows); err != nil {
			t.Fatal(err)
		}
		for i, chunk := range buffer.ColumnChunks() {
			index, err := chunk.ColumnIndex()
			if err != nil {
				t.Fatal(err)
			}
			lo, hi := math.Inf(1), math.Inf(-1)
			for _, r := range rows {
				v := float64(r.F)
				if i == 1 {
					v = r.D
				}
				if !math.IsNaN(v) {
					lo, hi = math.Min(lo, v), math.Max(hi, v)
				}
			}
			min, max := index.MinValue(0), index.MaxValue(0)
			gotMin, gotMax := min.Double(), max.Double()
			if i == 0 {
				gotMin, gotMax = float64(min.Float()), float64(max.Float())
			}
			if gotMin != lo || gotMax != hi {
				t.Errorf("rows %v column %d: index bounds [%v, %v], want [%v, %v]", rows, i, gotMin, gotMax, lo, hi)
			}
			probe := parquet.ValueOf(float32(5))
			if i == 1 {
				probe = parquet.ValueOf(float64(5))
			}
			if parquet.Find(index, probe, chunk.Type().Compare) >= index.NumPages() {
				t.Errorf("rows %v column %d: Find does not locate the page holding 5", rows, i)
			}
		}
	}
}
