package parquet_test

// F15 (C07): with a dictionary-encoded column whose dictionary outgrows
// DictionaryMaxBytes, the pages written after the fallback to PLAIN never
// reach the bloom filter (it is built from the dictionary alone).
// Usage: copy into /repo as zz_f15_test.go; go test -run ZZF15 .

import (
	"bytes"
	"fmt"
	"testing"

	"github.com/parquet-go/parquet-go"
)

func TestZZF15BloomFilterAfterDictionaryFallback(t *testing.T) {
	type Row struct {
		S string `parquet:"s,dict"`
	}
	var buf bytes.Buffer
	w := parquet.NewGenericWriter[Row](&buf,
		parquet.DictionaryMaxBytes(512),
		parquet.PageBufferSize(1024),
		parquet.BloomFilters(parquet.SplitBlockFilter(10, "s")))
	rows := make([]Row, 2000)
	for i := range rows {
		rows[i].S = fmt.Sprintf("value-%06d", i)
	}
	w.Write(rows)
	if err := w.Close(); err != nil {
		t.Fatal(err)
	}
	f, err := parquet.OpenFile(bytes.NewReader(buf.Bytes()), int64(buf.Len()))
	if err != nil {
		t.Fatal(err)
	}
	absent := 0
	for _, rg := range f.RowGroups() {
		bf := rg.ColumnChunks()[0].BloomFilter()
		if bf == nil {
			t.Skip("no bloom filter written")
		}
	}
	for _, r := range rows {
		found := false
		for _, rg := range f.RowGroups() {
			ok, err := rg.ColumnChunks()[0].BloomFilter().Check(parquet.ValueOf(r.S))
			if err != nil {
				t.Fatal(err)
			}
			found = found || ok
		}
		if !found {
			absent++
		}
	}
	if absent > 0 {
		t.Fatalf("bloom filter reports %d of %d written values absent", absent, len(rows))
	}
}

func TestZZF15Variants(t *testing.T) {
	type Row struct {
		S string   `parquet:"s,dict"`
		O *string  `parquet:"o,dict,optional"`
		L []string `parquet:"l,dict,list"`
	}
	key := make([]byte, 16)
	for name, opts := range map[string][]parquet.WriterOption{
		"v1":         {parquet.DataPageVersion(1)},
		"v2":         {parquet.DataPageVersion(2)},
		"compressed": {parquet.Compression(&parquet.Zstd)},
		"encrypted":  {parquet.WithEncryption(&parquet.EncryptionConfig{FooterKey: key, EncryptedFooter: true})},
		"rowgroups":  {parquet.MaxRowsPerRowGroup(700)},
	} {
		var buf bytes.Buffer
		opts = append(opts, parquet.DictionaryMaxBytes(512), parquet.PageBufferSize(1024),
			parquet.BloomFilters(parquet.SplitBlockFilter(10, "s"), parquet.SplitBlockFilter(10, "o"), parquet.SplitBlockFilter(10, "l", "list", "element")))
		w := parquet.NewGenericWriter[Row](&buf, opts...)
		rows := make([]Row, 2000)
		for i := range rows {
			rows[i].S = fmt.Sprintf("value-%06d", i)
			if i%3 != 0 {
				s := fmt.Sprintf("opt-%06d", i)
				rows[i].O = &s
			}
			rows[i].L = []string{fmt.Sprintf("a-%06d", i), fmt.Sprintf("b-%06d", i)}
		}
		if _, err := w.Write(rows); err != nil {
			t.Fatal(name, err)
		}
		if err := w.Close(); err != nil {
			t.Fatal(name, err)
		}
		var fopts []parquet.FileOption
		if name == "encrypted" {
			fopts = append(fopts, parquet.WithDecryption(zzKeys15{key}))
		}
		f, err := parquet.OpenFile(bytes.NewReader(buf.Bytes()), int64(buf.Len()), fopts...)
		if err != nil {
			t.Fatal(name, err)
		}
		check := func(col int, v string) bool {
			for _, rg := range f.RowGroups() {
				bf := rg.ColumnChunks()[col].BloomFilter()
				if bf == nil {
					t.Fatalf("%s: no filter on column %d", name, col)
				}
				ok, err := bf.Check(parquet.ValueOf(v))
				if err != nil {
					t.Fatal(name, err)
				}
				if ok {
					return true
				}
			}
			return false
		}
		// leaf column order: l.list.element, o, s
		absent := 0
		for _, r := range rows {
			if !check(0, r.S) {
				absent++
			}
			if r.O != nil && !check(1, *r.O) {
				absent++
			}
			for _, e := range r.L {
				if !check(2, e) {
					absent++
				}
			}
		}
		if absent > 0 {
			t.Errorf("%s: %d written values reported absent", name, absent)
		}
	}
}

type zzKeys15 struct{ k []byte }

func (z zzKeys15) FooterKey([]byte) ([]byte, error)            { return z.k, nil }
func (z zzKeys15) ColumnKey([]string, []byte) ([]byte, error) { return z.k, nil }
