package parquet_test

// F15 (C07): with a dictionary-encoded column whose dictionary outgrows
// DictionaryMaxBytes, the pages written after the fallback to PLAIN never
// reach the bloom filter (it is built from the dictionary alone).
// Usage: copy into /repo as zz_f15_test.go; go test -run ZZF15 .

import (
	"bytes"
	"fmt"
	"testing"

	"github.com/parquet-go/parquet-go"
)

func TestZZF15BloomFilterAfterDictionaryFallback(t *testing.T) {
	type Row struct {
		S string `parquet:"s,dict"`
	}
	var buf bytes.Buffer
	w := parquet.NewGenericWriter[Row](&buf,
		parquet.DictionaryMaxBytes(512),
		parquet.PageBufferSize(1024),
		parquet.BloomFilters(parquet.SplitBlockFilter(10, "s")))
	rows := make([]Row, 2000)
	for i := range rows {
		rows[i].S = fmt.Sprintf("value-%06d", i)
	}
	w.Write(rows)
	if err := w.Close(); err != nil {
		t.Fatal(err)
	}
	f, err := parquet.OpenFile(bytes.NewReader(buf.Bytes()), int64(buf.Len()))
	if err != nil {
		t.Fatal(err)
	}
	absent := 0
	for _, rg := range f.RowGroups() {
		bf := rg.ColumnChunks()[0].BloomFilter()
		if bf == nil {
			t.Skip("no bloom filter written")
		}
	}
	for _, r := range rows {
		found := false
		for _, rg := range f.RowGroups() {
			ok, err := rg.ColumnChunks()[0].BloomFilter().Check(parquet.ValueOf(r.S))
			if err != nil {
				t.Fatal(err)
			}
			found = found || ok
		}
		if !found {
			absent++
		}
	}
	if absent > 0 {
		t.Fatalf("bloom filter reports %d of %d written values absent", absent, len(rows))
	}
}
