package parquet_test

// F2 (C07): the bloom filter of a BOOLEAN column hashes the bit-packed page
// bytes instead of the values, so written values are reported absent.
// Usage: copy into /repo as zz_f02_test.go; go test -run ZZF02 .

import (
	"bytes"
	"testing"

	"github.com/parquet-go/parquet-go"
)

func TestZZF02BooleanBloomFilter(t *testing.T) {
	type Row struct {
		B bool `parquet:"b"`
	}
	var buf bytes.Buffer
	w := parquet.NewGenericWriter[Row](&buf, parquet.BloomFilters(parquet.SplitBlockFilter(10, "b")))
	rows := make([]Row, 100)
	for i := range rows {
		rows[i].B = i%3 == 0
	}
	w.Write(rows)
	if err := w.Close(); err != nil {
		t.Fatal(err)
	}
	f, err := parquet.OpenFile(bytes.NewReader(buf.Bytes()), int64(buf.Len()))
	if err != nil {
		t.Fatal(err)
	}
	bf := f.RowGroups()[0].ColumnChunks()[0].BloomFilter()
	if bf == nil {
		t.Fatal("no bloom filter")
	}
	for _, v := range []bool{true, false} {
		ok, err := bf.Check(parquet.BooleanValue(v))
		if err != nil {
			t.Fatal(err)
		}
		if !ok {
			t.Errorf("bloom filter reports %v absent although it was written", v)
		}
	}
}
