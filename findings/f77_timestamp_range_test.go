package parquet_test

// F77 (C01): TIMESTAMP(MILLIS) and TIMESTAMP(MICROS) values more than about
// 292 years away from 1970 were stored correctly but read back wrong: the
// reader multiplied the stored count by the unit to get nanoseconds, which
// overflows int64 (a date in 2500 came back as 1915). The conversions of such
// a column to DATE had the same overflow in time.Duration.
// (Reported by a wave-7 red-team agent.)
// Usage: copy into /repo as zz_f77_test.go; go test -run ZZF77 .

import (
	"bytes"
	"testing"
	"time"

	"github.com/parquet-go/parquet-go"
)

func TestZZF77TimestampRange(t *testing.T) {
	type R struct {
		T time.Time  `parquet:"t,timestamp(millisecond)"`
		U time.Time  `parquet:"u,timestamp(microsecond)"`
		P *time.Time `parquet:"p,optional,timestamp(millisecond)"`
	}
	far, old := time.Date(2500, 1, 2, 3, 4, 5, 0, time.UTC), time.Date(1500, 1, 2, 3, 4, 5, 0, time.UTC)
	rows := []R{{T: far, U: far, P: &far}, {T: old, U: old, P: &old}, {T: time.Unix(1, 0).UTC(), U: time.Unix(-1, 0).UTC()}}
	buf := new(bytes.Buffer)
	w := parquet.NewGenericWriter[R](buf)
	if _, err := w.Write(rows); err != nil {
		t.Fatal(err)
	}
	if err := w.Close(); err != nil {
		t.Fatal(err)
	}
	r := parquet.NewGenericReader[R](bytes.NewReader(buf.Bytes()))
	defer r.Close()
	got := make([]R, len(rows)+1)
	n, _ := r.Read(got)
	got = got[:n]
	if len(got) != len(rows) {
		t.Fatalf("read %d rows, want %d", len(got), len(rows))
	}
	for i := range got {
		if !got[i].T.Equal(rows[i].T) {
			t.Errorf("row %d T: want %v got %v", i, rows[i].T, got[i].T)
		}
		if !got[i].U.Equal(rows[i].U) {
			t.Errorf("row %d U: want %v got %v", i, rows[i].U, got[i].U)
		}
		if (got[i].P == nil) != (rows[i].P == nil) || (got[i].P != nil && !got[i].P.Equal(*rows[i].P)) {
			t.Errorf("row %d P: want %v got %v", i, rows[i].P, got[i].P)
		}
	}
}

func TestZZF77TimestampToDateConversion(t *testing.T) {
	type Src struct {
		T time.Time `parquet:"t,timestamp(millisecond)"`
	}
	type Dst struct {
		T int32 `parquet:"t,date"`
	}
	far := time.Date(2500, 1, 2, 0, 0, 0, 0, time.UTC)
	buf := new(bytes.Buffer)
	w := parquet.NewGenericWriter[Src](buf)
	if _, err := w.Write([]Src{{T: far}}); err != nil {
		t.Fatal(err)
	}
	if err := w.Close(); err != nil {
		t.Fatal(err)
	}
	r := parquet.NewGenericReader[Dst](bytes.NewReader(buf.Bytes()), parquet.SchemaOf(Dst{}))
	defer r.Close()
	got := make([]Dst, 2)
	n, _ := r.Read(got)
	want := int32(far.Unix() / 86400)
	if n != 1 || got[0].T != want {
		t.Errorf("timestamp(ms) 2500-01-02 read as DATE: got %v (n=%d), want %d days", got[:n], n, want)
	}
}
