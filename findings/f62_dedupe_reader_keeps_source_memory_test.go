package parquet_test

// F62 (C16, C09): the dedupe helper kept the last row it saw as a shallow copy
// (`append(d.lastRow[:0], lastRow...)`): its byte array values kept pointing
// into memory owned by the wrapped reader, which is valid only until that
// reader's next ReadRows. A source that reuses its buffer made the next
// comparison compare the new row with itself: every later row was dropped as a
// duplicate. (First seen by a wave-5 red-team agent.)
// Usage: copy into /repo as zz_f62_test.go; go test -run ZZF62 .

import (
	"io"
	"testing"

	"github.com/parquet-go/parquet-go"
)

// f62Source returns one row per call; the bytes of its value live in one
// buffer that is overwritten by the next call, which the RowReader contract
// allows.
type f62Source struct {
	values []string
	buf    []byte
}

func (s *f62Source) ReadRows(rows []parquet.Row) (int, error) {
	if len(s.values) == 0 {
		return 0, io.EOF
	}
	s.buf = append(s.buf[:0], s.values[0]...)
	s.values = s.values[1:]
	rows[0] = append(rows[0][:0], parquet.ByteArrayValue(s.buf).Level(0, 0, 0))
	return 1, nil
}

func TestZZF62DedupeReaderKeepsItsOwnCopyOfTheLastRow(t *testing.T) {
	type Row struct {
		S string `parquet:"s"`
	}
	schema := parquet.SchemaOf(Row{})
	src := &f62Source{values: []string{"aaa", "bbb", "bbb", "ccc"}}
	r := parquet.DedupeRowReader(src, schema.Comparator(parquet.Ascending("s")))
	var got []string
	rows := make([]parquet.Row, 1)
	for {
		n, err := r.ReadRows(rows)
		for _, row := range rows[:n] {
			got = append(got, string(row[0].ByteArray()))
		}
		if err != nil {
			break
		}
	}
	if len(got) != 3 || got[0] != "aaa" || got[1] != "bbb" || got[2] != "ccc" {
		t.Errorf("deduplicated rows: %q, want [aaa bbb ccc]", got)
	}
}
