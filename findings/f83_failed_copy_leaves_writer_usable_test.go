package parquet_test

// F83 (C11, C14): Writer.WriteRowGroup stages the source's column chunks one
// after the other for a verbatim copy. When staging failed on a later column
// (a read error on its page index) the error was returned but the earlier
// columns stayed staged: rows written afterwards produced a row group mixing
// copied source bytes with re-encoded pages, Close reported no error, and the
// file was unreadable. (Reported by agents of waves 6, 7 and 8.)
// Usage: copy into /repo as zz_f83_test.go; go test -run ZZF83 .

// Behaviour of the CLEAN tree (no mutant applied) that already deviates from
// property C11. Every test below FAILS on the clean tree. See
// clean_tree_notes.md.

import (
	"bytes"
	"errors"
	"fmt"
	"io"
	"testing"

	"github.com/parquet-go/parquet-go"
)

type f83Row struct {
	ID   int64  `parquet:"id"`
	Name string `parquet:"name"`
}

type f83DictRow struct {
	ID   int64  `parquet:"id"`
	Name string `parquet:"name,dict"`
}

func f83Write[T any](t *testing.T, rows []T, opts ...parquet.WriterOption) []byte {
	t.Helper()
	var out bytes.Buffer
	w := parquet.NewGenericWriter[T](&out, opts...)
	if _, err := w.Write(rows); err != nil {
		t.Fatal(err)
	}
	if err := w.Close(); err != nil {
		t.Fatal(err)
	}
	return out.Bytes()
}

func f83Open(t *testing.T, b []byte, opts ...parquet.FileOption) *parquet.File {
	t.Helper()
	f, err := parquet.OpenFile(bytes.NewReader(b), int64(len(b)), opts...)
	if err != nil {
		t.Fatal(err)
	}
	return f
}

func f83Rewrite[T any](t *testing.T, src *parquet.File, opts ...parquet.WriterOption) *parquet.File {
	t.Helper()
	var out bytes.Buffer
	w := parquet.NewGenericWriter[T](&out, opts...)
	for _, rg := range src.RowGroups() {
		if _, err := w.WriteRowGroup(rg); err != nil {
			t.Fatal(err)
		}
	}
	if err := w.Close(); err != nil {
		t.Fatal(err)
	}
	return f83Open(t, out.Bytes())
}

func f83LongNames(n int) []f83Row {
	rows := make([]f83Row, n)
	for i := range rows {
		rows[i] = f83Row{ID: int64(i), Name: fmt.Sprintf("a-very-long-name-prefix-which-exceeds-sixteen-bytes-%06d", i)}
	}
	return rows
}

// 1. The verbatim copy ignores the statistics options of the destination.
type f83FailingReaderAt struct {
	r      io.ReaderAt
	failAt int64 // reads that cover this offset fail
	armed  *bool
}

func (f f83FailingReaderAt) ReadAt(p []byte, off int64) (int, error) {
	if *f.armed && off <= f.failAt && f.failAt < off+int64(len(p)) {
		return 0, errors.New("injected read error")
	}
	return f.r.ReadAt(p, off)
}

func TestZZF83FailedCopyLeavesWriterUsable(t *testing.T) {
	rows := make([]f83Row, 100)
	for i := range rows {
		rows[i] = f83Row{ID: int64(i), Name: fmt.Sprintf("n%d", i)}
	}
	b := f83Write(t, rows)
	plain := f83Open(t, b)
	armed := false
	failAt := plain.Metadata().RowGroups[0].Columns[1].ColumnIndexOffset
	src, err := parquet.OpenFile(f83FailingReaderAt{r: bytes.NewReader(b), failAt: failAt, armed: &armed}, int64(len(b)), parquet.SkipPageIndex(true))
	if err != nil {
		t.Fatal(err)
	}
	armed = true

	var out bytes.Buffer
	w := parquet.NewGenericWriter[f83Row](&out)
	if _, err := w.WriteRowGroup(src.RowGroups()[0]); err == nil {
		t.Skip("the injected error did not hit the copy path")
	}
	armed = false
	// the application falls back to writing the rows itself
	other := make([]f83Row, 10)
	for i := range other {
		other[i] = f83Row{ID: int64(1000 + i), Name: "other"}
	}
	if _, err := w.Write(other); err != nil {
		t.Fatal(err)
	}
	if err := w.Close(); err != nil {
		t.Fatalf("Close: %v", err)
	}
	f, err := parquet.OpenFile(bytes.NewReader(out.Bytes()), int64(out.Len()))
	if err != nil {
		t.Fatalf("opening the output: %v", err)
	}
	r := parquet.NewGenericReader[f83Row](f)
	defer r.Close()
	got := make([]f83Row, 200)
	n, err := r.Read(got)
	if err != nil && err != io.EOF {
		t.Fatalf("reading the output: %v", err)
	}
	if n != len(other) {
		t.Fatalf("the output has %d rows, want %d", n, len(other))
	}
	for i := range other {
		if got[i] != other[i] {
			t.Fatalf("row %d: got %+v, want %+v", i, got[i], other[i])
		}
	}
}
