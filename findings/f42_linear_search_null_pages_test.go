package parquet_test

// F42 (C06): linearSearch (the search used for unordered column indexes) did
// not look at NullPage: a page holding only nulls whose index reports zero
// values as bounds (the column index of an in-memory buffer does) was returned
// for a probe equal to the zero value.
// Usage: copy into /repo as zz_f42_test.go; go test -run ZZF42 .

import (
	"testing"

	"github.com/parquet-go/parquet-go"
)

func TestZZF42LinearSearchSkipsNullPages(t *testing.T) {
	type Row struct {
		A *int64 `parquet:"a,optional"`
	}
	b := parquet.NewGenericBuffer[Row]()
	b.Write([]Row{{nil}, {nil}, {nil}})
	chunk := b.ColumnChunks()[0]
	index, err := chunk.ColumnIndex()
	if err != nil {
		t.Fatal(err)
	}
	if index.NumPages() != 1 || !index.NullPage(0) {
		t.Skipf("pages=%d nullpage=%v", index.NumPages(), index.NullPage(0))
	}
	if got := parquet.Search(index, parquet.ValueOf(int64(0)), chunk.Type()); got != index.NumPages() {
		t.Fatalf("Search(0) over a column holding only nulls returned page %d (a page of nulls), want %d (not found)", got, index.NumPages())
	}
}
