package parquet_test

// F33 (C18): a writer reused through Reset kept the random file identifier of
// its encryption state, so all the files it wrote shared one identifier and a
// module transplanted from one of them into another at the same position was
// accepted by the reader.
// Usage: copy into /repo as zz_f33_test.go; go test -run ZZF33 .

import (
	"bytes"
	"testing"

	"github.com/parquet-go/parquet-go"
)

type zzKeys33 struct{ k []byte }

func (z zzKeys33) FooterKey([]byte) ([]byte, error)           { return z.k, nil }
func (z zzKeys33) ColumnKey([]string, []byte) ([]byte, error) { return z.k, nil }

func TestZZF33ResetKeepsFileIdentifier(t *testing.T) {
	type Row struct {
		V int64 `parquet:"v,plain"`
	}
	key := []byte("0123456789abcdef")
	var b1, b2 bytes.Buffer
	w := parquet.NewGenericWriter[Row](&b1, parquet.WithEncryption(&parquet.EncryptionConfig{FooterKey: key, EncryptedFooter: true}))
	write := func(base int64) {
		rows := make([]Row, 50)
		for i := range rows {
			rows[i].V = base + int64(i)
		}
		if _, err := w.Write(rows); err != nil {
			t.Fatal(err)
		}
		if err := w.Close(); err != nil {
			t.Fatal(err)
		}
	}
	write(1000)
	w.Reset(&b2)
	write(2000)
	f1, f2 := b1.Bytes(), b2.Bytes()
	if len(f1) != len(f2) {
		t.Skipf("files differ in size (%d, %d)", len(f1), len(f2))
	}
	// the data page of the single column sits at the same offset in both files:
	// everything between the magic number and the page index / footer
	o1, err := parquet.OpenFile(bytes.NewReader(f1), int64(len(f1)), parquet.WithDecryption(zzKeys33{key}))
	if err != nil {
		t.Fatal(err)
	}
	md := o1.Metadata().RowGroups[0].Columns[0]
	start := md.MetaData.DataPageOffset
	end := start + md.MetaData.TotalCompressedSize
	forged := append([]byte{}, f1...)
	copy(forged[start:end], f2[start:end])
	f, err := parquet.OpenFile(bytes.NewReader(forged), int64(len(forged)), parquet.WithDecryption(zzKeys33{key}))
	if err != nil {
		return // rejected
	}
	rows := make([]Row, 50)
	r := parquet.NewGenericReader[Row](f)
	n, err := r.Read(rows)
	if n > 0 && rows[0].V == 2000 {
		t.Fatalf("a page of the second file transplanted into the first one was accepted: read %d rows starting with %d (err=%v)", n, rows[0].V, err)
	}
}
