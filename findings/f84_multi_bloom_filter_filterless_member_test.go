package parquet_test

// F84 (C07): the bloom filter of a multi row group's column chunk asked only the
// member chunks that have a filter and answered "absent" when none of them
// matched — also when another member has no filter at all and holds the value.
// A reader pruning on that answer skips rows that are there.
// (Noted from reading by a wave-9 red-team agent; reproduced here.)
// Usage: copy into /repo as zz_f84_test.go; go test -run ZZF84 .

import (
	"bytes"
	"testing"

	"github.com/parquet-go/parquet-go"
)

func TestZZF84MultiBloomFilterWithFilterlessMember(t *testing.T) {
	type R struct {
		ID int64 `parquet:"id"`
	}
	write := func(rows []R, opts ...parquet.WriterOption) parquet.RowGroup {
		buf := new(bytes.Buffer)
		w := parquet.NewGenericWriter[R](buf, opts...)
		if _, err := w.Write(rows); err != nil {
			t.Fatal(err)
		}
		if err := w.Close(); err != nil {
			t.Fatal(err)
		}
		f, err := parquet.OpenFile(bytes.NewReader(buf.Bytes()), int64(buf.Len()))
		if err != nil {
			t.Fatal(err)
		}
		return f.RowGroups()[0]
	}
	withFilter := write([]R{{1}, {2}, {3}}, parquet.BloomFilters(parquet.SplitBlockFilter(10, "id")))
	without := write([]R{{1001}, {1002}, {1003}})

	multi := parquet.MultiRowGroup(withFilter, without)
	filter := multi.ColumnChunks()[0].BloomFilter()
	if filter == nil {
		return // no filter is a correct answer too: nothing can be ruled out
	}
	for _, id := range []int64{1, 2, 3, 1001, 1002, 1003} {
		ok, err := filter.Check(parquet.ValueOf(id))
		if err != nil {
			t.Fatal(err)
		}
		if !ok {
			t.Errorf("value %d is in the row group but its bloom filter says it is absent", id)
		}
	}
}
