package parquet_test

// F21 (C03): the typed write path of an optional non-pointer field
// (writeRowsFuncOfOptional) tested "all remaining bits of the word are set"
// with (1<<y)-1 instead of (1<<(64-y))-1: for a batch like [null, value, null]
// the trailing null was written as a present zero value, while the reflection
// path (Buffer.Write / Deconstruct) writes a null.
// Usage: copy into /repo as zz_f21_test.go; go test -run ZZF21 .

import (
	"fmt"
	"testing"

	"github.com/parquet-go/parquet-go"
)

func TestZZF21OptionalRunScan(t *testing.T) {
	type Row struct {
		A int64 `parquet:"a,optional"`
	}
	for _, in := range [][]int64{{0, 5, 0}, {0, 5, 0, 0, 7, 0}, {0, 0, 0, 9, 0}, {1, 0, 2, 0}} {
		rows := make([]Row, len(in))
		for i, v := range in {
			rows[i].A = v
		}
		typed := parquet.NewGenericBuffer[Row]()
		if _, err := typed.Write(rows); err != nil {
			t.Fatal(err)
		}
		reflected := parquet.NewBuffer(parquet.SchemaOf(Row{}))
		for i := range rows {
			if err := reflected.Write(&rows[i]); err != nil {
				t.Fatal(err)
			}
		}
		dump := func(rg parquet.RowGroup) string {
			r := rg.Rows()
			defer r.Close()
			buf := make([]parquet.Row, len(in))
			n, _ := r.ReadRows(buf)
			s := ""
			for _, row := range buf[:n] {
				s += fmt.Sprintf("%+v ", row[0])
			}
			return s
		}
		if a, b := dump(typed), dump(reflected); a != b {
			t.Errorf("input %v:\n typed path     %s\n reflected path %s", in, a, b)
		}
	}
}
