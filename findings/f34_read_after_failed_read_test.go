package parquet_test

// F34 (C14, C13, C08): when reading one column failed in the middle of
// rowGroupRows.ReadRows, the columns read before it had already advanced while
// the row index had not. The reader kept going from there: the next ReadRows
// (or a SeekToRow to the row the reader believed it was at, a no-op) returned
// rows whose columns belong to different rows, without error.
// Usage: copy into /repo as zz_f34_test.go; go test -run ZZF34 .

import (
	"bytes"
	"errors"
	"fmt"
	"io"
	"sync/atomic"
	"testing"

	"github.com/parquet-go/parquet-go"
)

type zzFlaky34 struct {
	r     io.ReaderAt
	fail  atomic.Int64
	after atomic.Int64
}

func (f *zzFlaky34) ReadAt(p []byte, off int64) (int, error) {
	if f.fail.Load() > 0 {
		if f.after.Add(-1) < 0 {
			f.fail.Add(-1)
			return 0, errors.New("injected read error")
		}
	}
	return f.r.ReadAt(p, off)
}

func TestZZF34ReadAfterFailedRead(t *testing.T) {
	type Row struct {
		A int64
		B string
		C int64
	}
	buf := new(bytes.Buffer)
	w := parquet.NewGenericWriter[Row](buf, parquet.PageBufferSize(256))
	const N = 2000
	for i := 0; i < N; i++ {
		w.Write([]Row{{A: int64(i), B: fmt.Sprintf("v%05d", i), C: int64(i)}})
	}
	w.Close()
	fr := &zzFlaky34{r: bytes.NewReader(buf.Bytes())}
	f, err := parquet.OpenFile(fr, int64(buf.Len()), parquet.ReadBufferSize(64))
	if err != nil {
		t.Fatal(err)
	}
	for after := int64(0); after < 6; after++ {
		for _, seek := range []bool{false, true} {
			rows := f.RowGroups()[0].Rows()
			rbuf := make([]parquet.Row, 10)
			if n, err := rows.ReadRows(rbuf); n != 10 || err != nil {
				t.Fatal(n, err)
			}
			fr.after.Store(after)
			fr.fail.Store(1)
			big := make([]parquet.Row, 300)
			n, err := rows.ReadRows(big)
			fr.fail.Store(0)
			if err == nil {
				rows.Close()
				continue // the fault did not hit this read
			}
			pos := int64(10 + n)
			if seek {
				if err := rows.SeekToRow(pos); err != nil {
					t.Fatal(err)
				}
			}
			n, err = rows.ReadRows(rbuf)
			if err != nil && n == 0 {
				rows.Close()
				continue // reported again: acceptable
			}
			for i := 0; i < n; i++ {
				a, b, c := rbuf[i][0].Int64(), rbuf[i][1].String(), rbuf[i][2].Int64()
				want := pos + int64(i)
				if a != want || c != want || b != fmt.Sprintf("v%05d", want) {
					t.Errorf("fault after %d reads, seek=%v: row %d read as (%d,%s,%d), want row %d", after, seek, i, a, b, c, want)
					break
				}
			}
			rows.Close()
		}
	}
}

func TestZZF34CorruptPageStaysAnError(t *testing.T) {
	type Row struct {
		A int64 `parquet:"a,plain"`
		B int64 `parquet:"b,plain"`
	}
	var buf bytes.Buffer
	w := parquet.NewGenericWriter[Row](&buf, parquet.PageBufferSize(256))
	rows := make([]Row, 400)
	for i := range rows {
		rows[i] = Row{A: int64(i), B: int64(0x1122334400000000) + int64(i)}
	}
	w.Write(rows)
	w.Close()
	data := append([]byte{}, buf.Bytes()...)
	// flip a bit inside a value of column b stored in a later page
	needle := []byte{0x64, 0x00, 0x00, 0x00, 0x44, 0x33, 0x22, 0x11} // b of row 100
	at := bytes.Index(data, needle)
	if at < 0 {
		t.Fatal("value not found")
	}
	data[at+5] ^= 0x40
	r := parquet.NewGenericReader[Row](bytes.NewReader(data))
	defer r.Close()
	out := make([]Row, 50)
	sawError := false
	total := 0
	for i := 0; i < 20; i++ {
		n, err := r.Read(out)
		for j := 0; j < n; j++ {
			k := total + j
			if out[j].A != int64(k) || out[j].B != int64(0x1122334400000000)+int64(k) {
				if !sawError || true {
					t.Fatalf("read %d returned row %d as {A:%d B:%#x} without reporting the corruption first (err=%v)", i, k, out[j].A, out[j].B, err)
				}
			}
		}
		total += n
		if err != nil {
			if err == io.EOF {
				break
			}
			sawError = true
		}
	}
	if !sawError {
		t.Fatal("the corrupted page was never reported")
	}
}
