package parquet_test

// F65 (C04, C01): a sliced BOOLEAN page remembers the bit at which its values
// start inside the first byte (Slice(3, 20) starts at bit 3), and Values()
// honours it, but Data() returned the bytes as they are: every encoder then
// wrote the bits from bit 0 of the first byte, i.e. three values that are not
// part of the page, with everything shifted. Writing or encoding a sliced
// boolean page stored other values than the ones it reads back itself.
// (First seen by a wave-5 red-team agent.)
// Usage: copy into /repo as zz_f65_test.go; go test -run ZZF65 .

import (
	"testing"

	"github.com/parquet-go/parquet-go"
	"github.com/parquet-go/parquet-go/encoding"
)

func TestZZF65SlicedBooleanPageData(t *testing.T) {
	type Row struct {
		Flag bool `parquet:"flag"`
	}
	rows := make([]Row, 40)
	for i := range rows {
		rows[i].Flag = i%3 == 0 || i%7 == 0
	}
	buffer := parquet.NewGenericBuffer[Row]()
	buffer.Write(rows)
	page := buffer.ColumnBuffers()[0].Page()
	typ := page.Type()
	for _, lo := range []int64{0, 3, 8, 13} {
		sliced := page.Slice(lo, lo+17)
		for _, enc := range []encoding.Encoding{&parquet.Plain, &parquet.RLE} {
			encoded, err := typ.Encode(nil, sliced.Data(), enc)
			if err != nil {
				t.Fatal(err)
			}
			decoded, err := typ.Decode(typ.NewValues(nil, nil), encoded, enc)
			if err != nil {
				t.Fatal(err)
			}
			bits := decoded.Boolean()
			for k := 0; k < 17; k++ {
				got := (bits[k/8]>>uint(k%8))&1 != 0
				if want := rows[int(lo)+k].Flag; got != want {
					t.Errorf("Slice(%d, %d) encoded with %s: value %d: want %v got %v", lo, lo+17, enc, k, want, got)
					break
				}
			}
		}
	}
}
