package parquet_test

// F49 (C14): with DeferBloomFiltersWithBuffers, a row group that failed after
// the bloom filter of one of its columns had been deferred left that entry
// behind, pointing at a row group that was never recorded: the next Close
// panicked (index out of range in writeDeferredBloomFilters) instead of
// returning an error, and had another row group been written in between, its
// bloom filter offsets would have been overwritten with those of the failed one.
// Usage: copy into /repo as zz_f49_test.go; go test -run ZZF49 .

import (
	"bytes"
	"errors"
	"io"
	"testing"

	"github.com/parquet-go/parquet-go"
)

type f49FailingBuffer struct{}

func (f49FailingBuffer) Read([]byte) (int, error)       { return 0, io.EOF }
func (f49FailingBuffer) Write([]byte) (int, error)      { return 0, errors.New("f49: buffer is full") }
func (f49FailingBuffer) Seek(int64, int) (int64, error) { return 0, nil }

type f49Pool struct {
	base  parquet.BufferPool
	calls int
	fail  int
}

func (p *f49Pool) GetBuffer() io.ReadWriteSeeker {
	p.calls++
	if p.calls == p.fail {
		return f49FailingBuffer{}
	}
	return p.base.GetBuffer()
}

func (p *f49Pool) PutBuffer(b io.ReadWriteSeeker) {
	if _, ok := b.(f49FailingBuffer); !ok {
		p.base.PutBuffer(b)
	}
}

func TestZZF49FailedRowGroupLeavesNoDeferredBloomFilter(t *testing.T) {
	t.Run("close", func(t *testing.T) { testZZF49(t, false) })
	t.Run("write then close", func(t *testing.T) { testZZF49(t, true) })
}

func testZZF49(t *testing.T, second bool) {
	type Row struct {
		A int64 `parquet:"a"`
		B int64 `parquet:"b"`
	}
	pool := &f49Pool{base: parquet.NewBufferPool(), fail: 2}
	var out bytes.Buffer
	w := parquet.NewGenericWriter[Row](&out,
		parquet.BloomFilters(parquet.SplitBlockFilter(10, "a"), parquet.SplitBlockFilter(10, "b")),
		parquet.DeferBloomFiltersWithBuffers(pool),
	)
	if _, err := w.Write([]Row{{1, 2}, {3, 4}}); err != nil {
		t.Fatal(err)
	}
	if err := w.Flush(); err == nil {
		t.Fatal("the row group was expected to fail: the buffer of the second bloom filter refuses writes")
	}
	// The failed row group is gone; what follows must behave like a writer
	// that has one good row group.
	if second {
		if _, err := w.Write([]Row{{5, 6}}); err != nil {
			t.Fatal(err)
		}
	}
	func() {
		defer func() {
			if r := recover(); r != nil {
				t.Fatalf("Close panicked after a failed row group: %v", r)
			}
		}()
		if err := w.Close(); err != nil {
			t.Logf("Close: %v", err)
			return
		}
		f, err := parquet.OpenFile(bytes.NewReader(out.Bytes()), int64(out.Len()))
		if err != nil {
			t.Logf("OpenFile: %v", err)
			return
		}
		for _, rg := range f.RowGroups() {
			for i, cc := range rg.ColumnChunks() {
				bf := cc.BloomFilter()
				if bf == nil {
					t.Errorf("column %d has no bloom filter", i)
					continue
				}
				want := parquet.ValueOf(int64(5 + i))
				if ok, err := bf.Check(want); err != nil || !ok {
					t.Errorf("column %d: bloom filter does not hold %v (ok=%v err=%v): it is the filter of the failed row group", i, want, ok, err)
				}
			}
		}
	}()
}
