package parquet_test

// F38 (C01): the first typed Write of a GenericWriter created new column
// buffers unconditionally: rows buffered before it through WriteRows (which
// creates the buffers lazily) were dropped without any error.
// Usage: copy into /repo as zz_f38_test.go; go test -run ZZF38 .

import (
	"bytes"
	"testing"

	"github.com/parquet-go/parquet-go"
)

func TestZZF38WriteRowsThenWrite(t *testing.T) {
	type Row struct {
		ID int64 `parquet:"id"`
	}
	var buf bytes.Buffer
	w := parquet.NewGenericWriter[Row](&buf)
	if _, err := w.WriteRows([]parquet.Row{{parquet.Int64Value(1).Level(0, 0, 0)}}); err != nil {
		t.Fatal(err)
	}
	if _, err := w.Write([]Row{{2}, {3}}); err != nil {
		t.Fatal(err)
	}
	if _, err := w.WriteRows([]parquet.Row{{parquet.Int64Value(4).Level(0, 0, 0)}}); err != nil {
		t.Fatal(err)
	}
	if err := w.Close(); err != nil {
		t.Fatal(err)
	}
	got, err := parquet.Read[Row](bytes.NewReader(buf.Bytes()), int64(buf.Len()))
	if err != nil {
		t.Fatal(err)
	}
	if len(got) != 4 || got[0].ID != 1 || got[3].ID != 4 {
		t.Fatalf("wrote rows 1 (WriteRows), 2, 3 (Write), 4 (WriteRows); read back %v", got)
	}
}
