package parquet_test

// F79 (C01, C03): a time.Time field tagged `date` (a DATE column, days since the
// unix epoch — which is how dateType.AssignValue reads it back) was written as
// UnixNano truncated to int32 by both write paths: 2024-03-04 was stored as
// -1009385472 and read back as a day in the year -2761634.
// (Reported by a wave-7 red-team agent.)
// Usage: copy into /repo as zz_f79_test.go; go test -run ZZF79 .

import (
	"bytes"
	"testing"
	"time"

	"github.com/parquet-go/parquet-go"
)

func TestZZF79DateOfTime(t *testing.T) {
	type R struct {
		D time.Time  `parquet:"d,date"`
		P *time.Time `parquet:"p,date"`
	}
	d1 := time.Date(2024, 3, 4, 0, 0, 0, 0, time.UTC)
	d2 := time.Date(1960, 1, 1, 0, 0, 0, 0, time.UTC)
	d3 := time.Date(1969, 12, 31, 0, 0, 0, 0, time.UTC)
	rows := []R{{D: d1, P: &d2}, {D: d2, P: nil}, {D: d3, P: &d1}}
	check := func(name string, data []byte) {
		f, err := parquet.OpenFile(bytes.NewReader(data), int64(len(data)))
		if err != nil {
			t.Fatal(err)
		}
		// the stored values are days since the epoch
		raw := make([]parquet.Value, 8)
		pages := f.RowGroups()[0].ColumnChunks()[0].Pages()
		pg, err := pages.ReadPage()
		if err != nil {
			t.Fatal(err)
		}
		n, _ := pg.Values().ReadValues(raw)
		pages.Close()
		want := []int32{19786, -3653, -1}
		for i := range want {
			if i >= n || raw[i].Int32() != want[i] {
				t.Errorf("%s: stored d[%d] = %v, want %d days", name, i, raw[:n], want[i])
				break
			}
		}
		r := parquet.NewGenericReader[R](bytes.NewReader(data))
		defer r.Close()
		got := make([]R, len(rows)+1)
		m, _ := r.Read(got)
		if m != len(rows) {
			t.Fatalf("%s: read %d rows", name, m)
		}
		for i := range rows {
			if !got[i].D.Equal(rows[i].D) {
				t.Errorf("%s: row %d D: want %v got %v", name, i, rows[i].D, got[i].D)
			}
			if (got[i].P == nil) != (rows[i].P == nil) || (got[i].P != nil && !got[i].P.Equal(*rows[i].P)) {
				t.Errorf("%s: row %d P: want %v got %v", name, i, rows[i].P, got[i].P)
			}
		}
	}
	typed := new(bytes.Buffer)
	w := parquet.NewGenericWriter[R](typed)
	if _, err := w.Write(rows); err != nil {
		t.Fatal(err)
	}
	if err := w.Close(); err != nil {
		t.Fatal(err)
	}
	check("GenericWriter", typed.Bytes())

	refl := new(bytes.Buffer)
	w2 := parquet.NewWriter(refl, parquet.SchemaOf(R{}))
	for i := range rows {
		if err := w2.Write(&rows[i]); err != nil {
			t.Fatal(err)
		}
	}
	if err := w2.Close(); err != nil {
		t.Fatal(err)
	}
	check("Writer.Write", refl.Bytes())
}
