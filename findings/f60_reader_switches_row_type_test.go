package parquet_test

// F60 (C12): Reader.Read with a row type that needs a conversion, after a Read
// with the file's own row type, kept reading from the *unconverted* row group:
// reader.init installed the converted row group but its Reset kept the Rows
// opened on the previous one (they have a Reset method, so they were reset and
// reused). The rows of the file's schema were then reconstructed with the new
// schema: the subset type received the first column's value in its only field.
// (First seen by a wave-5 red-team agent.)
// Usage: copy into /repo as zz_f60_test.go; go test -run ZZF60 .

import (
	"bytes"
	"testing"

	"github.com/parquet-go/parquet-go"
)

func TestZZF60ReaderSwitchesRowType(t *testing.T) {
	type Full struct {
		A int64  `parquet:"a"`
		B string `parquet:"b"`
		C int64  `parquet:"c"`
	}
	type Sub struct {
		C int64 `parquet:"c"`
	}
	var buf bytes.Buffer
	w := parquet.NewGenericWriter[Full](&buf)
	for i := 0; i < 10; i++ {
		w.Write([]Full{{A: int64(i), B: "b", C: int64(100 + i)}})
	}
	if err := w.Close(); err != nil {
		t.Fatal(err)
	}
	r := parquet.NewReader(bytes.NewReader(buf.Bytes()))
	defer r.Close()
	var full Full
	if err := r.Read(&full); err != nil {
		t.Fatal(err)
	}
	var sub Sub
	if err := r.Read(&sub); err != nil {
		t.Fatal(err)
	}
	if sub.C != 101 {
		t.Errorf("second row read through the subset type: got C=%d, want 101", sub.C)
	}
	if err := r.Read(&full); err != nil {
		t.Fatal(err)
	}
	if full.A != 2 || full.C != 102 {
		t.Errorf("third row read through the full type again: got %+v, want A=2 C=102", full)
	}
}
