package parquet_test

// F20 (C05): multiColumnIndex.IsDescending compared the wrong pages at the
// boundary between two chunks (first page of the earlier chunk against the last
// page of the later one, instead of last against first): the merged view of two
// descending row groups whose ranges overlap claimed a descending boundary
// order although the sequence of pages is not descending.
// Usage: copy into /repo as zz_f20_test.go; go test -run ZZF20 .

import (
	"bytes"
	"testing"

	"github.com/parquet-go/parquet-go"
)

func TestZZF20MergedDescendingClaim(t *testing.T) {
	type Row struct {
		ID int64 `parquet:"id"`
	}
	build := func(first, second [2]int64) parquet.ColumnIndex {
		buffer := new(bytes.Buffer)
		writer := parquet.NewGenericWriter[Row](buffer, parquet.PageBufferSize(800))
		for k, r := range [][2]int64{first, second} {
			rows := []Row{}
			for i := r[0]; i >= r[1]; i-- {
				rows = append(rows, Row{ID: i})
			}
			if _, err := writer.Write(rows); err != nil {
				t.Fatal(err)
			}
			if k == 0 {
				if err := writer.Flush(); err != nil {
					t.Fatal(err)
				}
			}
		}
		if err := writer.Close(); err != nil {
			t.Fatal(err)
		}
		f, err := parquet.OpenFile(bytes.NewReader(buffer.Bytes()), int64(buffer.Len()))
		if err != nil {
			t.Fatal(err)
		}
		for i, rowGroup := range f.RowGroups() {
			index, err := rowGroup.ColumnChunks()[0].ColumnIndex()
			if err != nil {
				t.Fatal(err)
			}
			if index.NumPages() < 2 || !index.IsDescending() {
				t.Fatalf("row group %d: pages=%d descending=%t", i, index.NumPages(), index.IsDescending())
			}
		}
		index, err := parquet.MultiRowGroup(f.RowGroups()...).ColumnChunks()[0].ColumnIndex()
		if err != nil {
			t.Fatal(err)
		}
		return index
	}
	truly := func(index parquet.ColumnIndex) bool {
		for p := 1; p < index.NumPages(); p++ {
			if index.MinValue(p-1).Int64() < index.MaxValue(p).Int64() {
				return false
			}
		}
		return true
	}
	// 1999..1000 then 1799..800: the second row group starts above the end of the first
	overlapping := build([2]int64{1999, 1000}, [2]int64{1799, 800})
	if overlapping.IsDescending() != truly(overlapping) {
		t.Errorf("overlapping row groups: IsDescending() = %t but the page bounds are descending = %t", overlapping.IsDescending(), truly(overlapping))
	}
	// 1999..1000 then 999..0: really descending
	ordered := build([2]int64{1999, 1000}, [2]int64{999, 0})
	if ordered.IsDescending() != truly(ordered) {
		t.Errorf("ordered row groups: IsDescending() = %t but the page bounds are descending = %t", ordered.IsDescending(), truly(ordered))
	}
}
