package parquet_test

// F44 (C05, C06): the bounds of a page holding only NaN are NaN, which no
// comparison orders: the boundary order of a FLOAT/DOUBLE column index was
// computed with plain comparisons, so pages [1,2], [NaN,NaN], [0,0.5] were
// declared ASCENDING and the binary search missed 0.25.
// Usage: copy into /repo as zz_f44_test.go; go test -run ZZF44 .

import (
	"bytes"
	"math"
	"testing"

	"github.com/parquet-go/parquet-go"
)

func TestZZF44NaNPageAndBoundaryOrder(t *testing.T) {
	type Row struct {
		F float32 `parquet:"f"`
	}
	nan := float32(math.NaN())
	var rows []Row
	add := func(n int, f func(i int) float32) {
		for i := 0; i < n; i++ {
			rows = append(rows, Row{f(i)})
		}
	}
	add(300, func(i int) float32 { return 1 + float32(i)/300 })   // [1,2)
	add(1500, func(i int) float32 { return nan })                  // NaN only
	add(300, func(i int) float32 { return float32(i) / 600 })     // [0,0.5)
	var buf bytes.Buffer
	w := parquet.NewGenericWriter[Row](&buf, parquet.PageBufferSize(1200)) // 300 float32 per page
	w.Write(rows)
	if err := w.Close(); err != nil {
		t.Fatal(err)
	}
	f, err := parquet.OpenFile(bytes.NewReader(buf.Bytes()), int64(buf.Len()))
	if err != nil {
		t.Fatal(err)
	}
	chunk := f.RowGroups()[0].ColumnChunks()[0]
	index, err := chunk.ColumnIndex()
	if err != nil {
		t.Fatal(err)
	}
	typ := chunk.Type()
	for p := 0; p < index.NumPages(); p++ {
		t.Logf("page %d: %v .. %v", p, index.MinValue(p), index.MaxValue(p))
	}
	t.Logf("ascending=%v", index.IsAscending())
	probe := parquet.ValueOf(float32(0.25))
	want := -1
	for p := 0; p < index.NumPages(); p++ {
		if lo := index.MinValue(p).Float(); lo != lo {
			continue // a page holding only NaN
		}
		if typ.Compare(index.MinValue(p), probe) <= 0 && typ.Compare(probe, index.MaxValue(p)) <= 0 {
			want = p
			break
		}
	}
	if want < 0 {
		t.Skipf("0.25 in no page (pages=%d)", index.NumPages())
	}
	if got := parquet.Search(index, probe, typ); got > want {
		t.Fatalf("pages=%d ascending=%v: Search(0.25) = %d, the value is in page %d", index.NumPages(), index.IsAscending(), got, want)
	}
}
