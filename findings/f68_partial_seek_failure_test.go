package parquet_test

// F68 (C08, C14): rowGroupRows.SeekToRow repositions the column readers one
// after the other and returned on the first failure without recording that the
// columns before it had already moved (ReadRows does record it, F34). The row
// index stayed at the old row, the values still buffered hid the damage for a
// while, and the next ReadRows assembled rows from column a at row 12000 and
// column b at row 5100 — and a retry of the seek to the old row was taken for a
// no-op. (First seen by a wave-6 red-team agent.)
// Usage: copy into /repo as zz_f68_test.go; go test -run ZZF68 .

import (
	"errors"
	"io"
	"testing"

	"github.com/parquet-go/parquet-go"
)

type f68FailChunk struct {
	parquet.ColumnChunk
	fail *bool
}

func (c f68FailChunk) Pages() parquet.Pages {
	return &f68FailPages{Pages: c.ColumnChunk.Pages(), fail: c.fail}
}

type f68FailPages struct {
	parquet.Pages
	fail *bool
}

var errF68 = errors.New("transient seek failure")

func (p *f68FailPages) SeekToRow(i int64) error {
	if *p.fail {
		*p.fail = false
		return errF68
	}
	return p.Pages.SeekToRow(i)
}

type f68Row struct {
	A int64 `parquet:"a"`
	B int64 `parquet:"b"`
}

func TestZZF68PartialSeekFailure(t *testing.T) {
	buf := parquet.NewGenericBuffer[f68Row]()
	rows := make([]f68Row, 20000)
	for i := range rows {
		rows[i] = f68Row{A: int64(i), B: int64(i)}
	}
	buf.Write(rows)

	fail := false
	chunks := buf.ColumnChunks()
	r := parquet.NewColumnChunkRowReader([]parquet.ColumnChunk{chunks[0], f68FailChunk{chunks[1], &fail}})
	defer r.Close()

	out := make([]parquet.Row, 5000)
	if n, err := r.ReadRows(out); n != 5000 || err != nil {
		t.Fatal(n, err)
	}
	// The reader is at row 5000; the seek to 12000 fails on the second column.
	fail = true
	if err := r.SeekToRow(12000); !errors.Is(err, errF68) {
		t.Fatalf("expected the injected failure, got %v", err)
	}
	// Whatever row the reader is at now, both columns must be on it.
	n, err := r.ReadRows(out)
	if err != nil && err != io.EOF {
		t.Fatal(err)
	}
	for _, row := range out[:n] {
		if row[0].Int64() != row[1].Int64() {
			t.Fatalf("columns are on different rows after the failed seek: a=%d b=%d", row[0].Int64(), row[1].Int64())
		}
	}
}
