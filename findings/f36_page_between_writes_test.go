package parquet_test

// F36 (C17, C01): byteArrayColumnBuffer.page() leaves a terminating offset
// behind the offsets of the values; values written afterwards appended their
// offsets after that terminator, one slot off their lengths: looking at the
// pages of a buffer between two writes corrupted the values written later.
// Usage: copy into /repo as zz_f36_test.go; go test -run ZZF36 .

import (
	"io"
	"testing"

	"github.com/parquet-go/parquet-go"
)

func TestZZF36PageBetweenWrites(t *testing.T) {
	type Row struct {
		S string `parquet:"s"`
	}
	read := func(b *parquet.GenericBuffer[Row]) []string {
		rows := make([]Row, 16)
		r := parquet.NewGenericRowGroupReader[Row](b)
		defer r.Close()
		n, err := r.Read(rows)
		if err != nil && err != io.EOF {
			t.Fatal(err)
		}
		out := []string{}
		for _, x := range rows[:n] {
			out = append(out, x.S)
		}
		return out
	}
	want := []string{"aa", "bbb", "cccc", "ddddd", "e"}
	b := parquet.NewGenericBuffer[Row]()
	b.Write([]Row{{"aa"}, {"bbb"}})
	_ = b.ColumnBuffers()[0].Page() // a look at the page in between
	b.Write([]Row{{"cccc"}, {"ddddd"}, {"e"}})
	got := read(b)
	if len(got) != len(want) {
		t.Fatalf("got %q want %q", got, want)
	}
	for i := range want {
		if got[i] != want[i] {
			t.Fatalf("got %q want %q", got, want)
		}
	}
}
