package parquet_test

// F18 (C17): the PLAIN column buffer created by the dictionary fallback is not
// reset by Reset: rows abandoned in it are written into the next file.
// (reported by a red-team sub-agent; the C17.reset rule had flagged
// ColumnWriter.plainColumnBuffer and the exemption given for it was wrong)
// Usage: copy into /repo as zz_f18_test.go; go test -run ZZF18 .

import (
	"bytes"
	"fmt"
	"testing"

	"github.com/parquet-go/parquet-go"
)

func TestZZF18PlainFallbackBufferIsReset(t *testing.T) {
	type Row struct {
		S string `parquet:"s,dict"`
	}
	mk := func(n int) []Row {
		rows := make([]Row, n)
		for i := range rows {
			rows[i].S = fmt.Sprintf("value-%06d", i)
		}
		return rows
	}
	opts := []parquet.WriterOption{parquet.DictionaryMaxBytes(1024), parquet.PageBufferSize(2048)}
	var fresh bytes.Buffer
	fw := parquet.NewGenericWriter[Row](&fresh, opts...)
	fw.Write(mk(610))
	if err := fw.Close(); err != nil {
		t.Fatal(err)
	}

	var abandoned, second bytes.Buffer
	w := parquet.NewGenericWriter[Row](&abandoned, opts...)
	w.Write(mk(600)) // falls back to PLAIN
	w.Write(mk(10))  // stays in the PLAIN buffer
	w.Reset(&second) // abandon the content
	w.Write(mk(610))
	if err := w.Close(); err != nil {
		t.Fatal(err)
	}
	f, err := parquet.OpenFile(bytes.NewReader(second.Bytes()), int64(second.Len()))
	if err != nil {
		t.Fatal(err)
	}
	if f.NumRows() != 610 || !bytes.Equal(fresh.Bytes(), second.Bytes()) {
		t.Fatalf("file written after Reset has %d rows (want 610) and equals the fresh writer's file: %v", f.NumRows(), bytes.Equal(fresh.Bytes(), second.Bytes()))
	}
}
