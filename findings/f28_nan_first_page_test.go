package parquet_test

// F28 (C05): the bounds of a page holding only NaN are NaN. Folded into the
// chunk statistics first, they stayed there for good because NaN compares
// equal to every value: a chunk whose first page is all NaN recorded min=NaN
// max=NaN although later pages hold ordinary values.
// Usage: copy into /repo as zz_f28_test.go; go test -run ZZF28 .

import (
	"bytes"
	"math"
	"testing"

	"github.com/parquet-go/parquet-go"
)

func TestZZF28NaNFirstPage(t *testing.T) {
	type Row struct {
		F float64 `parquet:"f"`
	}
	var buf bytes.Buffer
	w := parquet.NewGenericWriter[Row](&buf, parquet.PageBufferSize(1024))
	rows := []Row{}
	for i := 0; i < 2000; i++ {
		rows = append(rows, Row{math.NaN()})
	}
	for i := 0; i < 2000; i++ {
		rows = append(rows, Row{float64(i + 1)})
	}
	w.Write(rows)
	w.Close()
	f, _ := parquet.OpenFile(bytes.NewReader(buf.Bytes()), int64(buf.Len()))
	chunk := f.RowGroups()[0].ColumnChunks()[0].(*parquet.FileColumnChunk)
	min, max, ok := chunk.Bounds()
	index, _ := chunk.ColumnIndex()
	t.Logf("pages=%d chunk bounds ok=%v min=%v max=%v", index.NumPages(), ok, min, max)
	for p := 0; p < index.NumPages(); p++ {
		t.Logf("page %d min=%v max=%v", p, index.MinValue(p), index.MaxValue(p))
	}
	if ok && (math.IsNaN(min.Double()) || math.IsNaN(max.Double()) || min.Double() > 1 || max.Double() < 2000) {
		t.Errorf("chunk statistics min=%v max=%v do not bound the values 1..32", min, max)
	}
}
