package parquet_test

// F45 (C09): the key range of an input of a sorted merge is read from the
// column index of its column chunks. The chunks of a row group that is itself
// the result of a merge are the plain concatenation of its inputs' chunks, so
// their first and last pages say nothing about the range of the merged rows:
// merging a merged row group with another input declared them disjoint and
// concatenated them ("… 98 99 100 50 51 52 …").
// Usage: copy into /repo as zz_f45_test.go; go test -run ZZF45 .

import (
	"bytes"
	"io"
	"testing"

	"github.com/parquet-go/parquet-go"
)

func TestZZF45MergeOfAMergedRowGroup(t *testing.T) {
	type Row struct {
		K int64 `parquet:"k"`
	}
	sorting := parquet.SortingWriterConfig(parquet.SortingColumns(parquet.Ascending("k")))
	file := func(from, to int64) parquet.RowGroup {
		var buf bytes.Buffer
		w := parquet.NewGenericWriter[Row](&buf, sorting, parquet.PageBufferSize(64))
		for i := from; i <= to; i++ {
			w.Write([]Row{{i}})
		}
		if err := w.Close(); err != nil {
			t.Fatal(err)
		}
		f, err := parquet.OpenFile(bytes.NewReader(buf.Bytes()), int64(buf.Len()))
		if err != nil {
			t.Fatal(err)
		}
		return f.RowGroups()[0]
	}
	opt := parquet.SortingRowGroupConfig(parquet.SortingColumns(parquet.Ascending("k")))
	ab, err := parquet.MergeRowGroups([]parquet.RowGroup{file(0, 100), file(10, 20)}, opt)
	if err != nil {
		t.Fatal(err)
	}
	abc, err := parquet.MergeRowGroups([]parquet.RowGroup{ab, file(50, 60)}, opt)
	if err != nil {
		t.Fatal(err)
	}
	rows := abc.Rows()
	defer rows.Close()
	buf := make([]parquet.Row, 64)
	prev := int64(-1)
	total := 0
	for {
		n, err := rows.ReadRows(buf)
		for _, r := range buf[:n] {
			if k := r[0].Int64(); k < prev {
				t.Fatalf("row %d has key %d after key %d", total, k, prev)
			} else {
				prev = k
			}
			total++
		}
		if err == io.EOF {
			break
		}
		if err != nil {
			t.Fatal(err)
		}
	}
	if total != 101+11+11 {
		t.Fatalf("%d rows", total)
	}
}
