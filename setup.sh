#!/bin/sh
# builds the checker from vendored sources only (offline)
set -e
HERE=$(cd "$(dirname "$0")" && pwd)
. "$HERE/env.sh"
mkdir -p "$HERE/bin" "$HERE/evidence"
cd "$HERE/checker"
GOFLAGS=-mod=vendor go build -o "$HERE/bin/pqverif" .
echo "built $HERE/bin/pqverif with $(go version)"
