# sourced by /verif/check and setup.sh: offline Go environment for both the
# checker build and the `go list` driver that go/packages spawns on /repo.
unset GOWORK GOEXPERIMENT
MODCACHE=${GOMODCACHE:-/root/go/pkg/mod}
TC="$MODCACHE/golang.org/toolchain@v0.0.1-go1.24.9.linux-amd64/bin"
if [ -x "$TC/go" ]; then
  export PATH="$TC:$PATH" GOTOOLCHAIN=local
else
  export GOTOOLCHAIN=auto
  unset GOSUMDB
fi
export GOPROXY=off GOWORK=off GOFLAGS=-mod=mod
