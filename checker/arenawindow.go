package main

import (
	"go/token"
	"go/types"
	"strings"

	"golang.org/x/tools/go/ssa"
)

// T-ARENAWINDOW — a function takes a window `w := x.f[a:b]` of a slice field
// and then calls something that may move the field to a new backing array (a
// function that, itself or through static callees, stores a fresh `make` or
// `append` result into the same field — typically the function itself, through
// recursion on a nested value). From that call on the window and the field may
// denote different arrays: what is written through one is not seen through the
// other. While the window is still in use after such a call, the elements of
// the field are not touched through the field again (no `x.f[i]`, no
// `x.f[a:]` handed on); the only accepted re-read of the field is the
// truncation stored straight back into it (`x.f = x.f[:k]`) and len / cap.
func runArenaWindowRule(c *Ctx, rule string, min int) {
	p := c.P
	type fkey struct {
		st  *types.Struct
		idx int
	}
	fieldOf := func(v ssa.Value) (fkey, *ssa.FieldAddr, bool) {
		ld, ok := v.(*ssa.UnOp)
		if !ok || ld.Op != token.MUL {
			return fkey{}, nil, false
		}
		fa, ok := ld.X.(*ssa.FieldAddr)
		if !ok {
			return fkey{}, nil, false
		}
		pt, ok := fa.X.Type().Underlying().(*types.Pointer)
		if !ok {
			return fkey{}, nil, false
		}
		st, ok := pt.Elem().Underlying().(*types.Struct)
		if !ok {
			return fkey{}, nil, false
		}
		if _, ok := st.Field(fa.Field).Type().Underlying().(*types.Slice); !ok {
			return fkey{}, nil, false
		}
		return fkey{st, fa.Field}, fa, true
	}
	addrKey := func(a ssa.Value) (fkey, bool) {
		fa, ok := a.(*ssa.FieldAddr)
		if !ok {
			return fkey{}, false
		}
		pt, ok := fa.X.Type().Underlying().(*types.Pointer)
		if !ok {
			return fkey{}, false
		}
		st, ok := pt.Elem().Underlying().(*types.Struct)
		if !ok {
			return fkey{}, false
		}
		return fkey{st, fa.Field}, true
	}
	// fresh: the stored value is a new backing array (make, or append which may grow)
	var fresh func(v ssa.Value, seen map[ssa.Value]bool) bool
	fresh = func(v ssa.Value, seen map[ssa.Value]bool) bool {
		if seen[v] {
			return false
		}
		seen[v] = true
		switch x := v.(type) {
		case *ssa.MakeSlice:
			return true
		case *ssa.Call:
			if b, ok := x.Call.Value.(*ssa.Builtin); ok && b.Name() == "append" {
				return true
			}
		case *ssa.Phi:
			for _, e := range x.Edges {
				if fresh(e, seen) {
					return true
				}
			}
		case *ssa.Slice:
			return fresh(x.X, seen)
		case *ssa.ChangeType:
			return fresh(x.X, seen)
		}
		return false
	}
	funcs := p.ModuleSSAFuncs()
	// direct: functions that store a fresh slice into field k
	direct := map[fkey]map[*ssa.Function]bool{}
	callees := map[*ssa.Function][]*ssa.Function{}
	for _, fn := range funcs {
		if fn.Blocks == nil {
			continue
		}
		allInstrs(fn, false, func(_ *ssa.Function, ins ssa.Instruction) {
			switch x := ins.(type) {
			case *ssa.Store:
				if k, ok := addrKey(x.Addr); ok && fresh(x.Val, map[ssa.Value]bool{}) {
					if direct[k] == nil {
						direct[k] = map[*ssa.Function]bool{}
					}
					direct[k][fn] = true
				}
			case ssa.CallInstruction:
				if cal := x.Common().StaticCallee(); cal != nil {
					callees[fn] = append(callees[fn], cal)
				}
			}
		})
	}
	mayMove := func(k fkey, start *ssa.Function) bool {
		d := direct[k]
		if len(d) == 0 {
			return false
		}
		seen := map[*ssa.Function]bool{}
		var walk func(f *ssa.Function) bool
		walk = func(f *ssa.Function) bool {
			if seen[f] {
				return false
			}
			seen[f] = true
			if d[f] {
				return true
			}
			for _, g := range callees[f] {
				if walk(g) {
					return true
				}
			}
			return false
		}
		return walk(start)
	}
	after := func(a, b ssa.Instruction) bool { // b can execute after a
		if a.Block() == b.Block() {
			seenA := false
			for _, ins := range a.Block().Instrs {
				if ins == b && seenA {
					return true
				}
				if ins == a {
					seenA = true
				}
			}
		}
		for _, s := range a.Block().Succs {
			if reachableFrom(s)[b.Block()] {
				return true
			}
		}
		return false
	}
	n := 0
	for _, fn := range funcs {
		if fn.Origin() != nil || fn.Blocks == nil || fnPkgPath(fn) == "" || !strings.HasPrefix(fnPkgPath(fn), modPath) {
			continue
		}
		allInstrs(fn, false, func(_ *ssa.Function, ins ssa.Instruction) {
			win, ok := ins.(*ssa.Slice)
			if !ok || win.Referrers() == nil {
				return
			}
			k, wfa, ok := fieldOf(win.X)
			if !ok {
				return
			}
			// a window, not the truncation stored back into the field
			var uses []ssa.Instruction
			for _, r := range *win.Referrers() {
				if st, ok := r.(*ssa.Store); ok && st.Val == win {
					if k2, ok := addrKey(st.Addr); ok && k2 == k {
						continue
					}
				}
				if _, ok := r.(*ssa.DebugRef); ok {
					continue
				}
				uses = append(uses, r)
			}
			if len(uses) == 0 {
				return
			}
			// calls after the window that may move the field
			var movers []ssa.Instruction
			allCalls(fn, false, func(_ *ssa.Function, call ssa.CallInstruction) {
				cal := call.Common().StaticCallee()
				ci, ok := call.(ssa.Instruction)
				if cal == nil || !ok || !after(win, ci) || !mayMove(k, cal) {
					return
				}
				movers = append(movers, ci)
			})
			if len(movers) == 0 {
				return
			}
			n++
			var bad []string
			for _, m := range movers {
				live := false
				for _, u := range uses {
					if after(m, u) {
						live = true
					}
				}
				if !live {
					continue
				}
				allInstrs(fn, false, func(_ *ssa.Function, ins2 ssa.Instruction) {
					ld, ok := ins2.(*ssa.UnOp)
					if !ok || ld.Op != token.MUL || ld.Referrers() == nil || !after(m, ld) {
						return
					}
					k2, fa2, ok := fieldOf(ld)
					if !ok || k2 != k || fa2.X != wfa.X && !sameCell(fa2.X, wfa.X) {
						return
					}
					for _, r := range *ld.Referrers() {
						switch x := r.(type) {
						case *ssa.IndexAddr:
							bad = append(bad, p.Pos(x.Pos()))
						case *ssa.Slice:
							if x.Referrers() == nil {
								continue
							}
							for _, r2 := range *x.Referrers() {
								if st, ok := r2.(*ssa.Store); ok && st.Val == x {
									if k3, ok := addrKey(st.Addr); ok && k3 == k {
										continue
									}
								}
								if _, ok := r2.(*ssa.DebugRef); ok {
									continue
								}
								bad = append(bad, p.Pos(x.Pos()))
								break
							}
						case ssa.CallInstruction:
							if b, ok := x.Common().Value.(*ssa.Builtin); ok && (b.Name() == "len" || b.Name() == "cap") {
								continue
							}
							bad = append(bad, p.Pos(x.Pos()))
						case *ssa.Range:
							bad = append(bad, p.Pos(x.Pos()))
						}
					}
				})
			}
			bad = dedupeStrings(bad)
			fname := k.st.Field(k.idx).Name()
			c.Check(rule, FuncKey(fn)+": window of ."+fname+" and the field are not mixed after a call that may move it", win.Pos(), len(bad) == 0,
				FuncKey(fn)+" takes a window of ."+fname+" at "+p.Pos(win.Pos())+", calls a function that may store a new backing array into ."+fname+" (by make or append, possibly through recursion), keeps using the window, and touches the elements of the field itself again at "+strings.Join(bad, ", ")+": after the move the two denote different arrays, so entries written through one are missing (zero) when read through the other")
		})
	}
	c.Min(rule, min)
}

// sameCell: two loads of the same local cell or the same parameter.
func sameCell(a, b ssa.Value) bool {
	ua, ok1 := a.(*ssa.UnOp)
	ub, ok2 := b.(*ssa.UnOp)
	return ok1 && ok2 && ua.Op == token.MUL && ub.Op == token.MUL && ua.X == ub.X
}

func dedupeStrings(in []string) []string {
	seen := map[string]bool{}
	var out []string
	for _, s := range in {
		if !seen[s] {
			seen[s] = true
			out = append(out, s)
		}
	}
	return out
}
