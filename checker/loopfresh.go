package main

import (
	"go/types"

	"golang.org/x/tools/go/ssa"
)

// T-LOOPFRESH — an addressable reflect scratch (`reflect.New(t).Elem()`) that a
// loop refills on every iteration (`Field(i).Set(…)`) and hands to a function
// on every iteration is shared by everything those calls keep a pointer to.
// The deconstruct functions keep such pointers (values of fixed-size arrays are
// taken by address), so the scratch is created inside the loop, once per
// iteration. Reported: a call inside a loop whose reflect.Value argument was
// made by reflect.New outside that loop while the loop Sets into it.
func runLoopFreshRule(c *Ctx, rule string, min int) {
	p := c.P
	examined := 0
	var bad []string
	for _, fn := range p.ModuleSSAFuncs() {
		if fn.Origin() != nil || fn.Blocks == nil || fnPkgPath(fn) != modPath {
			continue
		}
		// reflect.New(...).Elem() values
		type scratch struct {
			val  ssa.Value
			made *ssa.Call
		}
		var scratches []scratch
		allCalls(fn, false, func(_ *ssa.Function, ci ssa.CallInstruction) {
			call, ok := ci.(*ssa.Call)
			if !ok || calleeName(call) != "reflect.(Value).Elem" {
				return
			}
			if mk, ok := call.Call.Args[0].(*ssa.Call); ok && calleeName(mk) == "reflect.New" {
				scratches = append(scratches, scratch{call, mk})
			}
		})
		for _, s := range scratches {
			examined++
			// is it Set into inside a loop that does not contain its creation?
			for _, b := range fn.Blocks {
				h := loopHeaderOf(b)
				if h == nil {
					continue
				}
				inLoop := func(x *ssa.BasicBlock) bool {
					return h.Dominates(x) && reachableAvoidingSet(x, nil, nil)[h]
				}
				if inLoop(s.made.Block()) {
					continue
				}
				sets, passes := false, false
				for _, ins := range b.Instrs {
					call, ok := ins.(*ssa.Call)
					if !ok {
						continue
					}
					if calleeName(call) == "reflect.(Value).Set" {
						// receiver derives from the scratch through Field(i)
						recv := call.Call.Args[0]
						for d := 0; d < 4; d++ {
							if recv == s.val {
								sets = true
								break
							}
							if c2, ok := recv.(*ssa.Call); ok && len(c2.Call.Args) > 0 {
								recv = c2.Call.Args[0]
								continue
							}
							break
						}
						continue
					}
					// handed to something that keeps Values: a function that also
					// receives the [][]Value columns of a row being deconstructed
					// (column buffers copy what they are given)
					keeps := false
					for _, a := range call.Call.Args {
						if sl, ok := a.Type().Underlying().(*types.Slice); ok {
							if sl2, ok := sl.Elem().Underlying().(*types.Slice); ok {
								if n := namedOf(sl2.Elem()); n != nil && n.Obj().Name() == "Value" {
									keeps = true
								}
							}
						}
					}
					for _, a := range call.Call.Args {
						if a == s.val && keeps {
							passes = true
						}
					}
				}
				if sets && passes {
					bad = append(bad, FuncKey(fn)+" refills at "+p.Pos(b.Instrs[0].Pos())+" the reflect scratch made at "+p.Pos(s.made.Pos())+" outside the loop")
				}
			}
		}
	}
	c.Stats[rule+".reflect_scratch_values"] = examined
	c.Check(rule, "reflect scratch refilled and handed out in a loop is made in that loop", 0, len(bad) == 0 && examined >= min, joinStrings(bad, "; ")+": every iteration hands out pointers into the same scratch (array values are taken by address), so all of them end up holding what the last iteration stored")
}

func joinStrings(xs []string, sep string) string {
	out := ""
	for i, x := range xs {
		if i > 0 {
			out += sep
		}
		out += x
	}
	return out
}
