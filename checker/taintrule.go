package main

import (
	"go/token"
	"go/types"
	"sort"
	"strings"

	"golang.org/x/tools/go/ssa"
)

// T-TAINT (C16.assign): the byte slice a parquet Value carries points into a
// page buffer the library owns. In the functions that fill a caller's Go
// value from a Value (they take a reflect.Value destination) that slice must
// be copied before it reaches the destination: a forward alias analysis
// follows the slice through the operations that preserve the backing array
// (slicing, conversions between slice/pointer types, unsafe.String /
// unsafe.Slice / unsafe.SliceData, the unsafecast package, reflect.ValueOf and
// the reflect.Value views, append with the slice as destination, module
// functions returning their argument) and reports when the alias
//
//   - is an argument of a reflect.Value setter (Set, SetBytes, SetString, …),
//   - is stored into memory that is not a local variable of the function, or
//   - is handed to a module function where one of the two happens.
//
// Everything not in the alias-preserving list (string(b), copyBytes, decoders
// from other modules, copy/append with the slice as source) is taken to copy.
// The rule decides aliasing of the destination, not what the bytes are.

type taintState struct {
	p        *Prog
	fn       *ssa.Function
	tainted  map[ssa.Value]bool
	cells    map[ssa.Value]bool // local allocs (and pointers to them) holding a tainted value
	problems []taintProblem
	depth    int
	retTaint bool
}

type taintProblem struct {
	pos  token.Pos
	what string
}

var taintSourceMethods = map[string]bool{"byteArray": true, "ByteArray": true, "Bytes": true, "string": true}

func isReflectValue(t types.Type) bool {
	n := namedOf(t)
	return n != nil && n.Obj().Pkg() != nil && n.Obj().Pkg().Path() == "reflect" && n.Obj().Name() == "Value"
}

func isValueByteSource(p *Prog, call ssa.CallInstruction) bool {
	o := calleeObj(call)
	if o == nil || !taintSourceMethods[o.Name()] {
		return false
	}
	sig, _ := o.Type().(*types.Signature)
	if sig == nil || sig.Recv() == nil {
		return false
	}
	n := namedOf(sig.Recv().Type())
	return n != nil && n.Obj().Pkg() == p.Root.Types && n.Obj().Name() == "Value"
}

func (t *taintState) problem(pos token.Pos, what string) {
	t.problems = append(t.problems, taintProblem{pos, what})
}

// run propagates from the seeds to a fixpoint.
func (t *taintState) run(seeds []ssa.Value) {
	work := append([]ssa.Value{}, seeds...)
	push := func(v ssa.Value) {
		if v != nil && !t.tainted[v] {
			t.tainted[v] = true
			work = append(work, v)
		}
	}
	for _, s := range seeds {
		t.tainted[s] = true
	}
	var pushCell func(a ssa.Value)
	pushCell = func(a ssa.Value) {
		if a == nil || t.cells[a] {
			return
		}
		t.cells[a] = true
		refs := a.Referrers()
		if refs == nil {
			return
		}
		for _, r := range *refs {
			switch x := r.(type) {
			case *ssa.UnOp:
				if x.Op == token.MUL && x.X == a {
					push(x) // load of the tainted cell (possibly through a reinterpreted pointer)
				}
			case *ssa.Convert:
				pushCell(x)
			case *ssa.ChangeType:
				pushCell(x)
			case *ssa.FieldAddr:
				pushCell(x)
			case *ssa.IndexAddr:
				pushCell(x)
			}
		}
	}
	for len(work) > 0 {
		v := work[len(work)-1]
		work = work[:len(work)-1]
		refs := v.Referrers()
		if refs == nil {
			continue
		}
		for _, r := range *refs {
			switch x := r.(type) {
			case *ssa.Phi, *ssa.Slice, *ssa.ChangeType, *ssa.MakeInterface, *ssa.TypeAssert, *ssa.ChangeInterface, *ssa.SliceToArrayPointer:
				push(x.(ssa.Value))
			case *ssa.Convert:
				// []byte -> string copies; everything else (named slice
				// types, unsafe.Pointer, uintptr) keeps the backing array
				if convCopies(x.X.Type(), x.Type()) || convCopies(x.Type(), x.X.Type()) {
					continue
				}
				push(x)
			case *ssa.Extract:
				push(x)
			case *ssa.Store:
				if x.Val != v {
					continue
				}
				root := addrRoot(x.Addr)
				if al, ok := root.(*ssa.Alloc); ok {
					pushCell(al)
					pushCell(x.Addr)
					continue
				}
				t.problem(x.Pos(), "is stored into "+describeValue(t.p, x.Addr)+", which outlives the call")
			case *ssa.Return:
				t.retTaint = true
			case ssa.CallInstruction:
				t.call(x, v, push)
			}
		}
	}
}

// convCopies: string <-> []byte/[]rune conversions allocate.
func convCopies(a, b types.Type) bool {
	bs, ok := a.Underlying().(*types.Basic)
	if !ok || bs.Info()&types.IsString == 0 {
		return false
	}
	_, isSlice := b.Underlying().(*types.Slice)
	return isSlice
}

func addrRoot(a ssa.Value) ssa.Value {
	for i := 0; i < 16; i++ {
		switch x := a.(type) {
		case *ssa.FieldAddr:
			a = x.X
		case *ssa.IndexAddr:
			a = x.X
		case *ssa.Convert:
			a = x.X
		case *ssa.ChangeType:
			a = x.X
		default:
			return a
		}
	}
	return a
}

func (t *taintState) call(call ssa.CallInstruction, v ssa.Value, push func(ssa.Value)) {
	cc := call.Common()
	res := call.Value() // nil for go/defer
	argIdx := -1
	for i, a := range cc.Args {
		if a == v {
			argIdx = i
		}
	}
	if b, ok := cc.Value.(*ssa.Builtin); ok {
		switch b.Name() {
		case "append":
			if argIdx == 0 && res != nil {
				push(res)
			}
		case "String", "Slice", "SliceData", "StringData", "Add":
			if res != nil {
				push(res)
			}
		}
		return
	}
	if cc.IsInvoke() {
		return
	}
	callee := cc.StaticCallee()
	if callee == nil {
		return
	}
	pk := ""
	if fnPkg(callee) != nil {
		pk = fnPkg(callee).Path()
	}
	name := fnName(callee)
	sig := callee.Signature
	switch {
	case strings.HasSuffix(pk, "/unsafecast"):
		if res != nil {
			push(res)
		}
		return
	case pk == "reflect" && sig.Recv() == nil:
		switch name {
		case "ValueOf", "Indirect":
			if res != nil {
				push(res)
			}
		case "Append", "AppendSlice":
			if argIdx >= 1 {
				t.problem(call.Pos(), "is appended to the destination with reflect."+name)
			}
		}
		return
	case pk == "reflect" && sig.Recv() != nil && isReflectValue(sig.Recv().Type()):
		// SSA passes the receiver as Args[0] for static method calls
		if argIdx == 0 {
			switch name {
			case "Slice", "Slice3", "Convert", "Bytes", "Interface", "Elem", "Index", "Addr", "Field":
				if res != nil {
					push(res)
				}
			}
			return
		}
		if strings.HasPrefix(name, "Set") {
			t.problem(call.Pos(), "is installed in the destination with reflect.Value."+name)
		}
		return
	}
	if !inModule(callee) || callee.Blocks == nil || argIdx < 0 || argIdx >= len(callee.Params) {
		return
	}
	if t.depth >= 4 {
		return
	}
	sub := &taintState{p: t.p, fn: callee, tainted: map[ssa.Value]bool{}, cells: map[ssa.Value]bool{}, depth: t.depth + 1}
	sub.run([]ssa.Value{callee.Params[argIdx]})
	for _, pr := range sub.problems {
		t.problem(call.Pos(), "is passed to "+FuncKey(callee)+", where it "+pr.what)
	}
	if sub.retTaint && res != nil {
		push(res)
	}
}

func runAssignTaintRule(c *Ctx, rule string, minFns int) {
	p := c.P
	n, nsrc := 0, 0
	for _, fn := range p.ModuleSSAFuncs() {
		if fn.Origin() != nil || fn.Pkg == nil || fn.Pkg.Pkg != p.Root.Types || fn.Parent() != nil {
			continue
		}
		hasDst := false
		for _, par := range fn.Params {
			if isReflectValue(par.Type()) {
				hasDst = true
			}
		}
		if !hasDst {
			continue
		}
		var seeds []ssa.Value
		allCalls(fn, false, func(_ *ssa.Function, call ssa.CallInstruction) {
			if isValueByteSource(p, call) && call.Value() != nil {
				seeds = append(seeds, call.Value())
			}
		})
		if len(seeds) == 0 {
			continue
		}
		n++
		nsrc += len(seeds)
		ts := &taintState{p: p, fn: fn, tainted: map[ssa.Value]bool{}, cells: map[ssa.Value]bool{}}
		ts.run(seeds)
		var msgs []string
		pos := fn.Pos()
		for _, pr := range ts.problems {
			msgs = append(msgs, pr.what+" ("+p.Pos(pr.pos)+")")
			pos = pr.pos
		}
		sort.Strings(msgs)
		c.Check(rule, FuncKey(fn)+" copies the value's bytes before they reach the destination", pos, len(msgs) == 0,
			"the byte slice of the parquet value, which points into a page buffer owned by the library, "+strings.Join(msgs, "; ")+": the caller's Go value changes when that buffer is recycled or overwritten by later reads")
	}
	c.Stats[rule+".assign_functions"] = n
	c.Stats[rule+".byte_sources"] = nsrc
	c.Min(rule, minFns)
	if n < minFns {
		c.Note("%s: only %d functions fill a reflect.Value from a Value's bytes", rule, n)
	}
}

// ---------------------------------------------------------------------------
// C16.inplace: an AssignValue implementation replaces what the destination
// holds (Set, SetBytes, SetString, …); it never writes *through* what the
// destination already holds. Views of the destination obtained with
// reflect.Value.Bytes/Slice/Index/Elem/… share the backing array or pointee
// the caller may have retained from an earlier Read, so they must not be the
// target of copy, reflect.Copy, an element store, a Set* call or a nested
// AssignValue. The one exception is a destination of kind Array, whose
// elements are stored inline in the destination itself: writes dominated by
// the true edge of `dst.Kind() == reflect.Array` are accepted.

var reflectViewMethods = map[string]bool{"Bytes": true, "Slice": true, "Slice3": true, "Index": true, "Elem": true, "Field": true, "UnsafePointer": true, "Pointer": true, "Addr": true, "UnsafeAddr": true}

// packages whose decoders reuse the storage of the value they decode into
var mergingDecoderPkgs = map[string]bool{"encoding/json": true, "encoding/xml": true, "encoding/gob": true, "encoding/binary": true, "encoding/asn1": true}

func runAssignInPlaceRule(c *Ctx, rule string, minFns int) {
	p := c.P
	n := 0
	for _, fn := range p.ModuleSSAFuncs() {
		if fn.Origin() != nil || fn.Pkg == nil || fn.Pkg.Pkg != p.Root.Types || fn.Parent() != nil || fn.Name() != "AssignValue" || fn.Signature.Recv() == nil || len(fn.Blocks) == 0 {
			continue
		}
		var dst *ssa.Parameter
		for _, par := range fn.Params {
			if isReflectValue(par.Type()) {
				dst = par
			}
		}
		if dst == nil {
			continue
		}
		n++
		probs := inPlaceWrites(p, fn, dst, 0)
		sort.Strings(probs)
		pos := fn.Pos()
		c.Check(rule, FuncKey(fn)+" replaces the destination instead of writing through what it already holds", pos, len(probs) == 0,
			strings.Join(probs, "; ")+": a slice or pointer the caller retained from an earlier Read shares that storage and is overwritten by the next Read")
	}
	c.Stats[rule+".assign_functions"] = n
	c.Min(rule, minFns)
}

func inPlaceWrites(p *Prog, fn *ssa.Function, dst *ssa.Parameter, depth int) []string {
	views := map[ssa.Value]bool{}
	var work []ssa.Value
	push := func(v ssa.Value) {
		if v != nil && !views[v] {
			views[v] = true
			work = append(work, v)
		}
	}
	isRVMethod := func(call ssa.CallInstruction) (string, bool) {
		cc := call.Common()
		if cc.IsInvoke() {
			return "", false
		}
		callee := cc.StaticCallee()
		if callee == nil || callee.Signature.Recv() == nil || !isReflectValue(callee.Signature.Recv().Type()) {
			return "", false
		}
		return fnName(callee), true
	}
	// dst may be spilled to a local (value receiver methods take its address)
	aliases := map[ssa.Value]bool{dst: true}
	if refs := dst.Referrers(); refs != nil {
		for _, r := range *refs {
			if st, ok := r.(*ssa.Store); ok && st.Val == dst {
				if al, ok := st.Addr.(*ssa.Alloc); ok {
					for _, lr := range *al.Referrers() {
						if u, ok := lr.(*ssa.UnOp); ok && u.Op == token.MUL {
							aliases[u] = true
						}
					}
				}
			}
		}
	}
	isDst := func(v ssa.Value) bool { return aliases[v] }
	var probs []string
	arrayOnly := arrayKindBlocks(fn, isDst)
	report := func(ins ssa.Instruction, what string) {
		if arrayOnly[ins.Block()] {
			return
		}
		probs = append(probs, what+" ("+p.Pos(ins.Pos())+")")
	}
	scan := func(v ssa.Value, isRoot bool) {
		refs := v.Referrers()
		if refs == nil {
			return
		}
		for _, r := range *refs {
			switch x := r.(type) {
			case *ssa.Phi, *ssa.Slice, *ssa.ChangeType, *ssa.Convert, *ssa.SliceToArrayPointer, *ssa.MakeInterface:
				if !isRoot {
					push(x.(ssa.Value))
				}
			case *ssa.IndexAddr:
				if !isRoot && x.X == v {
					push(x)
				}
			case *ssa.Store:
				if !isRoot && x.Addr == v {
					report(x, "stores into an element of a view of the destination")
				}
			case ssa.CallInstruction:
				cc := x.Common()
				if b, ok := cc.Value.(*ssa.Builtin); ok {
					if b.Name() == "copy" && !isRoot && cc.Args[0] == v {
						report(x, "copy() writes into a view of the destination")
					}
					if (b.Name() == "Slice" || b.Name() == "Add") && !isRoot && x.Value() != nil {
						push(x.Value())
					}
					continue
				}
				if name, ok := isRVMethod(x); ok && len(cc.Args) > 0 && cc.Args[0] == v {
					if reflectViewMethods[name] && x.Value() != nil {
						push(x.Value())
					} else if name == "Interface" && !isRoot && x.Value() != nil {
						// the pointer obtained by Addr() wrapped for a decoder
						push(x.Value())
					} else if strings.HasPrefix(name, "Set") && !isRoot {
						report(x, "reflect.Value."+name+" is applied to a view of the destination")
					}
					continue
				}
				if callee := cc.StaticCallee(); callee != nil && fnPkg(callee) != nil && fnPkg(callee).Path() == "reflect" && fnName(callee) == "Copy" && len(cc.Args) == 2 && cc.Args[0] == v {
					report(x, "reflect.Copy writes into the destination's existing elements")
					continue
				}
				if isRoot {
					continue
				}
				// a decoder of the standard library merges into what it is given
				// (encoding/json reuses slices, keeps maps and untouched fields)
				if callee := cc.StaticCallee(); callee != nil && fnPkg(callee) != nil && mergingDecoderPkgs[fnPkg(callee).Path()] {
					switch fnName(callee) {
					case "Unmarshal", "Decode", "DecodeValue", "DecodeElement", "Read":
						report(x, fnPkg(callee).Path()+"."+fnName(callee)+" decodes into a view of the destination, reusing the slices, maps and fields it finds there")
						continue
					}
				}
				// a view handed on as the destination of another assignment
				nm := ""
				if cc.IsInvoke() {
					nm = cc.Method.Name()
				} else if callee := cc.StaticCallee(); callee != nil {
					nm = fnName(callee)
				}
				if nm == "AssignValue" {
					report(x, "a view of the destination is passed to AssignValue")
				}
			}
		}
	}
	for a := range aliases {
		scan(a, true)
	}
	for len(work) > 0 {
		v := work[len(work)-1]
		work = work[:len(work)-1]
		scan(v, false)
	}
	return probs
}

// arrayKindBlocks: the blocks that execute only when Kind() of the
// destination equals reflect.Array.
func arrayKindBlocks(fn *ssa.Function, isDst func(ssa.Value) bool) map[*ssa.BasicBlock]bool {
	out := map[*ssa.BasicBlock]bool{}
	isArrayTest := func(cond ssa.Value) bool {
		b, ok := cond.(*ssa.BinOp)
		if !ok || b.Op != token.EQL {
			return false
		}
		kindCall := func(v ssa.Value) bool {
			call, ok := v.(*ssa.Call)
			if !ok {
				return false
			}
			callee := call.Call.StaticCallee()
			return callee != nil && fnName(callee) == "Kind" && callee.Signature.Recv() != nil && isReflectValue(callee.Signature.Recv().Type()) && len(call.Call.Args) == 1 && isDst(call.Call.Args[0])
		}
		isArrayConst := func(v ssa.Value) bool {
			k, ok := v.(*ssa.Const)
			if !ok || k.Value == nil {
				return false
			}
			n := namedOf(k.Type())
			return n != nil && n.Obj().Name() == "Kind" && n.Obj().Pkg().Path() == "reflect" && k.Value.ExactString() == "17"
		}
		return (kindCall(b.X) && isArrayConst(b.Y)) || (kindCall(b.Y) && isArrayConst(b.X))
	}
	var heads []*ssa.BasicBlock
	for _, b := range fn.Blocks {
		if len(b.Preds) == 0 {
			continue
		}
		all := true
		for _, pr := range b.Preds {
			iff, ok := pr.Instrs[len(pr.Instrs)-1].(*ssa.If)
			if !ok || pr.Succs[0] != b || pr.Succs[1] == b || !isArrayTest(iff.Cond) {
				all = false
			}
		}
		if all {
			heads = append(heads, b)
		}
	}
	for _, h := range heads {
		for _, b := range fn.Blocks {
			if h.Dominates(b) {
				out[b] = true
			}
		}
	}
	return out
}

// ---------------------------------------------------------------------------
// C16.destreads: the functions that rebuild a Go value from a row
// (reconstructFuncOf*) never let what the destination already holds influence
// the result: on the destination reflect.Value they call setters and type
// queries only. Reading it (IsNil, Len, Index, MapIndex, Interface, …) is how
// storage of an earlier Read gets reused — a map the caller kept receives the
// entries of the next row (finding F31). Elem() is accepted right after the
// destination was Set to a fresh value in the same block.

var destReadMethods = map[string]bool{"IsNil": true, "IsZero": true, "Len": true, "Cap": true, "Index": true, "MapIndex": true, "MapKeys": true, "MapRange": true,
	"Interface": true, "Bytes": true, "Pointer": true, "UnsafePointer": true, "String": true, "Int": true, "Uint": true, "Float": true, "Bool": true, "Slice": true, "Slice3": true}

func runDestReadsRule(c *Ctx, rule string, min int) {
	p := c.P
	n := 0
	for _, fn := range p.ModuleSSAFuncs() {
		if fn.Origin() != nil || fn.Blocks == nil || fn.Parent() == nil {
			continue
		}
		root := fn
		for root.Parent() != nil {
			root = root.Parent()
		}
		if !strings.HasPrefix(root.Name(), "reconstructFuncOf") || fn.Pkg == nil || fn.Pkg.Pkg != p.Root.Types {
			continue
		}
		for _, par := range fn.Params {
			if !isReflectValue(par.Type()) {
				continue
			}
			n++
			var bad []string
			for _, a := range destAliases(par) {
				if a.Referrers() == nil {
					continue
				}
				for _, r := range *a.Referrers() {
					call, ok := r.(ssa.CallInstruction)
					if !ok {
						continue
					}
					cc := call.Common()
					callee := cc.StaticCallee()
					if callee == nil || callee.Signature.Recv() == nil || len(cc.Args) == 0 || cc.Args[0] != a || !isReflectValue(callee.Signature.Recv().Type()) {
						continue
					}
					name := fnName(callee)
					switch {
					case destReadMethods[name]:
						bad = append(bad, name+"() at "+p.Pos(call.Pos()))
					case name == "Elem":
						// fresh only if a Set on the destination precedes in the same block
						fresh := false
						for _, ins := range call.Block().Instrs {
							if ins == call.(ssa.Instruction) {
								break
							}
							if sc, ok := ins.(ssa.CallInstruction); ok {
								if sf := sc.Common().StaticCallee(); sf != nil && fnName(sf) == "Set" && len(sc.Common().Args) > 0 {
									for _, al := range destAliases(par) {
										if sc.Common().Args[0] == al {
											fresh = true
										}
									}
								}
							}
						}
						if !fresh {
							bad = append(bad, "Elem() without a preceding Set at "+p.Pos(call.Pos()))
						}
					}
				}
			}
			sort.Strings(bad)
			c.Check(rule, FuncKey(fn)+" does not read what the destination already holds", fn.Pos(), len(bad) == 0,
				FuncKey(fn)+" calls "+strings.Join(bad, ", ")+" on the destination value: what an earlier Read left there (a map, slice or pointer the caller may have kept) decides how this row is rebuilt, typically by reusing that storage, so values already handed to the caller change and stale entries leak into the new row")
		}
	}
	c.Stats[rule+".reconstruct_closures"] = n
	c.Min(rule, min)
}
