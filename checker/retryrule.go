package main

import (
	"sort"
	"strings"

	"golang.org/x/tools/go/ssa"
)

// T-RETRY: an error edge from which every path leads back to the call that
// failed is an unbounded retry: when the failure is not transient (invalid
// input, not "buffer too small") the function never returns. Some path from
// the failure edge must leave the loop (return or panic) without passing
// through the failing call again.

func runRetryRule(c *Ctx, rule string, scope func(fn *ssa.Function) bool, min int) {
	p := c.P
	n, loops := 0, 0
	for _, fn := range p.ModuleSSAFuncs() {
		if fn.Origin() != nil || fn.Blocks == nil || !scope(fn) {
			continue
		}
		inLoop := loopBlocks(fn)
		var bad []string
		examined := 0
		allCalls(fn, false, func(_ *ssa.Function, call ssa.CallInstruction) {
			if !inLoop[call.Block()] {
				return
			}
			edges := errFailureEdges(call)
			if len(edges) == 0 {
				return
			}
			examined++
			for e := range edges {
				// blocks reachable from the failure edge without re-entering the failing call's block
				avoid := map[*ssa.BasicBlock]bool{call.Block(): true}
				if e[1] == call.Block() {
					bad = append(bad, calleeName(call)+" at "+p.Pos(call.Pos()))
					continue
				}
				reach := reachableAvoidingSet(e[1], avoid, nil)
				exits := false
				for b := range reach {
					if len(b.Instrs) == 0 {
						continue
					}
					switch b.Instrs[len(b.Instrs)-1].(type) {
					case *ssa.Return, *ssa.Panic:
						exits = true
					}
				}
				if !exits {
					bad = append(bad, calleeName(call)+" at "+p.Pos(call.Pos()))
				}
			}
		})
		if examined == 0 {
			continue
		}
		n++
		loops += examined
		sort.Strings(bad)
		c.Check(rule, FuncKey(fn)+": a failing call in a loop is not retried without bound", fn.Pos(), len(bad) == 0,
			"in "+FuncKey(fn)+" every path from the failure of "+strings.Join(bad, ", ")+" leads back to the same call: when the failure is not transient (invalid input rather than a buffer that is too small) the function never returns and keeps growing its buffers")
	}
	c.Stats[rule+".functions_with_fallible_calls_in_loops"] = n
	c.Stats[rule+".fallible_calls_in_loops"] = loops
	c.Min(rule, min)
}
