package main

import (
	"sort"
	"strings"

	"golang.org/x/tools/go/ssa"
)

// T-RETRY: an error edge from which every path leads back to the call that
// failed is an unbounded retry: when the failure is not transient (invalid
// input, not "buffer too small") the function never returns. Some path from
// the failure edge must leave the loop (return or panic) without passing
// through the failing call again.

func runRetryRule(c *Ctx, rule string, scope func(fn *ssa.Function) bool, min int) {
	p := c.P
	n, loops := 0, 0
	for _, fn := range p.ModuleSSAFuncs() {
		if fn.Origin() != nil || fn.Blocks == nil || !scope(fn) {
			continue
		}
		inLoop := loopBlocks(fn)
		var bad []string
		examined := 0
		allCalls(fn, false, func(_ *ssa.Function, call ssa.CallInstruction) {
			if !inLoop[call.Block()] {
				return
			}
			edges := errFailureEdges(call)
			if len(edges) == 0 {
				return
			}
			examined++
			for e := range edges {
				// blocks reachable from the failure edge without re-entering the failing call's block
				avoid := map[*ssa.BasicBlock]bool{call.Block(): true}
				if e[1] == call.Block() {
					bad = append(bad, calleeName(call)+" at "+p.Pos(call.Pos()))
					continue
				}
				reach := reachableAvoidingSet(e[1], avoid, nil)
				exits := false
				for b := range reach {
					if len(b.Instrs) == 0 {
						continue
					}
					switch b.Instrs[len(b.Instrs)-1].(type) {
					case *ssa.Return, *ssa.Panic:
						exits = true
					}
				}
				if !exits {
					bad = append(bad, calleeName(call)+" at "+p.Pos(call.Pos()))
				}
				// the test that gives up measures the buffer that failed, not the
				// one just allocated for the next attempt
				for b := range reach {
					if len(b.Instrs) == 0 {
						continue
					}
					ifi, ok := b.Instrs[len(b.Instrs)-1].(*ssa.If)
					if !ok {
						continue
					}
					// … nor the size computed for it
					if bo, ok := ifi.Cond.(*ssa.BinOp); ok {
						for _, side := range []ssa.Value{bo.X, bo.Y} {
							for {
								if cv, ok := side.(*ssa.Convert); ok {
									side = cv.X
									continue
								}
								break
							}
							if _, isConst := side.(*ssa.Const); isConst || side.Referrers() == nil {
								continue
							}
							for _, r := range *side.Referrers() {
								mk, isMake := r.(*ssa.MakeSlice)
								if !isMake || !reach[mk.Block()] || (mk.Len != side && mk.Cap != side) {
									continue
								}
								if flowsToArgOf(mk, call) {
									c.Fail(rule, FuncKey(fn)+": the give-up test of a grow-and-retry loop measures the buffer that failed", ifi.Cond.Pos(),
										"in %s the test that abandons the retry of %s compares the size computed for the next attempt (%s) instead of the size of the buffer that just failed: the largest size the bound allows is never tried, and valid inputs that need it fail to decode", FuncKey(fn), calleeName(call), p.Pos(mk.Pos()))
								}
							}
						}
					}
					for _, m := range measuredSlices(ifi.Cond, 0) {
						mk, isMake := m.(*ssa.MakeSlice)
						if !isMake || !reach[mk.Block()] {
							continue
						}
						if flowsToArgOf(mk, call) {
							c.Fail(rule, FuncKey(fn)+": the give-up test of a grow-and-retry loop measures the buffer that failed", ifi.Cond.Pos(),
								"in %s the test that abandons the retry of %s measures the buffer allocated for the next attempt (%s) instead of the one that just failed: the largest size the bound allows is never tried, and valid inputs that need it fail to decode", FuncKey(fn), calleeName(call), p.Pos(mk.Pos()))
						}
					}
				}
			}
		})
		if examined == 0 {
			continue
		}
		n++
		loops += examined
		sort.Strings(bad)
		c.Check(rule, FuncKey(fn)+": a failing call in a loop is not retried without bound", fn.Pos(), len(bad) == 0,
			"in "+FuncKey(fn)+" every path from the failure of "+strings.Join(bad, ", ")+" leads back to the same call: when the failure is not transient (invalid input rather than a buffer that is too small) the function never returns and keeps growing its buffers")
	}
	c.Stats[rule+".functions_with_fallible_calls_in_loops"] = n
	c.Stats[rule+".fallible_calls_in_loops"] = loops
	c.Min(rule, min)
}

// measuredSlices: the slices whose len or cap the condition reads.
func measuredSlices(v ssa.Value, depth int) []ssa.Value {
	if v == nil || depth > 6 {
		return nil
	}
	switch x := v.(type) {
	case *ssa.BinOp:
		return append(measuredSlices(x.X, depth+1), measuredSlices(x.Y, depth+1)...)
	case *ssa.UnOp:
		return measuredSlices(x.X, depth+1)
	case *ssa.Convert:
		return measuredSlices(x.X, depth+1)
	case *ssa.Call:
		if bi, ok := x.Call.Value.(*ssa.Builtin); ok && (bi.Name() == "len" || bi.Name() == "cap") {
			return []ssa.Value{x.Call.Args[0]}
		}
	}
	return nil
}

// flowsToArgOf: v reaches an argument of the call through phis and re-slices.
func flowsToArgOf(v ssa.Value, call ssa.CallInstruction) bool {
	seen := map[ssa.Value]bool{}
	var walk func(x ssa.Value) bool
	walk = func(x ssa.Value) bool {
		if seen[x] || x.Referrers() == nil {
			return false
		}
		seen[x] = true
		for _, r := range *x.Referrers() {
			switch y := r.(type) {
			case *ssa.Phi:
				if walk(y) {
					return true
				}
			case *ssa.Slice:
				if y.X == x && walk(y) {
					return true
				}
			case ssa.CallInstruction:
				if y == call {
					return true
				}
			}
		}
		return false
	}
	return walk(v)
}
