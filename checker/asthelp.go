package main

import (
	"go/ast"
	"go/constant"
	"go/token"
	"go/types"
	"sort"
	"strings"

	"golang.org/x/tools/go/packages"
	"golang.org/x/tools/go/types/typeutil"
)

// FuncSyntax bundles a function declaration with its package.
type FuncSyntax struct {
	Obj  *types.Func
	Decl *ast.FuncDecl
	Pkg  *packages.Package
}

func (p *Prog) Syntax(key string) *FuncSyntax {
	obj := p.LookupFunc(key)
	if obj == nil {
		return nil
	}
	fd := p.Decl(obj)
	if fd == nil || fd.Body == nil {
		return nil
	}
	return &FuncSyntax{Obj: obj, Decl: fd, Pkg: p.pkgOfDecl[fd]}
}

func (p *Prog) SyntaxOf(obj *types.Func) *FuncSyntax {
	fd := p.Decl(obj)
	if fd == nil || fd.Body == nil {
		return nil
	}
	return &FuncSyntax{Obj: obj.Origin(), Decl: fd, Pkg: p.pkgOfDecl[fd]}
}

func (f *FuncSyntax) Info() *types.Info { return f.Pkg.TypesInfo }

// Callee resolves the called function or method of a call expression.
func (f *FuncSyntax) Callee(call *ast.CallExpr) *types.Func {
	fn, _ := typeutil.Callee(f.Pkg.TypesInfo, call).(*types.Func)
	if fn != nil {
		return fn.Origin()
	}
	return nil
}

// Calls lists the call expressions in node in source order.
func (f *FuncSyntax) Calls(node ast.Node) []*ast.CallExpr {
	var out []*ast.CallExpr
	ast.Inspect(node, func(n ast.Node) bool {
		if c, ok := n.(*ast.CallExpr); ok {
			out = append(out, c)
		}
		return true
	})
	return out
}

// CallsTo lists the calls in node whose resolved callee has the given key
// (ObjKey form) or, if key starts with "~", whose callee name equals the rest.
func (f *FuncSyntax) CallsTo(node ast.Node, key string) []*ast.CallExpr {
	var out []*ast.CallExpr
	for _, c := range f.Calls(node) {
		fn := f.Callee(c)
		if fn == nil {
			continue
		}
		if strings.HasPrefix(key, "~") {
			if fn.Name() == key[1:] {
				out = append(out, c)
			}
		} else if ObjKey(fn) == key {
			out = append(out, c)
		}
	}
	return out
}

// FieldOf resolves a selector expression to the struct field it denotes.
func (f *FuncSyntax) FieldOf(e ast.Expr) *types.Var {
	e = ast.Unparen(e)
	sel, ok := e.(*ast.SelectorExpr)
	if !ok {
		return nil
	}
	if s := f.Pkg.TypesInfo.Selections[sel]; s != nil && s.Kind() == types.FieldVal {
		if v, ok := s.Obj().(*types.Var); ok {
			return v.Origin()
		}
	}
	return nil
}

// ObjOf resolves an identifier or selector to its object.
func (f *FuncSyntax) ObjOf(e ast.Expr) types.Object {
	e = ast.Unparen(e)
	switch x := e.(type) {
	case *ast.Ident:
		return f.Pkg.TypesInfo.ObjectOf(x)
	case *ast.SelectorExpr:
		return f.Pkg.TypesInfo.ObjectOf(x.Sel)
	}
	return nil
}

// ConstOf returns the constant value of e, if any.
func (f *FuncSyntax) ConstOf(e ast.Expr) constant.Value {
	if tv, ok := f.Pkg.TypesInfo.Types[e]; ok {
		return tv.Value
	}
	return nil
}

func (f *FuncSyntax) TypeOf(e ast.Expr) types.Type { return f.Pkg.TypesInfo.TypeOf(e) }

// enumConsts lists the package-level constants of named type t declared in
// t's package, sorted by value.
func enumConsts(t *types.Named) []*types.Const {
	var out []*types.Const
	pkg := t.Obj().Pkg()
	if pkg == nil {
		return nil
	}
	scope := pkg.Scope()
	for _, n := range scope.Names() {
		c, ok := scope.Lookup(n).(*types.Const)
		if ok && types.Identical(c.Type(), t) {
			out = append(out, c)
		}
	}
	sort.Slice(out, func(i, j int) bool {
		return constant.Compare(out[i].Val(), token.LSS, out[j].Val())
	})
	return out
}

// switchCases describes one switch statement over an enum tag.
type switchInfo struct {
	Stmt       *ast.SwitchStmt
	TagType    *types.Named
	Cases      map[string]*ast.CaseClause // constant name -> clause
	CaseVals   map[string]bool            // exact constant value string
	Default    *ast.CaseClause
	NonConst   bool
}

// enumSwitches finds the switch statements in node whose tag is of a named
// (enum-like) type and collects their case constants.
func (f *FuncSyntax) enumSwitches(node ast.Node) []*switchInfo {
	var out []*switchInfo
	ast.Inspect(node, func(n ast.Node) bool {
		sw, ok := n.(*ast.SwitchStmt)
		if !ok || sw.Tag == nil {
			return true
		}
		named := namedOf(f.TypeOf(sw.Tag))
		if named == nil {
			return true
		}
		si := &switchInfo{Stmt: sw, TagType: named, Cases: map[string]*ast.CaseClause{}, CaseVals: map[string]bool{}}
		for _, s := range sw.Body.List {
			cc := s.(*ast.CaseClause)
			if cc.List == nil {
				si.Default = cc
				continue
			}
			for _, e := range cc.List {
				if v := f.ConstOf(e); v != nil {
					si.CaseVals[v.ExactString()] = true
					if c, ok := f.ObjOf(e).(*types.Const); ok {
						si.Cases[c.Name()] = cc
					} else {
						si.Cases[v.ExactString()] = cc
					}
				} else {
					si.NonConst = true
				}
			}
		}
		out = append(out, si)
		return true
	})
	return out
}

// clauseTerminatesAbnormally reports whether a case clause ends in
// return-with-non-nil-error-ish / panic. Used for `default` arms of
// exhaustiveness rules: accepted when the arm cannot fall out of the switch
// silently.
func (f *FuncSyntax) clauseErrorsOrPanics(cc *ast.CaseClause) bool {
	if cc == nil || len(cc.Body) == 0 {
		return false
	}
	last := cc.Body[len(cc.Body)-1]
	switch s := last.(type) {
	case *ast.ReturnStmt:
		return true && len(s.Results) >= 0
	case *ast.ExprStmt:
		if c, ok := s.X.(*ast.CallExpr); ok {
			if id, ok := c.Fun.(*ast.Ident); ok && id.Name == "panic" {
				return true
			}
		}
	}
	return false
}

// exprString renders an expression compactly (types.ExprString elides
// literals of composite values, fine for diagnostics).
func exprString(e ast.Expr) string { return types.ExprString(e) }

// enclosingFuncDecl finds the function declaration in pkg containing pos.
func (p *Prog) enclosingFuncDecl(pkg *packages.Package, pos token.Pos) *ast.FuncDecl {
	for _, file := range pkg.Syntax {
		if file.Pos() <= pos && pos <= file.End() {
			for _, d := range file.Decls {
				if fd, ok := d.(*ast.FuncDecl); ok && fd.Pos() <= pos && pos <= fd.End() {
					return fd
				}
			}
		}
	}
	return nil
}

// pathEnclosing returns the chain of nodes from root down to the node
// containing [pos] (innermost last).
func pathEnclosing(root ast.Node, pos token.Pos) []ast.Node {
	var path []ast.Node
	ast.Inspect(root, func(n ast.Node) bool {
		if n == nil {
			return false
		}
		if n.Pos() <= pos && pos < n.End() {
			path = append(path, n)
			return true
		}
		return false
	})
	return path
}
