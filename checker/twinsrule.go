package main

import (
	"go/types"
	"sort"

	"golang.org/x/tools/go/ssa"
)

// T-TWINBRANCH — a function that records a struct either by appending a
// composite literal `T{f: a, g: b}` to a list or, when the list has spare
// capacity, by assigning the same fields of the recycled element, describes
// the same record twice. For every field set on both sides from a value that
// was computed before the two branches part (a value that dominates both
// stores), both sides use the same value: a recycled element that receives
// another variable of the same type is only seen by writers that are reused.

type twinSide struct {
	vals map[*types.Var]ssa.Value
	at   map[*types.Var]ssa.Instruction
}

func runTwinBranchRule(c *Ctx, rule string, min int) {
	p := c.P
	n := 0
	for _, fn := range p.ModuleSSAFuncs() {
		if fn.Origin() != nil || fn.Blocks == nil || fnPkgPath(fn) != modPath {
			continue
		}
		// literal side: allocs of [1]T used as the variadic argument of append
		lit := map[*types.Named]*twinSide{}
		// reuse side: stores to fields of a *T that is the address of an element of a slice
		reuse := map[*types.Named]*twinSide{}
		side := func(m map[*types.Named]*twinSide, t *types.Named) *twinSide {
			if m[t] == nil {
				m[t] = &twinSide{vals: map[*types.Var]ssa.Value{}, at: map[*types.Var]ssa.Instruction{}}
			}
			return m[t]
		}
		for _, b := range fn.Blocks {
			for _, ins := range b.Instrs {
				st, ok := ins.(*ssa.Store)
				if !ok {
					continue
				}
				fa, ok := st.Addr.(*ssa.FieldAddr)
				if !ok {
					continue
				}
				stt := structOf(fa.X.Type())
				named := namedOf(fa.X.Type())
				if stt == nil || named == nil {
					continue
				}
				f := stt.Field(fa.Field).Origin()
				switch x := fa.X.(type) {
				case *ssa.IndexAddr:
					// &array[0].f of a variadic array, or &slice[i].f
					if al, ok := x.X.(*ssa.Alloc); ok {
						if _, isArr := al.Type().Underlying().(*types.Pointer).Elem().Underlying().(*types.Array); isArr {
							usedByAppend := false
							for _, r := range *al.Referrers() {
								if sl, ok := r.(*ssa.Slice); ok {
									for _, rr := range *sl.Referrers() {
										if call, ok := rr.(*ssa.Call); ok {
											if bi, isB := call.Call.Value.(*ssa.Builtin); isB && bi.Name() == "append" {
												usedByAppend = true
											}
										}
									}
								}
							}
							if usedByAppend {
								s := side(lit, named)
								s.vals[f], s.at[f] = st.Val, st
							}
						}
						continue
					}
					s := side(reuse, named)
					s.vals[f], s.at[f] = st.Val, st
				case *ssa.Alloc:
					// a composite literal built in a local and copied into the
					// variadic array of an append
					toAppend := false
					for _, r := range *x.Referrers() {
						ld, ok := r.(*ssa.UnOp)
						if !ok {
							continue
						}
						for _, rr := range *ld.Referrers() {
							st2, ok := rr.(*ssa.Store)
							if !ok {
								continue
							}
							ia, ok := st2.Addr.(*ssa.IndexAddr)
							if !ok {
								continue
							}
							arr, ok := ia.X.(*ssa.Alloc)
							if !ok {
								continue
							}
							for _, r3 := range *arr.Referrers() {
								if sl, ok := r3.(*ssa.Slice); ok {
									for _, r4 := range *sl.Referrers() {
										if call, ok := r4.(*ssa.Call); ok {
											if bi, isB := call.Call.Value.(*ssa.Builtin); isB && bi.Name() == "append" {
												toAppend = true
											}
										}
									}
								}
							}
						}
					}
					if toAppend {
						s := side(lit, named)
						s.vals[f], s.at[f] = st.Val, st
					}
				case *ssa.Phi, *ssa.UnOp:
					// a pointer variable holding the address of the recycled element
					s := side(reuse, named)
					if _, dup := s.vals[f]; !dup {
						s.vals[f], s.at[f] = st.Val, st
					}
				}
			}
		}
		var names []*types.Named
		for t := range lit {
			if reuse[t] != nil {
				names = append(names, t)
			}
		}
		sort.Slice(names, func(i, j int) bool { return names[i].Obj().Name() < names[j].Obj().Name() })
		for _, t := range names {
			l, r := lit[t], reuse[t]
			var fields []*types.Var
			for f := range l.vals {
				if _, ok := r.vals[f]; ok {
					fields = append(fields, f)
				}
			}
			sort.Slice(fields, func(i, j int) bool { return fields[i].Name() < fields[j].Name() })
			for _, f := range fields {
				lv, rv := l.vals[f], r.vals[f]
				// only values computed before the branches part
				li, isInstr := lv.(ssa.Instruction)
				if isInstr && !(dominates(li, l.at[f]) && dominates(li, r.at[f])) {
					continue
				}
				if _, isConst := lv.(*ssa.Const); isConst {
					continue
				}
				if !isNumericBasic(lv.Type()) {
					continue
				}
				n++
				c.Check(rule, FuncKey(fn)+" sets "+t.Obj().Name()+"."+f.Name()+" from the same value on the append and the recycle side", r.at[f].Pos(), lv == rv, FuncKey(fn)+" records a "+t.Obj().Name()+" either by appending a literal or by refilling a recycled element; "+f.Name()+" is set from "+describeValue(p, lv)+" in the literal and from "+describeValue(p, rv)+" on the recycled element: a reused writer (Reset, then a file with no more row groups than the one before) records a different value than a fresh one")
			}
		}
	}
	c.Min(rule, min)
}
