package main

import (
	"strings"

	"golang.org/x/tools/go/ssa"
)

// T-CHUNKBASE — a loop that walks an array in chunks (`values.Slice(i, j)` with
// a loop-carried i) and, inside the same loop, indexes the *whole* array
// (`values.Index(a)`) addresses it relative to the start of the array: the
// index depends on i. An index that depends only on the position inside the
// chunk reads the first chunk again for every later one — invisible until an
// input is longer than one chunk.

func derivesFromValue(v, target ssa.Value, seen map[ssa.Value]bool) bool {
	if v == nil || seen[v] {
		return false
	}
	seen[v] = true
	if v == target {
		return true
	}
	switch x := v.(type) {
	case *ssa.BinOp:
		return derivesFromValue(x.X, target, seen) || derivesFromValue(x.Y, target, seen)
	case *ssa.Convert:
		return derivesFromValue(x.X, target, seen)
	case *ssa.ChangeType:
		return derivesFromValue(x.X, target, seen)
	case *ssa.Phi:
		for _, e := range x.Edges {
			if derivesFromValue(e, target, seen) {
				return true
			}
		}
	}
	return false
}

func runChunkBaseRule(c *Ctx, rule string, min int) {
	p := c.P
	n := 0
	for _, fn := range p.ModuleSSAFuncs() {
		if fn.Origin() != nil || fn.Blocks == nil || !inModule(fn) {
			continue
		}
		type mcall struct {
			call *ssa.Call
			recv ssa.Value
		}
		var slices, indexes []mcall
		allCalls(fn, false, func(_ *ssa.Function, ci ssa.CallInstruction) {
			call, ok := ci.(*ssa.Call)
			if !ok {
				return
			}
			g := call.Call.StaticCallee()
			if g == nil || g.Signature.Recv() == nil || !strings.HasSuffix(fnPkgPath(g), "/sparse") || len(call.Call.Args) == 0 {
				return
			}
			switch g.Name() {
			case "Slice":
				if len(call.Call.Args) == 3 {
					slices = append(slices, mcall{call, call.Call.Args[0]})
				}
			case "Index":
				if len(call.Call.Args) == 2 {
					indexes = append(indexes, mcall{call, call.Call.Args[0]})
				}
			}
		})
		k := 0
		for _, s := range slices {
			start, ok := s.call.Call.Args[1].(*ssa.Phi)
			if !ok {
				continue
			}
			header := start.Block()
			inLoop := reachableAvoidingSet(header, nil, nil)
			for _, ix := range indexes {
				if ix.recv != s.recv || !inLoop[ix.call.Block()] || !reachableAvoidingSet(ix.call.Block(), nil, nil)[header] {
					continue
				}
				n++
				k++
				ok := derivesFromValue(ix.call.Call.Args[1], start, map[ssa.Value]bool{})
				c.Check(rule, FuncKey(fn)+" indexes the whole array from the start of the chunk#"+itoa(k), ix.call.Pos(), ok, FuncKey(fn)+" walks an array in chunks (Slice(i, j) at "+p.Pos(s.call.Pos())+") and indexes the whole array inside the loop with an index that does not depend on the chunk start i: every chunk after the first reads the elements of the first")
			}
		}
	}
	c.Min(rule, min)
}
