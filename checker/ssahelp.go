package main

import (
	"go/token"
	"go/types"
	"sort"

	"golang.org/x/tools/go/ssa"
)

// staticCallee returns the statically resolved callee of a call, through
// MakeClosure and generic instantiation; nil for dynamic calls.
func staticCallee(call ssa.CallInstruction) *ssa.Function {
	return call.Common().StaticCallee()
}

// calleeObj gives the types.Func called: the static callee's object, or the
// interface method for invoke-mode calls.
func calleeObj(call ssa.CallInstruction) *types.Func {
	cc := call.Common()
	if cc.IsInvoke() {
		return cc.Method
	}
	if f := cc.StaticCallee(); f != nil {
		if o, ok := f.Object().(*types.Func); ok {
			return o.Origin()
		}
		if org := f.Origin(); org != nil {
			if o, ok := org.Object().(*types.Func); ok {
				return o
			}
		}
	}
	return nil
}

// calleeName renders whatever is called, for diagnostics.
func calleeName(call ssa.CallInstruction) string {
	cc := call.Common()
	if cc.IsInvoke() {
		return "(" + types.TypeString(cc.Value.Type(), shortQual) + ")." + cc.Method.Name()
	}
	if f := cc.StaticCallee(); f != nil {
		return FuncKey(f)
	}
	if b, ok := cc.Value.(*ssa.Builtin); ok {
		return b.Name()
	}
	return "dynamic:" + cc.Value.Name()
}

func shortQual(p *types.Package) string {
	if p.Path() == modPath {
		return ""
	}
	return p.Name()
}

// isPkgFunc reports whether the call statically targets pkgPath.name
// (function) or pkgPath.(recv).name when recv != "".
func isCallTo(call ssa.CallInstruction, pkgPath, recv, name string) bool {
	o := calleeObj(call)
	if o == nil || o.Name() != name || o.Pkg() == nil || o.Pkg().Path() != pkgPath {
		return false
	}
	sig := o.Type().(*types.Signature)
	if recv == "" {
		return sig.Recv() == nil
	}
	if sig.Recv() == nil {
		return false
	}
	return recvString(sig.Recv().Type()) == recv || recvString(sig.Recv().Type()) == "*"+recv
}

// allCalls iterates every call instruction (call, go, defer) of fn and, when
// deep is set, of the anonymous functions it defines.
func allCalls(fn *ssa.Function, deep bool, visit func(in *ssa.Function, call ssa.CallInstruction)) {
	for _, b := range fn.Blocks {
		for _, ins := range b.Instrs {
			if c, ok := ins.(ssa.CallInstruction); ok {
				visit(fn, c)
			}
		}
	}
	if deep {
		for _, a := range fn.AnonFuncs {
			allCalls(a, true, visit)
		}
	}
}

// allInstrs iterates instructions of fn and nested anonymous functions.
func allInstrs(fn *ssa.Function, deep bool, visit func(in *ssa.Function, ins ssa.Instruction)) {
	for _, b := range fn.Blocks {
		for _, ins := range b.Instrs {
			visit(fn, ins)
		}
	}
	if deep {
		for _, a := range fn.AnonFuncs {
			allInstrs(a, true, visit)
		}
	}
}

// ---------------------------------------------------------------------------
// address roots

// fieldChain walks an address or value back through FieldAddr / Field /
// IndexAddr / Slice / loads of field addresses and returns the chain of
// fields from outermost to innermost together with the root value.
// elem is true when the innermost step (closest to the stored location) is an
// element access (IndexAddr, Index, Slice of a loaded field), i.e. the write
// targets storage reachable through the last field rather than the field itself.
func fieldChain(v ssa.Value) (fields []*types.Var, root ssa.Value, elem bool) {
	for depth := 0; depth < 64; depth++ {
		switch x := v.(type) {
		case *ssa.FieldAddr:
			st := structOf(x.X.Type())
			if st == nil {
				return fields, v, elem
			}
			fields = append([]*types.Var{st.Field(x.Field).Origin()}, fields...)
			v = x.X
		case *ssa.Field:
			st := structOf(x.X.Type())
			if st == nil {
				return fields, v, elem
			}
			fields = append([]*types.Var{st.Field(x.Field).Origin()}, fields...)
			v = x.X
		case *ssa.IndexAddr:
			if len(fields) == 0 {
				elem = true
			}
			v = x.X
		case *ssa.Index:
			if len(fields) == 0 {
				elem = true
			}
			v = x.X
		case *ssa.Slice:
			if len(fields) == 0 {
				elem = true
			}
			v = x.X
		case *ssa.UnOp:
			if x.Op != token.MUL {
				return fields, v, elem
			}
			// load: continue only through loads of field addresses or of
			// element addresses; a load of a local keeps the local as root.
			switch x.X.(type) {
			case *ssa.FieldAddr, *ssa.IndexAddr:
				if len(fields) > 0 || elem {
					// pointer indirection: p.a.b where a is a pointer field
				}
				v = x.X
			case *ssa.Alloc:
				// a parameter captured by a closure is spilled to a cell that
				// is stored once: the load denotes the parameter
				if par := spilledParam(x.X.(*ssa.Alloc)); par != nil {
					return fields, par, elem
				}
				return fields, v, elem
			default:
				return fields, v, elem
			}
		case *ssa.ChangeType:
			v = x.X
		case *ssa.Convert:
			v = x.X
		default:
			return fields, v, elem
		}
	}
	return fields, v, elem
}

func structOf(t types.Type) *types.Struct {
	t = t.Underlying()
	if p, ok := t.(*types.Pointer); ok {
		t = p.Elem().Underlying()
	}
	st, _ := t.(*types.Struct)
	return st
}

func namedOf(t types.Type) *types.Named {
	for {
		switch x := t.(type) {
		case *types.Pointer:
			t = x.Elem()
		case *types.Named:
			return x
		case *types.Alias:
			t = types.Unalias(x)
		default:
			return nil
		}
	}
}

// isErrorType reports whether t is the predeclared error interface.
func isErrorType(t types.Type) bool {
	// not types.Identical: go/ssa uses internal placeholder types (range
	// iterators, defer stacks) that go/types refuses to compare
	n, ok := t.(*types.Named)
	return ok && n.Obj().Pkg() == nil && n.Obj().Name() == "error"
}

// ---------------------------------------------------------------------------
// value origins (E3)

type OriginKind int

const (
	OrgParam OriginKind = iota
	OrgCall             // result of a call (Index = tuple index, -1 if single)
	OrgField            // load of a field
	OrgGlobal
	OrgConst
	OrgAlloc // make/new/composite literal
	OrgFreeVar
	OrgOther
)

type Origin struct {
	Kind  OriginKind
	Val   ssa.Value
	Call  ssa.CallInstruction
	Index int
	Field *types.Var
	Sliced bool // passed through a Slice/IndexAddr on the way
}

// OriginOpts control the backward walk.
type OriginOpts struct {
	ThroughBinOp bool // follow both operands of arithmetic
	ThroughField bool // when a field load is met, also continue to the stores into the same field within the function
}

// Origins walks backwards from v through phis, conversions, slicing,
// extracts, loads of local allocs (to every store into them) and reports the
// set of origins. It is intra-procedural.
func Origins(v ssa.Value, opts OriginOpts) []Origin {
	var out []Origin
	seen := map[ssa.Value]bool{}
	var walk func(v ssa.Value, sliced bool)
	walk = func(v ssa.Value, sliced bool) {
		if v == nil || seen[v] {
			return
		}
		seen[v] = true
		switch x := v.(type) {
		case *ssa.Phi:
			for _, e := range x.Edges {
				walk(e, sliced)
			}
		case *ssa.Slice:
			walk(x.X, true)
		case *ssa.ChangeType:
			walk(x.X, sliced)
		case *ssa.Convert:
			walk(x.X, sliced)
		case *ssa.ChangeInterface:
			walk(x.X, sliced)
		case *ssa.MakeInterface:
			walk(x.X, sliced)
		case *ssa.TypeAssert:
			walk(x.X, sliced)
		case *ssa.SliceToArrayPointer:
			walk(x.X, sliced)
		case *ssa.Extract:
			if c, ok := x.Tuple.(*ssa.Call); ok {
				out = append(out, Origin{Kind: OrgCall, Val: v, Call: c, Index: x.Index, Sliced: sliced})
			} else {
				walk(x.Tuple, sliced)
			}
		case *ssa.Call:
			out = append(out, Origin{Kind: OrgCall, Val: v, Call: x, Index: -1, Sliced: sliced})
		case *ssa.Parameter:
			out = append(out, Origin{Kind: OrgParam, Val: v, Sliced: sliced})
		case *ssa.FreeVar:
			out = append(out, Origin{Kind: OrgFreeVar, Val: v, Sliced: sliced})
		case *ssa.Const:
			out = append(out, Origin{Kind: OrgConst, Val: v, Sliced: sliced})
		case *ssa.Global:
			out = append(out, Origin{Kind: OrgGlobal, Val: v, Sliced: sliced})
		case *ssa.MakeSlice, *ssa.MakeMap, *ssa.MakeChan, *ssa.MakeClosure:
			out = append(out, Origin{Kind: OrgAlloc, Val: v, Sliced: sliced})
		case *ssa.Alloc:
			out = append(out, Origin{Kind: OrgAlloc, Val: v, Sliced: sliced})
		case *ssa.BinOp:
			if opts.ThroughBinOp {
				walk(x.X, sliced)
				walk(x.Y, sliced)
			} else {
				out = append(out, Origin{Kind: OrgOther, Val: v, Sliced: sliced})
			}
		case *ssa.UnOp:
			if x.Op != token.MUL {
				if opts.ThroughBinOp {
					walk(x.X, sliced)
				} else {
					out = append(out, Origin{Kind: OrgOther, Val: v, Sliced: sliced})
				}
				return
			}
			switch a := x.X.(type) {
			case *ssa.Alloc:
				// every store into the local
				n := 0
				for _, ref := range *a.Referrers() {
					if st, ok := ref.(*ssa.Store); ok && st.Addr == a {
						walk(st.Val, sliced)
						n++
					}
				}
				if n == 0 {
					out = append(out, Origin{Kind: OrgAlloc, Val: a, Sliced: sliced})
				}
			case *ssa.FieldAddr:
				st := structOf(a.X.Type())
				var fv *types.Var
				if st != nil {
					fv = st.Field(a.Field).Origin()
				}
				out = append(out, Origin{Kind: OrgField, Val: v, Field: fv, Sliced: sliced})
			case *ssa.Global:
				out = append(out, Origin{Kind: OrgGlobal, Val: a, Sliced: sliced})
			case *ssa.FreeVar:
				out = append(out, Origin{Kind: OrgFreeVar, Val: a, Sliced: sliced})
			case *ssa.IndexAddr:
				walk(a.X, true)
			case *ssa.Phi:
				// load through a conditionally assigned pointer
				// (`var p *T; if c { p = &x.f[i] }; … *p`): follow the
				// non-nil incoming addresses
				n := 0
				for _, e := range a.Edges {
					if isNilConst(e) {
						continue
					}
					n++
					switch ea := e.(type) {
					case *ssa.IndexAddr:
						walk(ea.X, true)
					case *ssa.FieldAddr:
						st := structOf(ea.X.Type())
						var fv *types.Var
						if st != nil {
							fv = st.Field(ea.Field).Origin()
						}
						out = append(out, Origin{Kind: OrgField, Val: v, Field: fv, Sliced: sliced})
					default:
						out = append(out, Origin{Kind: OrgOther, Val: v, Sliced: sliced})
					}
				}
				if n == 0 {
					out = append(out, Origin{Kind: OrgConst, Val: v, Sliced: sliced})
				}
			default:
				out = append(out, Origin{Kind: OrgOther, Val: v, Sliced: sliced})
			}
		case *ssa.Field:
			st := structOf(x.X.Type())
			var fv *types.Var
			if st != nil {
				fv = st.Field(x.Field).Origin()
			}
			out = append(out, Origin{Kind: OrgField, Val: v, Field: fv, Sliced: sliced})
		case *ssa.Index:
			walk(x.X, true)
		case *ssa.Lookup:
			walk(x.X, true)
		default:
			out = append(out, Origin{Kind: OrgOther, Val: v, Sliced: sliced})
		}
	}
	walk(v, false)
	return out
}

// ---------------------------------------------------------------------------
// dominance helpers

// dominates reports whether instruction a dominates instruction b (same
// function). Within one block the order of instructions decides.
func dominates(a, b ssa.Instruction) bool {
	ba, bb := a.Block(), b.Block()
	if ba == bb {
		for _, ins := range ba.Instrs {
			if ins == a {
				return true
			}
			if ins == b {
				return false
			}
		}
		return false
	}
	return ba.Dominates(bb)
}

// reachableBlocks returns the set of blocks reachable from b (inclusive).
func reachableFrom(b *ssa.BasicBlock) map[*ssa.BasicBlock]bool {
	seen := map[*ssa.BasicBlock]bool{}
	var walk func(*ssa.BasicBlock)
	walk = func(x *ssa.BasicBlock) {
		if seen[x] {
			return
		}
		seen[x] = true
		for _, s := range x.Succs {
			walk(s)
		}
	}
	walk(b)
	return seen
}

// sortedFuncs sorts functions by key for deterministic output.
func sortedFuncs(m map[*ssa.Function]bool) []*ssa.Function {
	out := make([]*ssa.Function, 0, len(m))
	for f := range m {
		out = append(out, f)
	}
	sort.Slice(out, func(i, j int) bool {
		a, b := FuncKey(out[i]), FuncKey(out[j])
		if a != b {
			return a < b
		}
		return out[i].String() < out[j].String()
	})
	return out
}

// returnsOf lists the Return instructions of fn.
func returnsOf(fn *ssa.Function) []*ssa.Return {
	var out []*ssa.Return
	for _, b := range fn.Blocks {
		if len(b.Instrs) == 0 {
			continue
		}
		if r, ok := b.Instrs[len(b.Instrs)-1].(*ssa.Return); ok {
			out = append(out, r)
		}
	}
	return out
}

// isNilConst reports whether v is the nil constant.
func isNilConst(v ssa.Value) bool {
	c, ok := v.(*ssa.Const)
	return ok && c.IsNil()
}

// retResult resolves result i of a return, looking through the spill that
// go/ssa introduces for functions containing defer (results are stored into
// locals and reloaded after rundefers). It returns the stored value when the
// store is in the return's block; otherwise the raw operand (whose Origins
// cover every store into the local). recoverBlock reports the synthetic
// recover exit, which re-loads the locals without storing.
func retResult(ret *ssa.Return, i int) (v ssa.Value, recoverBlock bool) {
	if i >= len(ret.Results) {
		return nil, false
	}
	r := ret.Results[i]
	if ret.Block() == ret.Parent().Recover {
		return r, true
	}
	if u, ok := r.(*ssa.UnOp); ok && u.Op == token.MUL {
		if a, ok := u.X.(*ssa.Alloc); ok {
			instrs := ret.Block().Instrs
			for j := len(instrs) - 1; j >= 0; j-- {
				if st, ok := instrs[j].(*ssa.Store); ok && st.Addr == a {
					return st.Val, false
				}
			}
		}
	}
	return r, false
}

// fnName is the function's name without instantiation suffix.
func fnName(f *ssa.Function) string {
	if o := f.Origin(); o != nil {
		return o.Name()
	}
	return f.Name()
}

// spilledParam: a is the cell go/ssa creates for a parameter that a closure
// captures (stored exactly once, with the parameter, never reassigned).
func spilledParam(a *ssa.Alloc) *ssa.Parameter {
	refs := a.Referrers()
	if refs == nil {
		return nil
	}
	var par *ssa.Parameter
	n := 0
	for _, r := range *refs {
		if st, ok := r.(*ssa.Store); ok && st.Addr == a {
			n++
			par, _ = st.Val.(*ssa.Parameter)
		}
	}
	if n != 1 || par == nil {
		return nil
	}
	// closures that capture the cell must not assign it
	for _, r := range *refs {
		mc, ok := r.(*ssa.MakeClosure)
		if !ok {
			continue
		}
		fn, _ := mc.Fn.(*ssa.Function)
		if fn == nil {
			return nil
		}
		for i, b := range mc.Bindings {
			if b != a || i >= len(fn.FreeVars) {
				continue
			}
			if fr := fn.FreeVars[i].Referrers(); fr != nil {
				for _, u := range *fr {
					if st, ok := u.(*ssa.Store); ok && st.Addr == fn.FreeVars[i] {
						return nil
					}
				}
			}
		}
	}
	return par
}
