package main

import (
	"go/token"
	"go/types"
	"sort"
	"strings"

	"golang.org/x/tools/go/ssa"
)

// T-REENTRANT: a factory function that returns a closure (the per-type
// read/write/deconstruct/reconstruct functions, which are cached on the shared
// *Schema and run from any number of goroutines) must return a closure that
// keeps no mutable state of its own: the closure body does not assign a
// captured variable, does not store through a captured pointer / slice / map
// that the factory allocated, and does not call a reflect.Value setter on a
// captured reflect.Value (or a view of one). Configuration captured by value
// and only read is fine.

type reentrantSite struct {
	factory *ssa.Function
	closure *ssa.Function
	pos     token.Pos
	what    string
}

func closureWritesToCaptured(p *Prog, factory *ssa.Function) []reentrantSite {
	var out []reentrantSite
	// closures that escape the factory: returned, or stored in a returned struct / passed on
	var escaping []*ssa.MakeClosure
	allInstrs(factory, false, func(_ *ssa.Function, ins ssa.Instruction) {
		mc, ok := ins.(*ssa.MakeClosure)
		if !ok {
			return
		}
		refs := mc.Referrers()
		if refs == nil {
			return
		}
		for _, r := range *refs {
			switch x := r.(type) {
			case *ssa.Return:
				escaping = append(escaping, mc)
				return
			case *ssa.Phi, *ssa.MakeInterface, *ssa.ChangeType:
				escaping = append(escaping, mc) // conservatively: flows somewhere
				return
			case *ssa.Store:
				if x.Val == mc {
					if _, local := x.Addr.(*ssa.Alloc); !local || returnsLoadOf(factory, x.Addr) {
						escaping = append(escaping, mc)
						return
					}
				}
			}
		}
	})
	for _, mc := range escaping {
		cl, _ := mc.Fn.(*ssa.Function)
		if cl == nil {
			continue
		}
		// which free variables denote factory-allocated mutable state?
		for i, fv := range cl.FreeVars {
			if i >= len(mc.Bindings) {
				continue
			}
			binding := mc.Bindings[i]
			kind := capturedKind(binding)
			if kind == "" {
				continue
			}
			for _, w := range writesThrough(p, cl, fv, kind) {
				out = append(out, reentrantSite{factory, cl, w.pos, "captured " + kind + " " + fv.Name() + " " + w.what})
			}
		}
	}
	return out
}

func returnsLoadOf(fn *ssa.Function, addr ssa.Value) bool {
	for _, r := range returnsOf(fn) {
		for _, v := range r.Results {
			if u, ok := v.(*ssa.UnOp); ok && u.Op == token.MUL && u.X == addr {
				return true
			}
		}
	}
	return false
}

// capturedKind classifies a binding: "cell" (a captured variable: the binding
// is the address of a local), "value" for a captured reflect.Value created by
// reflect.New/MakeSlice/MakeMap in the factory, "" otherwise.
func capturedKind(b ssa.Value) string {
	if al, ok := b.(*ssa.Alloc); ok {
		// the cell of a captured variable; what matters is what it holds
		holdsFresh := false
		isRV := isReflectValue(al.Type().(*types.Pointer).Elem())
		for _, r := range *al.Referrers() {
			st, ok := r.(*ssa.Store)
			if !ok || st.Addr != al {
				continue
			}
			for _, o := range Origins(st.Val, OriginOpts{}) {
				switch o.Kind {
				case OrgAlloc:
					holdsFresh = true
				case OrgCall:
					if isFreshReflect(o.Call) {
						holdsFresh = true
					}
					if callee := o.Call.Common().StaticCallee(); callee != nil && isRV && isFreshReflect(o.Call) {
						holdsFresh = true
					}
				}
			}
		}
		if holdsFresh {
			return "cell"
		}
		return "var"
	}
	return ""
}

func isFreshReflect(call ssa.CallInstruction) bool {
	// reflect.New(...).Elem(), reflect.MakeSlice, reflect.MakeMap, reflect.Zero is immutable
	cc := call.Common()
	callee := cc.StaticCallee()
	if callee == nil || fnPkg(callee) == nil || fnPkg(callee).Path() != "reflect" {
		return false
	}
	switch fnName(callee) {
	case "New", "MakeSlice", "MakeMap", "MakeMapWithSize", "MakeChan":
		return true
	case "Elem", "Field", "Index", "Addr":
		if len(cc.Args) > 0 {
			for _, o := range Origins(cc.Args[0], OriginOpts{}) {
				if o.Kind == OrgCall && isFreshReflect(o.Call) {
					return true
				}
			}
		}
	}
	return false
}

type capWrite struct {
	pos  token.Pos
	what string
}

// writesThrough: writes the closure performs to the captured variable itself
// or to the memory its content refers to.
func writesThrough(p *Prog, cl *ssa.Function, fv *ssa.FreeVar, kind string) []capWrite {
	var out []capWrite
	// values denoting the content of the captured variable and views of it
	content := map[ssa.Value]bool{}
	var work []ssa.Value
	push := func(v ssa.Value) {
		if v != nil && !content[v] {
			content[v] = true
			work = append(work, v)
		}
	}
	if refs := fv.Referrers(); refs != nil {
		for _, r := range *refs {
			switch x := r.(type) {
			case *ssa.Store:
				if x.Addr == fv {
					out = append(out, capWrite{x.Pos(), "is assigned by the closure"})
				}
			case *ssa.UnOp:
				if x.Op == token.MUL {
					push(x)
				}
			case *ssa.FieldAddr, *ssa.IndexAddr:
				push(x.(ssa.Value))
			}
		}
	}
	if kind != "cell" {
		return out // a plain captured variable: only assignments to it matter
	}
	for len(work) > 0 {
		v := work[len(work)-1]
		work = work[:len(work)-1]
		refs := v.Referrers()
		if refs == nil {
			continue
		}
		for _, r := range *refs {
			switch x := r.(type) {
			case *ssa.FieldAddr:
				if x.X == v {
					push(x)
				}
			case *ssa.IndexAddr:
				if x.X == v {
					push(x)
				}
			case *ssa.Slice, *ssa.ChangeType, *ssa.Phi:
				push(x.(ssa.Value))
			case *ssa.UnOp:
				if x.Op == token.MUL && x.X == v {
					// load through a captured pointer: the loaded value is content only for pointer-typed loads
					switch x.Type().Underlying().(type) {
					case *types.Pointer, *types.Slice, *types.Map:
						push(x)
					}
				}
			case *ssa.Store:
				if x.Addr == v {
					out = append(out, capWrite{x.Pos(), "is written through by the closure"})
				}
			case *ssa.MapUpdate:
				if x.Map == v {
					out = append(out, capWrite{x.Pos(), "(a map) is updated by the closure"})
				}
			case ssa.CallInstruction:
				cc := x.Common()
				callee := cc.StaticCallee()
				if callee == nil || cc.IsInvoke() {
					continue
				}
				if fnPkg(callee) != nil && fnPkg(callee).Path() == "reflect" && callee.Signature.Recv() != nil && isReflectValue(callee.Signature.Recv().Type()) && len(cc.Args) > 0 && cc.Args[0] == v {
					name := fnName(callee)
					if reflectViewMethods[name] && x.Value() != nil {
						push(x.Value())
					} else if strings.HasPrefix(name, "Set") {
						out = append(out, capWrite{x.Pos(), "is modified with reflect.Value." + name + " by the closure"})
					}
				}
			}
		}
	}
	return out
}

// perCallFactories: functions that are only ever called while an operation
// runs (every static caller is a closure body or another such function): the
// closures they build are private to one call and may keep scratch state.
func perCallFactories(p *Prog) map[*ssa.Function]bool {
	callers := map[*ssa.Function][]*ssa.Function{}
	for _, fn := range p.ModuleSSAFuncs() {
		allCalls(fn, false, func(_ *ssa.Function, call ssa.CallInstruction) {
			if callee := call.Common().StaticCallee(); callee != nil && inModule(callee) {
				k := callee
				if o := callee.Origin(); o != nil {
					k = o
				}
				callers[k] = append(callers[k], fn)
			}
		})
	}
	per := map[*ssa.Function]bool{}
	for changed := true; changed; {
		changed = false
		for f, cs := range callers {
			if per[f] || len(cs) == 0 {
				continue
			}
			all := true
			for _, g := range cs {
				root := g
				if o := g.Origin(); o != nil {
					root = o
				}
				if g.Parent() == nil && !per[root] {
					all = false
				}
			}
			if all {
				per[f] = true
				changed = true
			}
		}
	}
	return per
}

func runReentrantRule(c *Ctx, rule string, scope func(fn *ssa.Function) bool, exempt map[string]string, min int) {
	p := c.P
	n := 0
	perCall := perCallFactories(p)
	for _, fn := range p.ModuleSSAFuncs() {
		if fn.Origin() != nil || fn.Blocks == nil || !scope(fn) {
			continue
		}
		res := fn.Signature.Results()
		returnsFunc := false
		for i := 0; i < res.Len(); i++ {
			if _, ok := res.At(i).Type().Underlying().(*types.Signature); ok {
				returnsFunc = true
			}
		}
		if !returnsFunc || perCall[fn] {
			continue
		}
		n++
		sites := closureWritesToCaptured(p, fn)
		var msgs []string
		pos := fn.Pos()
		for _, s := range sites {
			msgs = append(msgs, s.what+" ("+p.Pos(s.pos)+")")
			pos = s.pos
		}
		sort.Strings(msgs)
		key := FuncKey(fn) + " returns a closure without state of its own"
		if r, ok := exempt[FuncKey(fn)]; ok && len(msgs) > 0 {
			c.Pass(rule, key, pos, "exempt: %s", r)
			continue
		}
		c.Check(rule, key, pos, len(msgs) == 0, "the function returned by "+FuncKey(fn)+" is cached per schema and may run on several goroutines at once, but "+strings.Join(msgs, "; ")+": concurrent (or re-entrant) calls overwrite each other's data")
	}
	c.Stats[rule+".factories"] = n
	c.Min(rule, min)
}
