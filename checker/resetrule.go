package main

import (
	"go/token"
	"go/types"
	"sort"
	"strings"

	"golang.org/x/tools/go/ssa"
)

// T-RESET over access chains (DESIGN.md §3): every location of a reusable
// object that an operation writes is re-established by the object's reset,
// or is exempt for a stated reason.
type resetSpec struct {
	Type         string
	Reset        []string
	Constructors []string
	// chain (relative to Type, "Type.field.sub") -> reason it need not be reset
	Exempt map[string]string
	// functions whose writes are not operations on a reused object
	IgnoreFns map[string]string
	// head fields of other specified types: a chain passing through one of
	// them after its own head belongs to that type's specification
	Boundary map[*types.Var]bool
}

func baseFuncKey(fn *ssa.Function) string {
	k := FuncKey(fn)
	if i := strings.Index(k, "$"); i >= 0 {
		k = k[:i]
	}
	return k
}

// chainIndex caches the chain writes of every module function.
type chainIndex struct {
	p      *Prog
	writes []chainWrite
}

func newChainIndex(p *Prog) *chainIndex {
	ci := &chainIndex{p: p}
	for _, fn := range p.ModuleSSAFuncs() {
		if fn.Origin() != nil {
			continue
		}
		ci.writes = append(ci.writes, ChainWrites(fn)...)
	}
	return ci
}

type opWrite struct {
	chain []*types.Var
	pos   token.Pos
	fns   map[string]bool
}

func runResetRule(c *Ctx, rule string, ci *chainIndex, spec resetSpec) {
	p := c.P
	named := p.LookupType(spec.Type)
	if !c.Anchor(rule, "type "+spec.Type, named != nil) {
		return
	}
	heads := fieldsOfStruct(named)
	var entries []*ssa.Function
	for _, k := range spec.Reset {
		f := p.LookupFunc(k)
		if c.Anchor(rule, k, f != nil) {
			if sf := p.SSAFunc(f); sf != nil && sf.Blocks != nil {
				entries = append(entries, sf)
			}
		}
	}
	ctor := map[string]bool{}
	for _, k := range spec.Constructors {
		if c.Anchor(rule, k, p.LookupFunc(k) != nil) {
			ctor[k] = true
		}
	}
	raw, closure := ResetCover(p, entries, 7)
	closureKeys := map[string]bool{}
	for f := range closure {
		closureKeys[FuncKey(f)] = true
	}
	cover := newChainSet(p)
	for _, w := range raw.m {
		for k := range w.Chain {
			if heads[w.Chain[k]] {
				cover.add(chainWrite{Chain: w.Chain[k:], Kind: w.Kind, Pos: w.Pos, Fn: w.Fn})
			}
		}
	}
	c.Stats[rule+"."+spec.Type+".reset_closure_functions"] = len(closure)
	c.Stats[rule+"."+spec.Type+".reset_chains"] = len(cover.m)

	direct := map[string]*opWrite{}           // chain -> writers
	whole := map[string]map[string]*opWrite{} // parent chain -> leaf chain -> writers
	wholePos := map[string]token.Pos{}
	nOps := 0
	for _, w := range ci.writes {
		if w.Fresh {
			continue
		}
		k := -1
		for i, f := range w.Chain {
			if heads[f] {
				k = i
				break
			}
		}
		if k < 0 {
			continue
		}
		foreign := false
		for _, f := range w.Chain[k+1:] {
			if spec.Boundary[f] && !heads[f] {
				foreign = true
			}
		}
		if foreign {
			continue
		}
		fk := FuncKey(w.Fn)
		bk := baseFuncKey(w.Fn)
		if closureKeys[fk] || ctor[bk] {
			continue
		}
		if _, ok := spec.IgnoreFns[bk]; ok {
			continue
		}
		nOps++
		ch := w.Chain[k:]
		key := chainString(p, ch)
		if w.Parent != nil && len(w.Parent) > k {
			pk := chainString(p, w.Parent[k:])
			if whole[pk] == nil {
				whole[pk] = map[string]*opWrite{}
				wholePos[pk] = w.Pos
			}
			o := whole[pk][key]
			if o == nil {
				o = &opWrite{chain: ch, pos: w.Pos, fns: map[string]bool{}}
				whole[pk][key] = o
			}
			o.fns[fk] = true
			continue
		}
		o := direct[key]
		if o == nil {
			o = &opWrite{chain: ch, pos: w.Pos, fns: map[string]bool{}}
			direct[key] = o
		}
		o.fns[fk] = true
	}
	c.Stats[rule+"."+spec.Type+".operation_writes"] = nOps

	usedEx := map[string]bool{}
	exemptOf := func(ch []*types.Var) string {
		for i := len(ch); i >= 1; i-- {
			pk := chainString(p, ch[:i])
			if r, ok := spec.Exempt[pk]; ok {
				usedEx[pk] = true
				return r
			}
		}
		return ""
	}
	// status: "" uncovered, otherwise explanation
	status := func(o *opWrite, allowBelow bool) (string, bool) {
		if by, ok := cover.covers(o.chain); ok {
			return "re-established by reset through " + by, true
		}
		if allowBelow {
			last := o.chain[len(o.chain)-1]
			switch last.Type().Underlying().(type) {
			case *types.Pointer, *types.Interface, *types.Slice, *types.Map:
				if by, ok := cover.coversBelow(o.chain); ok {
					return "reference retained; its content is re-established by reset through " + by, true
				}
			}
		}
		if r := exemptOf(o.chain); r != "" {
			return "not reset; exempt: " + r, true
		}
		return "", false
	}
	fnList := func(m map[string]bool) string {
		var fns []string
		for f := range m {
			fns = append(fns, f)
		}
		sort.Strings(fns)
		return strings.Join(fns, ", ")
	}

	var keys []string
	for k := range direct {
		keys = append(keys, k)
	}
	sort.Strings(keys)
	for _, key := range keys {
		o := direct[key]
		if why, ok := status(o, true); ok {
			c.Pass(rule, spec.Type+": "+key, o.pos, "written by %s; %s", fnList(o.fns), why)
		} else {
			c.Fail(rule, spec.Type+": "+key, o.pos, "state %s is written by operation(s) %s but by no function reachable from %s: a reused (Reset) instance carries it over from its previous use", key, fnList(o.fns), strings.Join(spec.Reset, ", "))
		}
	}
	keys = keys[:0]
	for k := range whole {
		keys = append(keys, k)
	}
	sort.Strings(keys)
	for _, pk := range keys {
		leaves := whole[pk]
		var lk []string
		for k := range leaves {
			lk = append(lk, k)
		}
		sort.Strings(lk)
		var uncovered []string
		fns := map[string]bool{}
		for _, k := range lk {
			o := leaves[k]
			for f := range o.fns {
				fns[f] = true
			}
			if _, ok := status(o, false); !ok {
				uncovered = append(uncovered, strings.TrimPrefix(k, pk+"."))
			}
		}
		okey := spec.Type + ": " + pk + " (whole-struct store)"
		if len(uncovered) == 0 {
			c.Pass(rule, okey, wholePos[pk], "overwritten as a whole by %s; all %d leaf fields are re-established by reset or exempt", fnList(fns), len(lk))
		} else {
			c.Fail(rule, okey, wholePos[pk], "%s is overwritten as a whole by operation(s) %s; of its fields {%s} are neither re-established by any function reachable from %s nor exempt: values established at construction are lost for the next row group / after Reset", pk, fnList(fns), strings.Join(uncovered, ", "), strings.Join(spec.Reset, ", "))
		}
	}
	for k := range spec.Exempt {
		if !usedEx[k] {
			c.Note("%s %s: exemption %q matches no unreset state on this tree", rule, spec.Type, k)
		}
	}
}
