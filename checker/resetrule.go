package main

import (
	"go/token"
	"go/types"
	"sort"
	"strings"

	"golang.org/x/tools/go/ssa"
)

// T-RESET over access chains (DESIGN.md §3): every location of a reusable
// object that an operation writes is re-established by the object's reset,
// or is exempt for a stated reason.
type resetSpec struct {
	Type         string
	Reset        []string
	Constructors []string
	// chain (relative to Type, "Type.field.sub") -> reason it need not be reset
	Exempt map[string]string
	// functions whose writes are not operations on a reused object
	IgnoreFns map[string]string
	// head fields of other specified types: a chain passing through one of
	// them after its own head belongs to that type's specification
	Boundary map[*types.Var]bool
	// Nested maps a boundary field to the specification of the type it
	// belongs to (used for the nested-reset obligation)
	Nested map[*types.Var]*nestedSpec
}

// nestedSpec is what an owner needs to know about a specified type it embeds.
type nestedSpec struct {
	Type   string
	Resets map[string]bool // FuncKeys of the type's reset functions
	Cover  *chainSet       // chains (relative to Type) its reset re-establishes
}

func baseFuncKey(fn *ssa.Function) string {
	k := FuncKey(fn)
	if i := strings.Index(k, "$"); i >= 0 {
		k = k[:i]
	}
	return k
}

// chainIndex caches the chain writes of every module function.
type chainIndex struct {
	p      *Prog
	writes []chainWrite
}

func newChainIndex(p *Prog) *chainIndex {
	ci := &chainIndex{p: p}
	sum := &paramWriteSummaries{memo: map[*ssa.Function]map[int][]chainWrite{}, busy: map[*ssa.Function]bool{}}
	for _, fn := range p.ModuleSSAFuncs() {
		if fn.Origin() != nil {
			continue
		}
		ci.writes = append(ci.writes, ChainWrites(fn)...)
		// writes performed by callees through a pointer/slice argument that
		// this function derives from a field: x.hist passed to a helper that
		// does hist[i]++ is a write of x.hist
		allCalls(fn, false, func(_ *ssa.Function, call ssa.CallInstruction) {
			callee := call.Common().StaticCallee()
			if callee == nil || callee.Blocks == nil || !inModule(callee) {
				return
			}
			ws := sum.of(callee, 0)
			if len(ws) == 0 {
				return
			}
			for i, a := range call.Common().Args {
				subs := ws[i]
				if len(subs) == 0 {
					continue
				}
				fields, root, elem := fieldChain(a)
				if len(fields) == 0 {
					continue
				}
				_ = elem
				for _, sw := range subs {
					ch := append(append([]*types.Var{}, fields...), sw.Chain...)
					k := sw.Kind
					if len(sw.Chain) == 0 {
						k = EffElem
					}
					var parent []*types.Var
					if sw.Parent != nil {
						parent = append(append([]*types.Var{}, fields...), sw.Parent...)
					}
					ci.writes = append(ci.writes, chainWrite{Chain: ch, Kind: k, Pos: call.Pos(), Fn: fn, Root: root, Fresh: isFreshRoot(root), Via: callee, Parent: parent})
				}
			}
		})
	}
	return ci
}

// paramWriteSummaries: for each function, the access chains (relative to a
// parameter) that the function writes through that parameter, directly or in
// its static callees (bounded depth). An empty chain means the storage the
// parameter itself points to / slices (p[i] = …, *p = …, clear(p)).
type paramWriteSummaries struct {
	memo map[*ssa.Function]map[int][]chainWrite
	busy map[*ssa.Function]bool
}

func (s *paramWriteSummaries) of(fn *ssa.Function, depth int) map[int][]chainWrite {
	if m, ok := s.memo[fn]; ok {
		return m
	}
	out := map[int][]chainWrite{}
	if s.busy[fn] || depth > 3 || fn.Blocks == nil {
		return out
	}
	s.busy[fn] = true
	defer func() { s.busy[fn] = false }()
	pidx := map[ssa.Value]int{}
	for i, par := range fn.Params {
		pidx[par] = i
	}
	addW := func(i int, w chainWrite) {
		for _, old := range out[i] {
			if len(old.Chain) == len(w.Chain) {
				same := true
				for k := range old.Chain {
					if old.Chain[k] != w.Chain[k] {
						same = false
					}
				}
				if same {
					return
				}
			}
		}
		out[i] = append(out[i], w)
	}
	for _, w := range ChainWrites(fn) {
		if pi, ok := pidx[w.Root]; ok {
			addW(pi, chainWrite{Chain: w.Chain, Kind: w.Kind, Pos: w.Pos, Fn: fn, Parent: w.Parent})
		}
	}
	for _, b := range fn.Blocks {
		for _, ins := range b.Instrs {
			switch x := ins.(type) {
			case *ssa.Store:
				// *p = v and p[i] = v through the parameter itself
				fields, root, elem := fieldChain(x.Addr)
				if pi, ok := pidx[root]; ok && len(fields) == 0 {
					_, isPtr := root.Type().Underlying().(*types.Pointer)
					if elem {
						addW(pi, chainWrite{Kind: EffElem, Pos: x.Pos(), Fn: fn})
					} else if isPtr {
						if _, isStruct := x.Val.Type().Underlying().(*types.Struct); isStruct {
							var subs [][]*types.Var
							expandWhole(nil, x.Val.Type(), 0, &subs)
							for _, sc := range subs {
								addW(pi, chainWrite{Chain: sc, Kind: EffWhole, Pos: x.Pos(), Fn: fn, Parent: []*types.Var{}})
							}
						} else {
							addW(pi, chainWrite{Kind: EffElem, Pos: x.Pos(), Fn: fn})
						}
					}
				}
			}
			call, ok := ins.(ssa.CallInstruction)
			if !ok {
				continue
			}
			cc := call.Common()
			if bi, ok := cc.Value.(*ssa.Builtin); ok {
				if (bi.Name() == "clear" || bi.Name() == "copy") && len(cc.Args) > 0 {
					fields, root, _ := fieldChain(cc.Args[0])
					if pi, ok := pidx[root]; ok && len(fields) == 0 {
						addW(pi, chainWrite{Kind: EffElem, Pos: call.Pos(), Fn: fn})
					}
				}
				continue
			}
			if callee := cc.StaticCallee(); callee != nil && inModule(callee) {
				inner := s.of(callee, depth+1)
				for j, a := range cc.Args {
					if len(inner[j]) == 0 {
						continue
					}
					fields, root, _ := fieldChain(a)
					if pi, ok := pidx[root]; ok {
						for _, sw := range inner[j] {
							var parent []*types.Var
							if sw.Parent != nil {
								parent = append(append([]*types.Var{}, fields...), sw.Parent...)
							}
							addW(pi, chainWrite{Chain: append(append([]*types.Var{}, fields...), sw.Chain...), Kind: sw.Kind, Pos: call.Pos(), Fn: fn, Parent: parent})
						}
					}
				}
			}
		}
	}
	s.memo[fn] = out
	return out
}

type opWrite struct {
	chain []*types.Var
	pos   token.Pos
	fns   map[string]bool
}

func runResetRule(c *Ctx, rule string, ci *chainIndex, spec resetSpec) {
	p := c.P
	named := p.LookupType(spec.Type)
	if !c.Anchor(rule, "type "+spec.Type, named != nil) {
		return
	}
	heads := fieldsOfStruct(named)
	var entries []*ssa.Function
	for _, k := range spec.Reset {
		f := p.LookupFunc(k)
		if c.Anchor(rule, k, f != nil) {
			if sf := p.SSAFunc(f); sf != nil && sf.Blocks != nil {
				entries = append(entries, sf)
			}
		}
	}
	ctor := map[string]bool{}
	for _, k := range spec.Constructors {
		if c.Anchor(rule, k, p.LookupFunc(k) != nil) {
			ctor[k] = true
		}
	}
	raw, closure := ResetCover(p, entries, 7)
	closureKeys := map[string]bool{}
	for f := range closure {
		closureKeys[FuncKey(f)] = true
	}
	cover := newChainSet(p)
	for _, w := range raw.m {
		for k := range w.Chain {
			if heads[w.Chain[k]] {
				cover.add(chainWrite{Chain: w.Chain[k:], Kind: w.Kind, Pos: w.Pos, Fn: w.Fn})
			}
		}
	}
	c.Stats[rule+"."+spec.Type+".reset_closure_functions"] = len(closure)
	c.Stats[rule+"."+spec.Type+".reset_chains"] = len(cover.m)

	direct := map[string]*opWrite{}           // chain -> writers
	whole := map[string]map[string]*opWrite{} // parent chain -> leaf chain -> writers
	wholePos := map[string]token.Pos{}
	nOps := 0
	type nestedWrite struct {
		w chainWrite
		k int
	}
	var nestedWrites []nestedWrite
	for _, w := range ci.writes {
		if w.Fresh {
			continue
		}
		k := -1
		for i, f := range w.Chain {
			if heads[f] {
				k = i
				break
			}
		}
		if k < 0 {
			continue
		}
		foreign := false
		for _, f := range w.Chain[k+1:] {
			if spec.Boundary[f] && !heads[f] {
				foreign = true
			}
		}
		if foreign {
			if w.Fresh || closureKeys[FuncKey(w.Fn)] || ctor[baseFuncKey(w.Fn)] {
				continue
			}
			if w.Via != nil && (closureKeys[FuncKey(w.Via)] || ctor[baseFuncKey(w.Via)]) {
				continue
			}
			if _, ok := spec.IgnoreFns[baseFuncKey(w.Fn)]; ok {
				continue
			}
			nestedWrites = append(nestedWrites, nestedWrite{w, k})
			continue
		}
		fk := FuncKey(w.Fn)
		bk := baseFuncKey(w.Fn)
		if closureKeys[fk] || ctor[bk] {
			continue
		}
		if w.Via != nil && (closureKeys[FuncKey(w.Via)] || ctor[baseFuncKey(w.Via)]) {
			continue // the write happens inside a reset/constructor function this one calls
		}
		if _, ok := spec.IgnoreFns[bk]; ok {
			continue
		}
		nOps++
		ch := w.Chain[k:]
		key := chainString(p, ch)
		if w.Parent != nil && len(w.Parent) > k {
			pk := chainString(p, w.Parent[k:])
			if whole[pk] == nil {
				whole[pk] = map[string]*opWrite{}
				wholePos[pk] = w.Pos
			}
			o := whole[pk][key]
			if o == nil {
				o = &opWrite{chain: ch, pos: w.Pos, fns: map[string]bool{}}
				whole[pk][key] = o
			}
			o.fns[fk] = true
			continue
		}
		o := direct[key]
		if o == nil {
			o = &opWrite{chain: ch, pos: w.Pos, fns: map[string]bool{}}
			direct[key] = o
		}
		o.fns[fk] = true
	}
	c.Stats[rule+"."+spec.Type+".operation_writes"] = nOps

	usedEx := map[string]bool{}
	exemptOf := func(ch []*types.Var) string {
		for i := len(ch); i >= 1; i-- {
			pk := chainString(p, ch[:i])
			if r, ok := spec.Exempt[pk]; ok {
				usedEx[pk] = true
				return r
			}
		}
		return ""
	}
	// status: "" uncovered, otherwise explanation
	status := func(o *opWrite, allowBelow bool) (string, bool) {
		if by, ok := cover.covers(o.chain); ok {
			return "re-established by reset through " + by, true
		}
		if allowBelow {
			last := o.chain[len(o.chain)-1]
			switch last.Type().Underlying().(type) {
			case *types.Pointer, *types.Interface, *types.Slice, *types.Map:
				if by, ok := cover.coversBelow(o.chain); ok {
					return "reference retained; its content is re-established by reset through " + by, true
				}
			}
		}
		if r := exemptOf(o.chain); r != "" {
			return "not reset; exempt: " + r, true
		}
		return "", false
	}
	fnList := func(m map[string]bool) string {
		var fns []string
		for f := range m {
			fns = append(fns, f)
		}
		sort.Strings(fns)
		return strings.Join(fns, ", ")
	}

	var keys []string
	for k := range direct {
		keys = append(keys, k)
	}
	sort.Strings(keys)
	for _, key := range keys {
		o := direct[key]
		if why, ok := status(o, true); ok {
			c.Pass(rule, spec.Type+": "+key, o.pos, "written by %s; %s", fnList(o.fns), why)
		} else {
			c.Fail(rule, spec.Type+": "+key, o.pos, "state %s is written by operation(s) %s but by no function reachable from %s: a reused (Reset) instance carries it over from its previous use", key, fnList(o.fns), strings.Join(spec.Reset, ", "))
		}
	}
	keys = keys[:0]
	for k := range whole {
		keys = append(keys, k)
	}
	sort.Strings(keys)
	for _, pk := range keys {
		leaves := whole[pk]
		var lk []string
		for k := range leaves {
			lk = append(lk, k)
		}
		sort.Strings(lk)
		var uncovered []string
		fns := map[string]bool{}
		for _, k := range lk {
			o := leaves[k]
			for f := range o.fns {
				fns[f] = true
			}
			if _, ok := status(o, false); !ok {
				uncovered = append(uncovered, strings.TrimPrefix(k, pk+"."))
			}
		}
		okey := spec.Type + ": " + pk + " (whole-struct store)"
		if len(uncovered) == 0 {
			c.Pass(rule, okey, wholePos[pk], "overwritten as a whole by %s; all %d leaf fields are re-established by reset or exempt", fnList(fns), len(lk))
		} else {
			c.Fail(rule, okey, wholePos[pk], "%s is overwritten as a whole by operation(s) %s; of its fields {%s} are neither re-established by any function reachable from %s nor exempt: values established at construction are lost for the next row group / after Reset", pk, fnList(fns), strings.Join(uncovered, ", "), strings.Join(spec.Reset, ", "))
		}
	}
	// Nested reset: state of an embedded specified type T that an operation
	// of this type writes through field path g must be re-established either
	// by this type's reset (which then has to reach T's reset through g) or
	// by the operation itself calling T's reset on g before it returns.
	type nestedObl struct {
		pos     token.Pos
		inner   string
		fns     map[string]bool
		missing map[string]bool // functions that neither rely on reset nor reset g themselves
		chains  map[string]bool
	}
	nobl := map[string]*nestedObl{}
	for _, nw := range nestedWrites {
		w, k := nw.w, nw.k
		ch := w.Chain[k:]
		j := -1
		for i := 1; i < len(ch); i++ {
			if spec.Boundary[ch[i]] && !heads[ch[i]] {
				j = i
				break
			}
		}
		if j < 0 {
			continue
		}
		ns := spec.Nested[ch[j]]
		if ns == nil {
			continue
		}
		sameReset := false
		for _, r := range spec.Reset {
			if ns.Resets[r] {
				sameReset = true
			}
		}
		if sameReset {
			continue // a pointer back to the object whose reset is this type's reset
		}
		if _, ok := ns.Cover.covers(ch[j:]); !ok {
			continue // T's own reset does not re-establish it: T's specification decides (exempt or reported there)
		}
		if exemptOf(ch[:j]) != "" {
			continue
		}
		key := chainString(p, ch[:j])
		o := nobl[key]
		if o == nil {
			o = &nestedObl{pos: w.Pos, inner: ns.Type, fns: map[string]bool{}, missing: map[string]bool{}, chains: map[string]bool{}}
			nobl[key] = o
		}
		o.fns[FuncKey(w.Fn)] = true
		if _, ok := cover.covers(ch); ok {
			continue
		}
		// deep paths exceed the composition depth of the cover: accept when
		// the reset closure contains T's reset and writes below the same path
		if _, below := cover.coversBelow(ch[:j]); below && closureHas(closureKeys, ns.Resets) {
			continue
		}
		if fnResetsNested(w.Fn, w.Root, w.Chain[:k+j], ns.Resets) {
			continue
		}
		o.missing[FuncKey(w.Fn)] = true
		o.chains[chainString(p, ch)] = true
	}
	keys = keys[:0]
	for k := range nobl {
		keys = append(keys, k)
	}
	sort.Strings(keys)
	for _, key := range keys {
		o := nobl[key]
		okey := spec.Type + ": " + key + " (nested " + o.inner + ")"
		if len(o.missing) == 0 {
			c.Pass(rule, okey, o.pos, "%s state written through %s by %s is re-established by reset, or by the writing operation calling the %s reset itself", o.inner, key, fnList(o.fns), o.inner)
		} else {
			c.Fail(rule, okey, o.pos, "%s writes %s state through %s (%s) but no function reachable from %s resets it and the operation does not call the %s reset on %s itself: the state survives into the next use of the object", fnList(o.missing), o.inner, key, fnList(o.chains), strings.Join(spec.Reset, ", "), o.inner, key)
		}
	}
	c.Stats[rule+"."+spec.Type+".nested_paths"] = len(nobl)

	for k := range spec.Exempt {
		if !usedEx[k] {
			c.Note("%s %s: exemption %q matches no unreset state on this tree", rule, spec.Type, k)
		}
	}
}

// fnResetsNested: does fn call (directly or deferred) one of the reset
// functions on the object reached from root through chain?
func fnResetsNested(fn *ssa.Function, root ssa.Value, chain []*types.Var, resets map[string]bool) bool {
	found := false
	allCalls(fn, true, func(_ *ssa.Function, call ssa.CallInstruction) {
		cc := call.Common()
		callee := cc.StaticCallee()
		if callee == nil || len(cc.Args) == 0 || !resets[baseFuncKey(callee)] {
			return
		}
		fields, r, _ := fieldChain(cc.Args[0])
		if root != nil && r != root {
			if _, isFree := r.(*ssa.FreeVar); !isFree {
				return
			}
		}
		if len(fields) != len(chain) {
			return
		}
		for i := range fields {
			if fields[i] != chain[i] {
				return
			}
		}
		found = true
	})
	return found
}

func closureHas(closureKeys map[string]bool, resets map[string]bool) bool {
	for k := range closureKeys {
		b := k
		if i := strings.Index(b, "$"); i >= 0 {
			b = b[:i]
		}
		if resets[b] {
			return true
		}
	}
	return false
}
