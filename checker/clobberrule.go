package main

import (
	"fmt"
	"go/token"
	"go/types"

	"golang.org/x/tools/go/ssa"
)

// T-CLOBBER: a method that fills a buffer at positions computed from a cursor
// field of its receiver (`bits[col.n/8]`, `f(bits[col.n/8:], …)`) and makes
// several such writes in one call must advance the cursor between a write and
// a later write that lands on the same expression of the cursor and does not
// merge with what is there (a bulk write through a re-slice, a plain store):
// otherwise the later write replaces what the earlier one has just stored.

type cursorWrite struct {
	ins   ssa.Instruction
	base  ssa.Value
	field *types.Var
	shape string
	merge bool // read-modify-write of the same element
}

func runClobberRule(c *Ctx, rule string, min int) {
	p := c.P
	n := 0
	for _, fn := range p.ModuleSSAFuncs() {
		if fn.Origin() != nil || fn.Blocks == nil || fn.Signature.Recv() == nil || fnPkgPath(fn) != modPath {
			continue
		}
		recvStruct := structOf(fn.Signature.Recv().Type())
		if recvStruct == nil {
			continue
		}
		// recvField: addr is the address of a field reached from the receiver
		// through embedded or nested structs (not through an element)
		recvField := func(addr ssa.Value) *types.Var {
			if _, ok := addr.(*ssa.FieldAddr); !ok {
				return nil
			}
			fs, root, elem := fieldChain(addr)
			if len(fs) == 0 || elem {
				return nil
			}
			switch r := root.(type) {
			case *ssa.Parameter:
				if r != fn.Params[0] {
					return nil
				}
			case *ssa.UnOp:
				if _, isAlloc := r.X.(*ssa.Alloc); !isAlloc {
					return nil
				}
			case *ssa.Alloc:
			default:
				return nil
			}
			return fs[len(fs)-1]
		}
		var shape func(v ssa.Value, depth int) (*types.Var, string)
		shape = func(v ssa.Value, depth int) (*types.Var, string) {
			if depth > 5 {
				return nil, ""
			}
			switch x := v.(type) {
			case *ssa.Convert:
				return shape(x.X, depth+1)
			case *ssa.UnOp:
				if x.Op != token.MUL {
					return nil, ""
				}
				f := recvField(x.X)
				if f == nil {
					return nil, ""
				}
				if b, ok := f.Type().Underlying().(*types.Basic); !ok || b.Info()&types.IsInteger == 0 {
					return nil, ""
				}
				return f, "F"
			case *ssa.BinOp:
				if k, ok := x.Y.(*ssa.Const); ok && k.Value != nil {
					if f, s := shape(x.X, depth+1); f != nil {
						return f, fmt.Sprintf("(%s%s%s)", s, x.Op, k.Value.ExactString())
					}
				}
			}
			return nil, ""
		}
		var writes []cursorWrite
		stores := map[*types.Var][]ssa.Instruction{}
		allInstrs(fn, false, func(_ *ssa.Function, ins ssa.Instruction) {
			switch x := ins.(type) {
			case *ssa.Store:
				if f := recvField(x.Addr); f != nil {
					stores[f] = append(stores[f], ins)
					return
				}
				ia, ok := x.Addr.(*ssa.IndexAddr)
				if !ok {
					return
				}
				f, s := shape(ia.Index, 0)
				if f == nil {
					return
				}
				// does the stored value merge with the element already there?
				merge := false
				seen := map[ssa.Value]bool{}
				var dep func(v ssa.Value, d int)
				dep = func(v ssa.Value, d int) {
					if v == nil || seen[v] || d > 8 {
						return
					}
					seen[v] = true
					switch y := v.(type) {
					case *ssa.BinOp:
						dep(y.X, d+1)
						dep(y.Y, d+1)
					case *ssa.Convert:
						dep(y.X, d+1)
					case *ssa.UnOp:
						if ia2, ok := y.X.(*ssa.IndexAddr); ok && y.Op == token.MUL && ia2.X == ia.X {
							if f2, s2 := shape(ia2.Index, 0); f2 == f && s2 == s {
								merge = true
							}
						}
						if y.Op != token.MUL {
							dep(y.X, d+1)
						}
					}
				}
				dep(x.Val, 0)
				writes = append(writes, cursorWrite{ins: ins, base: ia.X, field: f, shape: s, merge: merge})
			case ssa.CallInstruction:
				cc := x.Common()
				if _, isB := cc.Value.(*ssa.Builtin); isB {
					if cc.Value.Name() != "copy" {
						return
					}
				}
				for i, a := range cc.Args {
					sl, ok := a.(*ssa.Slice)
					if !ok || sl.Low == nil {
						continue
					}
					f, s := shape(sl.Low, 0)
					if f == nil {
						continue
					}
					// the callee writes through this argument: copy's destination, a
					// function without a Go body (assembly), or one whose summary says so
					writesArg := false
					if _, isB := cc.Value.(*ssa.Builtin); isB {
						writesArg = i == 0
					} else if callee := cc.StaticCallee(); callee != nil {
						writesArg = calleeWritesSliceParam(callee, i, 0)
					}
					if writesArg {
						writes = append(writes, cursorWrite{ins: x.(ssa.Instruction), base: sl.X, field: f, shape: s})
					}
				}
			}
		})
		if len(writes) < 2 {
			continue
		}
		for _, b := range writes {
			if b.merge {
				continue
			}
			examined := false
			bad := ""
			for _, a := range writes {
				if a.base != b.base || a.field != b.field || a.shape != b.shape {
					continue
				}
				// is b reachable from a without a store to the cursor?
				isStore := map[ssa.Instruction]bool{}
				for _, s := range stores[a.field] {
					isStore[s] = true
				}
				seen := map[*ssa.BasicBlock]bool{}
				found := false
				var visit func(blk *ssa.BasicBlock, from int)
				visit = func(blk *ssa.BasicBlock, from int) {
					for _, ins := range blk.Instrs[from:] {
						if isStore[ins] {
							return
						}
						if ins == b.ins {
							found = true
							return
						}
					}
					for _, s := range blk.Succs {
						if !seen[s] {
							seen[s] = true
							visit(s, 0)
						}
					}
				}
				start := 0
				for k, ins := range a.ins.Block().Instrs {
					if ins == a.ins {
						start = k + 1
					}
				}
				visit(a.ins.Block(), start)
				reach := reachableAvoidingSet(a.ins.Block(), nil, nil)
				if a.ins != b.ins && (reach[b.ins.Block()] || a.ins.Block() == b.ins.Block()) {
					examined = true
				}
				if found {
					bad = p.Pos(a.ins.Pos())
				}
			}
			if !examined && bad == "" {
				continue
			}
			n++
			c.Check(rule, FuncKey(fn)+": the cursor "+b.field.Name()+" advances between a write and a later write at the same position", b.ins.Pos(), bad == "",
				FuncKey(fn)+" writes at "+p.Pos(b.ins.Pos())+" to the position computed from "+b.field.Name()+" that the write at "+bad+" has just filled, and "+b.field.Name()+" is not stored on the way: the later write, which does not merge with the element, replaces the values stored first, and everything that follows lands one step early")
		}
	}
	c.Min(rule, min)
}

// calleeWritesSliceParam: the callee stores through its i-th parameter — by
// its own summary, by handing it on to a callee that does, or because it has
// no Go body (assembly) and takes it as its first, destination, argument.
func calleeWritesSliceParam(callee *ssa.Function, i, depth int) bool {
	if callee == nil || depth > 3 {
		return false
	}
	if callee.Blocks == nil {
		return i == 0
	}
	if !inModule(callee) || i >= len(callee.Params) {
		return false
	}
	if len(globalsParamWrites.of(callee, 0)[i]) > 0 {
		return true
	}
	prm := callee.Params[i]
	found := false
	allCalls(callee, false, func(_ *ssa.Function, call ssa.CallInstruction) {
		cc := call.Common()
		sc := cc.StaticCallee()
		if sc == nil {
			return
		}
		for j, a := range cc.Args {
			if sl, ok := a.(*ssa.Slice); ok {
				a = sl.X
			}
			if a == ssa.Value(prm) && calleeWritesSliceParam(sc, j, depth+1) {
				found = true
			}
		}
	})
	return found
}
