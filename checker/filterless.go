package main

import (
	"go/token"
	"strings"

	"golang.org/x/tools/go/ssa"
)

// C07.filterless — a composite bloom filter answers for several column chunks
// by asking the filter of each. A member that has no filter cannot rule a
// value out: on the nil edge of the test of a member's BloomFilter() result,
// a Check method does not go on to the next member (and eventually answer
// "absent"); it returns true.
func c07Filterless(c *Ctx) {
	p := c.P
	rule := "C07.filterless"
	n := 0
	for _, fn := range p.ModuleSSAFuncs() {
		if fn.Origin() != nil || fn.Blocks == nil || fn.Name() != "Check" || fn.Signature.Recv() == nil || fnPkgPath(fn) != modPath {
			continue
		}
		inLoop := loopBlocks(fn)
		allCalls(fn, false, func(_ *ssa.Function, call ssa.CallInstruction) {
			if !strings.HasSuffix(calleeName(call), ".BloomFilter") || !inLoop[call.Block()] {
				return
			}
			v := call.Value()
			if v == nil || v.Referrers() == nil {
				return
			}
			n++
			ok := false
			why := "the result of BloomFilter() is never compared with nil"
			for _, r := range *v.Referrers() {
				bo, isB := r.(*ssa.BinOp)
				if !isB || !(isNilConst(bo.X) || isNilConst(bo.Y)) || bo.Referrers() == nil {
					continue
				}
				for _, br := range *bo.Referrers() {
					ifi, isIf := br.(*ssa.If)
					if !isIf {
						continue
					}
					nilEdge := ifi.Block().Succs[0]
					if bo.Op == token.NEQ {
						nilEdge = ifi.Block().Succs[1]
					}
					reach := reachableAvoidingSet(nilEdge, nil, nil)
					reach[nilEdge] = true
					if reach[call.Block()] {
						why = "on the nil edge the loop goes on to the next member"
						continue
					}
					// every return reached from the nil edge answers true
					allTrue := true
					for b := range reach {
						if ret, isRet := b.Instrs[len(b.Instrs)-1].(*ssa.Return); isRet && len(ret.Results) > 0 {
							rv, _ := retResult(ret, 0)
							k, isConst := rv.(*ssa.Const)
							if !isConst || isZeroConst(k) {
								allTrue = false
							}
						}
					}
					if allTrue {
						ok = true
					} else {
						why = "the nil edge reaches a return that does not answer true"
					}
				}
			}
			c.Check(rule, FuncKey(fn)+": a member chunk without a bloom filter makes the answer true", call.Pos(), ok,
				FuncKey(fn)+" asks the bloom filters of several chunks and "+why+": a value that is only in a chunk written without a filter is reported absent, and a reader that prunes on the answer skips rows that are there")
		})
	}
	c.Min(rule, 1)
}
