package main

import (
	"go/types"
	"strings"

	"golang.org/x/tools/go/ssa"
)

// T-DIRSWAP — the bounds of a column index are stored by value order: for a
// descending sort the *earliest* key of a page is its maximum. A function that
// knows the direction (a bool parameter named descending, or the result of
// SortingColumn.Descending()) and refers to both ColumnIndex.MinValue and
// ColumnIndex.MaxValue chooses between them under the direction: some phi
// merges a value originating in MinValue with one originating in MaxValue, in
// a block dominated by a branch on the direction.
func runDirSwapRule(c *Ctx, rule string, min int) {
	p := c.P
	isBoundRef := func(v ssa.Value, name string) bool {
		switch x := v.(type) {
		case *ssa.MakeClosure: // method value ci.MinValue
			if f, ok := x.Fn.(*ssa.Function); ok {
				return strings.HasPrefix(f.Name(), name+"$bound") && strings.Contains(f.String(), "ColumnIndex")
			}
		case *ssa.Call:
			if x.Call.IsInvoke() && x.Call.Method.Name() == name {
				if n := namedOf(x.Call.Value.Type()); n != nil && n.Obj().Name() == "ColumnIndex" {
					return true
				}
			}
		}
		return false
	}
	n := 0
	for _, fn := range p.ModuleSSAFuncs() {
		if fn.Origin() != nil || fn.Blocks == nil || fn.Parent() != nil || fnPkgPath(fn) != modPath {
			continue
		}
		dir := map[ssa.Value]bool{}
		for _, par := range fn.Params {
			if b, ok := par.Type().Underlying().(*types.Basic); ok && b.Kind() == types.Bool && par.Name() == "descending" {
				dir[par] = true
			}
		}
		var mins, maxs []ssa.Value
		allInstrs(fn, false, func(_ *ssa.Function, ins ssa.Instruction) {
			v, ok := ins.(ssa.Value)
			if !ok {
				return
			}
			if call, ok := ins.(*ssa.Call); ok && call.Call.IsInvoke() && call.Call.Method.Name() == "Descending" {
				dir[call] = true
			}
			if isBoundRef(v, "MinValue") {
				mins = append(mins, v)
			}
			if isBoundRef(v, "MaxValue") {
				maxs = append(maxs, v)
			}
		})
		if len(dir) == 0 || len(mins) == 0 || len(maxs) == 0 {
			continue
		}
		fromDir := func(v ssa.Value) bool {
			for _, o := range Origins(v, OriginOpts{ThroughBinOp: true}) {
				if dir[o.Val] {
					return true
				}
			}
			return dir[v]
		}
		var branches []*ssa.BasicBlock
		for _, b := range fn.Blocks {
			if iff, ok := b.Instrs[len(b.Instrs)-1].(*ssa.If); ok && fromDir(iff.Cond) {
				branches = append(branches, b)
			}
		}
		has := func(v ssa.Value, set []ssa.Value) bool {
			for _, o := range Origins(v, OriginOpts{}) {
				for _, s := range set {
					if o.Val == s {
						return true
					}
				}
			}
			for _, s := range set {
				if v == s {
					return true
				}
			}
			return false
		}
		swapped := false
		allInstrs(fn, false, func(_ *ssa.Function, ins ssa.Instruction) {
			ph, ok := ins.(*ssa.Phi)
			if !ok || swapped {
				return
			}
			a, b := false, false
			for _, e := range ph.Edges {
				if has(e, mins) {
					a = true
				}
				if has(e, maxs) {
					b = true
				}
			}
			if !a || !b {
				return
			}
			for _, br := range branches {
				if br.Dominates(ph.Block()) {
					swapped = true
				}
			}
		})
		// the same through a captured variable: a cell that receives both, one of
		// the stores sitting under a branch on the direction
		allInstrs(fn, false, func(_ *ssa.Function, ins ssa.Instruction) {
			al, ok := ins.(*ssa.Alloc)
			if !ok || swapped || al.Referrers() == nil {
				return
			}
			a, b, under := false, false, false
			for _, r := range *al.Referrers() {
				st, ok := r.(*ssa.Store)
				if !ok || st.Addr != ssa.Value(al) {
					continue
				}
				if has(st.Val, mins) {
					a = true
				}
				if has(st.Val, maxs) {
					b = true
				}
				for _, br := range branches {
					if br != st.Block() && br.Dominates(st.Block()) {
						under = true
					}
				}
			}
			if a && b && under {
				swapped = true
			}
		})
		n++
		c.Check(rule, FuncKey(fn)+": minimum and maximum bounds are exchanged under the sort direction", fn.Pos(), swapped,
			FuncKey(fn)+" knows the sort direction and reads both ColumnIndex.MinValue and ColumnIndex.MaxValue but never chooses between them under the direction: for a descending column the earliest key of a page is its maximum, so page cuts and key ranges computed from the minimum are on the wrong side and the merged output is out of order")
	}
	c.Min(rule, min)
}
