package main

import (
	"go/constant"
	"go/token"
	"go/types"
	"strings"

	"golang.org/x/tools/go/ssa"
)

// C03.headercopy — the typed write path hands the memory of a Go field
// straight to the column buffer (writeRowsFuncOfRequired). For a string or a
// slice that memory is a header (pointer, length): a column buffer with
// fixed-size values would copy the header bytes instead of the value. In the
// dispatch function, within the case of reflect.String and of reflect.Slice,
// every call of the direct-memory writer is cut off from the "column is
// FIXED_LEN_BYTE_ARRAY" outcome of a test made in that case.
func c03HeaderCopy(c *Ctx) {
	p := c.P
	rule := "C03.headercopy"
	obj := p.LookupFunc("writeRowsFuncOf")
	if !c.Anchor(rule, "writeRowsFuncOf", obj != nil) {
		return
	}
	fn := p.SSAFunc(obj)
	var flba constant.Value
	if k, ok := p.Root.Types.Scope().Lookup("FixedLenByteArray").(*types.Const); ok {
		flba = k.Val()
	}
	if !c.Anchor(rule, "FixedLenByteArray", flba != nil) {
		return
	}
	isKindCall := func(v ssa.Value, pkgPath string) bool {
		call, ok := v.(*ssa.Call)
		if !ok {
			return false
		}
		n, ok := call.Type().(*types.Named)
		return ok && n.Obj().Name() == "Kind" && n.Obj().Pkg() != nil && n.Obj().Pkg().Path() == pkgPath
	}
	constOf := func(b *ssa.BinOp) (ssa.Value, constant.Value) {
		if k, ok := b.Y.(*ssa.Const); ok && k.Value != nil {
			return b.X, k.Value
		}
		if k, ok := b.X.(*ssa.Const); ok && k.Value != nil {
			return b.Y, k.Value
		}
		return nil, nil
	}
	headerKinds := map[int64]string{int64(24): "string", int64(23): "slice"} // reflect.String, reflect.Slice
	var rp *types.Package
	for _, imp := range p.Root.Types.Imports() {
		if imp.Path() == "reflect" {
			rp = imp
		}
	}
	if rp != nil {
		headerKinds = map[int64]string{}
		for _, name := range []string{"String", "Slice"} {
			if k, ok := rp.Scope().Lookup(name).(*types.Const); ok {
				if v, exact := constant.Int64Val(k.Val()); exact {
					headerKinds[v] = strings.ToLower(name)
				}
			}
		}
	}
	n := 0
	for _, b := range fn.Blocks {
		if len(b.Instrs) == 0 {
			continue
		}
		ifi, ok := b.Instrs[len(b.Instrs)-1].(*ssa.If)
		if !ok {
			continue
		}
		bo, ok := ifi.Cond.(*ssa.BinOp)
		if !ok || bo.Op != token.EQL {
			continue
		}
		x, k := constOf(bo)
		if x == nil || !isKindCall(x, "reflect") {
			continue
		}
		kv, exact := constant.Int64Val(k)
		kind, isHeader := headerKinds[kv]
		if !exact || !isHeader {
			continue
		}
		// the body of the case (shared with other kinds when the case lists several)
		entry := b.Succs[0]
		// direct-memory calls inside the case
		for _, cb := range fn.Blocks {
			if !entry.Dominates(cb) {
				continue
			}
			for _, ins := range cb.Instrs {
				call, ok := ins.(*ssa.Call)
				if !ok || !strings.HasSuffix(calleeName(call), "writeRowsFuncOfRequired") {
					continue
				}
				n++
				cut := false
				for _, tb := range fn.Blocks {
					if !entry.Dominates(tb) || len(tb.Instrs) == 0 {
						continue
					}
					ti, ok := tb.Instrs[len(tb.Instrs)-1].(*ssa.If)
					if !ok {
						continue
					}
					tbo, ok := ti.Cond.(*ssa.BinOp)
					if !ok || (tbo.Op != token.EQL && tbo.Op != token.NEQ) {
						continue
					}
					tx, tk := constOf(tbo)
					if tx == nil || !isKindCall(tx, modPath) || !constant.Compare(tk, token.EQL, flba) {
						continue
					}
					fixed := tb.Succs[0]
					if tbo.Op == token.NEQ {
						fixed = tb.Succs[1]
					}
					reach := reachableAvoidingSet(fixed, nil, nil)
					if !reach[cb] && fixed != cb {
						cut = true
					}
				}
				c.Check(rule, "writeRowsFuncOf: the direct-memory writer of a "+kind+" field is not used for FIXED_LEN_BYTE_ARRAY columns", call.Pos(), cut,
					"in the case of reflect."+strings.ToUpper(kind[:1])+kind[1:]+" the field memory (a "+kind+" header: pointer and length) is handed to the column buffer without a test that the column is not a FIXED_LEN_BYTE_ARRAY: the typed write path stores the bytes of the header — a heap address — where the other write paths store the value (uuid tag on a string, decimal tag on a []byte)")
			}
		}
	}
	c.Min(rule, 2)
}
