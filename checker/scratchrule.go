package main

import (
	"go/types"
	"strings"

	"golang.org/x/tools/go/ssa"
)

// T-SCRATCH: an accumulate-then-flush scratch field that no reset clears must
// be truncated on every exit of each function that grows it: either a
// deferred call (closure) truncates it, or every path from a growing write to
// a return passes a truncating store.

func isTruncation(v ssa.Value) bool {
	sl, ok := v.(*ssa.Slice)
	if !ok {
		return false
	}
	if c, ok := sl.High.(*ssa.Const); ok && c.Value != nil && c.Int64() == 0 {
		return true
	}
	return false
}

func writesField(st *ssa.Store, f *types.Var) bool {
	fields, _, _ := fieldChain(st.Addr)
	return len(fields) > 0 && fields[len(fields)-1] == f
}

func fnTruncates(fn *ssa.Function, f *types.Var, depth int) bool {
	found := false
	allInstrs(fn, false, func(_ *ssa.Function, ins ssa.Instruction) {
		if st, ok := ins.(*ssa.Store); ok && writesField(st, f) && isTruncation(st.Val) {
			found = true
		}
	})
	return found
}

// yieldGrows reports whether a range-over-func body (or a nested one) grows f.
func yieldGrows(y *ssa.Function, f *types.Var) bool {
	found := false
	allInstrs(y, true, func(_ *ssa.Function, ins ssa.Instruction) {
		if st, ok := ins.(*ssa.Store); ok && writesField(st, f) && !isTruncation(st.Val) && !isNilConst(st.Val) {
			found = true
		}
	})
	return found
}

func runScratchRule(c *Ctx, rule, typeKey, field string) {
	p := c.P
	f := p.LookupField(typeKey, field)
	if !c.Anchor(rule, typeKey+"."+field, f != nil) {
		return
	}
	n := 0
	for _, fn := range p.ModuleSSAFuncs() {
		if fn.Origin() != nil {
			continue
		}
		var grows []*ssa.Store
		var truncBlocks = map[*ssa.BasicBlock]bool{}
		allInstrs(fn, false, func(_ *ssa.Function, ins ssa.Instruction) {
			st, ok := ins.(*ssa.Store)
			if !ok || !writesField(st, f) {
				return
			}
			if _, _, fresh := fieldChain(st.Addr); fresh {
			}
			_, root, _ := fieldChain(st.Addr)
			if isFreshRoot(root) {
				return
			}
			if isTruncation(st.Val) {
				truncBlocks[st.Block()] = true
				return
			}
			if isNilConst(st.Val) {
				truncBlocks[st.Block()] = true
				return
			}
			if _, isMake := st.Val.(*ssa.MakeSlice); isMake {
				return // (re)allocation of the scratch itself, e.g. at configuration time
			}
			if sl, isSl := st.Val.(*ssa.Slice); isSl {
				if _, fresh := sl.X.(*ssa.Alloc); fresh {
					return
				}
			}
			grows = append(grows, st)
		})
		// the body of a range-over-func loop is a synthetic closure: its
		// growing writes happen at the iterator call in this function
		var growSites []ssa.Instruction
		for _, g := range grows {
			growSites = append(growSites, g)
		}
		allInstrs(fn, false, func(_ *ssa.Function, ins ssa.Instruction) {
			mc, ok := ins.(*ssa.MakeClosure)
			if !ok {
				return
			}
			y, ok := mc.Fn.(*ssa.Function)
			if !ok || !strings.HasPrefix(y.Synthetic, "range-over-func") {
				return
			}
			if yieldGrows(y, f) {
				growSites = append(growSites, mc)
			}
		})
		if strings.HasPrefix(fn.Synthetic, "range-over-func") {
			continue // accounted for in the enclosing function
		}
		if len(growSites) == 0 {
			continue
		}
		n++
		key := typeKey + "." + field + " in " + FuncKey(fn)
		// (a) deferred truncation
		deferred := false
		allCalls(fn, false, func(_ *ssa.Function, call ssa.CallInstruction) {
			if _, ok := call.(*ssa.Defer); !ok {
				return
			}
			var callee *ssa.Function
			if mc, ok := call.Common().Value.(*ssa.MakeClosure); ok {
				callee, _ = mc.Fn.(*ssa.Function)
			} else {
				callee = call.Common().StaticCallee()
			}
			if callee != nil && fnTruncates(callee, f, 0) {
				deferred = true
			}
		})
		if deferred {
			c.Pass(rule, key, growSites[0].Pos(), "scratch grown here is truncated by a deferred call on every exit")
			continue
		}
		// (b) every path from a growing write to a return passes a truncation
		bad := false
		for _, g := range growSites {
			seen := map[*ssa.BasicBlock]bool{}
			var walk func(b *ssa.BasicBlock, first bool)
			walk = func(b *ssa.BasicBlock, first bool) {
				if seen[b] && !first {
					return
				}
				if !first {
					seen[b] = true
					if truncBlocks[b] {
						return
					}
				} else if truncBlocks[b] {
					// truncation in the same block after the grow?
					after := false
					for _, ins := range b.Instrs {
						if ins == g {
							after = true
							continue
						}
						if st, ok := ins.(*ssa.Store); ok && after && writesField(st, f) && (isTruncation(st.Val) || isNilConst(st.Val)) {
							return
						}
					}
				}
				if len(b.Instrs) > 0 {
					if _, ok := b.Instrs[len(b.Instrs)-1].(*ssa.Return); ok {
						bad = true
					}
				}
				for _, s := range b.Succs {
					walk(s, false)
				}
			}
			walk(g.Block(), true)
		}
		c.Check(rule, key, growSites[0].Pos(), !bad, "scratch "+typeKey+"."+field+" is grown here and some exit of the function is reachable without truncating it; no reset clears it, so staged content leaks into the next operation (for instance after an error)")
	}
	c.Stats[rule+"."+typeKey+"."+field+".growing_functions"] = n
}
