package main

import (
	"go/token"
	"go/types"
	"sort"
	"strings"

	"golang.org/x/tools/go/ssa"
)

// T-PATHCONSISTENT (DESIGN.md §3): a receiver field assigned on some path to
// a success return must, on every path to a success return, be assigned or be
// pinned by the true edge of an equality test on the field.

type pathConsResult struct {
	Fn        *ssa.Function
	Field     *types.Var
	OK        bool
	BadReturn token.Pos
	NSuccess  int
}

// successReturn classifies a return: mode "nilerr" = last result (error) may
// be nil; mode "value" = first result is not a constant zero/nil.
func isSuccessReturn(ret *ssa.Return, mode string) bool {
	fn := ret.Parent()
	if ret.Block() == fn.Recover {
		return false
	}
	n := len(ret.Results)
	switch mode {
	case "nilerr":
		if n == 0 {
			return true
		}
		v, _ := retResult(ret, n-1)
		if !isErrorType(v.Type()) {
			return true
		}
		// success unless the value is provably non-nil: a call result or a
		// load of a global (sentinel error) with no nil origin
		for _, o := range Origins(v, OriginOpts{}) {
			if o.Kind == OrgConst {
				if c, ok := o.Val.(*ssa.Const); ok && c.IsNil() {
					return true
				}
			}
			if o.Kind == OrgCall || o.Kind == OrgParam || o.Kind == OrgField || o.Kind == OrgOther || o.Kind == OrgFreeVar {
				// unknown: may be nil, unless the return is dominated by err != nil
				if !dominatedByNonNilTest(ret, o.Val) {
					return true
				}
			}
		}
		return false
	case "value":
		if n == 0 {
			return false
		}
		v, _ := retResult(ret, 0)
		for _, o := range Origins(v, OriginOpts{ThroughBinOp: false}) {
			if o.Kind != OrgConst {
				return true
			}
			if c, ok := o.Val.(*ssa.Const); ok && !c.IsNil() && c.Value != nil && c.Value.String() != "0" {
				return true
			}
		}
		return false
	}
	return false
}

// dominatedByNonNilTest: ret is reached only through the true edge of
// `v != nil` (or false edge of v == nil).
func dominatedByNonNilTest(ret *ssa.Return, v ssa.Value) bool {
	refs := v.Referrers()
	if refs == nil {
		return false
	}
	for _, r := range *refs {
		b, ok := r.(*ssa.BinOp)
		if !ok || (b.Op != token.NEQ && b.Op != token.EQL) {
			continue
		}
		if !isNilConst(b.X) && !isNilConst(b.Y) {
			continue
		}
		for _, br := range realReferrers(b) {
			ifi, ok := br.(*ssa.If)
			if !ok {
				continue
			}
			nonNil := ifi.Block().Succs[0]
			if b.Op == token.EQL {
				nonNil = ifi.Block().Succs[1]
			}
			if nonNil.Dominates(ret.Block()) && len(nonNil.Preds) == 1 {
				return true
			}
		}
	}
	return false
}

type pathCons struct {
	p         *Prog
	mustWrite map[*ssa.Function]map[*types.Var]bool
	inProg    map[*ssa.Function]bool
	pin       *types.Var // additional field whose equality tests pin the analysed field (callee summaries)
}

func newPathCons(p *Prog) *pathCons {
	return &pathCons{p: p, mustWrite: map[*ssa.Function]map[*types.Var]bool{}, inProg: map[*ssa.Function]bool{}}
}

// recvFieldStores: blocks of fn that store to field f of the receiver type
// (type-keyed: any instance of the receiver's struct type), directly or by
// calling a function that writes f on all its paths.
func (pc *pathCons) writeBlocks(fn *ssa.Function, f *types.Var) map[*ssa.BasicBlock]bool {
	out := map[*ssa.BasicBlock]bool{}
	for _, b := range fn.Blocks {
		for _, ins := range b.Instrs {
			switch x := ins.(type) {
			case *ssa.Store:
				fields, _, _ := fieldChain(x.Addr)
				for _, g := range fields {
					if g == f {
						out[b] = true
					}
				}
			}
			if call, ok := ins.(ssa.CallInstruction); ok {
				if _, isDefer := call.(*ssa.Defer); isDefer {
					continue
				}
				cc := call.Common()
				if bi, ok := cc.Value.(*ssa.Builtin); ok && (bi.Name() == "clear" || bi.Name() == "copy") && len(cc.Args) > 0 {
					fields, _, _ := fieldChain(cc.Args[0])
					for _, g := range fields {
						if g == f {
							out[b] = true
						}
					}
				}
				if callee := cc.StaticCallee(); callee != nil && inModule(callee) && callee.Blocks != nil {
					if pc.calleeMustWrite(callee, f) {
						out[b] = true
					}
				}
			}
		}
	}
	return out
}

func (pc *pathCons) calleeMustWrite(fn *ssa.Function, f *types.Var) bool {
	if m, ok := pc.mustWrite[fn]; ok {
		if v, ok := m[f]; ok {
			return v
		}
	} else {
		pc.mustWrite[fn] = map[*types.Var]bool{}
	}
	if pc.inProg[fn] {
		return false
	}
	pc.inProg[fn] = true
	defer func() { pc.inProg[fn] = false }()
	wb := pc.writeBlocks(fn, f)
	res := len(wb) > 0
	if res {
		pins := pinEdges(fn, f)
		if pc.pin != nil {
			for e := range pinEdges(fn, pc.pin) {
				pins[e] = true
			}
		}
		reach := reachableAvoidingSet(fn.Blocks[0], wb, pins)
		for _, r := range returnsOf(fn) {
			if r.Block() == fn.Recover {
				continue
			}
			if reach[r.Block()] {
				res = false
			}
		}
	}
	pc.mustWrite[fn][f] = res
	return res
}

func reachableAvoidingSet(start *ssa.BasicBlock, avoid map[*ssa.BasicBlock]bool, skip map[[2]*ssa.BasicBlock]bool) map[*ssa.BasicBlock]bool {
	seen := map[*ssa.BasicBlock]bool{}
	var walk func(b *ssa.BasicBlock)
	walk = func(b *ssa.BasicBlock) {
		if avoid[b] || seen[b] {
			return
		}
		seen[b] = true
		for _, s := range b.Succs {
			if skip[[2]*ssa.BasicBlock{b, s}] {
				continue
			}
			walk(s)
		}
	}
	walk(start)
	return seen
}

// pinEdges: edges on which field f is known equal to something (true edge of
// `load(f) == x`, false edge of `load(f) != x`).
func pinEdges(fn *ssa.Function, f *types.Var) map[[2]*ssa.BasicBlock]bool {
	out := map[[2]*ssa.BasicBlock]bool{}
	isLoadOf := func(v ssa.Value) bool {
		for _, o := range Origins(v, OriginOpts{}) {
			if o.Kind == OrgField && o.Field == f {
				return true
			}
		}
		return false
	}
	for _, b := range fn.Blocks {
		if len(b.Instrs) == 0 {
			continue
		}
		ifi, ok := b.Instrs[len(b.Instrs)-1].(*ssa.If)
		if !ok {
			continue
		}
		bo, ok := ifi.Cond.(*ssa.BinOp)
		if !ok {
			// `if x.flag`: the flag is known true on the true edge
			if _, isLoad := ifi.Cond.(*ssa.UnOp); isLoad && isLoadOf(ifi.Cond) {
				out[[2]*ssa.BasicBlock{b, b.Succs[0]}] = true
			}
			continue
		}
		if bo.Op != token.EQL && bo.Op != token.NEQ {
			continue
		}
		if !isLoadOf(bo.X) && !isLoadOf(bo.Y) {
			continue
		}
		if bo.Op == token.EQL {
			out[[2]*ssa.BasicBlock{b, b.Succs[0]}] = true
		} else {
			out[[2]*ssa.BasicBlock{b, b.Succs[1]}] = true
		}
	}
	return out
}

// Analyse computes, for every field of the receiver's struct type that fn
// stores, whether it is path-consistent w.r.t. the success returns.
func (pc *pathCons) Analyse(fn *ssa.Function, mode string) []pathConsResult {
	if fn == nil || fn.Blocks == nil || fn.Signature.Recv() == nil {
		return nil
	}
	recv := namedOf(fn.Signature.Recv().Type())
	if recv == nil {
		return nil
	}
	own := fieldsOfStruct(recv)
	var success []*ssa.Return
	for _, r := range returnsOf(fn) {
		if isSuccessReturn(r, mode) {
			success = append(success, r)
		}
	}
	var fields []*types.Var
	seen := map[*types.Var]bool{}
	for _, b := range fn.Blocks {
		for _, ins := range b.Instrs {
			if st, ok := ins.(*ssa.Store); ok {
				fs, _, _ := fieldChain(st.Addr)
				if len(fs) > 0 && own[fs[0]] && !seen[fs[0]] {
					seen[fs[0]] = true
					fields = append(fields, fs[0])
				}
			}
		}
	}
	sort.Slice(fields, func(i, j int) bool { return fields[i].Name() < fields[j].Name() })
	var out []pathConsResult
	for _, f := range fields {
		wb := pc.writeBlocks(fn, f)
		pins := pinEdges(fn, f)
		reach := reachableAvoidingSet(fn.Blocks[0], wb, pins)
		res := pathConsResult{Fn: fn, Field: f, OK: true, NSuccess: len(success)}
		for _, r := range success {
			if reach[r.Block()] {
				res.OK = false
				res.BadReturn = r.Pos()
				break
			}
		}
		out = append(out, res)
	}
	return out
}

// reachableFollowingFlags is forward reachability from the end of block start
// that follows a conditional branch in one direction only when its condition
// is a local boolean flag (an SSA phi, or a cell when a closure captures the
// variable), possibly negated, whose value on the path taken is a known
// constant: `flag := false; if … { …; flag = true }; if !flag { … }`.
func reachableFollowingFlags(start *ssa.BasicBlock) map[*ssa.BasicBlock]bool {
	type state struct {
		b   *ssa.BasicBlock
		env string
	}
	seen := map[*ssa.BasicBlock]bool{}
	visited := map[state]bool{}
	// cells a closure may assign are never known
	unknownCell := map[*ssa.Alloc]bool{}
	fn := start.Parent()
	for _, b := range fn.Blocks {
		for _, ins := range b.Instrs {
			mc, ok := ins.(*ssa.MakeClosure)
			if !ok {
				continue
			}
			cl, _ := mc.Fn.(*ssa.Function)
			for i, bind := range mc.Bindings {
				al, ok := bind.(*ssa.Alloc)
				if !ok || cl == nil || i >= len(cl.FreeVars) {
					continue
				}
				if refs := cl.FreeVars[i].Referrers(); refs != nil {
					for _, r := range *refs {
						if st, ok := r.(*ssa.Store); ok && st.Addr == ssa.Value(cl.FreeVars[i]) {
							unknownCell[al] = true
						}
					}
				}
			}
		}
	}
	constBool := func(v ssa.Value) (bool, bool) {
		k, ok := v.(*ssa.Const)
		if !ok || k.Value == nil {
			return false, false
		}
		switch k.Value.ExactString() {
		case "true":
			return true, true
		case "false":
			return false, true
		}
		return false, false
	}
	// scan applies the stores of the instructions of b (from index from on) to env
	scan := func(b *ssa.BasicBlock, from int, env map[ssa.Value]bool) {
		for _, ins := range b.Instrs[from:] {
			if st, ok := ins.(*ssa.Store); ok {
				if al, ok := st.Addr.(*ssa.Alloc); ok && !unknownCell[al] {
					if v, isC := constBool(st.Val); isC {
						env[al] = v
					} else {
						delete(env, al)
					}
				}
			}
		}
	}
	var walk func(from, b *ssa.BasicBlock, env map[ssa.Value]bool)
	walk = func(from, b *ssa.BasicBlock, env map[ssa.Value]bool) {
		ne := map[ssa.Value]bool{}
		for k, v := range env {
			ne[k] = v
		}
		pi := -1
		for i, p := range b.Preds {
			if p == from {
				pi = i
			}
		}
		for _, ins := range b.Instrs {
			phi, ok := ins.(*ssa.Phi)
			if !ok {
				break
			}
			delete(ne, phi)
			if pi >= 0 && pi < len(phi.Edges) {
				if v, isC := constBool(phi.Edges[pi]); isC {
					ne[phi] = v
				} else if v, known := env[phi.Edges[pi]]; known {
					ne[phi] = v
				}
			}
		}
		scan(b, 0, ne)
		var keys []string
		for k, v := range ne {
			s := k.Name() + "=f"
			if v {
				s = k.Name() + "=t"
			}
			keys = append(keys, s)
		}
		sort.Strings(keys)
		st := state{b, strings.Join(keys, ";")}
		if visited[st] {
			return
		}
		visited[st] = true
		seen[b] = true
		if len(b.Instrs) > 0 {
			if ifi, ok := b.Instrs[len(b.Instrs)-1].(*ssa.If); ok {
				cond := ifi.Cond
				neg := false
				if u, ok := cond.(*ssa.UnOp); ok && u.Op == token.NOT {
					cond, neg = u.X, true
				}
				var flag ssa.Value = cond
				if u, ok := cond.(*ssa.UnOp); ok && u.Op == token.MUL {
					flag = u.X // load of a cell
				}
				if v, known := ne[flag]; known {
					if neg {
						v = !v
					}
					if v {
						walk(b, b.Succs[0], ne)
					} else {
						walk(b, b.Succs[1], ne)
					}
					return
				}
			}
		}
		for _, s := range b.Succs {
			walk(b, s, ne)
		}
	}
	env := map[ssa.Value]bool{}
	scan(start, 0, env) // the stores of the start block itself (the flag is usually set right after the action)
	for _, s := range start.Succs {
		walk(start, s, env)
	}
	return seen
}
