package main

import (
	"go/token"
	"sort"
	"strings"

	"golang.org/x/tools/go/ssa"
)

// C06 — page search by value never misses a page that contains the value.

func init() {
	register(&Property{
		ID:      "C06",
		NeedSSA: true,
		Decided: "Structural necessary conditions: (param) Find, binarySearch and linearSearch learn about the index only through NumPages, MinValue, MaxValue, NullPage, IsAscending/IsDescending and touch values only through the comparison function they are given; (guard) binarySearch runs only on the true edge of index.IsAscending(); (nullpages) on the binary path the bounds of a page are used only after NullPage was consulted, because null pages report the null value, which sorts after every value and breaks monotonicity; (nullbounds) FileColumnIndex.MinValue/MaxValue read MinValues[j]/MaxValues[j] only on the non-null edge of NullPage(j); (final) a page index other than NumPages is returned by binarySearch only after the containment comparisons; (order) the order functions of signed decimal byte arrays never delegate to the unsigned byte-order helpers, and a boundary order is claimed only when the orders of minimums and maximums agree (shared with C05.order); (indexer) the per-page arrays the search reads are aligned with the pages (shared with C05.indexer). (nullpages, cont.) the linear search consults NullPage before the bounds as well.",
		NotDecided: "correctness of the bisection arithmetic itself for every order type (the algorithm touches values only through comparisons, so a finite enumeration of order types would decide it, but that means executing the function on abstract inputs, a different technique); truth of the bounds (C05).",
		Assumptions: []string{"callees are resolved through go/types; the comparison function is the `cmp` parameter"},
		Run:         runC06,
	})
}

func runC06(c *Ctx) {
	p := c.P
	// (param)
	rule := "C06.param"
	allowed := map[string]bool{
		"(ColumnIndex).NumPages": true, "(ColumnIndex).MinValue": true, "(ColumnIndex).MaxValue": true, "(ColumnIndex).NullPage": true,
		"(ColumnIndex).IsAscending": true, "(ColumnIndex).IsDescending": true,
		"binarySearch": true, "linearSearch": true, "Find": true, "CompareNullsLast": true, "(Type).Compare": true,
	}
	for _, k := range []string{"Search", "Find", "binarySearch", "linearSearch"} {
		obj := p.LookupFunc(k)
		if !c.Anchor(rule, k, obj != nil) {
			continue
		}
		fn := p.SSAFunc(obj)
		var bad []string
		seenHelper := map[*ssa.Function]bool{fn: true}
		var visit func(in *ssa.Function, call ssa.CallInstruction)
		visit = func(in *ssa.Function, call ssa.CallInstruction) {
			cc := call.Common()
			if _, isB := cc.Value.(*ssa.Builtin); isB {
				return
			}
			name := calleeName(call)
			if allowed[name] {
				return
			}
			// calls of the comparison function parameter / local closures
			if strings.HasPrefix(name, "dynamic:") {
				switch v := cc.Value.(type) {
				case *ssa.Parameter:
					if v.Name() == "cmp" {
						return
					}
				case *ssa.FreeVar:
					if v.Name() == "cmp" {
						return
					}
				case *ssa.MakeClosure:
					return
				}
			}
			if f := cc.StaticCallee(); f != nil && f.Parent() != nil {
				return // local closure of the search function itself
			}
			// an unexported helper of the package is part of the search function:
			// the same restriction applies to what it calls
			if f := cc.StaticCallee(); f != nil && f.Blocks != nil && f.Pkg == fn.Pkg && f.Object() != nil && !f.Object().Exported() && f.Signature.Recv() == nil && len(seenHelper) < 8 {
				if !seenHelper[f] {
					seenHelper[f] = true
					allCalls(f, true, visit)
				}
				return
			}
			bad = append(bad, name)
		}
		allCalls(fn, true, visit)
		sort.Strings(bad)
		c.Check(rule, k+" uses only bounds, null-page flags and the comparison function", fn.Pos(), len(bad) == 0, k+" calls "+strings.Join(bad, ", ")+": page selection must depend only on NumPages/MinValue/MaxValue/NullPage/IsAscending and the caller's comparison (e.g. a null *count* says nothing about whether the page also holds values)")
	}
	c.Min(rule, 4)

	// (guard)
	rule = "C06.guard"
	if obj := p.LookupFunc("Find"); c.Anchor(rule, "Find", obj != nil) {
		fn := p.SSAFunc(obj)
		n := 0
		allCalls(fn, false, func(_ *ssa.Function, call ssa.CallInstruction) {
			if calleeName(call) != "binarySearch" {
				return
			}
			n++
			ok := false
			for _, b := range fn.Blocks {
				if len(b.Instrs) == 0 {
					continue
				}
				ifi, isIf := b.Instrs[len(b.Instrs)-1].(*ssa.If)
				if !isIf {
					continue
				}
				if cl, isCall := ifi.Cond.(*ssa.Call); isCall && calleeName(cl) == "(ColumnIndex).IsAscending" {
					if b.Succs[0].Dominates(call.Block()) && len(b.Succs[0].Preds) == 1 {
						ok = true
					}
				}
			}
			c.Check(rule, "Find: binarySearch only under IsAscending()", call.Pos(), ok, "binarySearch is reachable for an index that does not claim ascending order")
		})
		c.Check(rule, "Find dispatches to binarySearch", fn.Pos(), n > 0, "Find no longer calls binarySearch (rule table out of date)")
		// everything else reaches linearSearch
		nl := 0
		allCalls(fn, false, func(_ *ssa.Function, call ssa.CallInstruction) {
			if calleeName(call) == "linearSearch" {
				nl++
			}
		})
		c.Check(rule, "Find falls back to linearSearch", fn.Pos(), nl > 0, "no linear fallback for unordered indexes")
	}
	c.Min(rule, 3)

	// (nullpages) + (final)
	rule = "C06.nullpages"
	// the search entry points and what they call in the package: a fast path
	// added in front of the searches uses bounds just as they do
	searchFns := []string{"linearSearch", "binarySearch"}
	{
		seen := map[string]bool{"linearSearch": true, "binarySearch": true}
		var grow func(f *ssa.Function, depth int)
		grow = func(f *ssa.Function, depth int) {
			if f == nil || f.Blocks == nil || depth > 3 {
				return
			}
			if k := FuncKey(f); !seen[k] && f.Parent() == nil {
				seen[k] = true
				searchFns = append(searchFns, k)
			}
			allCalls(f, true, func(_ *ssa.Function, call ssa.CallInstruction) {
				if sc := call.Common().StaticCallee(); sc != nil && fnPkgPath(sc) == modPath && sc.Signature.Recv() == nil {
					grow(sc, depth+1)
				}
			})
		}
		for _, k := range []string{"Search", "Find"} {
			if o := p.LookupFunc(k); o != nil {
				grow(p.SSAFunc(o), 0)
			}
		}
	}
	for _, searchFn := range searchFns {
		rule = "C06.nullpages"
		obj := p.LookupFunc(searchFn)
		if !c.Anchor(rule, searchFn, obj != nil) {
			continue
		}
		fn := p.SSAFunc(obj)
		fns := append([]*ssa.Function{fn}, fn.AnonFuncs...)
		for _, f := range fns {
			var nullCalls []ssa.Instruction
			allCalls(f, false, func(_ *ssa.Function, call ssa.CallInstruction) {
				if calleeName(call) == "(ColumnIndex).NullPage" {
					nullCalls = append(nullCalls, call.(ssa.Instruction))
				}
			})
			k := 0
			allCalls(f, false, func(_ *ssa.Function, call ssa.CallInstruction) {
				name := calleeName(call)
				if name != "(ColumnIndex).MinValue" && name != "(ColumnIndex).MaxValue" {
					return
				}
				// the NullPage test precedes the use of the bounds: some
				// NullPage call can flow to this call (dominance is too
				// strong: the scan loop `for i < n && NullPage(i)` has an
				// exit that skips the call when i == n, which the following
				// test excludes)
				dom := false
				for _, nc := range nullCalls {
					if dominates(nc, call.(ssa.Instruction)) || reachableFrom(nc.Block())[call.Block()] {
						dom = true
					}
				}
				c.Check(rule, FuncKey(f)+": "+name+"#"+itoa(k)+" only after NullPage was consulted", call.Pos(), dom, "the binary search uses the bounds of a page without checking whether the page holds only nulls: null pages report the null value, which orders after every value, so an ascending index with a null page in the middle is not monotone and the search discards the half that contains the value")
				k++
			})
		}
		c.Min(rule, 2)
		if searchFn != "binarySearch" {
			continue // the post-loop containment test below is specific to the bisection
		}

		rule = "C06.final"
		np := map[ssa.Value]bool{}
		allCalls(fn, false, func(_ *ssa.Function, call ssa.CallInstruction) {
			if calleeName(call) == "(ColumnIndex).NumPages" {
				if v, ok := call.(*ssa.Call); ok {
					np[v] = true
				}
			}
		})
		// blocks guarded by a comparison that involves the result of cmp(...)
		var cmpGuards []*ssa.BasicBlock
		for _, b := range fn.Blocks {
			if len(b.Instrs) == 0 {
				continue
			}
			ifi, ok := b.Instrs[len(b.Instrs)-1].(*ssa.If)
			if !ok {
				continue
			}
			if usesCmpCall(ifi.Cond, 0) {
				cmpGuards = append(cmpGuards, b)
			}
		}
		k := 0
		for _, r := range returnsOf(fn) {
			v, _ := retResult(r, 0)
			onlyNumPages := true
			for _, o := range Origins(v, OriginOpts{}) {
				if !(o.Kind == OrgCall && calleeName(o.Call) == "(ColumnIndex).NumPages") {
					onlyNumPages = false
				}
			}
			if onlyNumPages {
				continue
			}
			ok := false
			for _, g := range cmpGuards {
				if g.Dominates(r.Block()) && g != r.Block() {
					// outside the search loop: the guard is not on a cycle through itself
					if !reachableFromSuccs(g)[g] {
						ok = true
					}
				}
			}
			// or: the returned index is known to equal NumPages (false edge of `x < numPages`)
			if !ok {
				for _, b := range fn.Blocks {
					if len(b.Instrs) == 0 {
						continue
					}
					if ifi, isIf := b.Instrs[len(b.Instrs)-1].(*ssa.If); isIf {
						if bo, isB := ifi.Cond.(*ssa.BinOp); isB && bo.Op == token.LSS && b.Succs[1].Dominates(r.Block()) {
							isNP := false
							for _, o := range Origins(bo.Y, OriginOpts{}) {
								if o.Kind == OrgCall && calleeName(o.Call) == "(ColumnIndex).NumPages" {
									isNP = true
								}
							}
							if isNP {
								ok = true
							}
						}
					}
				}
			}
			c.Check(rule, "binarySearch: page index returned only after the containment comparisons#"+itoa(k), r.Pos(), ok, "binarySearch can return a page index without having compared the value with that page's bounds after the loop")
			k++
		}
		c.Min(rule, 1)
	}

	// (nullbounds)
	rule = "C06.nullbounds"
	for _, m := range []struct{ fn, field string }{{"(*FileColumnIndex).MinValue", "MinValues"}, {"(*FileColumnIndex).MaxValue", "MaxValues"}} {
		obj := p.LookupFunc(m.fn)
		if !c.Anchor(rule, m.fn, obj != nil) {
			continue
		}
		fn := p.SSAFunc(obj)
		var nonNull []*ssa.BasicBlock
		for _, b := range fn.Blocks {
			if len(b.Instrs) == 0 {
				continue
			}
			if ifi, ok := b.Instrs[len(b.Instrs)-1].(*ssa.If); ok {
				if cl, ok := ifi.Cond.(*ssa.Call); ok && strings.HasSuffix(calleeName(cl), ".NullPage") {
					nonNull = append(nonNull, b.Succs[1])
				}
			}
		}
		f := p.LookupField("format.ColumnIndex", m.field)
		okAll, n := true, 0
		allInstrs(fn, false, func(_ *ssa.Function, ins ssa.Instruction) {
			ia, ok := ins.(*ssa.IndexAddr)
			if !ok {
				if ix, ok2 := ins.(*ssa.Index); ok2 {
					_ = ix
				}
				return
			}
			for _, o := range Origins(ia.X, OriginOpts{}) {
				if o.Kind == OrgField && o.Field == f {
					n++
					dom := false
					for _, e := range nonNull {
						if e.Dominates(ia.Block()) {
							dom = true
						}
					}
					if !dom {
						okAll = false
					}
				}
			}
		})
		c.Check(rule, m.fn+" reads "+m.field+"[j] only for non-null pages", fn.Pos(), okAll && n > 0, "bounds of a null page are read from the raw index (they are placeholders) instead of reporting the null value")
	}
	c.Min(rule, 2)

	// (order)
	rule = "C06.order"
	unsigned := map[string]bool{"bytesAreInAscendingOrder": true, "bytesAreInDescendingOrder": true, "orderOfBytes": true, "skipBytesStreak": true}
	for _, k := range []string{"orderOfDecimalBytes"} {
		obj := p.LookupFunc(k)
		if !c.Anchor(rule, k, obj != nil) {
			continue
		}
		fn := p.SSAFunc(obj)
		var bad []string
		for g := range NewEffects(p).Closure([]*ssa.Function{fn}, TransOpts{}) {
			allCalls(g, false, func(_ *ssa.Function, call ssa.CallInstruction) {
				if n := calleeName(call); unsigned[n] {
					bad = append(bad, n)
				}
			})
		}
		sort.Strings(bad)
		c.Check(rule, k+" never uses unsigned byte order", fn.Pos(), len(bad) == 0, "the order of signed decimal byte arrays is computed with "+strings.Join(bad, ", ")+", which compares bytes as unsigned: an index whose bounds change sign can be declared ordered although it is not, and the binary search then misses pages")
	}
	c05Order(c) // boundaryOrderOf and the wiring of order(min)/order(max), reported under C05.order ids
	c.Min(rule, 1)
	indexerRule(c, "C06.indexer")
}

func usesCmpCall(v ssa.Value, depth int) bool {
	if depth > 6 || v == nil {
		return false
	}
	switch x := v.(type) {
	case *ssa.Call:
		switch fv := x.Call.Value.(type) {
		case *ssa.Parameter:
			return fv.Name() == "cmp"
		case *ssa.FreeVar:
			return fv.Name() == "cmp"
		}
	case *ssa.BinOp:
		return usesCmpCall(x.X, depth+1) || usesCmpCall(x.Y, depth+1)
	case *ssa.Phi:
		for _, e := range x.Edges {
			if usesCmpCall(e, depth+1) {
				return true
			}
		}
	case *ssa.UnOp:
		return usesCmpCall(x.X, depth+1)
	}
	return false
}

func reachableFromSuccs(b *ssa.BasicBlock) map[*ssa.BasicBlock]bool {
	seen := map[*ssa.BasicBlock]bool{}
	var walk func(x *ssa.BasicBlock)
	walk = func(x *ssa.BasicBlock) {
		if seen[x] {
			return
		}
		seen[x] = true
		for _, s := range x.Succs {
			walk(s)
		}
	}
	for _, s := range b.Succs {
		walk(s)
	}
	return seen
}
