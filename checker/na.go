package main

// Properties without a registered check. All twenty properties are claimed
// through structural clauses at level `other`; nothing is listed here.
func init() {}
