package main

// Properties without a registered check yet. Each line is removed when the
// property's rules are armed; a property that ends up with no checkable
// structural clause stays here with the final reason.
func init() {
	pending := "rules designed in DESIGN.md §4 but not armed yet in this revision of the checker; not claimed until they are"
	for _, id := range []string{"C01", "C03", "C04", "C10", "C12", "C19", "C20"} {
		declareNotApplicable(id, pending)
	}
}
