package main

import (
	"go/token"

	"golang.org/x/tools/go/ssa"
)

// C18.signed — a plaintext footer is authenticated by the signature that
// follows it. In the function that verifies that signature, once the length of
// what trails the decoded footer has been computed, no path reaches a
// successful return without passing either the signature verification or a
// test of the footer's declared EncryptionAlgorithm: a footer that says the
// file is encrypted is not accepted unsigned just because nothing trails it.
func c18Signed(c *Ctx) {
	p := c.P
	rule := "C18.signed"
	n := 0
	for _, fn := range p.ModuleSSAFuncs() {
		if fn.Origin() != nil || fn.Blocks == nil || fnPkgPath(fn) != modPath {
			continue
		}
		var verify []ssa.Instruction
		allCalls(fn, false, func(_ *ssa.Function, call ssa.CallInstruction) {
			if ci, ok := call.(ssa.Instruction); ok && leadsToVerify(call, 2) {
				verify = append(verify, ci)
			}
		})
		if len(verify) == 0 {
			continue
		}
		// the length of what trails the footer: len(x) - <bytes read>
		var trailing *ssa.BinOp
		allInstrs(fn, false, func(_ *ssa.Function, ins ssa.Instruction) {
			bo, ok := ins.(*ssa.BinOp)
			if !ok || bo.Op != token.SUB || trailing != nil {
				return
			}
			lenCall, ok1 := bo.X.(*ssa.Call)
			rd, ok2 := bo.Y.(*ssa.Call)
			if !ok1 || !ok2 {
				return
			}
			if bi, ok := lenCall.Call.Value.(*ssa.Builtin); !ok || bi.Name() != "len" {
				return
			}
			if dominates(bo, verify[0]) && calleeName(rd) != "" {
				trailing = bo
			}
		})
		if trailing == nil {
			continue // a helper that only verifies: the decision is made by its caller
		}
		n++
		avoid := map[*ssa.BasicBlock]bool{}
		for _, v := range verify {
			avoid[v.Block()] = true
		}
		for _, b := range fn.Blocks {
			if len(b.Instrs) == 0 || b == trailing.Block() {
				continue
			}
			ifi, ok := b.Instrs[len(b.Instrs)-1].(*ssa.If)
			if !ok {
				continue
			}
			for _, o := range Origins(ifi.Cond, OriginOpts{ThroughBinOp: true}) {
				if o.Kind != OrgField {
					continue
				}
				if u, ok := o.Val.(*ssa.UnOp); ok {
					fs, _, _ := fieldChain(u.X)
					for _, f := range fs {
						if f.Name() == "EncryptionAlgorithm" {
							avoid[b] = true
						}
					}
				}
				if o.Field != nil && o.Field.Name() == "EncryptionAlgorithm" {
					avoid[b] = true
				}
			}
		}
		reach := reachableAvoidingSet(trailing.Block(), avoid, nil)
		bad := token.NoPos
		for _, r := range returnsOf(fn) {
			if !reach[r.Block()] || r.Block() == fn.Recover || len(r.Results) == 0 {
				continue
			}
			v, rec := retResult(r, len(r.Results)-1)
			if rec || v == nil {
				continue
			}
			if isNilConst(v) {
				bad = r.Pos()
			}
		}
		c.Check(rule, FuncKey(fn)+": an unsigned footer is accepted only after looking at the algorithm it declares", trailing.Pos(), bad == token.NoPos,
			FuncKey(fn)+" can return successfully ("+p.Pos(bad)+") from the point where the trailing bytes of the footer were measured without verifying a signature and without testing the footer's EncryptionAlgorithm: a signed plaintext footer with its 28 signature bytes cut off opens as an ordinary file, and everything the footer says — schema, row counts, key/value metadata, offsets — can be altered unnoticed")
	}
	c.Min(rule, 1)
}

// leadsToVerify: the call is verifyFooterSignature or a function of the same
// package that calls it (to the given depth).
func leadsToVerify(call ssa.CallInstruction, depth int) bool {
	if calleeName(call) == "verifyFooterSignature" {
		return true
	}
	callee := call.Common().StaticCallee()
	if callee == nil || depth == 0 || callee.Blocks == nil || fnPkgPath(callee) != modPath {
		return false
	}
	found := false
	allCalls(callee, false, func(_ *ssa.Function, c2 ssa.CallInstruction) {
		if leadsToVerify(c2, depth-1) {
			found = true
		}
	})
	return found
}
