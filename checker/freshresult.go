package main

import (
	"go/token"
	"go/types"

	"golang.org/x/tools/go/ssa"
)

// C05.freshindex — the writer keeps the column index of every row group until
// the footer is written, while the indexer that produced it is reset and
// reused for the next row group. No slice field of a format.ColumnIndex that a
// method of an indexer builds is a slice the indexer keeps in one of its own
// fields (through re-slicing or not): it is made, cloned, or handed in by the
// caller.
func c05FreshIndex(c *Ctx) {
	p := c.P
	rule := "C05.freshindex"
	n := 0
	for _, fn := range p.ModuleSSAFuncs() {
		if fn.Origin() != nil || fn.Blocks == nil || fn.Signature.Recv() == nil || fnPkgPath(fn) != modPath {
			continue
		}
		// builds a format.ColumnIndex literal?
		var bad []string
		lits := 0
		allInstrs(fn, false, func(_ *ssa.Function, ins ssa.Instruction) {
			st, ok := ins.(*ssa.Store)
			if !ok {
				return
			}
			fa, ok := st.Addr.(*ssa.FieldAddr)
			if !ok {
				return
			}
			named := namedOf(fa.X.Type())
			stt := structOf(fa.X.Type())
			if named == nil || stt == nil || named.Obj().Name() != "ColumnIndex" || named.Obj().Pkg() == nil || named.Obj().Pkg().Path() != modPath+"/format" {
				return
			}
			if _, isAlloc := fa.X.(*ssa.Alloc); !isAlloc {
				return
			}
			f := stt.Field(fa.Field)
			if _, isSl := f.Type().Underlying().(*types.Slice); !isSl {
				return
			}
			lits++
			// the value: a (re-slice of a) load of a field reached from the receiver?
			v := st.Val
			for depth := 0; depth < 6; depth++ {
				switch x := v.(type) {
				case *ssa.ChangeType:
					v = x.X
					continue
				case *ssa.Convert:
					v = x.X
					continue
				case *ssa.Slice:
					v = x.X
					continue
				}
				break
			}
			if u, ok := v.(*ssa.UnOp); ok && u.Op == token.MUL {
				if fs, root, elem := fieldChain(u.X); len(fs) > 0 && !elem && root == ssa.Value(fn.Params[0]) {
					bad = append(bad, f.Name()+" = the indexer's own "+fs[len(fs)-1].Name()+" ("+p.Pos(st.Pos())+")")
				}
			}
		})
		if lits == 0 {
			continue
		}
		n++
		msg := ""
		for _, b := range bad {
			msg += b + "; "
		}
		c.Check(rule, FuncKey(fn)+": the column index it builds shares no slice with the indexer", fn.Pos(), len(bad) == 0,
			FuncKey(fn)+" builds a column index with "+msg+"the writer keeps the index of every row group until the footer while the indexer is reset and refilled for the next one, which overwrites the counts already recorded for the earlier row group")
	}
	c.Min(rule, 1)
}
