package main

import (
	"go/types"

	"golang.org/x/tools/go/ssa"
)

// T-PREFIXFILTER — rows sorted by (a, b, c) are sorted by every prefix of that
// list and by nothing else that can be made of it: a loop that copies sorting
// columns one by one under a condition (the column still exists, it was found)
// stops at the first column it rejects. A loop that skips the rejected column
// and goes on declares an order (a, c) the rows do not have.
//
// Sites: an append to a slice of a type named SortingColumn inside a loop, in
// a block that a condition of the same loop dominates. The branch of that
// condition that does not reach the append must not come back to the loop
// header.

func isSortingColumnSlice(t types.Type) bool {
	sl, ok := t.Underlying().(*types.Slice)
	if !ok {
		return false
	}
	n := namedOf(sl.Elem())
	return n != nil && n.Obj().Name() == "SortingColumn"
}

func runPrefixFilterRule(c *Ctx, rule string, min int) {
	p := c.P
	n := map[string]int{}
	for _, fn := range p.ModuleSSAFuncs() {
		if fn.Origin() != nil || fn.Blocks == nil || !inModule(fn) {
			continue
		}
		for _, b := range fn.Blocks {
			for _, ins := range b.Instrs {
				call, ok := ins.(*ssa.Call)
				if !ok {
					continue
				}
				bi, isB := call.Call.Value.(*ssa.Builtin)
				if !isB || bi.Name() != "append" || !isSortingColumnSlice(call.Type()) {
					continue
				}
				// the loop around the append
				header := loopHeaderOf(b)
				if header == nil {
					continue
				}
				conditional := false
				ok = true
				where := ""
				for d := b; d != nil && d != header; d = d.Idom() {
					idom := d.Idom()
					if idom == nil || idom == header {
						break
					}
					if _, isIf := idom.Instrs[len(idom.Instrs)-1].(*ssa.If); !isIf {
						continue
					}
					for _, s := range idom.Succs {
						if s == d || reachableAvoidingSet(s, map[*ssa.BasicBlock]bool{header: true}, nil)[b] {
							continue
						}
						conditional = true
						if s == header || reachableAvoidingSet(s, map[*ssa.BasicBlock]bool{b: true}, nil)[header] {
							ok = false
							where = p.Pos(idom.Instrs[len(idom.Instrs)-1].Pos())
						}
					}
				}
				if !conditional {
					continue
				}
				k := FuncKey(fn) + " stops at the first sorting column it rejects"
				n[k]++
				c.Check(rule, k+"#"+itoa(n[k]), call.Pos(), ok, FuncKey(fn)+" skips a sorting column ("+where+") and keeps copying the ones after it: the result is not a prefix of the declared order, and rows sorted by (a, b, c) are not sorted by (a, c)")
			}
		}
	}
	c.Min(rule, min)
}

// loopHeaderOf: the header of the innermost natural loop that contains b (a
// dominator of b that one of its own predecessors, reachable from b, is
// dominated by), nil when b is in no loop.
func loopHeaderOf(b *ssa.BasicBlock) *ssa.BasicBlock {
	for d := b; d != nil; d = d.Idom() {
		for _, pr := range d.Preds {
			if !d.Dominates(pr) {
				continue
			}
			if pr == b || reachableAvoidingSet(b, map[*ssa.BasicBlock]bool{d: true}, nil)[pr] || d == b {
				return d
			}
		}
	}
	return nil
}
