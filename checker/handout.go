package main

import (
	"go/token"
	"go/types"

	"golang.org/x/tools/go/ssa"
)

// T-HANDOUT — a method that fills a caller-supplied []Row from rows the
// receiver keeps (a []Row field) gives the caller copies of the values, not
// the receiver's own row headers: it neither copies headers in bulk
// (`copy(rows, r.rows[i:j])`) nor stores a header loaded from the field into
// an element of the parameter. The caller owns what it is handed — converters
// rewrite rows in place — so a handed-out header lets it write the receiver's
// storage.
func runHandoutRule(c *Ctx, rule string, min int) {
	p := c.P
	n := 0
	for _, fn := range p.ModuleSSAFuncs() {
		if fn.Origin() != nil || fn.Blocks == nil || fn.Signature.Recv() == nil || fnPkgPath(fn) != modPath || len(fn.Params) < 2 {
			continue
		}
		var dests []ssa.Value
		for _, prm := range fn.Params[1:] {
			if isRowSlice(prm.Type()) {
				dests = append(dests, prm)
			}
		}
		if len(dests) == 0 {
			continue
		}
		isDest := func(v ssa.Value) bool {
			for _, d := range dests {
				if v == d {
					return true
				}
			}
			return false
		}
		// a []Row held in a field reached from the receiver
		fromRecvField := func(v ssa.Value) *types.Var {
			var found *types.Var
			sliceFrom(v, func(x ssa.Value) bool {
				u, ok := x.(*ssa.UnOp)
				if !ok || u.Op != token.MUL || !isRowSlice(u.Type()) {
					return false
				}
				fs, root, elem := fieldChain(u.X)
				if len(fs) == 0 || elem {
					return false
				}
				switch r := root.(type) {
				case *ssa.Parameter:
					if r != fn.Params[0] {
						return false
					}
				case *ssa.UnOp:
					if _, isAlloc := r.X.(*ssa.Alloc); !isAlloc {
						return false
					}
				default:
					return false
				}
				found = fs[len(fs)-1]
				return true
			}, map[ssa.Value]bool{})
			return found
		}
		keeps := false
		var bad []string
		allInstrs(fn, false, func(_ *ssa.Function, ins ssa.Instruction) {
			switch x := ins.(type) {
			case *ssa.UnOp:
				if x.Op == token.MUL && isRowSlice(x.Type()) && fromRecvField(x) != nil {
					keeps = true
				}
			case *ssa.Call:
				if bi, ok := x.Call.Value.(*ssa.Builtin); ok && bi.Name() == "copy" && len(x.Call.Args) == 2 {
					if sliceFrom(x.Call.Args[0], isDest, map[ssa.Value]bool{}) {
						if f := fromRecvField(x.Call.Args[1]); f != nil {
							bad = append(bad, "copies the row headers of "+f.Name()+" into the destination ("+p.Pos(x.Pos())+")")
						}
					}
				}
			case *ssa.Store:
				ia, ok := x.Addr.(*ssa.IndexAddr)
				if !ok || !sliceFrom(ia.X, isDest, map[ssa.Value]bool{}) {
					return
				}
				// the stored Row is an element loaded from a receiver field
				v := x.Val
				for {
					if sl, ok := v.(*ssa.Slice); ok {
						v = sl.X
						continue
					}
					break
				}
				if u, ok := v.(*ssa.UnOp); ok && u.Op == token.MUL {
					if ia2, ok := u.X.(*ssa.IndexAddr); ok {
						if f := fromRecvField(ia2.X); f != nil {
							bad = append(bad, "stores a row header of "+f.Name()+" into the destination ("+p.Pos(x.Pos())+")")
						}
					}
				}
			}
		})
		if !keeps && len(bad) == 0 {
			continue
		}
		n++
		msg := ""
		pos := fn.Pos()
		for _, b := range bad {
			msg += b + "; "
		}
		c.Check(rule, FuncKey(fn)+": rows kept by the receiver reach the caller's []Row as copies", pos, len(bad) == 0,
			FuncKey(fn)+" "+msg+"the caller owns the rows it is handed and may rewrite them in place (schema conversion does), which now writes the receiver's own storage: a second read of the same buffer returns what the first reader's caller left there")
	}
	c.Min(rule, min)
}
