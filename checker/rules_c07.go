package main

import (
	"go/ast"
	"go/token"
	"go/types"
	"sort"
	"strings"

	"golang.org/x/tools/go/ssa"
)

// C07 — bloom filters never answer "absent" for a value that was written.

func init() {
	register(&Property{
		ID:      "C07",
		NeedSSA: true,
		Decided: "Structural necessary conditions: (hashdomain) for every physical kind the write side (splitBlockEncoding.Encode<K>, through its static callees) and the read side (Value.hash case K, through bloom.XXH64) reach xxhash functions of the same element width, and the bit-packed BOOLEAN page bytes never flow unmodified into a per-byte hash; (strategies) in flushFilterPages the `filter already filled` early exit is evaluated only for columns without a dictionary, the dictionary strategy is not chosen for a chunk that fell back to PLAIN, every non-copied column passes through flushFilterPages before its filter is written, and writeDataPage feeds the filter exactly for non-dictionary pages of a pre-sized filter; bloom filters are sized after buffered rows were flushed on the packing path; (check) CheckSplitBlock over decompressed bytes is given the length of those bytes; (own) bytes handed to a retained FileBloomFilter are allocated per filter; (header) the header written and the predicates that accept it name the same algorithm, hash and compression variants. (strategies, cont.) in flushFilterPages no sizing of the filter (which zeroes it) is reachable after an insertion, following constant boolean flags. (section) where io.NewSectionReader is given a bytes.Reader made from a slice in the same function, its length is the length of that very slice (the filter derives its block count from the section size). (everypage) in writeDataPage the test that leads to the insertion of the page into a filter sized in advance dominates every successful return (the plaintext exit and the encrypted one). (filterless) a Check method that asks the BloomFilter() of several member chunks in a loop returns true on the nil edge of a member's result instead of going on to the next member.",
		NotDecided: "the hash functions, block selection and masks themselves; the assembly kernels; filter sizing arithmetic; false-positive rates.",
		Assumptions: []string{"xxhash defines MultiSum64Uint128 over 16-byte values equal to Sum64 over the same bytes (unit-tested upstream)"},
		Run:         runC07,
	})
}

func runC07(c *Ctx) {
	c07Filterless(c)
	c07HashDomain(c)
	c07Strategies(c)
	c07Check(c)
	c07Section(c)
	c07EveryPage(c)
}

func xxhashWidth(name string) string {
	// xxhash.MultiSum64Uint32 / Sum64Uint32 / Sum64 → "32" / "bytes"
	name = name[strings.LastIndex(name, ".")+1:]
	switch {
	case strings.HasSuffix(name, "Uint8"):
		return "8"
	case strings.HasSuffix(name, "Uint16"):
		return "16"
	case strings.HasSuffix(name, "Uint32"):
		return "32"
	case strings.HasSuffix(name, "Uint64"):
		return "64"
	case strings.HasSuffix(name, "Uint128"):
		return "128"
	case name == "Sum64":
		return "bytes"
	}
	return ""
}

func c07HashDomain(c *Ctx) {
	p := c.P
	rule := "C07.hashdomain"
	// read side: AST of Value.hash — case Kind → method of bloom.Hash
	fs := p.Syntax("(Value).hash")
	if !c.Anchor(rule, "(Value).hash", fs != nil) {
		return
	}
	read := map[string]string{} // kind constant name -> width
	defWidth := ""
	for _, sw := range fs.enumSwitches(fs.Decl.Body) {
		for _, s := range sw.Stmt.Body.List {
			cc := s.(*ast.CaseClause)
			w := ""
			for _, call := range fs.Calls(cc) {
				if fn := fs.Callee(call); fn != nil && fn.Pkg() != nil && strings.HasSuffix(fn.Pkg().Path(), "/bloom") {
					w = xxhashWidth(fn.Name())
				}
			}
			if cc.List == nil {
				defWidth = w
				continue
			}
			for _, e := range cc.List {
				if k, ok := fs.ObjOf(e).(*types.Const); ok {
					read[k.Name()] = w
				}
			}
		}
	}
	kindT := p.LookupType("Kind")
	if !c.Anchor(rule, "Kind", kindT != nil) {
		return
	}
	enc := p.LookupType("splitBlockEncoding")
	if !c.Anchor(rule, "splitBlockEncoding", enc != nil) {
		return
	}
	eff := NewEffects(p)
	for _, k := range enumConsts(kindT) {
		name := k.Name()
		m, _ := MethodOf(enc, "Encode"+name)
		if m == nil {
			c.Fail(rule, "kind "+name, k.Pos(), "splitBlockEncoding has no Encode%s", name)
			continue
		}
		fn := p.SSAFunc(m)
		widths := map[string]bool{}
		for g := range eff.Closure([]*ssa.Function{fn}, TransOpts{Stop: func(f *ssa.Function) bool {
			pk := fnPkg(f)
			return pk != nil && strings.HasSuffix(pk.Path(), "/bloom")
		}}) {
			allCalls(g, false, func(_ *ssa.Function, call ssa.CallInstruction) {
				if o := calleeObj(call); o != nil && o.Pkg() != nil && strings.HasSuffix(o.Pkg().Path(), "/bloom/xxhash") {
					if w := xxhashWidth(o.Name()); w != "" {
						widths[w] = true
					}
				}
			})
		}
		want, ok := read[name]
		if !ok {
			want = defWidth
		}
		var ws []string
		for w := range widths {
			ws = append(ws, w)
		}
		sort.Strings(ws)
		good := widths[want]
		// a 16-byte fixed-length value may be hashed as one 128-bit element
		if want == "bytes" {
			delete(widths, "128")
		}
		for w := range widths {
			if w != want {
				good = false
			}
		}
		c.Check(rule, "kind "+name+": write-side and lookup hash agree on element width", m.Pos(), good, "values of kind "+name+" are inserted with xxhash width {"+strings.Join(ws, ",")+"} but looked up with width "+want+": a written value hashes to a different filter position than the probe")
	}
	// bit-packed BOOLEAN data must not flow unmodified into a per-byte hash
	if m, _ := MethodOf(enc, "EncodeBoolean"); m != nil {
		fn := p.SSAFunc(m)
		bad := token.NoPos
		if len(fn.Params) >= 3 {
			src := fn.Params[2] // recv, dst, src
			allCalls(fn, false, func(_ *ssa.Function, call ssa.CallInstruction) {
				if _, isB := call.Common().Value.(*ssa.Builtin); isB {
					return
				}
				for _, a := range call.Common().Args {
					for _, o := range Origins(a, OriginOpts{}) {
						if o.Kind == OrgParam && o.Val == ssa.Value(src) {
							bad = call.Pos()
						}
					}
				}
			})
		}
		c.Check(rule, "EncodeBoolean does not hash the bit-packed bytes", fn.Pos(), bad == token.NoPos, "the bit-packed page bytes (eight values per byte) are passed on to a per-byte hash, while a lookup hashes one byte per value: written booleans are reported absent")
	}
	c.Min(rule, 9)
}

func c07Strategies(c *Ctx) {
	p := c.P
	rule := "C07.strategies"
	filterF := p.LookupField("ColumnWriter", "filter")
	dictF := p.LookupField("ColumnWriter", "dictionary")
	swF := p.LookupField("ColumnWriter", "hasSwitchedToPlain")
	obj := p.LookupFunc("(*ColumnWriter).flushFilterPages")
	if !c.Anchor(rule, "(*ColumnWriter).flushFilterPages", obj != nil) || !c.Anchor(rule, "ColumnWriter.filter", filterF != nil) ||
		!c.Anchor(rule, "ColumnWriter.dictionary", dictF != nil) || !c.Anchor(rule, "ColumnWriter.hasSwitchedToPlain", swF != nil) {
		return
	}
	fn := p.SSAFunc(obj)
	fromField := func(v ssa.Value, f *types.Var) bool {
		for _, o := range Origins(v, OriginOpts{ThroughBinOp: true}) {
			if o.Kind == OrgField && o.Field == f {
				return true
			}
			if o.Kind == OrgCall {
				if b, ok := o.Call.Common().Value.(*ssa.Builtin); ok && b.Name() == "len" {
					for _, o2 := range Origins(o.Call.Common().Args[0], OriginOpts{}) {
						if o2.Kind == OrgField && o2.Field == f {
							return true
						}
					}
				}
			}
		}
		return false
	}
	var dictNil, dictNonNil, filledEdge, notSwitched []*ssa.BasicBlock
	for _, b := range fn.Blocks {
		if len(b.Instrs) == 0 {
			continue
		}
		ifi, ok := b.Instrs[len(b.Instrs)-1].(*ssa.If)
		if !ok {
			continue
		}
		switch cond := ifi.Cond.(type) {
		case *ssa.BinOp:
			if (cond.Op == token.NEQ || cond.Op == token.EQL) && (isNilConst(cond.X) || isNilConst(cond.Y)) && (fromField(cond.X, dictF) || fromField(cond.Y, dictF)) {
				if cond.Op == token.NEQ {
					dictNonNil, dictNil = append(dictNonNil, b.Succs[0]), append(dictNil, b.Succs[1])
				} else {
					dictNonNil, dictNil = append(dictNonNil, b.Succs[1]), append(dictNil, b.Succs[0])
				}
			}
			if cond.Op == token.GTR && fromField(cond.X, filterF) {
				filledEdge = append(filledEdge, b.Succs[0])
			}
			if cond.Op == token.EQL || cond.Op == token.NEQ {
				if fromField(cond.X, swF) || fromField(cond.Y, swF) {
					notSwitched = append(notSwitched, b.Succs[0], b.Succs[1])
				}
			}
		case *ssa.UnOp:
			if fromField(cond, swF) || fromField(cond.X, swF) {
				notSwitched = append(notSwitched, b.Succs[0], b.Succs[1])
			}
		default:
			if fromField(ifi.Cond, swF) {
				notSwitched = append(notSwitched, b.Succs[0], b.Succs[1])
			}
		}
	}
	c.Check(rule, "flushFilterPages distinguishes dictionary columns", fn.Pos(), len(dictNil) > 0, "no test of c.dictionary found")
	c.Check(rule, "flushFilterPages has the already-filled early exit", fn.Pos(), len(filledEdge) > 0, "no test of len(c.filter) > 0 found")
	// the `already filled` exit is evaluated only where dictionary == nil
	okFilled := true
	for _, e := range filledEdge {
		dom := false
		for _, d := range dictNil {
			if d.Dominates(e) {
				dom = true
			}
		}
		if !dom {
			okFilled = false
		}
	}
	c.Check(rule, "flushFilterPages: `filter already filled` exit only for columns without dictionary", fn.Pos(), okFilled && len(filledEdge) > 0,
		"the early exit for a pre-sized filter is taken before the dictionary strategy: the data pages of a dictionary column are never fed to the filter (writeDataPage skips dictionary pages), so a pre-sized filter of a dictionary column stays empty and every written value is reported absent")
	// the dictionary strategy must exclude chunks that fell back to PLAIN
	okDict := false
	allCalls(fn, false, func(_ *ssa.Function, call ssa.CallInstruction) {
		if calleeName(call) != "(*ColumnWriter).writePageToFilter" {
			return
		}
		inDict := false
		for _, d := range dictNonNil {
			if d.Dominates(call.Block()) {
				inDict = true
			}
		}
		if !inDict {
			return
		}
		for _, e := range notSwitched {
			if e.Dominates(call.Block()) {
				okDict = true
			}
		}
	})
	// sizing the filter zeroes it: nothing may be inserted before the last sizing
	var inserts, sizings []ssa.CallInstruction
	allCalls(fn, false, func(_ *ssa.Function, call ssa.CallInstruction) {
		switch calleeName(call) {
		case "(*ColumnWriter).writePageToFilter":
			inserts = append(inserts, call)
		case "(*ColumnWriter).resizeBloomFilter":
			sizings = append(sizings, call)
		}
	})
	okOrder := len(inserts) > 0 && len(sizings) > 0
	for _, in := range inserts {
		reach := reachableFollowingFlags(in.Block())
		for _, sz := range sizings {
			if sz.Block() == in.Block() {
				// same block: the sizing must come first
				after := false
				for _, ins := range in.Block().Instrs {
					if ins == in.(ssa.Instruction) {
						after = true
					}
					if ins == sz.(ssa.Instruction) && after {
						okOrder = false
					}
				}
				continue
			}
			if reach[sz.Block()] {
				okOrder = false
			}
		}
	}
	c.Check(rule, "flushFilterPages: the filter is sized before anything is inserted", fn.Pos(), okOrder, "resizeBloomFilter (which zeroes the filter) can run after writePageToFilter on some path: the values inserted so far (the dictionary of a column that fell back to PLAIN) are wiped and reported absent")
	c.Check(rule, "flushFilterPages: dictionary strategy not used after the PLAIN fallback", fn.Pos(), okDict,
		"the filter of a dictionary column is built from the dictionary alone without looking at hasSwitchedToPlain: values written after the dictionary outgrew DictionaryMaxBytes are in PLAIN pages, never reach the filter, and are reported absent")

	// writeRowGroup: flushFilterPages for every non-copied column
	if o := p.LookupFunc("(*writer).writeRowGroup"); c.Anchor(rule, "(*writer).writeRowGroup", o != nil) {
		wf := p.SSAFunc(o)
		var flushCall, bloomCall ssa.Instruction
		allCalls(wf, false, func(_ *ssa.Function, call ssa.CallInstruction) {
			switch calleeName(call) {
			case "(*ColumnWriter).flushFilterPages":
				flushCall = call.(ssa.Instruction)
			case "(*ColumnWriter).writeBloomFilter":
				if bloomCall == nil {
					bloomCall = call.(ssa.Instruction)
				}
			}
		})
		c.Check(rule, "writeRowGroup builds filters before writing them", wf.Pos(), flushCall != nil && bloomCall != nil && reachableFrom(flushCall.Block())[bloomCall.Block()] && !reachableFrom(bloomCall.Block())[flushCall.Block()],
			"flushFilterPages must run for the columns of a row group before their bloom filters are serialised")
	}
	// writeDataPage feeds the filter under page.Dictionary() == nil && len(c.filter) > 0
	if o := p.LookupFunc("(*ColumnWriter).writeDataPage"); c.Anchor(rule, "(*ColumnWriter).writeDataPage", o != nil) {
		wf := p.SSAFunc(o)
		ok := false
		allCalls(wf, false, func(_ *ssa.Function, call ssa.CallInstruction) {
			if calleeName(call) != "(*ColumnWriter).writePageToFilter" {
				return
			}
			var guards []string
			for _, b := range wf.Blocks {
				if len(b.Instrs) == 0 {
					continue
				}
				ifi, isIf := b.Instrs[len(b.Instrs)-1].(*ssa.If)
				if !isIf {
					continue
				}
				bo, isB := ifi.Cond.(*ssa.BinOp)
				if !isB {
					continue
				}
				if b.Succs[0].Dominates(call.Block()) {
					if bo.Op == token.GTR && fromField(bo.X, filterF) {
						guards = append(guards, "filter")
					}
					if bo.Op == token.EQL && (isNilConst(bo.X) || isNilConst(bo.Y)) {
						for _, side := range []ssa.Value{bo.X, bo.Y} {
							for _, oo := range Origins(side, OriginOpts{}) {
								if oo.Kind == OrgCall && calleeName(oo.Call) == "(Page).Dictionary" {
									guards = append(guards, "dictionary")
								}
							}
						}
					}
				}
			}
			sort.Strings(guards)
			if strings.Join(guards, ",") == "dictionary,filter" {
				ok = true
			}
		})
		c.Check(rule, "writeDataPage feeds a pre-sized filter with every non-dictionary page", wf.Pos(), ok, "writeDataPage no longer applies pages to the filter exactly when the filter is pre-sized and the page is not dictionary-encoded; the early exit of flushFilterPages relies on it")
	}
	// packing path: buffered rows are flushed before the filters are sized
	if o := p.LookupFunc("(*Writer).packSegmentsByColumn"); o != nil {
		wf := p.SSAFunc(o)
		var flush, conf ssa.Instruction
		allCalls(wf, false, func(_ *ssa.Function, call ssa.CallInstruction) {
			switch calleeName(call) {
			case "(*writer).flush":
				if flush == nil {
					flush = call.(ssa.Instruction)
				}
			case "(*Writer).configureBloomFiltersForSegments":
				conf = call.(ssa.Instruction)
			}
		})
		if flush != nil && conf != nil {
			c.Check(rule, "packSegmentsByColumn flushes buffered rows before sizing bloom filters", conf.Pos(), dominates(flush, conf),
				"the bloom filters are sized for the incoming segments while rows written earlier are still buffered: the row group those rows are flushed to gets a filter that was allocated but never fed with the pages already emitted")
		} else {
			c.Note("C07.strategies: packSegmentsByColumn shape changed (flush/configure calls not found)")
		}
	}
	c.Min(rule, 7)
}

// c07Check: read-side plumbing.
func c07Check(c *Ctx) {
	p := c.P
	rule := "C07.check"
	n := 0
	for _, fn := range p.ModuleSSAFuncs() {
		if fn.Origin() != nil {
			continue
		}
		k := 0
		allCalls(fn, false, func(_ *ssa.Function, call ssa.CallInstruction) {
			switch calleeName(call) {
			case "bloom.CheckSplitBlock":
				args := call.Common().Args
				// if the reader wraps a byte slice, the size must be its length
				var wrapped ssa.Value
				for _, o := range Origins(args[0], OriginOpts{}) {
					if o.Kind == OrgCall && calleeName(o.Call) == "bytes.NewReader" {
						wrapped = o.Call.Common().Args[0]
					}
				}
				if wrapped == nil {
					return
				}
				n++
				ok := false
				for _, o := range Origins(args[1], OriginOpts{}) {
					if o.Kind == OrgCall {
						if b, isB := o.Call.Common().Value.(*ssa.Builtin); isB && b.Name() == "len" {
							if sameValue(o.Call.Common().Args[0], wrapped) {
								ok = true
							}
						}
					}
				}
				c.Check(rule, FuncKey(fn)+": CheckSplitBlock size is the length of the bytes it reads#"+itoa(k), call.Pos(), ok, "the filter size passed to CheckSplitBlock is not the length of the (decompressed) bitset it reads: the block index is computed modulo a different number of blocks than the one used when the value was inserted")
				k++
			case "newBloomFilter":
				args := call.Common().Args
				var wrapped ssa.Value
				for _, o := range Origins(args[0], OriginOpts{}) {
					if o.Kind == OrgCall && calleeName(o.Call) == "bytes.NewReader" {
						wrapped = o.Call.Common().Args[0]
					}
				}
				if wrapped == nil {
					return
				}
				n++
				ok := true
				for _, o := range Origins(wrapped, OriginOpts{}) {
					if o.Kind != OrgAlloc || o.Sliced {
						ok = false
					}
				}
				c.Check(rule, FuncKey(fn)+": bytes behind a retained in-memory bloom filter are allocated for it#"+itoa(k), call.Pos(), ok, "the in-memory reader retained by the bloom filter wraps reused (re-sliced) storage: reading the next filter overwrites the bits of this one")
				k++
			case "newBloomFilterFromBytes":
				n++
				args := call.Common().Args
				ok := true
				for _, o := range Origins(args[len(args)-1], OriginOpts{}) {
					fresh := o.Kind == OrgAlloc && !o.Sliced
					// the plaintext returned by the decryption routine is freshly allocated
					if o.Kind == OrgCall && (calleeName(o.Call) == "readDecryptedEnvelopeFrom" || calleeName(o.Call) == "decryptModule") {
						fresh = true
					}
					if !fresh {
						ok = false
					}
				}
				c.Check(rule, FuncKey(fn)+": bytes handed to a retained bloom filter are allocated for it#"+itoa(k), call.Pos(), ok, "the byte slice retained by the FileBloomFilter is reused (re-sliced) storage: reading the next filter overwrites the bits of this one")
				k++
			}
		})
	}
	c.Stats[rule+".sites"] = n
	c.Min(rule, 3)
}

// sameValue: both values load the same variable / are the same SSA value.
func sameValue(a, b ssa.Value) bool {
	if a == b {
		return true
	}
	cell := func(v ssa.Value) ssa.Value {
		if u, ok := v.(*ssa.UnOp); ok && u.Op == token.MUL {
			return u.X
		}
		return nil
	}
	ca, cb := cell(a), cell(b)
	return ca != nil && ca == cb
}

// c07Section — a section over an in-memory reader spans what the reader
// holds: where io.NewSectionReader is given a bytes.Reader made from slice X in
// the same function, starting at 0, its length is len(X) — not the length of
// another slice of the same type (the compressed bytes next to the
// decompressed ones): the bloom filter derives its number of blocks from the
// section size, and probes the wrong block when the size is another buffer's.
func c07Section(c *Ctx) {
	rule := "C07.section"
	p := c.P
	n := 0
	for _, fn := range p.ModuleSSAFuncs() {
		if fn.Origin() != nil || fn.Blocks == nil || !inModule(fn) {
			continue
		}
		k := 0
		allCalls(fn, false, func(_ *ssa.Function, call ssa.CallInstruction) {
			if calleeName(call) != "io.NewSectionReader" {
				return
			}
			args := call.Common().Args
			var backing ssa.Value
			for _, o := range Origins(args[0], OriginOpts{}) {
				if o.Kind == OrgCall && calleeName(o.Call) == "bytes.NewReader" {
					backing = o.Call.Common().Args[0]
				}
			}
			if backing == nil {
				return
			}
			n++
			k++
			ok := false
			var got []string
			for _, o := range Origins(args[2], OriginOpts{}) {
				if o.Kind == OrgCall {
					if lc, isCall := o.Call.(*ssa.Call); isCall {
						if bi, isB := lc.Call.Value.(*ssa.Builtin); isB && bi.Name() == "len" {
							got = append(got, describeValue(p, lc.Call.Args[0]))
							if lc.Call.Args[0] == backing {
								ok = true
							}
						}
					}
				}
			}
			c.Check(rule, FuncKey(fn)+" spans the whole in-memory reader#"+itoa(k), call.Pos(), ok, FuncKey(fn)+" makes a section over bytes.NewReader("+describeValue(p, backing)+") whose length is taken from "+strings.Join(got, ", ")+": the section is not the content of the reader; a bloom filter computes its block count from this size and probes the wrong blocks")
		})
	}
	c.Min(rule, 2)
}

// c07EveryPage — when the filter of a column was sized in advance, the values
// of a page go into it as the page is written: in writeDataPage the test that
// leads to the insertion (the block whose branch calls the page-to-filter
// routine) dominates every successful return of the function — the plaintext
// exit and the encrypted one alike. An exit that is reached without passing
// the test writes pages the filter knows nothing about.
func c07EveryPage(c *Ctx) {
	rule := "C07.everypage"
	p := c.P
	obj := p.LookupFunc("(*ColumnWriter).writeDataPage")
	ins := p.LookupFunc("(*ColumnWriter).writePageToFilter")
	if !c.Anchor(rule, "(*ColumnWriter).writeDataPage, (*ColumnWriter).writePageToFilter", obj != nil && ins != nil) {
		return
	}
	fn := p.SSAFunc(obj)
	var test *ssa.BasicBlock
	allCalls(fn, false, func(_ *ssa.Function, call ssa.CallInstruction) {
		if sc := call.Common().StaticCallee(); sc != nil && sc.Object() == ins {
			// the closest dominating test
			for d := call.Block().Idom(); d != nil; d = d.Idom() {
				if _, isIf := d.Instrs[len(d.Instrs)-1].(*ssa.If); isIf {
					test = d
					// walk up through a conjunction (`a && len(filter) > 0`)
					for test.Idom() != nil {
						up := test.Idom()
						if _, isIf := up.Instrs[len(up.Instrs)-1].(*ssa.If); isIf && len(test.Preds) == 1 && test.Preds[0] == up && len(test.Instrs) <= 6 {
							test = up
							continue
						}
						break
					}
					break
				}
			}
		}
	})
	if !c.Anchor(rule, "the test that guards the insertion of a page into the filter", test != nil) {
		return
	}
	var bad []string
	n := 0
	for _, ret := range returnsOf(fn) {
		if !isSuccessReturn(ret, "nilerr") {
			continue
		}
		// failing returns that reuse an error variable are not successes
		rv, _ := retResult(ret, len(ret.Results)-1)
		if rv != nil && !isNilConst(rv) {
			continue
		}
		// `return 0, nil`: an empty page, nothing was written
		if cnt, _ := retResult(ret, 0); cnt != nil && isZeroConst(cnt) {
			continue
		}
		n++
		if !test.Dominates(ret.Block()) {
			bad = append(bad, p.Pos(ret.Pos()))
		}
	}
	sort.Strings(bad)
	c.Check(rule, "every successful exit of writeDataPage has offered the page to the filter", fn.Pos(), len(bad) == 0 && n >= 2, "(*ColumnWriter).writeDataPage returns successfully at "+strings.Join(bad, ", ")+" without having passed the test that inserts the page into a filter sized in advance: the pages written on that path (encrypted pages) are missing from the bloom filter, which is then trusted without being rebuilt")
}
