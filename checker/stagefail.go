package main

import (
	"golang.org/x/tools/go/ssa"
)

// C11.stagefail — the verbatim copy stages the source's column chunks into the
// column writers one after the other, before anything is written. A function
// that calls the staging method in a loop and returns its error takes back what
// the earlier iterations staged: the code that runs after the failure of the call,
// before the function returns, resets column writers (a loop over the ones
// staged so far, which is empty when the first one failed). Otherwise the
// writer keeps a row group that is half copied, and rows written afterwards are
// mixed with it in a file nobody can read, without any error.
func c11StageFail(c *Ctx) {
	p := c.P
	rule := "C11.stagefail"
	n := 0
	for _, fn := range p.ModuleSSAFuncs() {
		if fn.Origin() != nil || fn.Blocks == nil || fnPkgPath(fn) != modPath {
			continue
		}
		inLoop := loopBlocks(fn)
		allCalls(fn, false, func(_ *ssa.Function, call ssa.CallInstruction) {
			if calleeName(call) != "(*ColumnWriter).loadCopiedChunk" || !inLoop[call.Block()] {
				return
			}
			n++
			ok := true
			edges := errFailureEdges(call)
			if len(edges) == 0 {
				ok = false
			}
			for e := range edges {
				// the failure region: what can run after the failure without staging again
				region := reachableAvoidingSet(e[1], map[*ssa.BasicBlock]bool{call.Block(): true}, nil)
				region[e[1]] = true
				resets := false
				for b := range region {
					for _, ins := range b.Instrs {
						if c2, isCall := ins.(ssa.CallInstruction); isCall && calleeName(c2) == "(*ColumnWriter).reset" {
							resets = true
						}
					}
				}
				if !resets {
					ok = false
				}
			}
			c.Check(rule, FuncKey(fn)+": a failed staging of a verbatim copy takes back the columns staged before", call.Pos(), ok,
				FuncKey(fn)+" returns the error of loadCopiedChunk without resetting the column writers that earlier iterations staged: the writer keeps a half-copied row group, and an application that goes on (writes the rows itself, closes) gets a file whose first columns are copied source bytes and whose others are re-encoded pages — unreadable, and reported by no call")
		})
	}
	c.Min(rule, 1)
}
