package main

import (
	"go/token"
	"go/types"

	"golang.org/x/tools/go/ssa"
)

// T-FANOUT — a composite reader that keeps its children in a slice field and
// repositions itself by repositioning them reaches every child: inside a
// method M, a call of a method M' of the same name on an element of a slice
// field S of the receiver, indexed by a loop variable, sits in a loop whose
// only bound is len(S) — the loop condition is `i < len(S)` (or a range over
// S), and no other condition on the way from the loop header to the call can
// skip a child without leaving the method. A rewind of the children
// (`S[i].M'(0)` with a variable index) outside any loop rewinds one child and
// leaves the others where an earlier read left them.

type fanoutSite struct {
	Fn    *ssa.Function
	Call  ssa.CallInstruction
	Field *types.Var
	OK    bool
	Why   string
}

// elementOfReceiverSlice: is v (a method receiver value) an element of a slice
// field of fn's receiver, indexed by a non-constant index? Returns the field.
func elementOfReceiverSlice(fn *ssa.Function, v ssa.Value) (*types.Var, *ssa.IndexAddr) {
	if len(fn.Params) == 0 || fn.Signature.Recv() == nil {
		return nil, nil
	}
	recv := fn.Params[0]
	for d := 0; d < 8; d++ {
		switch x := v.(type) {
		case *ssa.IndexAddr:
			if _, isC := x.Index.(*ssa.Const); isC {
				return nil, nil
			}
			base := x.X
			for {
				sl, ok := base.(*ssa.Slice)
				if !ok {
					break
				}
				base = sl.X // a range over S[k:]
			}
			f, root, _ := bufVarOf(base)
			if f != nil && root == ssa.Value(recv) {
				return f, x
			}
			return nil, nil
		case *ssa.FieldAddr:
			v = x.X
		case *ssa.Field:
			v = x.X
		case *ssa.UnOp:
			if x.Op != token.MUL {
				return nil, nil
			}
			v = x.X
		case *ssa.MakeInterface:
			v = x.X
		case *ssa.ChangeInterface:
			v = x.X
		default:
			return nil, nil
		}
	}
	return nil, nil
}

func fanoutSites(p *Prog, methodName string) []fanoutSite {
	var out []fanoutSite
	for _, fn := range p.ModuleSSAFuncs() {
		if fn.Origin() != nil || fn.Blocks == nil || fn.Parent() != nil || fn.Name() != methodName || fn.Signature.Recv() == nil || fnPkgPath(fn) != modPath {
			continue
		}
		allCalls(fn, false, func(_ *ssa.Function, call ssa.CallInstruction) {
			cc := call.Common()
			name := ""
			var recvVal ssa.Value
			if cc.IsInvoke() {
				name, recvVal = cc.Method.Name(), cc.Value
			} else if sc := cc.StaticCallee(); sc != nil && sc.Signature.Recv() != nil && len(cc.Args) > 0 {
				name, recvVal = sc.Name(), cc.Args[0]
			}
			if name != methodName || recvVal == nil {
				return
			}
			f, ia := elementOfReceiverSlice(fn, recvVal)
			if f == nil {
				return
			}
			site := fanoutSite{Fn: fn, Call: call, Field: f}
			// loop-variable index?
			phi, _ := ia.Index.(*ssa.Phi)
			if phi == nil {
				// range loops count from -1: the index is phi+1
				if inc, ok := ia.Index.(*ssa.BinOp); ok && inc.Op == token.ADD {
					if ph, ok := inc.X.(*ssa.Phi); ok {
						if k, ok := inc.Y.(*ssa.Const); ok && k.Value != nil && k.Value.ExactString() == "1" {
							phi = ph
						}
					}
				}
			}
			if phi == nil {
				// indexed by the cursor itself (the current child): not a fan-out
				constArg := false
				for _, a := range cc.Args {
					if k, ok := a.(*ssa.Const); ok && isZeroConst(k) && isNumericBasic(k.Type()) {
						constArg = true
					}
				}
				if !constArg {
					return
				}
				site.Why = "a child is repositioned to a constant outside any loop over " + p.FieldName(f)
				out = append(out, site)
				return
			}
			h := phi.Block()
			ifi, _ := h.Instrs[len(h.Instrs)-1].(*ssa.If)
			if ifi == nil {
				site.Why = "the loop header has no condition"
				out = append(out, site)
				return
			}
			bo, _ := ifi.Cond.(*ssa.BinOp)
			boundOK := false
			if bo != nil && bo.Op == token.LSS && bo.X == ia.Index {
				if lc, ok := bo.Y.(*ssa.Call); ok {
					if bi, isB := lc.Call.Value.(*ssa.Builtin); isB && bi.Name() == "len" {
						larg := lc.Call.Args[0]
						if larg == ia.X {
							boundOK = true // the very slice that is indexed (S[k:])
						}
						for {
							sl, ok := larg.(*ssa.Slice)
							if !ok || sl.High != nil {
								break
							}
							larg = sl.X
						}
						lf, lroot, _ := bufVarOf(larg)
						if lf == f && lroot == ssa.Value(fn.Params[0]) {
							boundOK = true
						}
					}
				}
			}
			if !boundOK {
				site.Why = "the loop is not bounded by len(" + p.FieldName(f) + ") alone"
				out = append(out, site)
				return
			}
			// no other condition between the header and the call can skip the
			// child and continue: every If that dominates the call inside the
			// loop, other than the header, has its other branch leave the
			// function (an error return)
			inLoop := reachableAvoidingSet(h.Succs[0], map[*ssa.BasicBlock]bool{h: true}, nil)
			site.OK = true
			for d := call.Block(); d != nil && d != h; d = d.Idom() {
				idom := d.Idom()
				if idom == nil || idom == h || !inLoop[idom] {
					continue
				}
				if _, isIf := idom.Instrs[len(idom.Instrs)-1].(*ssa.If); !isIf {
					continue
				}
				for _, s := range idom.Succs {
					if s == d || reachableAvoidingSet(s, map[*ssa.BasicBlock]bool{h: true}, nil)[call.Block()] {
						continue
					}
					// the branch that does not lead to the call: may it come back to the header?
					if s == h || reachableAvoidingSet(s, nil, nil)[h] {
						site.OK = false
						site.Why = "a condition inside the loop (" + p.Pos(idom.Instrs[len(idom.Instrs)-1].Pos()) + ") lets an iteration skip the child"
					}
				}
			}
			// the loop starts from the cursor as the function leaves it: when the
			// first index is computed from a field of the receiver, that field is
			// not assigned again after it was read (a fan-out that runs before the
			// cursor is moved rewinds the children after the *old* position)
			if site.OK {
				for _, e := range phi.Edges {
					for _, o := range Origins(e, OriginOpts{ThroughBinOp: true}) {
						if o.Kind != OrgField {
							continue
						}
						ld, ok := o.Val.(ssa.Instruction)
						if !ok {
							continue
						}
						allInstrs(fn, false, func(_ *ssa.Function, ins ssa.Instruction) {
							st, ok := ins.(*ssa.Store)
							if !ok {
								return
							}
							fs, root, elem := fieldChain(st.Addr)
							if len(fs) == 0 || elem || fs[len(fs)-1] != o.Field || root != ssa.Value(fn.Params[0]) {
								return
							}
							if executesAfter(ld, st) && !dominates(st, ld) {
								site.OK = false
								site.Why = "the loop starts from " + p.FieldName(o.Field) + " as it was before the function moved it (" + p.Pos(st.Pos()) + ")"
							}
						})
					}
				}
			}
			// the loop is left only at its bound or on a failure: any other exit
			// edge (a second condition in the loop's test, a break) stops the
			// fan-out before the last child
			if site.OK {
				for lb := range inLoop {
					if !h.Dominates(lb) || !reachableAvoidingSet(lb, nil, nil)[h] {
						continue
					}
					for _, s := range lb.Succs {
						if s == h || (inLoop[s] && reachableAvoidingSet(s, nil, nil)[h]) {
							continue
						}
						failing := false
						if ret, ok := s.Instrs[len(s.Instrs)-1].(*ssa.Return); ok {
							for _, rv := range ret.Results {
								if isErrorType(rv.Type()) && !isNilConst(rv) {
									failing = true
								}
							}
						}
						if !failing {
							site.OK = false
							site.Why = "the loop can be left at " + p.Pos(lb.Instrs[len(lb.Instrs)-1].Pos()) + " before the last element of " + p.FieldName(f) + " without a failure"
						}
					}
				}
			}
			out = append(out, site)
		})
	}
	return out
}

func runFanoutRule(c *Ctx, rule, methodName string, min int) {
	p := c.P
	n := map[string]int{}
	for _, s := range fanoutSites(p, methodName) {
		k := FuncKey(s.Fn) + " repositions every element of " + p.FieldName(s.Field)
		n[k]++
		c.Check(rule, k+"#"+itoa(n[k]), s.Call.Pos(), s.OK, FuncKey(s.Fn)+": "+s.Why+": the children that are skipped stay where an earlier read left them, and the rows read once the reader reaches them are not the ones a fresh reader returns from that position")
	}
	c.Min(rule, min)
}
