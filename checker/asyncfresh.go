package main

import (
	"golang.org/x/tools/go/ssa"
)

// C15.async (fresh page) — the goroutine that reads pages ahead hands each page
// to the consumer once and releases it when the consumer has moved on. The page
// it sends in an iteration is the one it read in that iteration, or none: the
// value stored in the `page` field of what it sends is never carried over from
// a previous iteration of its loop (a page that was already handed out or
// released would be handed out, and released, again).
func c15AsyncFresh(c *Ctx) {
	p := c.P
	rule := "C15.async"
	obj := p.LookupFunc("readPages")
	if !c.Anchor(rule, "readPages", obj != nil) {
		return
	}
	fn := p.SSAFunc(obj)
	isHeader := func(b *ssa.BasicBlock) bool {
		for _, pr := range b.Preds {
			if b.Dominates(pr) {
				return true
			}
		}
		return false
	}
	carried := ""
	examined := 0
	allInstrs(fn, false, func(_ *ssa.Function, ins ssa.Instruction) {
		st, ok := ins.(*ssa.Store)
		if !ok {
			return
		}
		fa, ok := st.Addr.(*ssa.FieldAddr)
		if !ok {
			return
		}
		named := namedOf(fa.X.Type())
		stt := structOf(fa.X.Type())
		if named == nil || stt == nil || named.Obj().Name() != "asyncPage" || stt.Field(fa.Field).Name() != "page" {
			return
		}
		examined++
		seen := map[ssa.Value]bool{}
		var walk func(v ssa.Value)
		walk = func(v ssa.Value) {
			if v == nil || seen[v] {
				return
			}
			seen[v] = true
			ph, ok := v.(*ssa.Phi)
			if !ok {
				return
			}
			if isHeader(ph.Block()) {
				for i, e := range ph.Edges {
					if ph.Block().Dominates(ph.Block().Preds[i]) {
						if _, isConst := e.(*ssa.Const); !isConst {
							carried = p.Pos(st.Pos())
						}
					}
				}
			}
			for _, e := range ph.Edges {
				walk(e)
			}
		}
		walk(st.Val)
	})
	c.Check(rule, "readPages sends the page it read in the same iteration", fn.Pos(), examined > 0 && carried == "",
		"the page field of what readPages sends ("+carried+") can hold a value carried over from an earlier iteration of its loop: after a failed seek, or once a fatal error is being repeated, the consumer receives a page that was already handed out or released, and it is released a second time — a pooled buffer goes back while another reader still uses it")
}
