package main

import (
	"go/token"
	"go/types"

	"golang.org/x/tools/go/ssa"
)

// T-PREFIX: a count-returning method that rebases its slice parameter to a
// suffix of itself (p = p[k:]) must return counts that include the rebase
// offset, i.e. every returned count that can be non-zero is computed by an
// addition; otherwise the caller is told about the second part only and
// reads items it was not given.

func derivesFromParam(v ssa.Value, par *ssa.Parameter, seen map[ssa.Value]bool) bool {
	if v == nil || seen[v] {
		return false
	}
	seen[v] = true
	switch x := v.(type) {
	case *ssa.Parameter:
		return x == par
	case *ssa.Phi:
		for _, e := range x.Edges {
			if derivesFromParam(e, par, seen) {
				return true
			}
		}
	case *ssa.Slice:
		return derivesFromParam(x.X, par, seen)
	case *ssa.UnOp:
		if x.Op == token.MUL {
			if a, ok := x.X.(*ssa.Alloc); ok {
				for _, ref := range *a.Referrers() {
					if st, ok := ref.(*ssa.Store); ok && st.Addr == a && derivesFromParam(st.Val, par, seen) {
						return true
					}
				}
			}
		}
	}
	return false
}

func dependsOnAdd(v ssa.Value, seen map[ssa.Value]bool) bool {
	if v == nil || seen[v] {
		return false
	}
	seen[v] = true
	switch x := v.(type) {
	case *ssa.BinOp:
		if x.Op == token.ADD || x.Op == token.SUB {
			return true
		}
		return dependsOnAdd(x.X, seen) || dependsOnAdd(x.Y, seen)
	case *ssa.Phi:
		for _, e := range x.Edges {
			if dependsOnAdd(e, seen) {
				return true
			}
		}
	case *ssa.Convert:
		return dependsOnAdd(x.X, seen)
	case *ssa.ChangeType:
		return dependsOnAdd(x.X, seen)
	case *ssa.UnOp:
		if x.Op == token.MUL {
			if a, ok := x.X.(*ssa.Alloc); ok {
				for _, ref := range *a.Referrers() {
					if st, ok := ref.(*ssa.Store); ok && st.Addr == a && dependsOnAdd(st.Val, seen) {
						return true
					}
				}
			}
		}
	}
	return false
}

// rebasedParams finds slice parameters of fn that are re-sliced to a suffix
// (Low != nil) with the result flowing back into the same variable (a phi
// that also merges the parameter, or a spilled local).
func rebasedParams(fn *ssa.Function) map[*ssa.Parameter]*ssa.Slice {
	out := map[*ssa.Parameter]*ssa.Slice{}
	for _, par := range fn.Params {
		if _, ok := par.Type().Underlying().(*types.Slice); !ok {
			continue
		}
		for _, b := range fn.Blocks {
			for _, ins := range b.Instrs {
				sl, ok := ins.(*ssa.Slice)
				if !ok || sl.Low == nil {
					continue
				}
				if c, ok := sl.Low.(*ssa.Const); ok && c.Value != nil && c.Int64() == 0 {
					continue
				}
				if !derivesFromParam(sl.X, par, map[ssa.Value]bool{}) {
					continue
				}
				// the suffix becomes the variable again: it reaches a phi
				// that merges it with the parameter's other definitions
				for _, ref := range realReferrers(sl) {
					if phi, ok := ref.(*ssa.Phi); ok && derivesFromParam(phi, par, map[ssa.Value]bool{}) {
						_ = phi
						out[par] = sl
					}
				}
			}
		}
	}
	return out
}

func runPrefixRule(c *Ctx, rule string, methodNames map[string]bool) {
	n := 0
	for _, fn := range c.P.ModuleSSAFuncs() {
		if fn.Origin() != nil || fn.Parent() != nil || fn.Signature.Recv() == nil || !methodNames[fn.Name()] {
			continue
		}
		res := fn.Signature.Results()
		if res.Len() < 1 {
			continue
		}
		if b, ok := res.At(0).Type().Underlying().(*types.Basic); !ok || b.Info()&types.IsInteger == 0 {
			continue
		}
		for par, sl := range rebasedParams(fn) {
			n++
			key := FuncKey(fn) + " rebases " + par.Name()
			bad := token.NoPos
			for _, r := range returnsOf(fn) {
				if !isSuccessReturn(r, "value") {
					continue
				}
				rv, _ := retResult(r, 0)
				// only returns that can execute after the rebase
				after := false
				for _, ins := range instrsAfter(sl) {
					if ins == ssa.Instruction(r) {
						after = true
					}
				}
				if !after {
					continue
				}
				if dependsOnAdd(rv, map[ssa.Value]bool{}) {
					continue
				}
				// accepted idioms: the count returned is the rebase offset
				// itself (everything asked for was produced by the first
				// part), or the length of the original parameter
				okIdiom := true
				for _, o := range Origins(rv, OriginOpts{}) {
					if o.Val == sl.Low {
						continue
					}
					if o.Kind == OrgCall {
						if b, isB := o.Call.Common().Value.(*ssa.Builtin); isB && b.Name() == "len" && o.Call.Common().Args[0] == ssa.Value(par) {
							continue
						}
					}
					okIdiom = false
				}
				if !okIdiom {
					bad = r.Pos()
				}
			}
			c.Check(rule, key, sl.Pos(), bad == token.NoPos, "the slice parameter "+par.Name()+" is advanced past items already produced, but the count returned at "+c.P.Pos(bad)+" does not include them: the caller, whose slice still starts at the original position, is told the wrong prefix")
		}
	}
	c.Stats[rule+".rebasing_methods"] = n
}
