package main

import (
	"go/ast"
	"go/token"
	"go/types"
	"sort"
	"strings"

	"golang.org/x/tools/go/ssa"
)

// C16 — values handed to the caller are not changed by later library activity.

func init() {
	register(&Property{
		ID:      "C16",
		NeedSSA: true,
		Decided: "Structural necessary conditions: (ptrkinds) the set of value kinds whose Value points into external memory is computed from the constructor calls of the library (makeValueBytes / makeValueByteArray with a constant kind) and from Value literals that pair a constant kind with a ptr that is not a fresh allocation of the same function, and every kind switch that protects such memory — Value.Clone, rowAllocator.capture, the detach decision of newRowGroupRows — covers that whole set; (inputs) no function of the write API family (Write, WriteRows, WriteValues, WriteRow, WriteRowValues and the functions they hand their slices to) stores through a caller-provided slice parameter or passes it, or a part of it, to a callee that writes through the corresponding parameter (clearing, capturing, reordering helpers), except the frozen exceptions; (alloc) reconstruction allocates a fresh slice (reflect.MakeSlice on every path of setMakeSlice) and a fresh pointee (reflect.New on the pointer path) instead of reusing what the destination held; (detach) the value reader releases a page through the detaching path exactly when detach is set, and detaching never releases the values buffer. (assign) in functions filling a reflect.Value from a parquet Value, the value's byte slice (which points into a page buffer) reaches no reflect setter, no store into memory outliving the call and no module function doing either, unless it went through a copying operation (alias-preserving operations are enumerated: slicing, conversions, unsafe.String/Slice, unsafecast, reflect.ValueOf and views, append as destination); (inplace) AssignValue implementations never write through a view (Bytes/Slice/Index/Elem...) of the destination except under Kind()==Array; (destreads) reconstruct closures call only setters and type queries on the destination, never methods that read what it already holds. (borrowed) a struct field of type []Row that is filled by appending rows of a []Row parameter holds borrowed rows: nowhere in the package are the Values behind its elements written (no store through an element of an element, no clear/copy into an element, no call of a function that writes the row it is given or does any of these to the rows of a slice parameter); dropping or reordering the headers is allowed. (keepconfig) no method overwrites its whole receiver with a composite literal that leaves out a field which code outside the type's own methods assigns (configuration an owner sets on the instances it creates, e.g. the detach flag of a column chunk value reader). (retainrow) a Row kept in a struct field by a function that receives []Row is filled with cloned values, never with a row of the parameter or a shallow append of one. (handout) a method that fills a caller-supplied []Row and reads a []Row field of its receiver never copies row headers of that field into the destination (no bulk copy, no store of an element of the field): the caller gets copies of the values.",
		NotDecided: "absence of every dangling alias (escape analysis over unsafe pointers is out of reach); pool reuse timing; aliasing that flows through struct fields rather than parameters; raw-variant structs written through a pointer already present in the destination.",
		Assumptions: []string{"parameter-write summaries follow static calls to depth 3; dynamic calls through interfaces are not followed"},
		Run:         runC16,
	})
}

func runC16(c *Ctx) {
	c16PtrKinds(c)
	c16Inputs(c)
	c16Alloc(c)
	c16Detach(c)
	runAssignTaintRule(c, "C16.assign", 4)
	runAssignInPlaceRule(c, "C16.inplace", 18)
	runDestReadsRule(c, "C16.destreads", 5)
	runBorrowedRowsRule(c, "C16.borrowed", 3)
	runKeepConfigRule(c, "C16.keepconfig", 10)
	runRetainedRowRule(c, "C16.retainrow", 1)
	runHandoutRule(c, "C16.handout", 2)
}

func c16PtrKinds(c *Ctx) {
	p := c.P
	rule := "C16.ptrkinds"
	kindT := p.LookupType("Kind")
	if !c.Anchor(rule, "Kind", kindT != nil) {
		return
	}
	names := map[int64]string{}
	for _, k := range enumConsts(kindT) {
		if v, ok := constInt(k); ok {
			names[v] = k.Name()
		}
	}
	pk := map[string]bool{}
	nsites := 0
	for _, fn := range p.ModuleSSAFuncs() {
		if fn.Origin() != nil {
			continue
		}
		allCalls(fn, false, func(_ *ssa.Function, call ssa.CallInstruction) {
			n := calleeName(call)
			if n != "makeValueBytes" && n != "makeValueByteArray" {
				return
			}
			nsites++
			if k, ok := call.Common().Args[0].(*ssa.Const); ok && k.Value != nil {
				pk[names[k.Int64()]] = true
			}
		})
		// … and from Value literals built in place: a constant kind together
		// with a ptr that is not a fresh allocation of the same function
		if fn.Blocks == nil || fnPkgPath(fn) != modPath {
			continue
		}
		type lit struct {
			kind *ssa.Const
			ptr  ssa.Value
		}
		lits := map[ssa.Value]*lit{}
		allInstrs(fn, false, func(_ *ssa.Function, ins ssa.Instruction) {
			st, ok := ins.(*ssa.Store)
			if !ok {
				return
			}
			fa, ok := st.Addr.(*ssa.FieldAddr)
			if !ok {
				return
			}
			named := namedOf(fa.X.Type())
			stt := structOf(fa.X.Type())
			if named == nil || stt == nil || named.Obj().Name() != "Value" || named.Obj().Pkg() == nil || named.Obj().Pkg().Path() != modPath {
				return
			}
			if lits[fa.X] == nil {
				lits[fa.X] = &lit{}
			}
			switch stt.Field(fa.Field).Name() {
			case "kind":
				if k, ok := st.Val.(*ssa.Const); ok && k.Value != nil {
					lits[fa.X].kind = k
				}
			case "ptr":
				lits[fa.X].ptr = st.Val
			}
		})
		for _, l := range lits {
			if l.kind == nil || l.ptr == nil {
				continue
			}
			// fresh: the address of (an element of) a cell allocated by this function
			v := l.ptr
			fresh := false
			for depth := 0; depth < 8 && v != nil; depth++ {
				switch x := v.(type) {
				case *ssa.Convert:
					v = x.X
					continue
				case *ssa.ChangeType:
					v = x.X
					continue
				case *ssa.IndexAddr:
					v = x.X
					continue
				case *ssa.FieldAddr:
					v = x.X
					continue
				case *ssa.Alloc:
					fresh = x.Heap
				case *ssa.Const:
					fresh = x.Value == nil // nil pointer
				}
				break
			}
			if fresh {
				continue
			}
			nsites++
			// the kind is stored complemented (^int8(K)) for values of a column
			k := l.kind.Int64()
			if k < 0 {
				k = ^k
			}
			if nm, ok := names[k]; ok {
				pk[nm] = true
			}
		}
	}
	var kinds []string
	for k := range pk {
		kinds = append(kinds, k)
	}
	sort.Strings(kinds)
	c.Stats[rule+".constructor_call_sites"] = nsites
	c.Check(rule, "pointer-carrying kinds are known", token.NoPos, len(kinds) >= 2, "no constructor of pointer-carrying values found")
	for _, k := range []string{"(Value).Clone", "(*rowAllocator).capture", "newRowGroupRows"} {
		fs := p.Syntax(k)
		if !c.Anchor(rule, k, fs != nil) {
			continue
		}
		var best map[string]bool
		for _, sw := range fs.enumSwitches(fs.Decl.Body) {
			if sw.TagType.Origin() != kindT.Origin() {
				continue
			}
			for _, s := range sw.Stmt.Body.List {
				cc := s.(*ast.CaseClause)
				set := map[string]bool{}
				for _, e := range cc.List {
					if kc, ok := fs.ObjOf(e).(*types.Const); ok {
						set[kc.Name()] = true
					}
				}
				if best == nil || len(set) > len(best) {
					best = set
				}
			}
		}
		var missing []string
		for _, kd := range kinds {
			if !best[kd] {
				missing = append(missing, kd)
			}
		}
		c.Check(rule, k+" covers every pointer-carrying kind", fs.Decl.Pos(), len(missing) == 0,
			k+" does not handle kind(s) "+strings.Join(missing, ", ")+" although the library builds values of that kind that point into page or buffer memory (kinds "+strings.Join(kinds, ", ")+"): such values keep pointing at memory that is recycled")
	}
	c.Min(rule, 4)
}

var c16WriteFamily = map[string]bool{"Write": true, "WriteRows": true, "WriteValues": true, "WriteRow": true, "WriteRowValues": true, "writeRows": true, "writeValues": true, "WriteRowGroup": false}

var c16InputExempt = map[string]string{
	"(*dedupeRowWriter).WriteRows":  "documented: DedupeRowWriter reorders the rows passed to it (unique rows first) before forwarding them; values are not changed",
	"(*RowBuffer).WriteRows":        "",
	"(*transformRowWriter).WriteRows": "",
}

func c16Inputs(c *Ctx) {
	p := c.P
	rule := "C16.inputs"
	sum := &paramWriteSummaries{memo: map[*ssa.Function]map[int][]chainWrite{}, busy: map[*ssa.Function]bool{}}
	n := 0
	for _, fn := range p.ModuleSSAFuncs() {
		if fn.Origin() != nil || fn.Parent() != nil || !c16WriteFamily[fn.Name()] {
			continue
		}
		for pi, par := range fn.Params {
			if _, ok := par.Type().Underlying().(*types.Slice); !ok {
				continue
			}
			if fn.Signature.Recv() != nil && pi == 0 {
				continue
			}
			n++
			key := FuncKey(fn) + " leaves " + par.Name() + " alone"
			var probs []string
			derived := func(v ssa.Value) bool { return derivesFromParamLoose(v, par, map[ssa.Value]bool{}) }
			visit := func(f *ssa.Function) {
				allInstrs(f, false, func(_ *ssa.Function, ins ssa.Instruction) {
					switch x := ins.(type) {
					case *ssa.Store:
						// element / field-of-element store through the parameter
						if _, isLocal := x.Addr.(*ssa.Alloc); isLocal {
							return
						}
						if _, root, _ := fieldChain(x.Addr); root != nil && derived(root) {
							if ia := addrThroughIndex(x.Addr); ia {
								probs = append(probs, "store at "+p.Pos(x.Pos()))
							}
						}
					}
					call, ok := ins.(ssa.CallInstruction)
					if !ok {
						return
					}
					cc := call.Common()
					if b, isB := cc.Value.(*ssa.Builtin); isB {
						if (b.Name() == "clear" || b.Name() == "copy") && len(cc.Args) > 0 && derived(cc.Args[0]) {
							probs = append(probs, b.Name()+" at "+p.Pos(call.Pos()))
						}
						return
					}
					callee := cc.StaticCallee()
					if callee == nil || !inModule(callee) || callee.Blocks == nil {
						return
					}
					ws := sum.of(callee, 0)
					for i, a := range cc.Args {
						if len(ws[i]) == 0 || !derived(a) {
							continue
						}
						probs = append(probs, FuncKey(callee)+" (writes through its parameter "+callee.Params[i].Name()+") at "+p.Pos(call.Pos()))
					}
				})
			}
			visit(fn)
			for _, a := range fn.AnonFuncs {
				visit(a)
			}
			sort.Strings(probs)
			if why, ok := c16InputExempt[FuncKey(fn)]; ok && why != "" && len(probs) > 0 {
				c.Pass(rule, key, fn.Pos(), "exempt: %s (%s)", why, strings.Join(probs, "; "))
				continue
			}
			c.Check(rule, key, fn.Pos(), len(probs) == 0, "the slice "+par.Name()+" passed by the caller is modified: "+strings.Join(probs, "; ")+". The write API promises not to touch the rows and values it is given")
		}
	}
	c.Stats[rule+".slice_parameters"] = n
	c.Min(rule, 40)
}

// derivesFromParamLoose: v is the parameter, a sub-slice, an element or a
// range copy of it (through phis, slicing, indexing and loads of elements).
func derivesFromParamLoose(v ssa.Value, par *ssa.Parameter, seen map[ssa.Value]bool) bool {
	if v == nil || seen[v] {
		return false
	}
	seen[v] = true
	switch x := v.(type) {
	case *ssa.Parameter:
		return x == par
	case *ssa.Phi:
		for _, e := range x.Edges {
			if derivesFromParamLoose(e, par, seen) {
				return true
			}
		}
	case *ssa.Slice:
		return derivesFromParamLoose(x.X, par, seen)
	case *ssa.IndexAddr:
		return derivesFromParamLoose(x.X, par, seen)
	case *ssa.Index:
		return derivesFromParamLoose(x.X, par, seen)
	case *ssa.FieldAddr:
		return derivesFromParamLoose(x.X, par, seen)
	case *ssa.UnOp:
		if x.Op == token.MUL {
			// load of an element that is itself a slice (Row) keeps aliasing the caller's values
			if _, isSlice := x.Type().Underlying().(*types.Slice); isSlice {
				return derivesFromParamLoose(x.X, par, seen)
			}
			if a, ok := x.X.(*ssa.Alloc); ok {
				for _, ref := range *a.Referrers() {
					if st, ok := ref.(*ssa.Store); ok && st.Addr == a && derivesFromParamLoose(st.Val, par, seen) {
						return true
					}
				}
			}
		}
	case *ssa.ChangeType:
		return derivesFromParamLoose(x.X, par, seen)
	case *ssa.Convert:
		return derivesFromParamLoose(x.X, par, seen)
	case *ssa.Call:
		// unsafe casts and accessors that return the same memory
		if callee := x.Call.StaticCallee(); callee != nil {
			switch fnName(callee) {
			case "Slice", "makeArrayFromSlice", "makeArrayValue":
				for _, a := range x.Call.Args {
					if derivesFromParamLoose(a, par, seen) {
						return true
					}
				}
			}
		}
	}
	return false
}

func addrThroughIndex(addr ssa.Value) bool {
	for depth := 0; depth < 16; depth++ {
		switch x := addr.(type) {
		case *ssa.IndexAddr:
			return true
		case *ssa.FieldAddr:
			addr = x.X
		case *ssa.UnOp:
			addr = x.X
		default:
			return false
		}
	}
	return false
}

func c16Alloc(c *Ctx) {
	p := c.P
	rule := "C16.alloc"
	if obj := p.LookupFunc("setMakeSlice"); c.Anchor(rule, "setMakeSlice", obj != nil) {
		fn := p.SSAFunc(obj)
		var mk []ssa.Instruction
		allCalls(fn, false, func(_ *ssa.Function, call ssa.CallInstruction) {
			if calleeName(call) == "reflect.MakeSlice" {
				mk = append(mk, call.(ssa.Instruction))
			}
		})
		ok := len(mk) > 0
		for _, r := range returnsOf(fn) {
			dom := false
			for _, m := range mk {
				if dominates(m, r) {
					dom = true
				}
			}
			if !dom {
				ok = false
			}
		}
		c.Check(rule, "setMakeSlice allocates a new slice on every path", fn.Pos(), ok, "reconstruction can reuse the backing array already present in the destination field: rows the caller retained from an earlier Read are overwritten by the next one")
	}
	if obj := p.LookupFunc("reconstructFuncOfOptional"); c.Anchor(rule, "reconstructFuncOfOptional", obj != nil) {
		fn := p.SSAFunc(obj)
		found := false
		allCalls(fn, true, func(_ *ssa.Function, call ssa.CallInstruction) {
			if calleeName(call) == "reflect.New" {
				for _, r := range realReferrers(call.(ssa.Value)) {
					if cc, ok := r.(ssa.CallInstruction); ok && strings.HasSuffix(calleeName(cc), "reflect.(Value).Set") {
						found = true
					}
				}
			}
		})
		c.Check(rule, "optional pointer fields get a fresh pointee", fn.Pos(), found, "reconstruction of an optional pointer field no longer allocates with reflect.New: it writes through the pointer already in the destination, which the caller may have retained from an earlier Read")
	}
	c.Min(rule, 2)
}

func c16Detach(c *Ctx) {
	p := c.P
	rule := "C16.detach"
	det := p.LookupField("columnChunkValueReader", "detach")
	obj := p.LookupFunc("(*columnChunkValueReader).clear")
	if !c.Anchor(rule, "(*columnChunkValueReader).clear", obj != nil) || !c.Anchor(rule, "columnChunkValueReader.detach", det != nil) {
		return
	}
	fn := p.SSAFunc(obj)
	var onEdge, offEdge *ssa.BasicBlock
	for _, b := range fn.Blocks {
		if len(b.Instrs) == 0 {
			continue
		}
		if ifi, ok := b.Instrs[len(b.Instrs)-1].(*ssa.If); ok {
			for _, o := range Origins(ifi.Cond, OriginOpts{}) {
				if o.Kind == OrgField && o.Field == det {
					onEdge, offEdge = b.Succs[0], b.Succs[1]
				}
			}
		}
	}
	okDetach, okPlain := false, false
	allCalls(fn, false, func(_ *ssa.Function, call ssa.CallInstruction) {
		n := calleeName(call)
		if strings.Contains(n, "releaseAndDetachValues") || strings.Contains(n, "ReleaseAndDetachValues") {
			if onEdge != nil && onEdge.Dominates(call.Block()) {
				okDetach = true
			}
		}
		if n == "Release" {
			if offEdge != nil && offEdge.Dominates(call.Block()) {
				okPlain = true
			}
		}
	})
	c.Check(rule, "value reader detaches the values buffer exactly when detach is set", fn.Pos(), okDetach && okPlain, "the page of a byte-array column is released through the pooling path although rows handed to the caller still point into its values buffer (or the detach decision is no longer consulted)")
	// detaching never releases the values buffer
	n := 0
	for _, g := range p.ModuleSSAFuncs() {
		if g.Origin() != nil || g.Name() != "ReleaseAndDetachValues" {
			continue
		}
		n++
		vals := ""
		if recv := g.Signature.Recv(); recv != nil {
			if st := structOf(recv.Type()); st != nil {
				for i := 0; i < st.NumFields(); i++ {
					if st.Field(i).Name() == "values" {
						vals = "values"
					}
				}
			}
		}
		bad := false
		allCalls(g, false, func(_ *ssa.Function, call ssa.CallInstruction) {
			if strings.HasSuffix(calleeName(call), ").unref") || calleeName(call) == "Release" {
				for _, o := range Origins(call.Common().Args[0], OriginOpts{}) {
					if o.Kind == OrgField && o.Field != nil && o.Field.Name() == "values" {
						bad = true
					}
				}
			}
		})
		c.Check(rule, FuncKey(g)+" keeps the values buffer out of the pool", g.Pos(), !bad, "ReleaseAndDetachValues returns the "+vals+" buffer to the pool: rows already handed to the caller point into it")
	}
	c.Min(rule, 2)
}
