package main

import (
	"go/token"
	"go/types"

	"golang.org/x/tools/go/ssa"
)

// T-VALUERECV — a method with a value receiver works on a copy of the struct,
// but a pointer embedded in it still points to the original's state. A store to
// a field promoted from an embedded pointer (`p.numRows = …` where numRows
// lives in the embedded *chunk) therefore changes the object every other copy
// shares, while reading like a change to the local copy. In methods with a
// value receiver that return a value of the receiver's type (Slice, Clone,
// With…), no field is stored through an embedded pointer of the receiver.
func runValueRecvRule(c *Ctx, rule string, min int) {
	p := c.P
	n := 0
	for _, fn := range p.ModuleSSAFuncs() {
		if fn.Origin() != nil || fn.Blocks == nil || fn.Signature.Recv() == nil || fnPkgPath(fn) != modPath || len(fn.Params) == 0 {
			continue
		}
		rt := fn.Signature.Recv().Type()
		if _, isPtr := rt.(*types.Pointer); isPtr {
			continue
		}
		st, ok := rt.Underlying().(*types.Struct)
		if !ok {
			continue
		}
		hasEmbeddedPtr := false
		for i := 0; i < st.NumFields(); i++ {
			if f := st.Field(i); f.Embedded() {
				if _, isP := f.Type().(*types.Pointer); isP {
					hasEmbeddedPtr = true
				}
			}
		}
		if !hasEmbeddedPtr {
			continue
		}
		n++
		recv := fn.Params[0]
		// the receiver copy lives in a cell when its address is taken
		isRecvCell := func(v ssa.Value) bool {
			al, ok := v.(*ssa.Alloc)
			if !ok {
				return false
			}
			for _, ref := range *al.Referrers() {
				if s, ok := ref.(*ssa.Store); ok && s.Addr == ssa.Value(al) && s.Val == ssa.Value(recv) {
					return true
				}
			}
			return false
		}
		bad := ""
		allInstrs(fn, false, func(_ *ssa.Function, ins ssa.Instruction) {
			s, ok := ins.(*ssa.Store)
			if !ok {
				return
			}
			fa, ok := s.Addr.(*ssa.FieldAddr)
			if !ok {
				return
			}
			// base pointer: the embedded pointer field loaded from the receiver copy
			var emb *types.Var
			switch b := fa.X.(type) {
			case *ssa.UnOp:
				if b.Op != token.MUL {
					return
				}
				if fa2, ok := b.X.(*ssa.FieldAddr); ok && isRecvCell(fa2.X) {
					emb = st.Field(fa2.Field)
				}
			case *ssa.Field:
				if b.X == ssa.Value(recv) {
					emb = st.Field(b.Field)
				}
			}
			if emb == nil || !emb.Embedded() {
				return
			}
			if _, isP := emb.Type().(*types.Pointer); !isP {
				return
			}
			if target := structOf(emb.Type()); target != nil {
				bad = target.Field(fa.Field).Name() + " of the embedded *" + emb.Name() + " (" + p.Pos(s.Pos()) + ")"
			}
		})
		c.Check(rule, FuncKey(fn)+": a value-receiver method does not write through the receiver's embedded pointer", fn.Pos(), bad == "",
			FuncKey(fn)+" has a value receiver and stores "+bad+": the receiver is a copy but the embedded pointer is shared, so the store changes the object that every other copy — the one a row group installed, the one the next seek starts from — still uses")
	}
	c.Min(rule, min)
}
