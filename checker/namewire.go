package main

import (
	"go/types"

	"golang.org/x/tools/go/ssa"
)

// T-NAMEWIRE: at a static call, an argument that is a load of field F of some
// struct must not be passed in the position of a parameter named like a
// *different* field G of the same struct when F itself names another
// parameter of the callee: `newPage(p.values, p.definitionLevels,
// p.definitionLevels)` for parameters (values, definitionLevels,
// repetitionLevels) passes definitionLevels where repetitionLevels belongs.
type nameWireFinding struct {
	Fn    *ssa.Function
	Call  ssa.CallInstruction
	Param string
	Field string
}

func nameWireFindings(p *Prog) (findings []nameWireFinding, sites int) {
	for _, fn := range p.ModuleSSAFuncs() {
		if fn.Origin() != nil {
			continue
		}
		allCalls(fn, false, func(_ *ssa.Function, call ssa.CallInstruction) {
			callee := call.Common().StaticCallee()
			if callee == nil || !inModule(callee) {
				return
			}
			params := callee.Params
			args := call.Common().Args
			if len(params) != len(args) {
				return
			}
			pname := map[string]int{}
			for i, q := range params {
				pname[q.Name()] = i
			}
			for i, a := range args {
				u, ok := a.(*ssa.UnOp)
				if !ok {
					continue
				}
				fa, ok := u.X.(*ssa.FieldAddr)
				if !ok {
					continue
				}
				st := structOf(fa.X.Type())
				if st == nil {
					continue
				}
				f := st.Field(fa.Field)
				j, named := pname[f.Name()]
				if !named || j == i {
					continue
				}
				// the parameter in position i is named after another field of the same struct
				hasField := false
				for k := 0; k < st.NumFields(); k++ {
					if st.Field(k).Name() == params[i].Name() && types.Identical(st.Field(k).Type(), f.Type()) {
						hasField = true
					}
				}
				sites++
				if hasField {
					findings = append(findings, nameWireFinding{fn, call, params[i].Name(), f.Name()})
				}
			}
		})
	}
	return
}
