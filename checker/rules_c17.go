package main

import (
	"go/token"
	"go/types"
	"sort"
	"strings"

	"golang.org/x/tools/go/ssa"
)

// C17 — output bytes are a function of input and options only.

func init() {
	register(&Property{
		ID:      "C17",
		NeedSSA: true,
		Decided: "Structural necessary conditions for history independence: (reset) for the writer, row-group writer, column writers, buffers, column buffers, dictionaries and indexers, every access path that an operation writes on a reused (non-fresh) instance is written by a function reachable from the instance's reset, or is exempt for a recorded reason; a whole-struct overwrite by an operation counts as a write of every field it destroys; (own) storage that reset clears in place (footer structs of finished row groups) is never shared with live state: values published into it are freshly allocated or moved from the same path, and shallow struct copies are followed by fresh re-assignment; (scratch) accumulate-then-flush scratch slices that no reset clears are truncated on every exit of the function that grows them; (nondet) no function of the module outside a frozen allow-list calls time/rand/environment/CPU-count sources; (maps) every range over a map whose results can reach output is followed by a sort. (nested) state of an embedded specified type that an operation of the owner writes through a field path is re-established by the owner's reset reaching the inner reset through that path, or by the operation calling the inner reset itself; (own, cont.) after a shallow copy, re-assignments that append to what the field holds after the copy do not count as giving it storage of its own; (regrow) the buffers that later code accumulates into instead of overwriting — the null bitmap handed to the null-index kernels, the bloom filter bits handed to the split-block encoder (both resolved by that role), and every parameter a function both regrows and ORs into — are zeroed (clear(), a zeroing loop, or a module function doing either) after every `x = x[:n]` that regrows them inside retained capacity, on every path to a return. (cacheguard) a function that memoises in a package-level sync.Map looks the memo up under every condition (already decided at the lookup) under which it fills it. (regrow, cont.) the same holds for slice fields with pointer-carrying elements of objects kept in a memory.Pool, and for regrowth through slices.Grow(x, n)[:m]; `defer clear(x)` counts as zeroing. (pairedreset) a function that both runs the duplicate-dropping helper over a self-contained batch and resets it reaches the reset — called, or deferred — on every path from the operation to a return, failing returns included. (freshlen) a slice variable defined both by a make and by a load of a record field that the record's Reset truncates to length zero is made with length 0.",
		NotDecided: "byte equality itself; equality of the portable and accelerated kernels (assembly is not analysed); values carried in memory that is retained on purpose (capacity of truncated slices); state reachable only through interface-typed fields is checked per concrete type, not per instance.",
		Assumptions: []string{
			"effects are computed over static calls; dynamic calls (interface methods, function values) are not followed, concrete implementations are specified separately",
			"an exemption table entry is a reviewed claim, listed with its reason in the evidence",
		},
		Run: runC17,
	})
}

var writerCtors = []string{"newConcurrentRowGroupWriter", "newWriter"}

func c17ResetSpecs(p *Prog) []resetSpec {
	headerWhy := "per-page scratch header: every serialised field is assigned in the same call before the header is encoded (C13.always and C02.header check those assignments)"
	specs := []resetSpec{
		{Type: "ColumnWriter", Reset: []string{"(*writer).reset"}, Constructors: writerCtors, Exempt: map[string]string{
			"ColumnWriter.columnChunk.CryptoMetadata":             "assigned for every column of every row group whenever encryption is configured and never otherwise; the configuration is fixed for the writer's lifetime",
			"ColumnWriter.columnChunk.EncryptedColumnMetadata":    "assigned for every column of every row group in plaintext-footer mode and never otherwise",
			"ColumnWriter.columnChunk.MetaData.SizeStatistics":    "assigned for every column (copied or encoded) of every row group before the chunk is published",
			"ColumnWriter.encodings":                              "the fallback adds PLAIN, which the constructor already records for every dictionary column (addEncoding is idempotent)",
			"ColumnWriter.header":                                 headerWhy,
			"ColumnWriter.originalColumnBuffer":                   "cache of the buffer created at first use: a function of the column configuration, its content is reset through columnBuffer",
		}},
		{Type: "ConcurrentRowGroupWriter", Reset: []string{"(*writer).reset"}, Constructors: writerCtors, Exempt: map[string]string{
			"ConcurrentRowGroupWriter.columnIndex": "scratch: element i is assigned from the indexer or the copied chunk for every column of every row group before it is published",
			"ConcurrentRowGroupWriter.values":      "scratch truncated on every exit of WriteRows (checked by C17.scratch)",
		}},
		{Type: "writer", Reset: []string{"(*writer).reset"}, Constructors: writerCtors},
		{Type: "Writer", Reset: []string{"(*Writer).Reset"}, Exempt: map[string]string{
			"Writer.config.Schema": "lazy configuration from the first row's schema; assigned once (configure is guarded by schema == nil)",
			"Writer.schema":        "lazy configuration, assigned once",
			"Writer.writer":        "lazy construction, assigned once",
			"Writer.rowbuf":        "scratch resliced to full capacity and overwritten by copyRows before use",
		}},
		{Type: "GenericWriter", Reset: []string{"(*GenericWriter).Reset"}, Exempt: map[string]string{
			"GenericWriter.columns": "cache of the column buffers, re-resolved from the column writers on every Write",
		}},
		{Type: "SortingWriter", Reset: []string{"(*SortingWriter).Reset"}},
		{Type: "Buffer", Reset: []string{"(*Buffer).Reset"}, Exempt: map[string]string{
			"Buffer.chunks":  "lazy configuration from the schema (configure runs once, guarded by schema == nil)",
			"Buffer.columns": "lazy configuration from the schema; the column buffers themselves are reset",
			"Buffer.schema":  "lazy configuration, assigned once",
			"Buffer.sorted":  "lazy configuration from the schema",
			"Buffer.colbuf":  "scratch: every element is truncated before use in WriteRows and cleared by a deferred call",
			"Buffer.rowbuf":  "scratch: resliced to one row and cleared by a deferred call in Write",
		}},
		{Type: "GenericBuffer", Reset: []string{"(*GenericBuffer).Reset"}, Exempt: map[string]string{
			"GenericBuffer.base.rowbuf": "scratch of the embedded Buffer (see Buffer.rowbuf)",
			"GenericBuffer.base.colbuf": "scratch of the embedded Buffer (see Buffer.colbuf)",
		}},
		{Type: "RowBuffer", Reset: []string{"(*RowBuffer).Reset"}, Exempt: map[string]string{
			"RowBuffer.schema": "the schema is configuration shared with the caller; what operations write below it are its sync.Once-guarded caches, functions of the schema alone",
		}},
		{Type: "writerBuffers", Reset: []string{"(*writerBuffers).reset"}, Exempt: map[string]string{
			"writerBuffers.scratch": "scratch: always truncated (dst[:0]) by the compressor before it is filled",
		}},
		{Type: "offsetTrackingWriter", Reset: []string{"(*offsetTrackingWriter).Reset"}},
		{Type: "dedupe", Reset: []string{"(*dedupe).reset"}, Exempt: map[string]string{
			// the []Row scratch fields (whatever they are called) are added below
		}},
		{Type: "optionalColumnBuffer", Reset: []string{"(*optionalColumnBuffer).Reset"}, Exempt: map[string]string{
			"optionalColumnBuffer.reordered": "a stale `true` only triggers the cyclic reorder over freshly written rows, whose row index is the identity: no swap happens",
			"optionalColumnBuffer.sortIndex": "scratch: resized and fully assigned in Page before use",
		}},
		{Type: "repeatedColumnBuffer", Reset: []string{"(*repeatedColumnBuffer).Reset"}, Exempt: map[string]string{
			"repeatedColumnBuffer.reordered":  "a stale `true` re-copies the freshly written rows in their own order: no change of content",
			"repeatedColumnBuffer.reordering": "scratch twin buffer: Reset before every use in Page",
			"repeatedColumnBuffer.buffer":     "scratch value buffer: resliced before every use and cleared by a deferred call",
			"repeatedColumnBuffer.base":       "swapped with the twin buffer's base, which has the same configuration and was just filled in row order",
		}},
		{Type: "byteArrayColumnBuffer", Reset: []string{"(*byteArrayColumnBuffer).Reset"}, Exempt: map[string]string{
			"byteArrayColumnBuffer.scratch": "scratch: Resize(0) before every use in page()",
		}},
		{Type: "fixedLenByteArrayColumnBuffer", Reset: []string{"(*fixedLenByteArrayColumnBuffer).Reset"}, Exempt: map[string]string{
			"fixedLenByteArrayColumnBuffer.tmp": "scratch: fully overwritten before each use",
		}},
	}
	for _, t := range []string{"booleanColumnBuffer", "int32ColumnBuffer", "int64ColumnBuffer", "int96ColumnBuffer", "floatColumnBuffer", "doubleColumnBuffer", "uint32ColumnBuffer", "uint64ColumnBuffer", "be128ColumnBuffer", "nullColumnBuffer",
		"booleanDictionary", "int32Dictionary", "int64Dictionary", "int96Dictionary", "floatDictionary", "doubleDictionary", "byteArrayDictionary", "fixedLenByteArrayDictionary", "uint32Dictionary", "uint64Dictionary", "be128Dictionary", "nullDictionary",
		"booleanColumnIndexer", "int32ColumnIndexer", "int64ColumnIndexer", "int96ColumnIndexer", "floatColumnIndexer", "doubleColumnIndexer", "byteArrayColumnIndexer", "fixedLenByteArrayColumnIndexer", "uint32ColumnIndexer", "uint64ColumnIndexer", "be128ColumnIndexer", "nullColumnIndexer",
		"geospatialBBoxAccumulator"} {
		name := "Reset"
		if t == "geospatialBBoxAccumulator" {
			name = "reset"
		}
		sp := resetSpec{Type: t, Reset: []string{"(*" + t + ")." + name}}
		if strings.HasSuffix(t, "Dictionary") {
			sp.Exempt = map[string]string{t + ".table": "hash table of the dictionary: Reset clears its content through table.Reset; capacity, load limits and seed are retained on purpose and only decide probe order, dictionary indexes are assigned in insertion order"}
		}
		specs = append(specs, sp)
	}
	// every other implementation of the three per-column interfaces that has a
	// Reset of its own (the list above is what was read; this is what exists)
	have := map[string]bool{}
	for _, s := range specs {
		have[s.Type] = true
	}
	for _, in := range []string{"ColumnIndexer", "Dictionary", "ColumnBuffer"} {
		it := p.LookupType(in)
		if it == nil {
			continue
		}
		iface, _ := it.Underlying().(*types.Interface)
		for _, t := range p.Implementations(iface) {
			nt := namedOf(t)
			if nt == nil || nt.Obj().Pkg() != p.Root.Types || have[nt.Obj().Name()] {
				continue
			}
			m, promoted := MethodOf(t, "Reset")
			if m == nil || promoted {
				continue
			}
			if _, isStruct := nt.Underlying().(*types.Struct); !isStruct {
				continue
			}
			have[nt.Obj().Name()] = true
			specs = append(specs, resetSpec{Type: nt.Obj().Name(), Reset: []string{"(*" + nt.Obj().Name() + ").Reset"}, Exempt: map[string]string{}})
		}
	}
	// the []Row scratch fields of the dedupe helper, by type rather than by name
	for i := range specs {
		if specs[i].Type != "dedupe" {
			continue
		}
		for _, f := range dedupeScratchFields(p) {
			specs[i].Exempt["dedupe."+f.Name()] = "scratch truncated by a deferred call in deduplicate (checked by C17.scratch)"
		}
	}
	return specs
}

// dedupeScratchFields: the fields of the dedupe helper that collect rows of the
// batch being processed ([]Row).
func dedupeScratchFields(p *Prog) []*types.Var {
	var out []*types.Var
	n := p.LookupType("dedupe")
	if n == nil {
		return nil
	}
	st, ok := n.Underlying().(*types.Struct)
	if !ok {
		return nil
	}
	for i := 0; i < st.NumFields(); i++ {
		if isRowSlice(st.Field(i).Type()) {
			out = append(out, st.Field(i))
		}
	}
	return out
}

func runC17(c *Ctx) {
	p := c.P
	ci := newChainIndex(p)
	specs := c17ResetSpecs(p)
	boundary := map[*types.Var]bool{}
	for _, s := range specs {
		if n := p.LookupType(s.Type); n != nil {
			for f := range fieldsOfStruct(n) {
				boundary[f] = true
			}
		}
	}
	nested := map[*types.Var]*nestedSpec{}
	for _, s := range specs {
		n := p.LookupType(s.Type)
		if n == nil {
			continue
		}
		ns := &nestedSpec{Type: s.Type, Resets: map[string]bool{}, Cover: newChainSet(p)}
		var entries []*ssa.Function
		for _, k := range s.Reset {
			if f := p.LookupFunc(k); f != nil {
				if sf := p.SSAFunc(f); sf != nil && sf.Blocks != nil {
					entries = append(entries, sf)
					ns.Resets[baseFuncKey(sf)] = true
				}
			}
		}
		heads := fieldsOfStruct(n)
		raw, _ := ResetCover(p, entries, 7)
		for _, w := range raw.m {
			for k := range w.Chain {
				if heads[w.Chain[k]] {
					ns.Cover.add(chainWrite{Chain: w.Chain[k:], Kind: w.Kind, Pos: w.Pos, Fn: w.Fn})
				}
			}
		}
		for f := range heads {
			if nested[f] == nil {
				nested[f] = ns
			}
		}
	}
	for _, s := range specs {
		s.Boundary = boundary
		s.Nested = nested
		runResetRule(c, "C17.reset", ci, s)
	}
	c.Min("C17.reset", 60)

	runOwnRule(c, "C17.own", ownSpec{Owner: "writer", Reset: "(*writer).reset", Exempt: map[string]string{
		"writer.columnIndexes.MinValues": "ColumnIndexer.ColumnIndex() builds the outer [][]byte and the bytes afresh on every call (splitByteArrays / splitFixedLenByteArrays copy their input); the live rg.columnIndex element is overwritten for the next row group",
		"writer.columnIndexes.MaxValues": "same as MinValues",
	}})
	c.Min("C17.own", 8)

	runScratchRule(c, "C17.scratch", "ConcurrentRowGroupWriter", "values")
	for _, f := range dedupeScratchFields(p) {
		runScratchRule(c, "C17.scratch", "dedupe", f.Name())
	}
	runScratchRule(c, "C17.scratch", "Buffer", "colbuf")
	c.Min("C17.scratch", 3)

	c17Regrow(c)
	runPairedResetRule(c, "C17.pairedreset", ".deduplicate", ".reset", 1)
	runFreshLenRule(c, "C17.freshlen", 0)
	runCacheGuardRule(c, "C17.cacheguard", 1)
	c17Nondet(c)
	c17Maps(c)
}

// c17Regrow resolves the accumulate-into buffers by their role and applies
// T-REGROW to them and to every function that ORs into a parameter it regrows.
func c17Regrow(c *Ctx) {
	rule := "C17.regrow"
	p := c.P
	fields := map[*types.Var]string{}
	bloomCol := p.LookupType("BloomFilterColumn")
	for _, fn := range p.ModuleSSAFuncs() {
		if fn.Origin() != nil || fn.Blocks == nil || fnPkgPath(fn) != modPath {
			continue
		}
		allCalls(fn, false, func(_ *ssa.Function, call ssa.CallInstruction) {
			cc := call.Common()
			// the null bitmap: first argument of a call through a function value
			// of the null-index kernels' shape (bits []uint64, rows sparse.Array)
			if !cc.IsInvoke() && cc.StaticCallee() == nil {
				if _, isB := cc.Value.(*ssa.Builtin); !isB {
					sig := cc.Signature()
					if sig.Params().Len() == 2 && sig.Results().Len() == 0 {
						if sl, ok := sig.Params().At(0).Type().Underlying().(*types.Slice); ok {
							if bt, ok := sl.Elem().Underlying().(*types.Basic); ok && bt.Kind() == types.Uint64 {
								if n := namedOf(sig.Params().At(1).Type()); n != nil && n.Obj().Name() == "Array" && strings.HasSuffix(n.Obj().Pkg().Path(), "/sparse") {
									for _, o := range Origins(cc.Args[0], OriginOpts{}) {
										if o.Kind == OrgField {
											fields[o.Field] = "the null-index kernels OR one bit per non-null row into it"
										}
									}
								}
							}
						}
					}
				}
			}
			// the bloom filter bits: the []byte handed to an encoder together with
			// the encoding of the column's BloomFilterColumn
			if bloomCol == nil {
				return
			}
			usesBloomEncoding := false
			for _, a := range cc.Args {
				for _, o := range Origins(a, OriginOpts{}) {
					if o.Kind == OrgCall && o.Call.Common().IsInvoke() && o.Call.Common().Method.Name() == "Encoding" {
						if n := namedOf(o.Call.Common().Value.Type()); n != nil && n.Obj() == bloomCol.Obj() {
							usesBloomEncoding = true
						}
					}
				}
			}
			if !usesBloomEncoding {
				return
			}
			for _, a := range cc.Args {
				if sl, ok := a.Type().Underlying().(*types.Slice); ok {
					if bt, ok := sl.Elem().Underlying().(*types.Basic); ok && bt.Kind() == types.Byte {
						for _, o := range Origins(a, OriginOpts{}) {
							if o.Kind == OrgField {
								fields[o.Field] = "the split-block bloom filter encoder ORs the bits of every inserted value into it"
							}
						}
					}
				}
			}
		})
	}
	c.Anchor(rule, "the null bitmap and the bloom filter bits (accumulate-into fields resolved by role)", len(fields) >= 2)
	c.Stats[rule+".accumulate_fields"] = len(fields)
	runRegrowRule(c, rule, fields, func(fn *ssa.Function) bool { return inModule(fn) })
	c.Min(rule, 3)
}

// ---------------------------------------------------------------------------

var nondetFuncs = map[string]map[string]bool{
	"time":         {"Now": true, "Since": true, "Until": true},
	"os":           {"Getenv": true, "LookupEnv": true, "Environ": true, "Hostname": true, "Getpid": true, "Getwd": true},
	"runtime":      {"NumCPU": true, "GOMAXPROCS": true, "NumGoroutine": true},
	"math/rand":    nil, // every function
	"math/rand/v2": nil,
	"crypto/rand":  nil,
}

var nondetAllow = map[string]string{
	"encryptModule":                  "AES-GCM nonce (excepted by the property)",
	"signFooter":                     "AES-GCM nonce of the footer signature (excepted by the property)",
	"newFileEncryptionState":         "random file identifier when none is configured (excepted by the property)",
	"(*fileEncryptionState).newFileIdentifier": "random file identifier when none is configured, drawn per file: at construction and at Reset (excepted by the property)",
	"hashprobe.init":                 "seeds of the dictionary hash tables: they decide probe order only, dictionary indexes are assigned in insertion order",
	"hashprobe.randSeed":             "hash table seed (layout of the table only)",
	"hashprobe/aeshash.init":         "random key of the in-memory hash function (never serialised)",
	"internal/debug.init":            "PARQUETGODEBUG switches for tracing; not on the write path's data flow",
	"internal/quick.MakeValueFuncOf": "test data generator (imported by tests only)",
	"internal/quick.Check":           "test data generator (imported by tests only)",
}

func c17Nondet(c *Ctx) {
	rule := "C17.nondet"
	p := c.P
	n := 0
	// scope: packages in the import closure of the library's root package
	// (test-support packages such as encoding/fuzz and internal/quick are
	// imported by tests only)
	inScope := map[string]bool{}
	var visit func(path string)
	visit = func(path string) {
		if inScope[path] {
			return
		}
		inScope[path] = true
		if pkg := p.ByPath[path]; pkg != nil {
			for ip := range pkg.Imports {
				if ip == modPath || strings.HasPrefix(ip, modPath+"/") {
					visit(ip)
				}
			}
		}
	}
	visit(modPath)
	c.Stats[rule+".packages_in_scope"] = len(inScope)
	for _, fn := range p.ModuleSSAFuncs() {
		if fn.Origin() != nil {
			continue
		}
		if pk := fnPkg(fn); pk == nil || !inScope[pk.Path()] {
			continue
		}
		report := func(what string, pos ssa.Instruction) {
			n++
			bk := baseFuncKey(fn)
			// package-level initialisers are named init / init#N
			if i := strings.Index(bk, "#"); i >= 0 {
				bk = bk[:i]
			}
			if why, ok := nondetAllow[bk]; ok {
				c.Pass(rule, bk+" uses "+what, pos.Pos(), "allowed: %s", why)
				return
			}
			c.Fail(rule, bk+" uses "+what, pos.Pos(), "%s reads %s: output or behaviour may depend on something other than input and options; not in the allow-list", FuncKey(fn), what)
		}
		allInstrs(fn, false, func(_ *ssa.Function, ins ssa.Instruction) {
			if call, ok := ins.(ssa.CallInstruction); ok {
				if o := calleeObj(call); o != nil && o.Pkg() != nil {
					if names, ok := nondetFuncs[o.Pkg().Path()]; ok && (names == nil || names[o.Name()]) {
						report(o.Pkg().Path()+"."+o.Name(), ins)
					}
				}
			}
			for _, op := range ins.Operands(nil) {
				if g, ok := (*op).(*ssa.Global); ok && g.Pkg != nil && g.Pkg.Pkg.Path() == "crypto/rand" {
					report("crypto/rand."+g.Name(), ins)
				}
			}
		})
	}
	c.Stats[rule+".sites"] = n
	c.Min(rule, 4)
}

var sortCallees = map[string]bool{
	"slices.Sort": true, "slices.SortFunc": true, "slices.SortStableFunc": true,
	"sort.Sort": true, "sort.Stable": true, "sort.Slice": true, "sort.SliceStable": true, "sort.Strings": true, "sort.Ints": true,
}

var mapRangeAllow = map[string]string{
	"(*byteArrayDictionary).Reset":           "deletes every key: order-insensitive",
	"refineSegment":                          "runs only when the map has exactly one element",
	"(columnMappingGroup).lookupClosest":     "selects the minimum key: order-insensitive",
	"(*VariantReader).Next":                  "read path: each leaf reader is advanced independently, no output order",
	"(*variantShreddedReader).collectLeaves": "read path",
}

func c17Maps(c *Ctx) {
	rule := "C17.maps"
	n := 0
	for _, fn := range c.P.ModuleSSAFuncs() {
		if fn.Origin() != nil {
			continue
		}
		k := 0
		allInstrs(fn, false, func(_ *ssa.Function, ins ssa.Instruction) {
			r, ok := ins.(*ssa.Range)
			if !ok {
				return
			}
			if _, isMap := r.X.Type().Underlying().(*types.Map); !isMap {
				return
			}
			n++
			key := FuncKey(fn) + " range-over-map"
			if k > 0 {
				key += "#" + itoa(k)
			}
			k++
			if why, ok := mapRangeAllow[FuncKey(fn)]; ok {
				c.Pass(rule, key, r.Pos(), "allowed: %s", why)
				return
			}
			sorted := ""
			var firstSort ssa.CallInstruction
			for _, a := range instrsAfter(ins) {
				if call, ok := a.(ssa.CallInstruction); ok {
					if o := calleeObj(call); o != nil && o.Pkg() != nil {
						name := o.Pkg().Path() + "." + o.Name()
						if sortCallees[name] || (strings.HasPrefix(o.Pkg().Path(), modPath) && strings.HasPrefix(o.Name(), "sort")) {
							sorted = name
							if firstSort == nil && len(call.Common().Args) > 0 {
								firstSort = call
							}
						}
					}
				}
			}
			c.Check(rule, key, r.Pos(), sorted != "", "iteration over a map in "+FuncKey(fn)+" is not followed by a sort: the iteration order of Go maps is random, so anything derived from it differs between runs")
			// no copy of what is about to be sorted is taken between the iteration
			// and the sort: the copy keeps the order of the map
			if firstSort != nil {
				si := firstSort.(ssa.Instruction)
				target := firstSort.Common().Args[0]
				sameSlice := func(v ssa.Value) bool {
					for {
						if s, ok := v.(*ssa.Slice); ok {
							v = s.X
							continue
						}
						break
					}
					if v == target {
						return true
					}
					u1, ok1 := v.(*ssa.UnOp)
					u2, ok2 := target.(*ssa.UnOp)
					if !ok1 || !ok2 || u1.Op != token.MUL || u2.Op != token.MUL {
						return false
					}
					if u1.X == u2.X {
						return true
					}
					f1, ok1 := u1.X.(*ssa.FieldAddr)
					f2, ok2 := u2.X.(*ssa.FieldAddr)
					return ok1 && ok2 && f1.Field == f2.Field && (f1.X == f2.X || sameCell(f1.X, f2.X))
				}
				early := ""
				allCalls(fn, false, func(_ *ssa.Function, call ssa.CallInstruction) {
					ci, ok := call.(ssa.Instruction)
					if !ok || ci == si || !dominates(ins, ci) || !dominates(ci, si) {
						return
					}
					args := call.Common().Args
					if b, ok := call.Common().Value.(*ssa.Builtin); ok {
						switch {
						case b.Name() == "copy" && len(args) == 2 && sameSlice(args[1]):
							early = "copy() at " + c.P.Pos(call.Pos())
						case b.Name() == "append" && len(args) == 2 && sameSlice(args[1]) && !sameSlice(args[0]):
							early = "append(…, s...) at " + c.P.Pos(call.Pos())
						}
						return
					}
					if o := calleeObj(call); o != nil && o.Pkg() != nil && (o.Pkg().Path() == "slices" || o.Pkg().Path() == "bytes") && o.Name() == "Clone" && len(args) == 1 && sameSlice(args[0]) {
						early = o.Pkg().Path() + ".Clone at " + c.P.Pos(call.Pos())
					}
				})
				c.Check(rule, key+": no copy taken before the sort", r.Pos(), early == "", FuncKey(fn)+" copies the slice filled from the map ("+early+") before it is sorted: the copy keeps the iteration order of the map, and whatever is restored from it later (a reset writer's key/value metadata) is written in a different order on every run")
			}
		})
	}
	c.Stats[rule+".map_ranges"] = n
	c.Min(rule, 5)
	var allow []string
	for k := range mapRangeAllow {
		allow = append(allow, k)
	}
	sort.Strings(allow)
}
