package main

import (
	"go/token"

	"golang.org/x/tools/go/ssa"
)

// T-GROWKEEP — a loop-carried buffer is found *full of content that was just
// copied into it* (the count returned by copy(buf, …) is compared with
// len(buf)) and is replaced by a larger one. The content is live — that is
// what the comparison says — so the replacement carries it over: it is an
// append to the old buffer, or a fresh make that receives a copy from it. A
// bare make loses what was held back for the next iteration.
func runGrowKeepRule(c *Ctx, rule string, min int) {
	p := c.P
	strip := func(v ssa.Value) ssa.Value {
		for {
			s, ok := v.(*ssa.Slice)
			if !ok {
				return v
			}
			v = s.X
		}
	}
	builtinCall := func(v ssa.Value, name string) *ssa.Call {
		call, ok := v.(*ssa.Call)
		if !ok {
			return nil
		}
		if b, ok := call.Call.Value.(*ssa.Builtin); ok && b.Name() == name {
			return call
		}
		return nil
	}
	// through conversions of the count
	unconv := func(v ssa.Value) ssa.Value {
		for {
			switch x := v.(type) {
			case *ssa.Convert:
				v = x.X
			case *ssa.ChangeType:
				v = x.X
			default:
				return v
			}
		}
	}
	n := 0
	for _, fn := range p.ModuleSSAFuncs() {
		if fn.Origin() != nil || fn.Blocks == nil || !inModule(fn) {
			continue
		}
		k := 0
		for _, b := range fn.Blocks {
			iff, ok := b.Instrs[len(b.Instrs)-1].(*ssa.If)
			if !ok {
				continue
			}
			cmp, ok := iff.Cond.(*ssa.BinOp)
			if !ok {
				continue
			}
			switch cmp.Op {
			case token.EQL, token.GEQ, token.LEQ, token.NEQ, token.LSS, token.GTR:
			default:
				continue
			}
			var buf ssa.Value
			for _, pair := range [][2]ssa.Value{{cmp.X, cmp.Y}, {cmp.Y, cmp.X}} {
				cp := builtinCall(unconv(pair[0]), "copy")
				ln := builtinCall(unconv(pair[1]), "len")
				if cp == nil || ln == nil {
					continue
				}
				if r := strip(cp.Call.Args[0]); r == strip(ln.Call.Args[0]) {
					buf = r
				}
			}
			phi, ok := buf.(*ssa.Phi)
			if !ok {
				continue
			}
			// values that replace the buffer for the next iteration: the edges of the
			// loop-carried phi, through inner phis
			seen := map[ssa.Value]bool{}
			var repl []ssa.Value
			var walk func(v ssa.Value)
			walk = func(v ssa.Value) {
				if seen[v] {
					return
				}
				seen[v] = true
				if ph, ok := v.(*ssa.Phi); ok {
					for _, e := range ph.Edges {
						walk(e)
					}
					return
				}
				repl = append(repl, v)
			}
			walk(phi)
			for _, v := range repl {
				mk, ok := v.(*ssa.MakeSlice)
				if !ok {
					continue
				}
				// made under the full-test (either side of it), not the initial buffer
				if !(b.Dominates(mk.Block()) && mk.Block() != b) {
					continue
				}
				n++
				k++
				kept := false
				if mk.Referrers() != nil {
					var views []ssa.Value
					views = append(views, mk)
					for i := 0; i < len(views); i++ {
						if views[i].Referrers() == nil {
							continue
						}
						for _, r := range *views[i].Referrers() {
							if s, ok := r.(*ssa.Slice); ok {
								views = append(views, s)
							}
							if call, ok := r.(*ssa.Call); ok {
								if bi, ok := call.Call.Value.(*ssa.Builtin); ok && bi.Name() == "copy" && call.Call.Args[0] == views[i] && seen[strip(call.Call.Args[1])] {
									kept = true
								}
							}
						}
					}
				}
				c.Check(rule, FuncKey(fn)+": buffer found full by its copy count is grown with its content #"+itoa(k), mk.Pos(), kept,
					FuncKey(fn)+" compares the count of a copy into its buffer with the length of the buffer ("+p.Pos(cmp.Pos())+") and, on finding it full, replaces it with a fresh make ("+p.Pos(mk.Pos())+") that receives nothing from the old one: the values held back for the next iteration (an unfinished row) are lost and zero values are written in their place")
			}
			// an append-grown replacement needs no check but counts as an instance
			for _, v := range repl {
				if call := builtinCall(v, "append"); call != nil && b.Dominates(call.Block()) && call.Block() != b && seen[strip(call.Call.Args[0])] {
					n++
					k++
					c.Check(rule, FuncKey(fn)+": buffer found full by its copy count is grown with its content #"+itoa(k), call.Pos(), true, "")
				}
			}
		}
	}
	c.Min(rule, min)
}
