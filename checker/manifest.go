package main

import (
	"encoding/json"
	"fmt"
	"os"
	"sort"
	"strings"
)

// notApplicable lists the properties not claimed, each with the reason.
// An entry is removed when a check for the property is registered.
var notApplicable = map[string]string{}

func declareNotApplicable(id, reason string) { notApplicable[id] = reason }

func writeManifest(path string) error {
	var ids []string
	for id := range registry {
		if strings.HasPrefix(id, "C") {
			ids = append(ids, id)
		}
	}
	sort.Strings(ids)
	var checks []map[string]any
	var served []string
	for _, id := range ids {
		p := registry[id]
		served = append(served, id)
		tech := p.Technique
		if tech == "" {
			tech = "static analysis: custom go/types + go/ssa rule checker over /repo's source"
		}
		checks = append(checks, map[string]any{
			"property_id":         id,
			"quick_cmd":           "./check " + id + " quick",
			"thorough_cmd":        "./check " + id + " thorough",
			"evidence_file":       "/verif/evidence/" + id + ".json",
			"replay_cmd_template": "./check " + id + " quick -replay {path}",
			"engine":              "pqverif",
			"technique":           tech,
			"level_claimed": map[string]any{
				"category":   "other",
				"text":       "Static analysis of the type-checked source (no execution). Decides structural necessary conditions of the property, not the behaviour itself: " + p.Decided,
				"design_ref": "DESIGN.md §4 " + id,
			},
			"level_note": "NOT DECIDED: " + p.NotDecided + " Trusted base: go/types, go/ssa and call graphs of golang.org/x/tools v0.29.0, the frozen rule tables in checker/rules_*.go; assembly and goexperiment.simd files are not analysed. Assumptions: " + strings.Join(p.Assumptions, "; "),
		})
	}
	var na []map[string]any
	var naIDs []string
	for id := range notApplicable {
		if registry[id] == nil {
			naIDs = append(naIDs, id)
		}
	}
	sort.Strings(naIDs)
	for _, id := range naIDs {
		na = append(na, map[string]any{"property_id": id, "reason": notApplicable[id]})
	}
	m := map[string]any{
		"version":   1,
		"setup_cmd": "sh ./setup.sh",
		"hooks": map[string]any{
			"guard":            "verif",
			"enable":           "none needed: the checks read /repo's source with go/packages; no hook or instrumentation exists in /repo (build tag `verif` is reserved and unused)",
			"baseline_off_cmd": "cd /repo && go test -json -vet=off -count=1 -timeout 25m ./...",
			"source_commits":   []string{},
			"add_only":         true,
		},
		"engines": []map[string]any{{
			"name":              "pqverif",
			"path":              "/verif/checker",
			"serves_properties": served,
			"kind_free_text":    "repository-specific static analyser (go/packages, go/types, go/ssa, CHA/VTA call graphs, per-function CFG/dominance); rule tables per property in rules_Cxx.go",
		}},
		"checks": checks,
		"notes":  "Technique family: static analysis only. quick = default build configuration (linux/amd64); thorough = the same rules over amd64, amd64+purego, arm64, 386, s390x with the VTA call graph where a rule uses reachability. Every claimed check decides named structural clauses (necessary conditions) of its property at level `other`; see DESIGN.md §4 for the clause and the undecided remainder.",
	}
	if len(na) > 0 {
		m["not_applicable"] = na
	}
	b, err := json.MarshalIndent(m, "", " ")
	if err != nil {
		return err
	}
	if path == "-" {
		fmt.Println(string(b))
		return nil
	}
	return os.WriteFile(path, append(b, '\n'), 0o644)
}
