package main

import (
	"go/token"
	"go/types"
	"sort"
	"strings"

	"golang.org/x/tools/go/ssa"
)

// C11 — row-group copy and re-encode fast paths are indistinguishable from the row path.
// C09 — (one clause) merged / deduplicated row groups are never written chunk-wise.

func init() {
	register(&Property{
		ID:      "C11",
		NeedSSA: true,
		Decided: "Structural necessary conditions: (marker) the types whose method set contains the chunk-transparency marker are exactly the frozen allow-list (file row groups, buffers, row-range views), no type that declares its own Rows() obtains the marker or the segment accessor by promotion from an embedded type, and both fast-path entries test the marker before they look at column chunks; wrappers that change row semantics (merge with duplicate dropping) return no segments; (strict) in the eligibility predicates every inequality between a property of the source chunk and the destination writer's configuration refuses immediately, with no further condition attached; (limits) both fast-path entries compare the row count with the row-group limit; (nocopy) eligibility consults the encryption state (C18.nocopy); (rows) a function that feeds values read with ReadValues to ColumnWriter.WriteRowValues, whose contract is whole rows, finds row boundaries through the repetition levels; (order) the packing path flushes buffered rows before it sizes bloom filters and flushes a pending batch before it would exceed the row-group limit. (source) outside the static call closure of OpenFile and of the lazy page-index loader, no function of the package writes through a field of the File* types that holds parsed format structures (footer, row groups, column chunks, page indexes): what is copied from an open file is copied, not adjusted in place. (cloneall) a function that returns a struct starting from a shallow copy of its parameter and re-assigns some slice or map field with a copy re-assigns every slice and map field. (order, cont.) every call of the column-by-column re-encode, and the CopyRows call of Writer.WriteRowGroup, is dominated in its function by the call that sizes the bloom filters for that row group, and in Writer.WriteRowGroup every such sizing is dominated by the flush of the rows buffered before. (stagefail) a function that stages source chunks for a verbatim copy in a loop (loadCopiedChunk) resets column writers in the code that runs between the failure of the staging call and the return of its error. (growkeep) a loop-carried buffer that is found full by comparing the count of a copy into it with its length, and is then replaced, carries its content over: the replacement is an append to the old buffer or a fresh make that receives a copy of it (the column-wise re-encode holds an unfinished row back this way).",
		NotDecided: "byte or row equality of the outputs; that the predicate lists every writer option that matters (options read on the encode path but not by the predicate are listed in the evidence notes, not decided); page boundary arithmetic.",
		Assumptions: []string{"method sets are computed by go/types, promotion included"},
		Run:         runC11,
	})
	register(&Property{
		ID:      "C09",
		NeedSSA: true,
		Decided: "Only the clause `equally when the merged row group is written to a file` is decided, structurally: (marker) mergedRowGroup and sortedSegmentRowGroup, dedup and converted wrappers do not carry the chunk-transparency marker, so the writer reads them through Rows(); mergedRowGroup declares its own segment accessor returning nil although it embeds a type that opts in; sortedSegmentRowGroup returns no segments on the duplicate-dropping path (the return of its segments is dominated by the test of dropDuplicatedRows); (bounds) the function that computes the key range of a sorted row group takes the direction of each sorting column from that column, not from a fixed one; (errors) the merge readers propagate read errors of their inputs (shared with C14.errflow). (bounds, cont.) the key range of a sorted row group consults the null counts of the column index and NullsFirst() of the sorting column. (nullcount) every count over definition levels (countLevelsEqual / countLevelsNotEqual on a value read from a field or parameter named after definition levels) compares with a maximum definition level, never with a constant. (wraporder) the argument of CompareDescending never derives from CompareNullsFirst / CompareNullsLast: the null placement is applied outside the reversal. (cutnulls) a function that turns the bounds of a column index into row positions (MinValue/MaxValue together with FirstRowIndex) also consults NullCount. (rebuild) a function that builds a plain row group from the ColumnChunks() of a RowGroup it was given calls chunkTransparentRowGroup first, and the call dominates the construction. (sortstale) no value loaded from an element of a slice before a sorting call on that slice (slices.Sort*, sort.Slice*, sort.Sort) is used after the call: what is read first is an element of the caller's order, not of the sorted one. (anyscan) a boolean that starts false, is merged with itself around a loop and is used after it leaves the loop through an exit other than the loop condition only as the constant true: a scan for \"any page has nulls\" is not cut short by the break of another search sharing the loop. (drainstop) in the merge readers, from the edge on which (*bufferedRowReader).advance / next report the source drained no call of (*bufferedRowReader).read is reachable inside the function: the batch is returned before the source whose memory its rows point into is read again.",
		NotDecided: "sortedness, multiset equality, stability and deduplication of the merged sequence: the loser tree, run detection, range refinement and the page-boundary cut are value-dependent (a cut comparison that is `>=` instead of `>` is not visible structurally).",
		Assumptions: []string{"method sets are computed by go/types, promotion included"},
		Run:         runC09,
	})
}

var chunkTransparentAllow = map[string]string{
	"*FileRowGroup":     "row group of an opened file: Rows() reads its column chunks in order",
	"*Buffer":           "in-memory buffer: Rows() reads its column buffers in order",
	"*GenericBuffer":    "in-memory buffer: Rows() reads its column buffers in order",
	"*rowRangeRowGroup": "row-range view over a chunk-transparent row group",
}

func markerRule(c *Ctx, rule string) {
	p := c.P
	rgT := p.LookupType("RowGroup")
	if !c.Anchor(rule, "RowGroup", rgT != nil) {
		return
	}
	iface, _ := rgT.Underlying().(*types.Interface)
	n := 0
	for _, t := range p.Implementations(iface) {
		tn := recvString(t)
		if _, isPtr := t.(*types.Pointer); !isPtr {
			tn = "*" + tn // generic types are reported by name; methods are on the pointer
		}
		m, promoted := MethodOf(t, "chunkTransparentRowGroup")
		n++
		_, allowed := chunkTransparentAllow[tn]
		if m != nil {
			c.Check(rule, tn+" carries the chunk-transparency marker", m.Pos(), allowed && !promoted,
				tn+" has chunkTransparentRowGroup in its method set"+map[bool]string{true: " by promotion from an embedded type", false: ""}[promoted]+" but is not in the allow-list: WriteRowGroup would read its column chunks directly and bypass whatever its Rows() does (deduplication, conversion, merging)")
		} else {
			c.Check(rule, tn+" does not carry the chunk-transparency marker", token.NoPos, !allowed, tn+" lost the marker: the fast paths no longer apply to it (performance only), update the allow-list if intended")
		}
		// a type with its own Rows() must not inherit the segment accessor
		rows, rowsPromoted := MethodOf(t, "Rows")
		seg, segPromoted := MethodOf(t, "rowGroupSegments")
		if rows != nil && !rowsPromoted && seg != nil {
			c.Check(rule, tn+" declares its own segment accessor", seg.Pos(), !segPromoted,
				tn+" implements Rows() itself but inherits rowGroupSegments from an embedded type: the writer would emit the embedded segments one by one and lose what Rows() adds (the merge order)")
		}
	}
	c.Stats[rule+".row_group_types"] = n
	// fast-path entries test the marker before using column chunks
	for _, k := range []string{"(*Writer).copyableColumnChunks", "(*Writer).columnOrientedRowGroup"} {
		obj := p.LookupFunc(k)
		if !c.Anchor(rule, k, obj != nil) {
			continue
		}
		fn := p.SSAFunc(obj)
		var marker, chunks ssa.Instruction
		allCalls(fn, false, func(_ *ssa.Function, call ssa.CallInstruction) {
			switch calleeName(call) {
			case "chunkTransparentRowGroup":
				marker = call.(ssa.Instruction)
			case "(RowGroup).ColumnChunks":
				if chunks == nil {
					chunks = call.(ssa.Instruction)
				}
			}
		})
		c.Check(rule, k+" tests the marker before it looks at column chunks", fn.Pos(), marker != nil && chunks != nil && dominates(marker, chunks), k+" uses ColumnChunks() of a row group without having established that reading the chunks equals reading Rows()")
	}
	// duplicate dropping returns no segments
	if obj := p.LookupFunc("(*sortedSegmentRowGroup).rowGroupSegments"); c.Anchor(rule, "(*sortedSegmentRowGroup).rowGroupSegments", obj != nil) {
		fn := p.SSAFunc(obj)
		dd := p.LookupField("sortedSegmentRowGroup", "dropDuplicatedRows")
		seg := p.LookupField("sortedSegmentRowGroup", "segments")
		ok := false
		for _, r := range returnsOf(fn) {
			v, _ := retResult(r, 0)
			fromSeg := false
			for _, o := range Origins(v, OriginOpts{}) {
				if o.Kind == OrgField && o.Field == seg {
					fromSeg = true
				}
			}
			if !fromSeg {
				continue
			}
			for _, b := range fn.Blocks {
				if len(b.Instrs) == 0 {
					continue
				}
				if ifi, isIf := b.Instrs[len(b.Instrs)-1].(*ssa.If); isIf {
					for _, o := range Origins(ifi.Cond, OriginOpts{}) {
						if o.Kind == OrgField && o.Field == dd && b.Succs[1].Dominates(r.Block()) {
							ok = true
						}
					}
				}
			}
		}
		c.Check(rule, "sortedSegmentRowGroup hands out segments only without duplicate dropping", fn.Pos(), ok, "the segments of a merge are exposed to the writer although rows must be deduplicated: single-row-group segments are then written from their column chunks and the duplicates stay in the file")
	}
	if obj := p.LookupFunc("(*mergedRowGroup).rowGroupSegments"); c.Anchor(rule, "(*mergedRowGroup).rowGroupSegments", obj != nil) {
		fn := p.SSAFunc(obj)
		ok := true
		for _, r := range returnsOf(fn) {
			v, _ := retResult(r, 0)
			if !isNilConst(v) {
				ok = false
			}
		}
		c.Check(rule, "mergedRowGroup exposes no segments", fn.Pos(), ok, "a heap-merged row group must be written through Rows(); exposing its inputs as segments writes them one after the other")
	}
	c.Min(rule, 12)
}

func strictRule(c *Ctx, rule string, fns []string) {
	p := c.P
	n := 0
	for _, k := range fns {
		obj := p.LookupFunc(k)
		if !c.Anchor(rule, k, obj != nil) {
			continue
		}
		fn := p.SSAFunc(obj)
		// index of the bool result
		bi := -1
		res := fn.Signature.Results()
		for i := 0; i < res.Len(); i++ {
			if b, ok := res.At(i).Type().Underlying().(*types.Basic); ok && b.Kind() == types.Bool {
				bi = i
			}
		}
		if bi < 0 {
			continue
		}
		refuses := func(b *ssa.BasicBlock) bool {
			// the block consists of (phi/debug and) a return of constant false
			for _, ins := range b.Instrs {
				switch x := ins.(type) {
				case *ssa.DebugRef, *ssa.Phi, *ssa.RunDefers:
				case *ssa.Store:
					// defer-spilled results
				case *ssa.UnOp:
				case *ssa.Return:
					v, _ := retResult(x, bi)
					k, ok := v.(*ssa.Const)
					return ok && k.Value != nil && k.Value.String() == "false"
				default:
					return false
				}
			}
			return false
		}
		idx := 0
		for _, b := range fn.Blocks {
			if len(b.Instrs) == 0 {
				continue
			}
			ifi, ok := b.Instrs[len(b.Instrs)-1].(*ssa.If)
			if !ok {
				continue
			}
			bo, ok := ifi.Cond.(*ssa.BinOp)
			if !ok || bo.Op != token.NEQ {
				continue
			}
			if _, xc := bo.X.(*ssa.Const); xc {
				continue
			}
			if _, yc := bo.Y.(*ssa.Const); yc {
				continue
			}
			n++
			c.Check(rule, k+": mismatch #"+itoa(idx)+" refuses unconditionally", bo.Pos(), refuses(b.Succs[0]),
				"an inequality between the source chunk and the destination's configuration in "+k+" does not lead straight to `return false`: the refusal now depends on a further condition, so a source that differs in this respect can be copied verbatim and the output does not honour the writer's setting")
			idx++
		}
	}
	c.Stats[rule+".mismatch_tests"] = n
}

func runC11(c *Ctx) {
	p := c.P
	c11Source(c)
	c11StageFail(c)
	runCloneAllRule(c, "C11.cloneall", 2)
	runGrowKeepRule(c, "C11.growkeep", 1)
	markerRule(c, "C11.marker")
	strictRule(c, "C11.strict", []string{"columnChunkIsCopyable", "encodingStatsMatch", "(*Writer).copyableColumnChunks", "(*Writer).columnOrientedRowGroup"})
	c.Min("C11.strict", 6)

	// limits
	rule := "C11.limits"
	maxRows := p.LookupField("ConcurrentRowGroupWriter", "maxRows")
	for _, k := range []string{"(*Writer).copyableColumnChunks", "(*Writer).columnOrientedRowGroup"} {
		obj := p.LookupFunc(k)
		if obj == nil || maxRows == nil {
			continue
		}
		fn := p.SSAFunc(obj)
		ok := false
		allInstrs(fn, false, func(_ *ssa.Function, ins ssa.Instruction) {
			bo, isB := ins.(*ssa.BinOp)
			if !isB || (bo.Op != token.GTR && bo.Op != token.LSS && bo.Op != token.GEQ && bo.Op != token.LEQ) {
				return
			}
			var hasRows, hasMax bool
			for _, side := range []ssa.Value{bo.X, bo.Y} {
				for _, o := range Origins(side, OriginOpts{}) {
					if o.Kind == OrgCall && calleeName(o.Call) == "(RowGroup).NumRows" {
						hasRows = true
					}
					if o.Kind == OrgField && o.Field == maxRows {
						hasMax = true
					}
				}
			}
			if hasRows && hasMax {
				ok = true
			}
		})
		c.Check(rule, k+" compares the row count with MaxRowsPerRowGroup", fn.Pos(), ok, k+" no longer refuses row groups larger than the configured limit: they would be written as one oversized row group")
	}
	c.Min(rule, 2)

	// rows
	rule = "C11.rows"
	n := 0
	for _, fn := range p.ModuleSSAFuncs() {
		if fn.Origin() != nil {
			continue
		}
		var reads, writes, reps int
		var pos token.Pos
		allCalls(fn, true, func(_ *ssa.Function, call ssa.CallInstruction) {
			switch calleeName(call) {
			case "(ColumnChunkValueReader).ReadValues", "(ValueReader).ReadValues":
				reads++
			case "(*ColumnWriter).WriteRowValues":
				writes++
				pos = call.Pos()
			case "(Value).RepetitionLevel":
				reps++
			}
		})
		if reads > 0 && writes > 0 {
			n++
			c.Check(rule, FuncKey(fn)+" aligns value batches on row boundaries", pos, reps > 0, FuncKey(fn)+" passes batches obtained from ReadValues to ColumnWriter.WriteRowValues without looking at repetition levels: WriteRowValues may flush a page before it returns, and a batch that ends inside a row of a repeated column then splits the row across two pages")
		}
	}
	c.Check(rule, "the column-oriented copy loop was found", token.NoPos, n > 0, "no function feeding ReadValues output to WriteRowValues found (rule table out of date)")

	// order on the packing path
	rule = "C11.order"
	if o := p.LookupFunc("(*Writer).packSegmentsByColumn"); c.Anchor(rule, "(*Writer).packSegmentsByColumn", o != nil) {
		wf := p.SSAFunc(o)
		var flush, conf ssa.Instruction
		allCalls(wf, false, func(_ *ssa.Function, call ssa.CallInstruction) {
			switch calleeName(call) {
			case "(*writer).flush":
				if flush == nil {
					flush = call.(ssa.Instruction)
				}
			case "(*Writer).configureBloomFiltersForSegments":
				conf = call.(ssa.Instruction)
			}
		})
		c.Check(rule, "packSegmentsByColumn flushes buffered rows before sizing bloom filters", wf.Pos(), flush != nil && conf != nil && dominates(flush, conf), "bloom filters are sized for the incoming segments while earlier rows are still buffered (see C07.strategies)")
	}
	{
		// wherever the values of a row group are fed to the column writers in
		// bulk — the column-by-column re-encode anywhere, CopyRows in
		// WriteRowGroup — the bloom filters have been sized first
		nFeeds := 0
		for _, wf := range p.ModuleSSAFuncs() {
			if wf.Origin() != nil || wf.Blocks == nil || fnPkgPath(wf) != modPath {
				continue
			}
			isEntry := FuncKey(wf) == "(*Writer).WriteRowGroup"
			var confs, flushes []ssa.Instruction
			var feeds []ssa.CallInstruction
			allCalls(wf, false, func(_ *ssa.Function, call ssa.CallInstruction) {
				switch calleeName(call) {
				case "(*writer).flush":
					flushes = append(flushes, call.(ssa.Instruction))
				case "(*ConcurrentRowGroupWriter).configureBloomFilters":
					confs = append(confs, call.(ssa.Instruction))
				case "(*Writer).writeRowGroupByColumn":
					feeds = append(feeds, call)
				case "CopyRows":
					if isEntry {
						feeds = append(feeds, call)
					}
				}
			})
			// … and, where the function first flushes the rows buffered by earlier
			// Write calls, only after that flush: those rows belong to the previous
			// row group, whose filters must not be re-sized under them
			if isEntry && len(flushes) > 0 {
				for _, cf := range confs {
					ok := false
					for _, fl := range flushes {
						if dominates(fl, cf) {
							ok = true
						}
					}
					c.Check(rule, "WriteRowGroup sizes the bloom filters after flushing the rows buffered before", cf.Pos(), ok,
						"WriteRowGroup sizes (and zeroes) the bloom filters for the incoming row group at "+p.Pos(cf.Pos())+" before the rows buffered by earlier Write calls are flushed: the flush writes the previous row group with filters sized for another one, only its last buffered page lands in them, and values of that row group are reported absent")
				}
			}
			for _, f := range feeds {
				nFeeds++
				ok := false
				for _, cf := range confs {
					if dominates(cf, f.(ssa.Instruction)) {
						ok = true
					}
				}
				c.Check(rule, "the bloom filters are sized before "+calleeName(f)+" writes the values of a row group", f.Pos(), ok,
					"in "+FuncKey(wf)+" the values of the row group reach the column writers ("+calleeName(f)+") before configureBloomFilters has sized the filters: the pages flushed in between are never inserted (flushFilterPages takes an allocated filter as proof that earlier pages are in it), and the file carries a bloom filter that reports values of the column as absent")
			}
		}
		c.Check(rule, "the calls that feed the values of a row group to the column writers were found", token.NoPos, nFeeds >= 2, "rule table out of date")
	}
	if o := p.LookupFunc("(*Writer).writeSegmentsPacked"); c.Anchor(rule, "(*Writer).writeSegmentsPacked", o != nil) {
		wf := p.SSAFunc(o)
		// the flush-before-append test adds the incoming segment's rows to the pending count
		ok := false
		allInstrs(wf, false, func(_ *ssa.Function, ins ssa.Instruction) {
			bo, isB := ins.(*ssa.BinOp)
			if !isB || bo.Op != token.GTR {
				return
			}
			add, isAdd := bo.X.(*ssa.BinOp)
			if !isAdd || add.Op != token.ADD {
				return
			}
			for _, side := range []ssa.Value{add.X, add.Y} {
				for _, o := range Origins(side, OriginOpts{}) {
					if o.Kind == OrgCall && calleeName(o.Call) == "(RowGroup).NumRows" {
						ok = true
					}
				}
			}
		})
		c.Check(rule, "writeSegmentsPacked flushes when pending + incoming rows exceed the limit", wf.Pos(), ok, "the pending batch is flushed only by looking at what is already pending: the batch can grow past MaxRowsPerRowGroup before it is written as one row group")
	}
	c.Min(rule, 2)

	c18NoCopy(c)
	// informative: configuration fields read on the encode path but not by the predicate
	eff := NewEffects(p)
	cw := fieldsOfStruct(p.LookupType("ColumnWriter"))
	enc := eff.Reads(lookupFuncs(p, "(*ColumnWriter).writeDataPage", "(*ColumnWriter).writeDictionaryPage", "(*ColumnWriter).recordPageStats", "(*ColumnWriter).makePageStatistics", "(*ColumnWriter).flushFilterPages", "(*ColumnWriter).writeBloomFilter"), TransOpts{Stop: func(*ssa.Function) bool { return true }})
	pred := eff.Reads(lookupFuncs(p, "columnChunkIsCopyable", "encodingStatsMatch", "bloomFilterIsCopyable", "(*Writer).copyableColumnChunks"), TransOpts{})
	var unread []string
	for f := range enc {
		if cw[f] {
			if _, ok := pred[f]; !ok {
				unread = append(unread, f.Name())
			}
		}
	}
	sort.Strings(unread)
	c.Note("C11: ColumnWriter fields read on the encode path and not by the copy-eligibility predicates (state and configuration mixed, not decided): %s", strings.Join(unread, ", "))
}

func lookupFuncs(p *Prog, keys ...string) []*ssa.Function {
	var out []*ssa.Function
	for _, k := range keys {
		if o := p.LookupFunc(k); o != nil {
			if f := p.SSAFunc(o); f != nil {
				out = append(out, f)
			}
		}
	}
	return out
}

func runC09(c *Ctx) {
	c09NullCount(c)
	c09Rebuild(c)
	runSortStaleRule(c, "C09.sortstale", 5)
	runDrainStopRule(c, "C09.drainstop", 4)
	runDirSwapRule(c, "C09.dirswap", 1)
	runAnyScanRule(c, "C09.anyscan", func(fn *ssa.Function) bool { return fnPkgPath(fn) == modPath }, 2)
	c10WrapOrder(c)
	p := c.P
	markerRule(c, "C09.marker")
	// per-column direction
	rule := "C09.bounds"
	if obj := p.LookupFunc("rowGroupRangeOfSortedColumns"); c.Anchor(rule, "rowGroupRangeOfSortedColumns", obj != nil) {
		fn := p.SSAFunc(obj)
		ok := true
		n := 0
		allCalls(fn, true, func(_ *ssa.Function, call ssa.CallInstruction) {
			if calleeName(call) != "(SortingColumn).Descending" {
				return
			}
			n++
			// the receiver must vary with the loop: it is not an element at a constant index
			recv := call.Common().Value
			if u, isLoad := recv.(*ssa.UnOp); isLoad {
				if ia, isIA := u.X.(*ssa.IndexAddr); isIA {
					if _, isConst := ia.Index.(*ssa.Const); isConst {
						ok = false
					}
				}
			}
			if ix, isIndex := recv.(*ssa.Index); isIndex {
				if _, isConst := ix.Index.(*ssa.Const); isConst {
					ok = false
				}
			}
		})
		c.Check(rule, "key range of a sorted row group uses each sorting column's own direction", fn.Pos(), ok && n > 0, "the direction of the sort is read from a fixed sorting column: with mixed ascending/descending keys the computed minimum sorts after the maximum, overlapping row groups are taken for disjoint and concatenated instead of merged")
		// page bounds ignore nulls: the range must be extended on the side where
		// the sorting column orders them, which needs the null counts / null
		// pages of the column index and the column's NullsFirst()
		nullInfo, nullSide := false, false
		{
			// in the function or in the helpers of the package it hands the column index to
			seenFns := map[*ssa.Function]bool{}
			var look func(f *ssa.Function, depth int)
			look = func(f *ssa.Function, depth int) {
				if f == nil || f.Blocks == nil || seenFns[f] || depth > 2 {
					return
				}
				seenFns[f] = true
				allCalls(f, true, func(_ *ssa.Function, call ssa.CallInstruction) {
					switch calleeName(call) {
					case "(ColumnIndex).NullCount":
						nullInfo = true
					case "(SortingColumn).NullsFirst":
						nullSide = true
					}
					if sc := call.Common().StaticCallee(); sc != nil && fnPkgPath(sc) == modPath && sc.Signature.Recv() == nil {
						look(sc, depth+1)
					}
				})
			}
			look(fn, 0)
		}
		// the column index describes the rows only for row groups whose chunks are
		// their rows: the marker is consulted before any column index is read
		var markerCall ssa.Instruction
		allCalls(fn, false, func(_ *ssa.Function, call ssa.CallInstruction) {
			if calleeName(call) == "chunkTransparentRowGroup" {
				markerCall = call.(ssa.Instruction)
			}
		})
		guarded := markerCall != nil
		allCalls(fn, true, func(in *ssa.Function, call ssa.CallInstruction) {
			if in == fn && strings.HasSuffix(calleeName(call), ").ColumnIndex") && markerCall != nil && !dominates(markerCall, call.(ssa.Instruction)) {
				guarded = false
			}
		})
		c.Check(rule, "key range is read only from row groups whose chunks describe their rows", fn.Pos(), guarded, "rowGroupRangeOfSortedColumns reads the column index of any row group: for a row group that is itself a merge (its chunks are the concatenation of its inputs' chunks) the first and last pages say nothing about the range of its rows, inputs are declared disjoint and concatenated, and the output is not sorted")
		c.Check(rule, "key range of a sorted row group reaches its null rows", fn.Pos(), nullInfo && nullSide, "the key range is read from page bounds alone, which ignore nulls, without consulting the null counts of the column index and the NullsFirst() of the sorting column: row groups with disjoint value ranges that hold nulls are concatenated and the nulls of each end up in the middle of the output")
	}
	c.Min(rule, 3)
	// page bounds ignore nulls: whoever turns the bounds of a column index into
	// row positions (bounds together with the first row of a page) looks at the
	// null counts of the index as well
	{
		rule := "C09.cutnulls"
		n := 0
		for _, fn := range p.ModuleSSAFuncs() {
			if fn.Origin() != nil || fn.Blocks == nil || fn.Parent() != nil || fnPkgPath(fn) != modPath {
				continue
			}
			bounds, rowsOf, nulls := false, false, false
			seen := map[string]bool{}
			allInstrs(fn, true, func(_ *ssa.Function, ins ssa.Instruction) {
				// calls and bound method values (earliest := ci.MinValue)
				switch x := ins.(type) {
				case ssa.CallInstruction:
					seen[calleeName(x)] = true
				case *ssa.MakeClosure:
					if f, ok := x.Fn.(*ssa.Function); ok {
						seen[strings.TrimSuffix(f.Name(), "$bound")+"$bound"] = true
					}
				}
			})
			for k := range seen {
				switch {
				case strings.Contains(k, "MinValue") || strings.Contains(k, "MaxValue"):
					if strings.Contains(k, "ColumnIndex") || strings.HasSuffix(k, "$bound") {
						bounds = true
					}
				}
				if strings.Contains(k, "FirstRowIndex") {
					rowsOf = true
				}
				if strings.Contains(k, "NullCount") {
					nulls = true
				}
			}
			if !bounds || !rowsOf {
				continue
			}
			n++
			c.Check(rule, FuncKey(fn)+" looks at the null counts of the pages it cuts at", fn.Pos(), nulls, FuncKey(fn)+" turns the bounds of a column index into row positions without consulting NullCount: the bounds of a page ignore its nulls, so rows with null keys end up on the wrong side of a cut and the merge is not sorted")
		}
		c.Min(rule, 1)
	}
	// merge readers propagate read errors
	io := NewIOErrs(p)
	runErrRule(c, "C09.errors",
		func(fn *ssa.Function) bool {
			f := p.File(fn.Pos())
			return f == "merge.go" || f == "merge_refine.go" || f == "dedupe.go" || f == "multi_row_group.go" || f == "row_range.go"
		},
		func(s ErrSite) bool { return io.CallMayFail(s.Call) },
		c14Exceptions)
	c.Min("C09.errors", 3)
}

// c11Source — an open file is read-only: the parsed metadata it keeps (footer,
// row groups, column chunks, page indexes — fields of the File* types whose
// type comes from the format package) is shared by every row group, chunk and
// index handed out, by every goroutine reading the file, and by every writer
// that copies from it. Outside the functions that open the file (the static
// call closure of OpenFile and the lazy page-index loader), no function of the
// module writes through such a field: a writer that adjusts the source's page
// locations in place produces a correct first copy and a corrupt second one.
func c11Source(c *Ctx) {
	rule := "C11.source"
	p := c.P
	owned := map[*types.Var]bool{}
	for _, name := range p.Root.Types.Scope().Names() {
		tn, ok := p.Root.Types.Scope().Lookup(name).(*types.TypeName)
		if !ok || !strings.HasPrefix(name, "File") {
			continue
		}
		st, ok := tn.Type().Underlying().(*types.Struct)
		if !ok {
			continue
		}
		for i := 0; i < st.NumFields(); i++ {
			f := st.Field(i)
			t := f.Type()
			for d := 0; d < 3; d++ {
				switch u := t.(type) {
				case *types.Pointer:
					t = u.Elem()
				case *types.Slice:
					t = u.Elem()
				}
			}
			if n := namedOf(t); n != nil && n.Obj().Pkg() != nil && strings.HasSuffix(n.Obj().Pkg().Path(), "/format") {
				owned[f.Origin()] = true
			}
		}
	}
	if !c.Anchor(rule, "fields of the File* types that hold parsed format structures", len(owned) >= 4) {
		return
	}
	// the functions that build a file
	openers := map[*ssa.Function]bool{}
	var frontier []*ssa.Function
	for _, k := range []string{"OpenFile", "(*File).ReadPageIndex"} {
		if obj := p.LookupFunc(k); obj != nil {
			if fn := p.SSAFunc(obj); fn != nil && !openers[fn] {
				openers[fn] = true
				frontier = append(frontier, fn)
			}
		}
	}
	for depth := 0; depth < 6 && len(frontier) > 0; depth++ {
		var next []*ssa.Function
		for _, fn := range frontier {
			allCalls(fn, true, func(_ *ssa.Function, call ssa.CallInstruction) {
				if g := call.Common().StaticCallee(); g != nil && inModule(g) && g.Blocks != nil && !openers[originFn(g)] {
					openers[originFn(g)] = true
					next = append(next, originFn(g))
				}
			})
		}
		frontier = next
	}
	reads := 0
	var bad []string
	for _, fn := range p.ModuleSSAFuncs() {
		if fn.Origin() != nil || fn.Blocks == nil || fnPkgPath(fn) != modPath {
			continue
		}
		top := fn
		for top.Parent() != nil {
			top = top.Parent()
		}
		allInstrs(fn, false, func(_ *ssa.Function, ins ssa.Instruction) {
			if fa, ok := ins.(*ssa.FieldAddr); ok {
				if st := structOf(fa.X.Type()); st != nil && owned[st.Field(fa.Field).Origin()] {
					reads++
				}
			}
		})
		if openers[originFn(top)] {
			continue
		}
		for _, w := range ChainWrites(fn) {
			if w.Fresh {
				continue
			}
			for _, f := range w.Chain {
				if owned[f] {
					bad = append(bad, FuncKey(fn)+" writes "+chainString(p, w.Chain)+" at "+p.Pos(w.Pos))
					break
				}
			}
		}
	}
	sort.Strings(bad)
	c.Stats[rule+".accesses_to_file_metadata"] = reads
	c.Stats[rule+".file_metadata_fields"] = len(owned)
	c.Check(rule, "the parsed metadata of an open file is written only while the file is opened", token.NoPos, len(bad) == 0 && reads > 20, strings.Join(bad, "; ")+": the structures belong to the open file and are shared by everything read or copied from it; a change made for one use is seen by the next (the second verbatim copy of a row group gets page locations rebased twice)")
}

// c09Rebuild — a plain row group built from the column chunks of another row
// group (`&rowGroup{columns: f(r.ColumnChunks())}`) stands for r only when r's
// rows are what its chunks hold. Every function that builds one from the
// chunks of a RowGroup it was given asks chunkTransparentRowGroup first, and the
// answer dominates the construction.
func c09Rebuild(c *Ctx) {
	rule := "C09.rebuild"
	p := c.P
	rg := p.LookupType("rowGroup")
	if !c.Anchor(rule, "rowGroup", rg != nil) {
		return
	}
	n := 0
	for _, fn := range p.ModuleSSAFuncs() {
		if fn.Origin() != nil || fn.Blocks == nil || fn.Parent() != nil || fnPkgPath(fn) != modPath {
			continue
		}
		// does it take the chunks of a RowGroup parameter?
		var fromParam []ssa.Instruction
		allCalls(fn, false, func(_ *ssa.Function, call ssa.CallInstruction) {
			cc := call.Common()
			if cc.IsInvoke() && cc.Method.Name() == "ColumnChunks" {
				if _, isPar := cc.Value.(*ssa.Parameter); isPar {
					fromParam = append(fromParam, call.(ssa.Instruction))
				}
			}
		})
		if len(fromParam) == 0 {
			continue
		}
		// and build a plain rowGroup?
		var builds []*ssa.Alloc
		allInstrs(fn, false, func(_ *ssa.Function, ins ssa.Instruction) {
			if al, ok := ins.(*ssa.Alloc); ok {
				if an := namedOf(al.Type()); an != nil && an.Obj() == rg.Obj() {
					builds = append(builds, al)
				}
			}
		})
		if len(builds) == 0 {
			continue
		}
		var asks []ssa.Instruction
		allCalls(fn, false, func(_ *ssa.Function, call ssa.CallInstruction) {
			if calleeName(call) == "chunkTransparentRowGroup" {
				asks = append(asks, call.(ssa.Instruction))
			}
		})
		for i, al := range builds {
			n++
			ok := false
			for _, a := range asks {
				if dominates(a, al) {
					ok = true
				}
			}
			c.Check(rule, FuncKey(fn)+" rebuilds a row group from chunks only when the chunks are its rows#"+itoa(i+1), al.Pos(), ok, FuncKey(fn)+" builds a plain row group from the column chunks of the row group it was given without asking chunkTransparentRowGroup first: the rows of a merged or deduplicating row group are not what its chunks hold, and reading the copy returns the concatenation of the inputs")
		}
	}
	c.Min(rule, 1)
}
