package main

import (
	"go/types"

	"golang.org/x/tools/go/ssa"
)

// C18.footerstrip — in plaintext-footer mode the metadata of an encrypted
// column travels encrypted (ColumnChunk.EncryptedColumnMetadata) and the copy
// of the chunk recorded in the readable footer must carry none of it. A
// function that stores an EncryptedColumnMetadata also overwrites the MetaData
// of the chunk copy with the zero value as a whole (not field by field: size,
// geospatial and level statistics are added to the struct over time), under a
// condition computed from the EncryptedFooter setting.
func c18FooterStrip(c *Ctx) {
	p := c.P
	rule := "C18.footerstrip"
	isChunkField := func(addr ssa.Value, name string) bool {
		fa, ok := addr.(*ssa.FieldAddr)
		if !ok {
			return false
		}
		named := namedOf(fa.X.Type())
		stt := structOf(fa.X.Type())
		return named != nil && stt != nil && named.Obj().Name() == "ColumnChunk" && stt.Field(fa.Field).Name() == name
	}
	n := 0
	for _, fn := range p.ModuleSSAFuncs() {
		if fn.Origin() != nil || fn.Blocks == nil || fnPkgPath(fn) != modPath {
			continue
		}
		var enc *ssa.Store
		var strips []*ssa.Store
		allInstrs(fn, false, func(_ *ssa.Function, ins ssa.Instruction) {
			st, ok := ins.(*ssa.Store)
			if !ok {
				return
			}
			if isChunkField(st.Addr, "EncryptedColumnMetadata") && !isNilConst(st.Val) {
				enc = st
			}
			if isChunkField(st.Addr, "MetaData") {
				if k, ok := st.Val.(*ssa.Const); ok && k.Value == nil {
					if _, isStruct := k.Type().Underlying().(*types.Struct); isStruct {
						strips = append(strips, st)
					}
				}
			}
		})
		if enc == nil {
			continue
		}
		n++
		guarded := false
		for _, s := range strips {
			for _, b := range fn.Blocks {
				if len(b.Instrs) == 0 {
					continue
				}
				ifi, ok := b.Instrs[len(b.Instrs)-1].(*ssa.If)
				if !ok {
					continue
				}
				fromSetting := false
				for _, o := range Origins(ifi.Cond, OriginOpts{ThroughBinOp: true}) {
					if o.Kind == OrgField && o.Field != nil && o.Field.Name() == "EncryptedFooter" {
						fromSetting = true
					}
				}
				if !fromSetting {
					continue
				}
				for _, e := range b.Succs {
					if len(e.Preds) == 1 && e.Dominates(s.Block()) {
						guarded = true
					}
				}
			}
		}
		c.Check(rule, FuncKey(fn)+": the footer copy of a chunk whose metadata is encrypted carries no plaintext metadata", enc.Pos(), guarded,
			FuncKey(fn)+" stores the encrypted column metadata but no longer replaces the MetaData of the chunk recorded in the plaintext footer by the zero value under the EncryptedFooter setting: whatever is left in it (size statistics, geospatial bounding boxes, level histograms, offsets) is readable without any key")
	}
	c.Min(rule, 1)
}
