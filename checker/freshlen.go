package main

import (
	"go/token"
	"go/types"
	"strings"

	"golang.org/x/tools/go/ssa"
)

// T-FRESHLEN: a slice variable that is either made fresh or taken from a
// field of a recycled record — a field that the record's Reset truncates to
// length zero — starts from the same length on both sides: the fresh side is
// made with length 0. Otherwise what is written through it depends on whether
// the writer has been used before.

// truncatedByReset: the slice fields that a method named Reset/reset of a
// module type re-slices to length zero.
func truncatedByReset(p *Prog) map[*types.Var]bool {
	out := map[*types.Var]bool{}
	for _, fn := range p.ModuleSSAFuncs() {
		if fn.Blocks == nil || fn.Signature.Recv() == nil {
			continue
		}
		if n := fn.Name(); n != "Reset" && n != "reset" {
			continue
		}
		allInstrs(fn, false, func(_ *ssa.Function, ins ssa.Instruction) {
			st, ok := ins.(*ssa.Store)
			if !ok {
				return
			}
			fa, ok := st.Addr.(*ssa.FieldAddr)
			if !ok {
				return
			}
			sl, ok := st.Val.(*ssa.Slice)
			if !ok || !isZeroConst(sl.High) {
				return
			}
			if stt := structOf(fa.X.Type()); stt != nil {
				out[stt.Field(fa.Field).Origin()] = true
			}
		})
	}
	return out
}

func runFreshLenRule(c *Ctx, rule string, min int) {
	p := c.P
	trunc := truncatedByReset(p)
	c.Stats[rule+".fields_truncated_by_reset"] = len(trunc)
	n := 0
	for _, fn := range p.ModuleSSAFuncs() {
		if fn.Origin() != nil || fn.Blocks == nil || !strings.HasPrefix(fnPkgPath(fn), modPath) {
			continue
		}
		// the definitions of each slice variable: stores into its cell, or phi edges
		defs := map[ssa.Value][]ssa.Value{}
		allInstrs(fn, false, func(_ *ssa.Function, ins ssa.Instruction) {
			switch x := ins.(type) {
			case *ssa.Store:
				if a, ok := x.Addr.(*ssa.Alloc); ok {
					if _, isSl := x.Val.Type().Underlying().(*types.Slice); isSl {
						defs[a] = append(defs[a], x.Val)
					}
				}
			case *ssa.Phi:
				if _, isSl := x.Type().Underlying().(*types.Slice); isSl {
					defs[x] = append(defs[x], x.Edges...)
				}
			}
		})
		for _, ds := range defs {
			var mk *ssa.MakeSlice
			var field *types.Var
			for _, d := range ds {
				for {
					if ct, ok := d.(*ssa.ChangeType); ok {
						d = ct.X
						continue
					}
					break
				}
				switch x := d.(type) {
				case *ssa.MakeSlice:
					mk = x
				case *ssa.UnOp:
					if fa, ok := x.X.(*ssa.FieldAddr); ok && x.Op == token.MUL {
						if stt := structOf(fa.X.Type()); stt != nil {
							if f := stt.Field(fa.Field).Origin(); trunc[f] {
								field = f
							}
						}
					}
				}
			}
			if mk == nil || field == nil {
				continue
			}
			n++
			c.Check(rule, FuncKey(fn)+": a slice made fresh or taken from recycled "+field.Name()+" starts empty on both sides", mk.Pos(), isZeroConst(mk.Len),
				FuncKey(fn)+" makes the slice with a non-zero length where the other side takes the field "+field.Name()+" of a recycled record, which Reset truncates to length zero: the elements present on the fresh side only are filled (or emitted) by a new writer and not by a reused one, so the same rows give different bytes")
		}
	}
	c.Stats[rule+".instances"] = n
	c.Min(rule, min)
}
