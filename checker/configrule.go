package main

import (
	"golang.org/x/tools/go/packages"
	"go/ast"
	"go/types"
	"sort"
	"strings"
)

// T-COMPLETE for option merging: a method (*T).ConfigureX(config *T) that
// rebuilds *config with a composite literal must carry every field of T, and
// the value given to field F must mention c.F (the receiver's field of the
// same name), so that no option is dropped or crossed with a sibling.
func runConfigMergeRule(c *Ctx, rule string, exempt map[string]string) {
	p := c.P
	n := 0
	p.ModuleFuncDecls(func(pkg *packages.Package, fd *ast.FuncDecl, obj *types.Func) {
		if fd.Recv == nil || fd.Body == nil || !strings.HasPrefix(fd.Name.Name, "Configure") {
			return
		}
		sig := obj.Type().(*types.Signature)
		recvT := namedOf(sig.Recv().Type())
		if recvT == nil || sig.Params().Len() != 1 || namedOf(sig.Params().At(0).Type()) != recvT {
			return
		}
		st, ok := recvT.Underlying().(*types.Struct)
		if !ok {
			return
		}
		fs := p.SyntaxOf(obj)
		if fs == nil {
			return
		}
		recvName := ""
		if len(fd.Recv.List) > 0 && len(fd.Recv.List[0].Names) > 0 {
			recvName = fd.Recv.List[0].Names[0].Name
		}
		// local variables derived from c.F: name -> set of receiver fields
		derived := map[string]map[string]bool{}
		mentions := func(e ast.Node, field string) bool {
			found := false
			ast.Inspect(e, func(x ast.Node) bool {
				switch v := x.(type) {
				case *ast.SelectorExpr:
					if id, ok := v.X.(*ast.Ident); ok && id.Name == recvName && v.Sel.Name == field {
						found = true
					}
				case *ast.Ident:
					if derived[v.Name][field] {
						found = true
					}
				}
				return true
			})
			return found
		}
		ast.Inspect(fd.Body, func(x ast.Node) bool {
			as, ok := x.(*ast.AssignStmt)
			if !ok {
				return true
			}
			for i, lhs := range as.Lhs {
				id, ok := lhs.(*ast.Ident)
				if !ok || i >= len(as.Rhs) && len(as.Rhs) != 1 {
					continue
				}
				rhs := as.Rhs[0]
				if i < len(as.Rhs) {
					rhs = as.Rhs[i]
				}
				for j := 0; j < st.NumFields(); j++ {
					if mentions(rhs, st.Field(j).Name()) {
						if derived[id.Name] == nil {
							derived[id.Name] = map[string]bool{}
						}
						derived[id.Name][st.Field(j).Name()] = true
					}
				}
			}
			return true
		})
		// maps.Copy(local, c.F) and similar: first argument local, another argument mentions c.F
		ast.Inspect(fd.Body, func(x ast.Node) bool {
			call, ok := x.(*ast.CallExpr)
			if !ok || len(call.Args) < 2 {
				return true
			}
			id, ok := call.Args[0].(*ast.Ident)
			if !ok {
				return true
			}
			for j := 0; j < st.NumFields(); j++ {
				for _, a := range call.Args[1:] {
					if mentions(a, st.Field(j).Name()) {
						if derived[id.Name] == nil {
							derived[id.Name] = map[string]bool{}
						}
						derived[id.Name][st.Field(j).Name()] = true
					}
				}
			}
			return true
		})
		ast.Inspect(fd.Body, func(x ast.Node) bool {
			cl, ok := x.(*ast.CompositeLit)
			if !ok {
				return true
			}
			if namedOf(fs.TypeOf(cl)) != recvT {
				return true
			}
			n++
			tn := recvT.Obj().Name()
			present := map[string]ast.Expr{}
			for _, el := range cl.Elts {
				if kv, ok := el.(*ast.KeyValueExpr); ok {
					if id, ok := kv.Key.(*ast.Ident); ok {
						present[id.Name] = kv.Value
					}
				}
			}
			var missing, crossed []string
			for j := 0; j < st.NumFields(); j++ {
				f := st.Field(j).Name()
				key := tn + "." + f
				if _, ok := exempt[key]; ok {
					continue
				}
				v, ok := present[f]
				if !ok {
					missing = append(missing, f)
					continue
				}
				if !mentions(v, f) {
					crossed = append(crossed, f+" = "+exprString(v))
				}
			}
			sort.Strings(missing)
			sort.Strings(crossed)
			k := "(*" + tn + ")." + fd.Name.Name
			c.Check(rule, k+" carries every option", cl.Pos(), len(missing) == 0, "the merged "+tn+" is rebuilt without field(s) "+strings.Join(missing, ", ")+": an option set through a *"+tn+" (or any option type that applies one) is silently dropped")
			c.Check(rule, k+" takes each option from the field of the same name", cl.Pos(), len(crossed) == 0, "field(s) wired from something else than the receiver's field of the same name: "+strings.Join(crossed, "; "))
			return true
		})
	})
	c.Stats[rule+".merge_literals"] = n
}
