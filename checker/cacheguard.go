package main

import (
	"sort"
	"strings"

	"golang.org/x/tools/go/ssa"
)

// T-CACHEGUARD — a function that memoises its result in a package-level
// sync.Map looks the memo up under the conditions under which it fills it: a
// condition whose true (or false) edge dominates the store also dominates, with
// the same polarity, every lookup of the same map in the function. A lookup
// that ignores the condition ("not cacheable: the caller passed options")
// returns the memoised result of a call without options to a call with
// options — the result depends on what the process did before.
func runCacheGuardRule(c *Ctx, rule string, min int) {
	p := c.P
	type guard struct {
		cond ssa.Value
		pol  bool
	}
	guardsOf := func(fn *ssa.Function, at *ssa.BasicBlock) []guard {
		var out []guard
		for _, d := range fn.Blocks {
			ifi, ok := d.Instrs[len(d.Instrs)-1].(*ssa.If)
			if !ok {
				continue
			}
			for i, s := range d.Succs {
				if len(s.Preds) == 1 && s.Dominates(at) {
					out = append(out, guard{ifi.Cond, i == 0})
				}
			}
		}
		return out
	}
	n := 0
	for _, fn := range p.ModuleSSAFuncs() {
		if fn.Origin() != nil || fn.Blocks == nil || !inModule(fn) {
			continue
		}
		loads := map[*ssa.Global][]*ssa.Call{}
		stores := map[*ssa.Global][]*ssa.Call{}
		allCalls(fn, false, func(_ *ssa.Function, ci ssa.CallInstruction) {
			call, ok := ci.(*ssa.Call)
			if !ok {
				return
			}
			nm := calleeName(call)
			if !strings.HasPrefix(nm, "sync.(*Map).") || len(call.Call.Args) == 0 {
				return
			}
			g, ok := call.Call.Args[0].(*ssa.Global)
			if !ok {
				return
			}
			switch strings.TrimPrefix(nm, "sync.(*Map).") {
			case "Load":
				loads[g] = append(loads[g], call)
			case "Store", "LoadOrStore", "Swap":
				stores[g] = append(stores[g], call)
			}
		})
		var gs []*ssa.Global
		for g := range stores {
			if len(loads[g]) > 0 {
				gs = append(gs, g)
			}
		}
		sort.Slice(gs, func(i, j int) bool { return gs[i].Name() < gs[j].Name() })
		for _, g := range gs {
			n++
			var missing []string
			for _, s := range stores[g] {
				for _, gd := range guardsOf(fn, s.Block()) {
					for _, l := range loads[g] {
						// only conditions already decided when the lookup happens
						if ci, isInstr := gd.cond.(ssa.Instruction); isInstr && !dominates(ci, l) {
							continue
						}
						has := false
						for _, gl := range guardsOf(fn, l.Block()) {
							if gl.cond == gd.cond && gl.pol == gd.pol {
								has = true
							}
						}
						if !has {
							missing = append(missing, "the lookup at "+p.Pos(l.Pos())+" is not under the condition ("+p.Pos(gd.cond.Pos())+") that guards the store at "+p.Pos(s.Pos()))
						}
					}
				}
			}
			sort.Strings(missing)
			c.Check(rule, FuncKey(fn)+" looks "+g.Name()+" up under the conditions it fills it under", fn.Pos(), len(missing) == 0, FuncKey(fn)+": "+strings.Join(missing, "; ")+": a call the memo does not apply to is answered from the memo, so the result depends on what the process computed earlier")
		}
	}
	c.Min(rule, min)
}
