package main

import (
	"go/token"
	"go/types"
	"sort"
	"strings"

	"golang.org/x/tools/go/ssa"
)

// T-RESULT: Codec.Encode / Codec.Decode are append-like: the output is the
// slice they *return*, which is backed by dst only when dst was large enough.
// A caller that keeps using the buffer it passed as dst must therefore take
// the returned slice on every successful path: the result is returned, stored,
// passed on, or compared by identity with the buffer (`&out[0] != &dst[0]`).
// A path that only measures the result (len, cap) and goes on with dst reads
// the untouched buffer whenever the codec had to allocate (finding F22).

func isCodecCall(call ssa.CallInstruction) (name string, ok bool) {
	cc := call.Common()
	var recvT types.Type
	if cc.IsInvoke() {
		name = cc.Method.Name()
		recvT = cc.Value.Type()
	} else if callee := cc.StaticCallee(); callee != nil && callee.Signature.Recv() != nil {
		name = fnName(callee)
		recvT = callee.Signature.Recv().Type()
	} else {
		return "", false
	}
	if name != "Encode" && name != "Decode" {
		return "", false
	}
	n := namedOf(recvT)
	if n == nil || n.Obj().Pkg() == nil || !strings.HasSuffix(n.Obj().Pkg().Path(), "/compress") {
		return "", false
	}
	switch n.Obj().Name() {
	case "Codec", "Compressor", "Decompressor":
		return n.Obj().Name() + "." + name, true
	}
	return "", false
}

func runCodecResultRule(c *Ctx, rule string, min int) {
	p := c.P
	n := 0
	for _, fn := range p.ModuleSSAFuncs() {
		if fn.Origin() != nil || fn.Blocks == nil {
			continue
		}
		k := 0
		allCalls(fn, false, func(_ *ssa.Function, ci ssa.CallInstruction) {
			call, ok := ci.(*ssa.Call)
			if !ok {
				return
			}
			name, ok := isCodecCall(call)
			if !ok || len(call.Call.Args) < 2 {
				return
			}
			dstIdx := 0
			if !call.Call.IsInvoke() {
				dstIdx = 1 // receiver first
			}
			dst := call.Call.Args[dstIdx]
			if isNilConst(dst) {
				return // nothing of the caller's to fall back on
			}
			var res ssa.Value
			for _, r := range *call.Referrers() {
				if ex, ok := r.(*ssa.Extract); ok && ex.Index == 0 {
					res = ex
				}
			}
			n++
			key := FuncKey(fn) + ": result of " + name
			if k > 0 {
				key += " #" + itoa(k)
			}
			k++
			if res == nil {
				c.Fail(rule, key, call.Pos(), "the slice returned by %s is discarded: the output is only in dst when dst was large enough", name)
				return
			}
			// blocks where the result is consumed or compared by identity; edges on which it is known empty
			consume := map[*ssa.BasicBlock]bool{}
			emptyEdge := map[[2]*ssa.BasicBlock]bool{}
			seen := map[ssa.Value]bool{}
			var walk func(v ssa.Value)
			walk = func(v ssa.Value) {
				if seen[v] {
					return
				}
				seen[v] = true
				refs := v.Referrers()
				if refs == nil {
					return
				}
				for _, r := range *refs {
					switch x := r.(type) {
					case *ssa.Return, *ssa.Store, *ssa.MapUpdate, *ssa.Send, *ssa.MakeClosure:
						consume[r.Block()] = true
					case *ssa.Phi:
						consume[x.Block()] = true // merged with other candidates: taken
					case *ssa.Slice, *ssa.ChangeType, *ssa.Convert, *ssa.MakeInterface:
						walk(x.(ssa.Value))
					case *ssa.IndexAddr:
						// &res[i] used in a pointer comparison
						for _, rr := range *x.Referrers() {
							if b, ok := rr.(*ssa.BinOp); ok && (b.Op == token.EQL || b.Op == token.NEQ) {
								consume[b.Block()] = true
							}
						}
					case ssa.CallInstruction:
						cc := x.Common()
						if bi, ok := cc.Value.(*ssa.Builtin); ok && (bi.Name() == "len" || bi.Name() == "cap") {
							// len(res) compared with 0: the empty edge needs nothing
							if lv := x.Value(); lv != nil {
								for _, lr := range *lv.Referrers() {
									b, ok := lr.(*ssa.BinOp)
									if !ok {
										continue
									}
									zero := func(v ssa.Value) bool {
										k, ok := v.(*ssa.Const)
										return ok && k.Value != nil && k.Value.ExactString() == "0"
									}
									for _, br := range *b.Referrers() {
										ifi, ok := br.(*ssa.If)
										if !ok {
											continue
										}
										blk := ifi.Block()
										switch {
										case b.Op == token.GTR && b.X == lv && zero(b.Y), b.Op == token.NEQ && zero(b.Y):
											emptyEdge[[2]*ssa.BasicBlock{blk, blk.Succs[1]}] = true
										case b.Op == token.EQL && zero(b.Y):
											emptyEdge[[2]*ssa.BasicBlock{blk, blk.Succs[0]}] = true
										}
									}
								}
							}
							continue
						}
						consume[r.Block()] = true
					}
				}
			}
			walk(res)
			// failure edges: the error of the call is known non-nil
			for _, r := range *call.Referrers() {
				ex, ok := r.(*ssa.Extract)
				if !ok || ex.Index != 1 {
					continue
				}
				errVals := map[ssa.Value]bool{ex: true}
				// the error may be spilled into a named result / local
				for _, er := range *ex.Referrers() {
					if st, ok := er.(*ssa.Store); ok && st.Val == ex {
						if al, ok := st.Addr.(*ssa.Alloc); ok {
							for _, lr := range *al.Referrers() {
								if u, ok := lr.(*ssa.UnOp); ok && u.Op == token.MUL {
									errVals[u] = true
								}
							}
						}
					}
				}
				for ev := range errVals {
					if ev.Referrers() == nil {
						continue
					}
					for _, er := range *ev.Referrers() {
						b, ok := er.(*ssa.BinOp)
						if !ok || !(isNilConst(b.X) || isNilConst(b.Y)) {
							continue
						}
						for _, br := range *b.Referrers() {
							if ifi, ok := br.(*ssa.If); ok {
								blk := ifi.Block()
								if b.Op == token.NEQ {
									emptyEdge[[2]*ssa.BasicBlock{blk, blk.Succs[0]}] = true
								} else if b.Op == token.EQL {
									emptyEdge[[2]*ssa.BasicBlock{blk, blk.Succs[1]}] = true
								}
							}
						}
					}
				}
			}
			// returns reachable from the call without passing a consuming block
			reach := reachableAvoidingSet(call.Block(), consume, emptyEdge)
			if consume[call.Block()] {
				reach = map[*ssa.BasicBlock]bool{}
			}
			var bad []string
			for _, ret := range returnsOf(fn) {
				if !reach[ret.Block()] || ret.Block() == fn.Recover {
					continue
				}
				bad = append(bad, p.Pos(ret.Pos()))
			}
			sort.Strings(bad)
			c.Check(rule, key, call.Pos(), len(bad) == 0, FuncKey(fn)+" reaches a successful return ("+strings.Join(bad, ", ")+") after "+name+" without taking the returned slice (it is only measured): when the codec could not use dst and allocated, the caller goes on with the untouched dst buffer and the page decodes as garbage")
		})
	}
	c.Stats[rule+".codec_calls_with_dst"] = n
	c.Min(rule, min)
}

