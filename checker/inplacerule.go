package main

import (
	"strings"

	"golang.org/x/tools/go/ssa"
)

// C04.inplace — whether a decoder may write its output over the bytes it is
// still reading is a property of that decoder's index arithmetic, which each
// encoding declares through CanDecodeInPlace. The reader hands the page buffer
// to the decoder as its destination only on that declaration: the branch taken
// when CanDecodeInPlace() is true is entered from that test alone (the test may
// be narrowed by further conditions, never widened by an alternative).
func c04InPlace(c *Ctx) {
	p := c.P
	rule := "C04.inplace"
	n := 0
	for _, fn := range p.ModuleSSAFuncs() {
		if fn.Origin() != nil || fn.Blocks == nil || fnPkgPath(fn) != modPath {
			continue
		}
		for _, b := range fn.Blocks {
			if len(b.Instrs) == 0 {
				continue
			}
			ifi, ok := b.Instrs[len(b.Instrs)-1].(*ssa.If)
			if !ok {
				continue
			}
			call, ok := ifi.Cond.(*ssa.Call)
			if !ok || !strings.HasSuffix(calleeName(call), ".CanDecodeInPlace") {
				continue
			}
			n++
			taken := b.Succs[0]
			c.Check(rule, FuncKey(fn)+": the in-place decode is taken on the encoding's own declaration only", ifi.Cond.Pos(), len(taken.Preds) == 1,
				FuncKey(fn)+" reaches the branch that decodes a page over its own bytes from a second condition besides CanDecodeInPlace(): an encoding that has not declared it (DELTA_BYTE_ARRAY rebuilds each value from the previous one and a suffix, BYTE_STREAM_SPLIT scatters every stream over the whole output) overwrites input it has not read yet, and values come back wrong without an error")
		}
	}
	c.Min(rule, 1)
}
