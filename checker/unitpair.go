package main

import (
	"go/types"
	"strings"

	"golang.org/x/tools/go/ssa"
)

// C01.unitpair — a logical type whose AssignValue gives a Go time type
// (time.Time, time.Duration) a meaning of its own when it READS a column
// (DATE: days to a time; TIME: units to nanoseconds; TIMESTAMP: units to a
// time) must be consulted by both WRITE paths when they are handed a value of
// that Go type: the reflection path (makeValue) and the typed path (the
// functions writeRowsFuncOf dispatches to) each look up that logical type.
// A writer that never asks cannot be the inverse of the reader.
func c01UnitPair(c *Ctx) {
	p := c.P
	rule := "C01.unitpair"
	isTimeType := func(t types.Type) string {
		if pt, ok := t.(*types.Pointer); ok {
			t = pt.Elem()
		}
		n, ok := t.(*types.Named)
		if !ok || n.Obj().Pkg() == nil || n.Obj().Pkg().Path() != "time" {
			return ""
		}
		if n.Obj().Name() == "Time" || n.Obj().Name() == "Duration" {
			return "time." + n.Obj().Name()
		}
		return ""
	}
	// Go time types that a function compares reflect types with
	goTypesIn := func(fn *ssa.Function) map[string]bool {
		out := map[string]bool{}
		allInstrs(fn, true, func(_ *ssa.Function, ins ssa.Instruction) {
			call, ok := ins.(*ssa.Call)
			if !ok {
				return
			}
			callee := call.Call.StaticCallee()
			if callee == nil {
				return
			}
			switch {
			case callee.Name() == "TypeOf" && fnPkgPath(callee) == "reflect" && len(call.Call.Args) == 1:
				if mi, ok := call.Call.Args[0].(*ssa.MakeInterface); ok {
					if g := isTimeType(mi.X.Type()); g != "" {
						out[g] = true
					}
				}
			case callee.Origin() != nil && callee.Origin().Name() == "TypeFor" && len(callee.TypeArgs()) == 1:
				if g := isTimeType(callee.TypeArgs()[0]); g != "" {
					out[g] = true
				}
			}
		})
		return out
	}
	// logical types of package format that a function (and its closures) looks up
	lookupsIn := func(fn *ssa.Function, seen map[*ssa.Function]bool, depth int, out map[string]bool) {}
	lookupsIn = func(fn *ssa.Function, seen map[*ssa.Function]bool, depth int, out map[string]bool) {
		if fn == nil || fn.Blocks == nil || seen[fn] || depth < 0 {
			return
		}
		seen[fn] = true
		allInstrs(fn, true, func(_ *ssa.Function, ins ssa.Instruction) {
			call, ok := ins.(ssa.CallInstruction)
			if !ok {
				return
			}
			callee := call.Common().StaticCallee()
			if callee == nil {
				return
			}
			if o := callee.Origin(); o != nil && (o.Name() == "logicalTypeOf" || o.Name() == "logicalTypeIs") && len(callee.TypeArgs()) == 1 {
				if pt, ok := callee.TypeArgs()[0].(*types.Pointer); ok {
					if n, ok := pt.Elem().(*types.Named); ok {
						out[n.Obj().Name()] = true
					}
				}
				return
			}
			if inModule(callee) && fnPkgPath(callee) == modPath && strings.HasPrefix(callee.Name(), "writeRowsFuncOf") {
				lookupsIn(callee, seen, depth-1, out)
			}
		})
	}
	mv := p.LookupFunc("makeValue")
	wr := p.LookupFunc("writeRowsFuncOf")
	if !c.Anchor(rule, "makeValue", mv != nil) || !c.Anchor(rule, "writeRowsFuncOf", wr != nil) {
		return
	}
	reflLookups, typedLookups := map[string]bool{}, map[string]bool{}
	lookupsIn(p.SSAFunc(mv), map[*ssa.Function]bool{}, 0, reflLookups)
	lookupsIn(p.SSAFunc(wr), map[*ssa.Function]bool{}, 3, typedLookups)
	n := 0
	scope := p.Root.Types.Scope()
	for _, name := range scope.Names() {
		tn, ok := scope.Lookup(name).(*types.TypeName)
		if !ok || !strings.HasSuffix(name, "Type") {
			continue
		}
		m, _ := MethodOf(types.NewPointer(tn.Type()), "AssignValue")
		if m == nil {
			continue
		}
		fn := p.SSAFunc(m)
		if fn == nil || fn.Blocks == nil {
			continue
		}
		gts := goTypesIn(fn)
		if len(gts) == 0 {
			continue
		}
		// dateType -> format.DateType
		formatName := strings.ToUpper(name[:1]) + name[1:]
		fp := p.ByPath[modPath+"/format"]
		if fp == nil || fp.Types.Scope().Lookup(formatName) == nil {
			continue
		}
		for g := range gts {
			n++
			var missing []string
			if !reflLookups[formatName] {
				missing = append(missing, "makeValue (Writer.Write, Buffer.Write)")
			}
			if !typedLookups[formatName] {
				missing = append(missing, "the typed path under writeRowsFuncOf (GenericWriter, GenericBuffer)")
			}
			c.Check(rule, name+" reads "+g+" with a meaning of its own: both write paths look the logical type up", fn.Pos(), len(missing) == 0,
				name+".AssignValue converts the stored value of a "+formatName+" column to a "+g+" (days, or a count of the column's unit), but "+strings.Join(missing, " and ")+" never consults "+formatName+" when handed a "+g+": the value is stored as if the column were a plain integer (nanoseconds), and reads back as a different date or duration")
		}
	}
	c.Min(rule, 3)
}
