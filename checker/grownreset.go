package main

import (
	"go/types"
	"sort"

	"golang.org/x/tools/go/ssa"
)

// T-GROWNRESET — a per-window (per-batch) scratch struct whose slice fields
// are grown by append while a window is decoded is emptied by its reset:
// every slice field of the type that some function of the module appends to
// is assigned by the reset method (appends that only make room with constant zero values — a table indexed by depth — accumulate nothing and do not count). A field the reset forgets keeps the values
// of earlier windows in front of the new ones, and every index into it is off.
func runGrownResetRule(c *Ctx, rule, typeName, resetKey string, min int) {
	p := c.P
	tn := p.LookupType(typeName)
	robj := p.LookupFunc(resetKey)
	if !c.Anchor(rule, typeName, tn != nil) || !c.Anchor(rule, resetKey, robj != nil) {
		return
	}
	st, _ := tn.Underlying().(*types.Struct)
	if st == nil {
		return
	}
	own := map[*types.Var]bool{}
	for i := 0; i < st.NumFields(); i++ {
		if _, isSl := st.Field(i).Type().Underlying().(*types.Slice); isSl {
			own[st.Field(i)] = true
		}
	}
	grown := map[*types.Var]string{}
	for _, fn := range p.ModuleSSAFuncs() {
		if fn.Origin() != nil || fn.Blocks == nil {
			continue
		}
		allInstrs(fn, false, func(_ *ssa.Function, ins ssa.Instruction) {
			s, ok := ins.(*ssa.Store)
			if !ok {
				return
			}
			fs, _, elem := fieldChain(s.Addr)
			if len(fs) == 0 || elem || !own[fs[len(fs)-1]] {
				return
			}
			if call, ok := s.Val.(*ssa.Call); ok {
				if bi, ok := call.Call.Value.(*ssa.Builtin); ok && bi.Name() == "append" {
					// appends that restart from an empty slice are resets themselves
					if sl, ok := call.Call.Args[0].(*ssa.Slice); ok && isZeroConst(sl.High) {
						return
					}
					// making room with zero values (`append(x, nil)`, `append(x, false)`:
					// a table indexed by depth) accumulates nothing
					if sl, ok := call.Call.Args[1].(*ssa.Slice); ok {
						if arr, ok := sl.X.(*ssa.Alloc); ok {
							allConst, any := true, false
							for _, ref := range *arr.Referrers() {
								ia, ok := ref.(*ssa.IndexAddr)
								if !ok {
									continue
								}
								for _, r2 := range *ia.Referrers() {
									if st2, ok := r2.(*ssa.Store); ok && st2.Addr == ssa.Value(ia) {
										any = true
										if _, isConst := st2.Val.(*ssa.Const); !isConst {
											allConst = false
										}
									}
								}
							}
							if any && allConst {
								return
							}
						}
					}
					grown[fs[len(fs)-1]] = p.Pos(s.Pos())
				}
			}
		})
	}
	reset := map[*types.Var]bool{}
	seen := map[*ssa.Function]bool{}
	var walk func(fn *ssa.Function, depth int)
	walk = func(fn *ssa.Function, depth int) {
		if fn == nil || fn.Blocks == nil || seen[fn] || depth > 2 {
			return
		}
		seen[fn] = true
		allInstrs(fn, false, func(_ *ssa.Function, ins ssa.Instruction) {
			switch x := ins.(type) {
			case *ssa.Store:
				if fs, _, elem := fieldChain(x.Addr); len(fs) > 0 && !elem && own[fs[len(fs)-1]] {
					reset[fs[len(fs)-1]] = true
				}
			case ssa.CallInstruction:
				if sc := x.Common().StaticCallee(); sc != nil && inModule(sc) {
					walk(sc, depth+1)
				}
			}
		})
	}
	walk(p.SSAFunc(robj), 0)
	var names []string
	for f := range grown {
		names = append(names, f.Name())
	}
	sort.Strings(names)
	for _, name := range names {
		var f *types.Var
		for g := range grown {
			if g.Name() == name {
				f = g
			}
		}
		c.Check(rule, typeName+"."+name+" is grown by append and emptied by "+resetKey, robj.Pos(), reset[f],
			typeName+"."+name+" is appended to ("+grown[f]+") while a window is decoded but "+resetKey+" does not assign it: from the second window on it still holds the values of the earlier windows, and the values read through it belong to other rows")
	}
	c.Min(rule, min)
}
