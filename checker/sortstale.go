package main

import (
	"go/token"
	"strings"

	"golang.org/x/tools/go/ssa"
)

// T-SORTSTALE — an element read out of a slice before the slice is sorted in
// place is the element of a position, not of a rank: using it after the sort
// as "the first (smallest) element" is using whatever happened to be first in
// the caller's order. No value loaded from an element of a slice before a
// sorting call on that slice is used after the call.
func runSortStaleRule(c *Ctx, rule string, min int) {
	p := c.P
	n := 0
	isSort := func(name string) bool {
		switch name {
		case "slices.SortFunc", "slices.SortStableFunc", "slices.Sort", "sort.Slice", "sort.SliceStable", "sort.Sort", "sort.Stable":
			return true
		}
		return false
	}
	for _, fn := range p.ModuleSSAFuncs() {
		if fn.Origin() != nil || fn.Blocks == nil || fnPkgPath(fn) != modPath {
			continue
		}
		allCalls(fn, false, func(_ *ssa.Function, call ssa.CallInstruction) {
			callee := call.Common().StaticCallee()
			if callee == nil {
				return
			}
			name := calleeName(call)
			if o := callee.Origin(); o != nil {
				name = fnPkgPath(o) + "." + o.Name()
			}
			if !isSort(name) || len(call.Common().Args) == 0 {
				return
			}
			ci, ok := call.(ssa.Instruction)
			if !ok {
				return
			}
			sorted := call.Common().Args[0]
			if mi, ok := sorted.(*ssa.MakeInterface); ok {
				sorted = mi.X
			}
			// the same slice variable: the SSA value, or another load of the same cell
			same := func(v ssa.Value) bool {
				if v == sorted {
					return true
				}
				u1, ok1 := v.(*ssa.UnOp)
				u2, ok2 := sorted.(*ssa.UnOp)
				return ok1 && ok2 && u1.Op == token.MUL && u2.Op == token.MUL && u1.X == u2.X
			}
			n++
			var stale []string
			allInstrs(fn, false, func(_ *ssa.Function, ins ssa.Instruction) {
				ld, ok := ins.(*ssa.UnOp)
				if !ok || ld.Op != token.MUL || !dominates(ld, ci) {
					return
				}
				// address of (a field of) an element of the sorted slice
				addr := ld.X
				for {
					if fa, ok := addr.(*ssa.FieldAddr); ok {
						addr = fa.X
						continue
					}
					break
				}
				ia, ok := addr.(*ssa.IndexAddr)
				if !ok || !same(ia.X) {
					return
				}
				// used after the sort?
				seen := map[ssa.Value]bool{}
				var usedAfter func(v ssa.Value) bool
				usedAfter = func(v ssa.Value) bool {
					if seen[v] || v.Referrers() == nil {
						return false
					}
					seen[v] = true
					for _, r := range *v.Referrers() {
						if r.Block() == nil {
							continue
						}
						if dominates(ci, r) && r != ci {
							return true
						}
						if ph, ok := r.(*ssa.Phi); ok && usedAfter(ph) {
							return true
						}
						if st, ok := r.(*ssa.Store); ok && st.Val == v {
							// spilled into a local cell that is read after the sort
							if al, ok := st.Addr.(*ssa.Alloc); ok {
								for _, r2 := range *al.Referrers() {
									if l2, ok := r2.(*ssa.UnOp); ok && l2.Op == token.MUL && dominates(ci, l2) {
										return true
									}
								}
							}
						}
					}
					return false
				}
				if usedAfter(ld) {
					stale = append(stale, p.Pos(ld.Pos()))
				}
			})
			c.Check(rule, FuncKey(fn)+": no element read before "+name+" is used after it", call.Pos(), len(stale) == 0,
				FuncKey(fn)+" reads an element of the slice at "+strings.Join(stale, ", ")+", sorts the slice at "+p.Pos(call.Pos())+" and uses the value afterwards: it is the element of the caller's order, not of the sorted one, so what follows (segment bounds, a running maximum) depends on the order the inputs were given in")
		})
	}
	c.Min(rule, min)
}
