package main

import (
	"go/token"
	"go/types"
	"sort"
	"strings"

	"golang.org/x/tools/go/ssa"
)

// Access-path ("chain") effects: a write is described by the chain of struct
// fields from the root value to the location stored to, e.g.
//   ColumnWriter.columnChunk → ColumnChunk.MetaData → ColumnMetaData.NumValues
// Unlike the type-keyed sets of effects.go this distinguishes the live
// per-column metadata (reached through ColumnWriter.columnChunk) from the
// finished copies in writer.rowGroups.

type chainWrite struct {
	Chain []*types.Var
	Kind  EffKind
	Pos   token.Pos
	Fn    *ssa.Function
	Root  ssa.Value
	Fresh bool // root is an allocation local to the function (construction, not mutation)
	// Parent is set on the leaf chains generated for a whole-struct store:
	// the chain of the struct location that was overwritten.
	Parent []*types.Var
	// Via is set when the write is performed by a callee through an argument
	// that Fn derived from the chain.
	Via *ssa.Function
}

func chainString(p *Prog, ch []*types.Var) string {
	if len(ch) == 0 {
		return ""
	}
	parts := []string{p.FieldName(ch[0])}
	for _, f := range ch[1:] {
		parts = append(parts, f.Name())
	}
	return strings.Join(parts, ".")
}

func isFreshRoot(v ssa.Value) bool {
	switch x := v.(type) {
	case *ssa.Alloc, *ssa.MakeSlice, *ssa.MakeMap:
		return true
	case *ssa.UnOp:
		// load of a variable cell (variable captured by a closure or whose
		// address is taken): fresh when every store into the cell stores a
		// fresh allocation
		if x.Op != token.MUL {
			return false
		}
		cell, ok := x.X.(*ssa.Alloc)
		if !ok {
			if fv, ok := x.X.(*ssa.FreeVar); ok {
				return freshFreeVar(fv)
			}
			return false
		}
		return freshCell(cell)
	}
	return false
}

func freshCell(cell *ssa.Alloc) bool {
	n := 0
	for _, ref := range *cell.Referrers() {
		if st, ok := ref.(*ssa.Store); ok && st.Addr == cell {
			n++
			switch st.Val.(type) {
			case *ssa.Alloc, *ssa.MakeSlice, *ssa.MakeMap:
			default:
				return false
			}
		}
	}
	return n > 0
}

// freshFreeVar: the captured variable cell of the enclosing function is fresh.
func freshFreeVar(fv *ssa.FreeVar) bool {
	fn := fv.Parent()
	par := fn.Parent()
	if par == nil {
		return false
	}
	idx := -1
	for i, f := range fn.FreeVars {
		if f == fv {
			idx = i
		}
	}
	if idx < 0 {
		return false
	}
	ok := false
	for _, b := range par.Blocks {
		for _, ins := range b.Instrs {
			mc, isMC := ins.(*ssa.MakeClosure)
			if !isMC || mc.Fn != fn || idx >= len(mc.Bindings) {
				continue
			}
			switch bnd := mc.Bindings[idx].(type) {
			case *ssa.Alloc:
				if freshCell(bnd) {
					ok = true
				} else {
					return false
				}
			case *ssa.FreeVar:
				if freshFreeVar(bnd) {
					ok = true
				} else {
					return false
				}
			default:
				return false
			}
		}
	}
	return ok
}

// expandWhole appends the leaf sub-field chains for a whole-struct store of
// type t (nested value structs are expanded to their leaves).
func expandWhole(base []*types.Var, t types.Type, depth int, out *[][]*types.Var) {
	st, ok := t.Underlying().(*types.Struct)
	if !ok {
		return
	}
	for i := 0; i < st.NumFields(); i++ {
		f := st.Field(i).Origin()
		ch := append(append([]*types.Var{}, base...), f)
		if inner, ok := f.Type().Underlying().(*types.Struct); ok && depth < 3 && inner.NumFields() > 0 {
			expandWhole(ch, f.Type(), depth+1, out)
			continue
		}
		*out = append(*out, ch)
	}
}

// ChainWrites lists the direct writes of fn with their access chains.
func ChainWrites(fn *ssa.Function) []chainWrite {
	var out []chainWrite
	add := func(addr ssa.Value, kind EffKind, pos token.Pos, storedType types.Type) {
		fields, root, elem := fieldChain(addr)
		if len(fields) == 0 {
			return
		}
		k := kind
		if elem && k == EffAssign {
			k = EffElem
		}
		fresh := isFreshRoot(root)
		if storedType != nil && !elem {
			var subs [][]*types.Var
			expandWhole(fields, storedType, 0, &subs)
			if len(subs) > 0 {
				for _, s := range subs {
					out = append(out, chainWrite{Chain: s, Kind: EffWhole, Pos: pos, Fn: fn, Root: root, Fresh: fresh, Parent: fields})
				}
				return
			}
		}
		out = append(out, chainWrite{Chain: fields, Kind: k, Pos: pos, Fn: fn, Root: root, Fresh: fresh})
	}
	for _, b := range fn.Blocks {
		for _, ins := range b.Instrs {
			switch x := ins.(type) {
			case *ssa.Store:
				var st types.Type
				if _, ok := x.Val.Type().Underlying().(*types.Struct); ok {
					st = x.Val.Type()
				}
				add(x.Addr, EffAssign, x.Pos(), st)
			case *ssa.MapUpdate:
				add(x.Map, EffElem, x.Pos(), nil)
			}
			if call, ok := ins.(ssa.CallInstruction); ok {
				cc := call.Common()
				if bi, ok := cc.Value.(*ssa.Builtin); ok {
					if (bi.Name() == "clear" || bi.Name() == "copy" || bi.Name() == "delete") && len(cc.Args) > 0 {
						add(cc.Args[0], EffElem, call.Pos(), nil)
					}
					continue
				}
				if callee := cc.StaticCallee(); callee != nil && callee.Signature.Recv() != nil && !inModule(callee) && len(cc.Args) > 0 {
					if _, isPtr := callee.Signature.Recv().Type().(*types.Pointer); isPtr && mutatingName(callee.Name()) {
						add(cc.Args[0], EffCall, call.Pos(), nil)
					}
				}
			}
		}
	}
	return out
}

// chainSet is a set of chains keyed by their string form.
type chainSet struct {
	p *Prog
	m map[string]chainWrite
}

func newChainSet(p *Prog) *chainSet { return &chainSet{p: p, m: map[string]chainWrite{}} }

func (s *chainSet) add(w chainWrite) {
	k := chainString(s.p, w.Chain)
	if old, ok := s.m[k]; ok {
		old.Kind |= w.Kind
		s.m[k] = old
		return
	}
	s.m[k] = w
}

// covers reports whether some chain in the set is a prefix of (or equal to) ch.
func (s *chainSet) covers(ch []*types.Var) (string, bool) {
	for i := len(ch); i >= 1; i-- {
		k := chainString(s.p, ch[:i])
		if _, ok := s.m[k]; ok {
			return k, true
		}
	}
	return "", false
}

// coversBelow reports whether the set writes some location strictly below
// ch (ch is a proper prefix of a written chain): the object reached through
// ch is retained and its content is re-established.
func (s *chainSet) coversBelow(ch []*types.Var) (string, bool) {
	k := chainString(s.p, ch) + "."
	var best string
	for key := range s.m {
		if strings.HasPrefix(key, k) && (best == "" || key < best) {
			best = key
		}
	}
	return best, best != ""
}

func (s *chainSet) keys() []string {
	var out []string
	for k := range s.m {
		out = append(out, k)
	}
	sort.Strings(out)
	return out
}

// ResetCover computes the chains written by the reset entries, composing
// callee chains with the access path of the argument bound to the callee's
// parameter (static calls only, bounded depth).
func ResetCover(p *Prog, entries []*ssa.Function, maxDepth int) (*chainSet, map[*ssa.Function]bool) {
	set := newChainSet(p)
	closure := map[*ssa.Function]bool{}
	type frame struct {
		fn     *ssa.Function
		prefix map[*ssa.Parameter][]*types.Var // known access path of a parameter (nil entry = unbound)
	}
	var visit func(fr frame, depth int)
	visit = func(fr frame, depth int) {
		fn := fr.fn
		if fn == nil || fn.Blocks == nil || depth > maxDepth {
			return
		}
		closure[fn] = true
		resolve := func(v ssa.Value) ([]*types.Var, bool) {
			fields, root, _ := fieldChain(v)
			if par, ok := root.(*ssa.Parameter); ok {
				if pre, ok := fr.prefix[par]; ok {
					return append(append([]*types.Var{}, pre...), fields...), true
				}
				return fields, len(fields) > 0 // relative to an unbound parameter: raw chain
			}
			if fv, ok := root.(*ssa.FreeVar); ok {
				_ = fv
				return fields, len(fields) > 0
			}
			return fields, len(fields) > 0
		}
		for _, w := range ChainWrites(fn) {
			if w.Fresh {
				continue
			}
			ch := w.Chain
			if par, ok := w.Root.(*ssa.Parameter); ok {
				if pre, ok := fr.prefix[par]; ok {
					ch = append(append([]*types.Var{}, pre...), ch...)
				}
			}
			set.add(chainWrite{Chain: ch, Kind: w.Kind, Pos: w.Pos, Fn: fn})
		}
		var callees []frame
		for _, b := range fn.Blocks {
			for _, ins := range b.Instrs {
				switch x := ins.(type) {
				case *ssa.MakeClosure:
					if f, ok := x.Fn.(*ssa.Function); ok {
						callees = append(callees, frame{fn: f})
					}
				}
				call, ok := ins.(ssa.CallInstruction)
				if !ok {
					continue
				}
				// Reset()/reset() invoked through an interface on a field of
				// the object (c.columnBuffer.Reset()): the content behind that
				// reference is re-established
				if cc := call.Common(); cc.IsInvoke() && (cc.Method.Name() == "Reset" || cc.Method.Name() == "reset") {
					if ch, ok := resolve(cc.Value); ok && len(ch) > 0 {
						set.add(chainWrite{Chain: ch, Kind: EffCall, Pos: call.Pos(), Fn: fn})
					}
				}
				callee := call.Common().StaticCallee()
				if callee == nil || callee.Blocks == nil || !inModule(callee) {
					continue
				}
				nf := frame{fn: callee, prefix: map[*ssa.Parameter][]*types.Var{}}
				for i, a := range call.Common().Args {
					if i >= len(callee.Params) {
						break
					}
					if ch, ok := resolve(a); ok {
						nf.prefix[callee.Params[i]] = ch
					}
				}
				callees = append(callees, nf)
			}
		}
		for _, c := range callees {
			visit(c, depth+1)
		}
	}
	for _, e := range entries {
		visit(frame{fn: e, prefix: map[*ssa.Parameter][]*types.Var{}}, 0)
	}
	return set, closure
}
