package main

import (
	"go/token"
	"go/types"
	"sort"
	"strings"

	"golang.org/x/tools/go/ssa"
)

// C13 — corruption inside a checksummed page is reported, never returned as
// data. Decided: on every path, page bytes that reach a decoder were either
// compared against the header CRC or came out of AES-GCM authentication.

func init() {
	register(&Property{
		ID:      "C13",
		NeedSSA: true,
		Decided: "Structural necessary conditions: (provenance) every *buffer[byte] that reaches (*Column).decodeDataPageV1/V2/decodeDictionary from file-reading code originates, on every SSA path and through every static caller, in the result of the checksum-verifying loader or in AES-GCM-authenticated plaintext; (compare) inside the loader the success return is reachable only through the CRC comparison's equal edge or the `CRC == 0` (field absent) edge, the checksum covers the whole buffer that is returned, and the mismatch edge returns an error wrapping ErrCorrupted; (always) the writer stores PageHeader.CRC from writerBuffers.crc32() after the last mutation of the page buffers and before the header is serialised, on both page kinds, and crc32()/size() cover exactly the buffers that are emitted; (errors) no error produced while loading or decoding a page is dropped or swallowed. (crcfield) every store into PageHeader.CRC takes its value from the checksum function.",
		NotDecided: "that decoding authentic bytes never panics, that a corrupted page header is detected (outside the page body, outside the property), CRC32 collision (2^-32), a stored checksum that is exactly zero.",
		Assumptions: []string{
			"crc32.ChecksumIEEE / crc32.Update compute the same IEEE CRC (stdlib)",
			"AES-GCM Open authenticates its input (crypto/cipher)",
			"go/ssa value flow is followed through phis, local spills, conversions, slicing and static calls; values stored into struct fields are not tracked and count as violations unless excepted",
		},
		Run: runC13,
	})
}

var c13Sinks = []string{"(*Column).decodeDataPageV1", "(*Column).decodeDataPageV2", "(*Column).decodeDictionary"}

func runC13(c *Ctx) {
	p := c.P
	c13Provenance(c)
	c13Compare(c)
	c13Always(c)
	c13CRCField(c)
	// after a corrupted page made the underlying reader fail, the asynchronous
	// wrapper must keep reporting that error instead of resuming from an
	// unknown stream position
	asyncStickyRule(c, "C13.sticky")

	// C13.errors
	scope := map[string]bool{}
	for _, k := range []string{"(*FilePages).ReadPage", "(*FilePages).readPage", "(*FilePages).readDictionary", "(*FilePages).readDictionaryPage",
		"(*FilePages).readDataPageV1", "(*FilePages).readDataPageV2", "(*FilePages).readEncryptedPage", "(*FilePages).ReadDictionary",
		"(*Column).decodeDataPageV1", "(*Column).decodeDataPageV2", "(*Column).decodeDataPage", "(*Column).decodeDictionary", "(*Column).decompress",
		"decodeLevelsV1", "decodeLevelsV2", "decodeLevels", "skipLevelsV2", "readDecryptedEnvelopeFrom", "decryptModule"} {
		if c.Anchor("C13.errors", k, p.LookupFunc(k) != nil) {
			scope[k] = true
		}
	}
	runErrRule(c, "C13.errors",
		func(fn *ssa.Function) bool {
			k := FuncKey(fn)
			if i := strings.Index(k, "$"); i >= 0 {
				k = k[:i]
			}
			return scope[k]
		},
		func(s ErrSite) bool { return true },
		[]errException{
			{"(*FilePages).ReadPage", "bufio.(*Reader).Discard", "dropped", "skipping a duplicate dictionary page: a short discard leaves the stream misaligned and resurfaces as a header decode error or EOF on the next loop iteration; no page data is returned from the skipped bytes"},
			{"(*Column).decodeDataPageV2", "skipLevelsV2*", "swallowed", "error is replaced by io.ErrUnexpectedEOF (the only error skipLevelsV2 produces); it is reported, not absorbed"},
			{"(*Column).decodeDataPageV2", "decodeLevelsV2*", "swallowed", "error is replaced by a wrapped io.ErrUnexpectedEOF and returned; the failure still reaches the caller"},
		})
	c.Min("C13.errors", 3)
}

func c13Provenance(c *Ctx) {
	p := c.P
	rule := "C13.provenance"
	bp := NewBufProv(p)
	bp.Verified["(*FilePages).readPage"] = 0
	bp.Auth["readDecryptedEnvelopeFrom"] = true
	bp.Auth["decryptModule"] = true
	bp.EntryExempt["(*Column).DecodeDataPageV1"] = "public API: caller supplies the bytes, no file page involved"
	bp.EntryExempt["(*Column).DecodeDataPageV2"] = "public API: caller supplies the bytes"
	bp.EntryExempt["(*Column).DecodeDictionary"] = "public API: caller supplies the bytes"
	bp.Readers["hash/crc32.ChecksumIEEE"] = true
	writerExempt := map[string]string{
		"(*ColumnWriter).flushFilterPages": "writer re-reads pages it just produced from its own page buffer to fill the bloom filter; not a file read path",
	}

	sinks := map[*types.Func]string{}
	for _, k := range c13Sinks {
		f := p.LookupFunc(k)
		if c.Anchor(rule, k, f != nil) {
			sinks[f] = k
		}
	}
	c.Anchor(rule, "(*FilePages).readPage", p.LookupFunc("(*FilePages).readPage") != nil)
	c.Anchor(rule, "readDecryptedEnvelopeFrom", p.LookupFunc("readDecryptedEnvelopeFrom") != nil)

	nsites := 0
	for _, fn := range p.ModuleSSAFuncs() {
		if fn.Origin() != nil {
			continue
		}
		allCalls(fn, false, func(in *ssa.Function, call ssa.CallInstruction) {
			o := calleeObj(call)
			name, ok := sinks[o]
			if !ok {
				return
			}
			nsites++
			fk := FuncKey(fn)
			if why, ok := writerExempt[fk]; ok {
				c.Pass(rule, fk+" -> "+name+" [exempt]", call.Pos(), "exempt: %s", why)
				return
			}
			args := call.Common().Args
			if len(args) < 3 {
				c.Fail(rule, fk+" -> "+name, call.Pos(), "unexpected sink arity")
				return
			}
			leaves := bp.ClassifyBuffer(args[2], fn, 0, name+"(page) in "+fk)
			for _, l := range leaves {
				key := FuncKey(l.Fn) + ": " + l.Kind
				if l.OK {
					c.Pass(rule, key, l.Pos, "%s", l.Trail)
				} else {
					c.Fail(rule, key, l.Pos, "page bytes reach a decoder without checksum comparison or authentication: %s; flow: %s", l.Kind, l.Trail)
				}
			}
		})
	}
	c.Stats[rule+".sink_call_sites"] = nsites
	c.Min(rule, 5)
}

// c13Compare checks the internal structure of the checksum-verifying loader.
func c13Compare(c *Ctx) {
	p := c.P
	rule := "C13.compare"
	obj := p.LookupFunc("(*FilePages).readPage")
	if !c.Anchor(rule, "(*FilePages).readPage", obj != nil) {
		return
	}
	fn := p.SSAFunc(obj)
	crcField := p.LookupField("format.PageHeader", "CRC")
	if !c.Anchor(rule, "format.PageHeader.CRC", crcField != nil) || fn == nil {
		return
	}

	// locate the checksum call and the comparison that uses it
	var sumCall *ssa.Call
	allCalls(fn, false, func(_ *ssa.Function, call ssa.CallInstruction) {
		if isCallTo(call, "hash/crc32", "", "ChecksumIEEE") {
			if cv, ok := call.(*ssa.Call); ok {
				sumCall = cv
			}
		}
	})
	if sumCall == nil {
		c.Fail(rule, "readPage:checksum-call", fn.Pos(), "(*FilePages).readPage no longer calls crc32.ChecksumIEEE on the page bytes")
		return
	}
	var cmp *ssa.BinOp
	for _, r := range realReferrers(sumCall) {
		if b, ok := r.(*ssa.BinOp); ok && (b.Op == token.NEQ || b.Op == token.EQL) {
			cmp = b
		}
	}
	if cmp == nil {
		c.Fail(rule, "readPage:comparison", sumCall.Pos(), "the computed checksum is not compared with ==/!=")
		return
	}
	// other side derives from header.CRC
	other := cmp.X
	if other == ssa.Value(sumCall) {
		other = cmp.Y
	}
	fromCRC := false
	for _, o := range Origins(other, OriginOpts{}) {
		if o.Kind == OrgField && o.Field == crcField {
			fromCRC = true
		}
	}
	c.Check(rule, "readPage:compares-with-header.CRC", cmp.Pos(), fromCRC, "comparison operand must derive from PageHeader.CRC")

	// the If on the comparison
	var ifCmp *ssa.If
	for _, r := range realReferrers(cmp) {
		if i, ok := r.(*ssa.If); ok {
			ifCmp = i
		}
	}
	if ifCmp == nil {
		c.Fail(rule, "readPage:branch", cmp.Pos(), "checksum comparison does not control a branch")
		return
	}
	mismatch, match := ifCmp.Block().Succs[0], ifCmp.Block().Succs[1]
	if cmp.Op == token.EQL {
		mismatch, match = match, mismatch
	}

	// success returns: returns whose first result is not the nil constant
	var success []*ssa.Return
	for _, r := range returnsOf(fn) {
		if v, rec := retResult(r, 0); !rec && v != nil && !isNilConst(v) {
			success = append(success, r)
		}
	}
	c.Check(rule, "readPage:has-success-return", fn.Pos(), len(success) > 0, "loader must have a return carrying the buffer")

	// (a) mismatch edge cannot reach a success return without going through the compare again
	reachMis := reachableAvoiding(mismatch, ifCmp.Block())
	okMis := true
	for _, r := range success {
		if reachMis[r.Block()] && mismatch != match {
			okMis = false
		}
	}
	c.Check(rule, "readPage:mismatch-edge-never-returns-buffer", ifCmp.Pos(), okMis, "on checksum mismatch the loader must not return the buffer")

	// (b) mismatch path builds an error mentioning ErrCorrupted
	errCorrupted := false
	for b := range reachMis {
		for _, ins := range b.Instrs {
			for _, op := range ins.Operands(nil) {
				if g, ok := (*op).(*ssa.Global); ok && g.Name() == "ErrCorrupted" {
					errCorrupted = true
				}
			}
		}
	}
	c.Check(rule, "readPage:mismatch-wraps-ErrCorrupted", ifCmp.Pos(), errCorrupted, "the mismatch branch must return an error wrapping ErrCorrupted")

	// (c) every path entry -> success return passes the comparison block, or
	// takes the edge of a branch testing header.CRC against zero.
	skipEdges := map[[2]*ssa.BasicBlock]bool{}
	for _, b := range fn.Blocks {
		if len(b.Instrs) == 0 {
			continue
		}
		ifi, ok := b.Instrs[len(b.Instrs)-1].(*ssa.If)
		if !ok {
			continue
		}
		bo, ok := ifi.Cond.(*ssa.BinOp)
		if !ok || (bo.Op != token.NEQ && bo.Op != token.EQL) {
			continue
		}
		var fieldSide, constSide ssa.Value = bo.X, bo.Y
		if _, isC := fieldSide.(*ssa.Const); isC {
			fieldSide, constSide = constSide, fieldSide
		}
		cst, isC := constSide.(*ssa.Const)
		if !isC || cst.Value == nil || cst.Int64() != 0 {
			continue
		}
		isCRC := false
		for _, o := range Origins(fieldSide, OriginOpts{}) {
			if o.Kind == OrgField && o.Field == crcField {
				isCRC = true
			}
		}
		if !isCRC {
			continue
		}
		zeroSucc := b.Succs[0] // == 0 true edge
		if bo.Op == token.NEQ {
			zeroSucc = b.Succs[1]
		}
		skipEdges[[2]*ssa.BasicBlock{b, zeroSucc}] = true
	}
	bypass := reachableAvoidingEdges(fn.Blocks[0], ifCmp.Block(), skipEdges)
	okAll := true
	for _, r := range success {
		if bypass[r.Block()] {
			okAll = false
		}
	}
	c.Check(rule, "readPage:every-success-path-compares", fn.Pos(), okAll,
		"a path reaches the buffer-returning exit without passing the checksum comparison and without header.CRC == 0 (conditions other than an absent checksum must not skip verification)")

	// (d) the checksum covers the whole buffer: argument is not re-sliced and
	// roots at the same buffer that is filled and returned
	arg := sumCall.Call.Args[0]
	_, resliced := arg.(*ssa.Slice)
	sameBuf := true
	for _, r := range success {
		rv, _ := retResult(r, 0)
		for _, o := range Origins(rv, OriginOpts{}) {
			if !rootsAt(arg, o.Val) {
				sameBuf = false
			}
		}
	}
	c.Check(rule, "readPage:checksum-covers-returned-buffer", sumCall.Pos(), !resliced && sameBuf, "crc32.ChecksumIEEE must be applied to the entire data of the buffer that is returned")
	c.Min(rule, 6)
}

// reachableAvoiding: blocks reachable from start without entering `avoid`.
func reachableAvoiding(start, avoid *ssa.BasicBlock) map[*ssa.BasicBlock]bool {
	return reachableAvoidingEdges(start, avoid, nil)
}

func reachableAvoidingEdges(start, avoid *ssa.BasicBlock, skip map[[2]*ssa.BasicBlock]bool) map[*ssa.BasicBlock]bool {
	seen := map[*ssa.BasicBlock]bool{}
	var walk func(b *ssa.BasicBlock)
	walk = func(b *ssa.BasicBlock) {
		if b == avoid || seen[b] {
			return
		}
		seen[b] = true
		for _, s := range b.Succs {
			if skip[[2]*ssa.BasicBlock{b, s}] {
				continue
			}
			walk(s)
		}
	}
	walk(start)
	return seen
}

// c13Always: the writer always records a checksum of exactly what it emits.
func c13Always(c *Ctx) {
	p := c.P
	rule := "C13.always"
	crcField := p.LookupField("format.PageHeader", "CRC")
	crcFn := p.LookupFunc("(*writerBuffers).crc32")
	sizeFn := p.LookupFunc("(*writerBuffers).size")
	wb := p.LookupType("writerBuffers")
	if !c.Anchor(rule, "format.PageHeader.CRC", crcField != nil) || !c.Anchor(rule, "(*writerBuffers).crc32", crcFn != nil) ||
		!c.Anchor(rule, "(*writerBuffers).size", sizeFn != nil) || !c.Anchor(rule, "writerBuffers", wb != nil) {
		return
	}
	eff := NewEffects(p)
	wbFields := fieldsOfStruct(wb)
	readSet := func(fns ...*ssa.Function) map[string]bool {
		out := map[string]bool{}
		for f := range eff.Reads(fns, TransOpts{Stop: func(f *ssa.Function) bool { return true }}) {
			if wbFields[f] {
				out[f.Name()] = true
			}
		}
		return out
	}
	crcReads := readSet(p.SSAFunc(crcFn))
	sizeReads := readSet(p.SSAFunc(sizeFn))

	for _, k := range []string{"(*ColumnWriter).writeDataPage", "(*ColumnWriter).writeDictionaryPage"} {
		obj := p.LookupFunc(k)
		if !c.Anchor(rule, k, obj != nil) {
			continue
		}
		fn := p.SSAFunc(obj)
		// stores into PageHeader.CRC
		var stores []*ssa.Store
		allInstrs(fn, false, func(_ *ssa.Function, ins ssa.Instruction) {
			if st, ok := ins.(*ssa.Store); ok {
				if fields, _, elem := fieldChain(st.Addr); len(fields) > 0 && !elem && fields[len(fields)-1] == crcField {
					stores = append(stores, st)
				}
			}
		})
		if len(stores) == 0 {
			c.Fail(rule, k+":stores-CRC", fn.Pos(), "%s no longer assigns PageHeader.CRC: the reader skips verification when the field is zero", k)
			continue
		}
		for i, st := range stores {
			fromCrc := false
			var crcCall ssa.CallInstruction
			for _, o := range Origins(st.Val, OriginOpts{}) {
				if o.Kind == OrgCall && calleeObj(o.Call) == crcFn {
					fromCrc = true
					crcCall = o.Call
				} else {
					fromCrc = false
					break
				}
			}
			c.Check(rule, k+":CRC-from-crc32#"+itoa(i), st.Pos(), fromCrc, "PageHeader.CRC must be assigned from (*writerBuffers).crc32()")
			if crcCall == nil {
				continue
			}
			// no mutation of the buffers can follow the checksum: compress /
			// encode / prepend are not reachable after the crc32 call
			mutators := map[string]bool{"compress": true, "encode": true, "prependLevelsToDataPageV1": true, "encodeRepetitionLevels": true, "encodeDefinitionLevels": true, "swapPageAndScratchBuffers": true, "reset": true}
			after := instrsAfter(crcCall.(ssa.Instruction))
			bad := ""
			for _, ins := range after {
				if call, ok := ins.(ssa.CallInstruction); ok {
					if o := calleeObj(call); o != nil && mutators[o.Name()] {
						if sig := o.Type().(*types.Signature); sig.Recv() != nil && namedOf(sig.Recv().Type()) != nil && namedOf(sig.Recv().Type()).Obj().Name() == "writerBuffers" {
							if _, isDefer := call.(*ssa.Defer); !isDefer {
								bad = o.Name()
							}
						}
					}
				}
			}
			c.Check(rule, k+":no-buffer-mutation-after-crc32#"+itoa(i), crcCall.Pos(), bad == "", "writerBuffers."+bad+" is reachable after the checksum was taken: the emitted bytes differ from the checksummed ones")
		}
		// every serialisation of the header is dominated by a CRC store
		nEnc := 0
		allCalls(fn, false, func(_ *ssa.Function, call ssa.CallInstruction) {
			o := calleeObj(call)
			if o == nil || o.Name() != "Encode" || o.Pkg() == nil || !strings.HasSuffix(o.Pkg().Path(), "encoding/thrift") {
				return
			}
			nEnc++
			dom := false
			for _, st := range stores {
				if dominates(st, call.(ssa.Instruction)) {
					dom = true
				}
			}
			c.Check(rule, k+":CRC-stored-before-header-encode#"+itoa(nEnc-1), call.Pos(), dom, "the page header is serialised on a path where PageHeader.CRC was not assigned first")
		})
		c.Check(rule, k+":encodes-header", fn.Pos(), nEnc > 0, "no thrift Encode of the page header found")

		// emitted buffers ⊆ checksummed buffers
		emitted := readSet(append([]*ssa.Function{fn}, fn.AnonFuncs...)...)
		delete(emitted, "scratch")
		var missing []string
		for f := range emitted {
			if !crcReads[f] {
				missing = append(missing, f)
			}
		}
		sort.Strings(missing)
		c.Check(rule, k+":crc32-covers-emitted-buffers", fn.Pos(), len(missing) == 0, "writerBuffers fields read by "+k+" but not covered by crc32(): "+strings.Join(missing, ","))
	}
	// the checksum routine returns a computed checksum on every path: a
	// constant result (e.g. an early `return 0`) makes the reader skip
	// verification, since a zero CRC reads as "absent"
	if cf := p.SSAFunc(crcFn); cf != nil {
		okAll, nret := true, 0
		for _, r := range returnsOf(cf) {
			rv, rec := retResult(r, 0)
			if rec || rv == nil {
				continue
			}
			nret++
			for _, o := range Origins(rv, OriginOpts{}) {
				if o.Kind != OrgCall || o.Call == nil {
					okAll = false
					continue
				}
				co := calleeObj(o.Call)
				if co == nil || co.Pkg() == nil || co.Pkg().Path() != "hash/crc32" {
					okAll = false
				}
			}
		}
		c.Check(rule, "writerBuffers.crc32:every-return-is-a-computed-checksum", crcFn.Pos(), okAll && nret > 0, "(*writerBuffers).crc32 returns a value that is not the result of hash/crc32 on some path; the reader treats CRC 0 as absent and skips verification")
	}
	same := len(crcReads) == len(sizeReads)
	for f := range crcReads {
		if !sizeReads[f] {
			same = false
		}
	}
	c.Check(rule, "writerBuffers:crc32-and-size-cover-same-buffers", crcFn.Pos(), same && len(crcReads) >= 3, "crc32() and size() must read the same buffer fields (repetitions, definitions, page)")
	c.Min(rule, 10)
}

// instrsAfter lists the instructions that can execute after ins (rest of its
// block and all blocks reachable from its successors).
func instrsAfter(ins ssa.Instruction) []ssa.Instruction {
	var out []ssa.Instruction
	b := ins.Block()
	found := false
	for _, x := range b.Instrs {
		if found {
			out = append(out, x)
		}
		if x == ins {
			found = true
		}
	}
	seen := map[*ssa.BasicBlock]bool{}
	var walk func(*ssa.BasicBlock)
	walk = func(x *ssa.BasicBlock) {
		if seen[x] {
			return
		}
		seen[x] = true
		out = append(out, x.Instrs...)
		for _, s := range x.Succs {
			walk(s)
		}
	}
	for _, s := range b.Succs {
		walk(s)
	}
	return out
}

// c13CRCField: the checksum field of a page header has two legitimate
// writers: the thrift decoder (through reflection/generated code, not a field
// store in this package) and the page writers, which store the checksum they
// just computed. Any other store — clearing it before the comparison is the
// obvious one, because a zero checksum means "not verified" — lets a page
// bypass verification. Every store into format.PageHeader.CRC in the library
// takes its value from the checksum function of the write buffers.
func c13CRCField(c *Ctx) {
	rule := "C13.crcfield"
	p := c.P
	crc := p.LookupField("format.PageHeader", "CRC")
	if !c.Anchor(rule, "format.PageHeader.CRC", crc != nil) {
		return
	}
	n := 0
	for _, fn := range p.ModuleSSAFuncs() {
		if fn.Origin() != nil || fn.Blocks == nil {
			continue
		}
		k := 0
		allInstrs(fn, false, func(_ *ssa.Function, ins ssa.Instruction) {
			st, ok := ins.(*ssa.Store)
			if !ok {
				return
			}
			fs, _, elem := fieldChain(st.Addr)
			if len(fs) == 0 || elem || fs[len(fs)-1] != crc {
				return
			}
			n++
			computed := false
			for _, o := range Origins(st.Val, OriginOpts{ThroughBinOp: true}) {
				if o.Kind == OrgCall {
					if sc := o.Call.Common().StaticCallee(); sc != nil && strings.Contains(strings.ToLower(fnName(sc)), "crc32") {
						computed = true
					}
				}
			}
			key := FuncKey(fn) + ": value stored into PageHeader.CRC"
			if k > 0 {
				key += " #" + itoa(k)
			}
			k++
			c.Check(rule, key, st.Pos(), computed, FuncKey(fn)+" assigns the checksum field of a page header a value that is not a freshly computed checksum: a stored checksum that is cleared or replaced before it is compared makes the reader skip verification of that page (zero means not verified)")
		})
	}
	c.Stats[rule+".stores"] = n
	c.Min(rule, 2)
}
