package main

import (
	"go/ast"
	"go/token"
	"go/types"
	"sort"
	"strings"

	"golang.org/x/tools/go/packages"
	"golang.org/x/tools/go/ssa"
)

// ---------------------------------------------------------------------------
// T-LITERAL-SIBLING: keyed composite literals of one struct type passed to
// the same callee set the same fields.

func literalSiblingRule(c *Ctx, rule string, minGroups int) {
	p := c.P
	type lit struct {
		pos  token.Pos
		fn   string
		keys []string
		src  map[string]string // key → "Type.field" when the value is a (converted) field selector
	}
	groups := map[string][]lit{}
	for _, pkg := range p.Mod {
		info := pkg.TypesInfo
		for _, file := range pkg.Syntax {
			var stack []ast.Node
			ast.Inspect(file, func(n ast.Node) bool {
				if n == nil {
					stack = stack[:len(stack)-1]
					return true
				}
				stack = append(stack, n)
				call, ok := n.(*ast.CallExpr)
				if !ok {
					return true
				}
				callee := ""
				if fn := calleeOfExpr(info, call); fn != nil {
					callee = ObjKey(fn)
				}
				if callee == "" {
					return true
				}
				for ai, a := range call.Args {
					cl, ok := ast.Unparen(a).(*ast.CompositeLit)
					if !ok {
						if u, isU := ast.Unparen(a).(*ast.UnaryExpr); isU && u.Op == token.AND {
							cl, ok = u.X.(*ast.CompositeLit)
						}
					}
					if !ok || cl == nil {
						continue
					}
					named := namedOf(info.TypeOf(cl))
					if named == nil || named.Obj().Pkg() == nil || !strings.HasPrefix(named.Obj().Pkg().Path(), modPath) {
						continue
					}
					if _, isStruct := named.Underlying().(*types.Struct); !isStruct {
						continue
					}
					var keys []string
					var srcs map[string]string
					keyed := true
					for _, el := range cl.Elts {
						kv, ok := el.(*ast.KeyValueExpr)
						if !ok {
							keyed = false
							break
						}
						if id, ok := kv.Key.(*ast.Ident); ok {
							keys = append(keys, id.Name)
							v := ast.Unparen(kv.Value)
							for {
								ce, isCall := v.(*ast.CallExpr)
								if !isCall || len(ce.Args) != 1 || !info.Types[ce.Fun].IsType() {
									break
								}
								v = ast.Unparen(ce.Args[0]) // a conversion
							}
							if se, isSel := v.(*ast.SelectorExpr); isSel {
								if sel := info.Selections[se]; sel != nil && sel.Kind() == types.FieldVal {
									if bn := namedOf(sel.Recv()); bn != nil {
										if srcs == nil {
											srcs = map[string]string{}
										}
										srcs[id.Name] = bn.Obj().Name() + "." + se.Sel.Name
									}
								}
							}
						}
					}
					if !keyed || len(keys) == 0 {
						continue
					}
					sort.Strings(keys)
					encl := ""
					for i := len(stack) - 1; i >= 0; i-- {
						if fd, ok := stack[i].(*ast.FuncDecl); ok {
							encl = fd.Name.Name
							break
						}
					}
					gk := named.Obj().Name() + " passed to " + callee + "@" + itoa(ai)
					groups[gk] = append(groups[gk], lit{cl.Pos(), encl, keys, srcs})
				}
				return true
			})
		}
	}
	n := 0
	var gks []string
	for k := range groups {
		gks = append(gks, k)
	}
	sort.Strings(gks)
	for _, gk := range gks {
		lits := groups[gk]
		if len(lits) < 2 {
			continue
		}
		n++
		// union of keys
		union := map[string]bool{}
		for _, l := range lits {
			for _, k := range l.keys {
				union[k] = true
			}
		}
		perFn := map[string]int{}
		for _, l := range lits {
			var missing []string
			for k := range union {
				found := false
				for _, k2 := range l.keys {
					if k2 == k {
						found = true
					}
				}
				if !found {
					missing = append(missing, k)
				}
			}
			sort.Strings(missing)
			key := gk + " in " + l.fn
			if perFn[l.fn] > 0 {
				key += "#" + itoa(perFn[l.fn])
			}
			perFn[l.fn]++
			c.Check(rule, key, l.pos, len(missing) == 0, "this literal omits field(s) "+strings.Join(missing, ", ")+" that the sibling call site(s) of the same callee set: the two entry points hand different level/context information to the shared implementation")
		}
	}
	// the sibling literals of a group take each field from the same source field
	for _, gk := range gks {
		lits := groups[gk]
		if len(lits) < 2 {
			continue
		}
		keysSeen := map[string]bool{}
		for _, l := range lits {
			for k := range l.src {
				keysSeen[k] = true
			}
		}
		var ks []string
		for k := range keysSeen {
			ks = append(ks, k)
		}
		sort.Strings(ks)
		for _, k := range ks {
			ref, refFn := "", ""
			agree := true
			var seen []string
			count := 0
			for _, l := range lits {
				s, ok := l.src[k]
				if !ok {
					continue
				}
				count++
				seen = append(seen, s+" in "+l.fn)
				if ref == "" {
					ref, refFn = s, l.fn
				} else if s != ref && s[:strings.Index(s, ".")] == ref[:strings.Index(ref, ".")] {
					agree = false
				}
			}
			_ = refFn
			if count < 2 {
				continue
			}
			c.Check(rule, gk+": field "+k+" comes from the same source field at every call site", lits[0].pos, agree, "the sibling call sites of one callee fill "+k+" from different fields of the same struct ("+strings.Join(seen, "; ")+"): the two entry points hand different level/context information to the shared implementation, so the same value is shredded differently depending on how it was handed over")
		}
	}
	c.Stats[rule+".literal_groups"] = n
	c.Check(rule, "sibling literal groups examined", token.NoPos, n >= minGroups, "fewer groups of sibling composite literals than on the pinned tree")
}

func calleeOfExpr(info *types.Info, call *ast.CallExpr) *types.Func {
	var id *ast.Ident
	switch f := ast.Unparen(call.Fun).(type) {
	case *ast.Ident:
		id = f
	case *ast.SelectorExpr:
		id = f.Sel
	case *ast.IndexExpr:
		if s, ok := f.X.(*ast.SelectorExpr); ok {
			id = s.Sel
		} else if i, ok := f.X.(*ast.Ident); ok {
			id = i
		}
	}
	if id == nil {
		return nil
	}
	fn, _ := info.Uses[id].(*types.Func)
	if fn != nil {
		return fn.Origin()
	}
	return nil
}

// ---------------------------------------------------------------------------
// T-POLARITY: inside a function of the Equal* family no function of the Same*
// family is referenced and vice versa (the strict comparison must recurse with
// the strict comparison).

func polarityRule(c *Ctx, rule string, a, b string) {
	p := c.P
	n := 0
	p.ModuleFuncDecls(func(pkg *packages.Package, fd *ast.FuncDecl, obj *types.Func) {
		if fd.Body == nil || pkg != p.Root {
			return
		}
		name := fd.Name.Name
		var mine, other string
		switch {
		case containsWord(name, a) && !containsWord(name, b):
			mine, other = a, b
		case containsWord(name, b) && !containsWord(name, a):
			mine, other = b, a
		default:
			return
		}
		var bad []string
		ast.Inspect(fd.Body, func(x ast.Node) bool {
			id, ok := x.(*ast.Ident)
			if !ok {
				return true
			}
			if fn, ok := pkg.TypesInfo.Uses[id].(*types.Func); ok && fn.Pkg() == obj.Pkg() {
				if containsWord(fn.Name(), other) && !containsWord(fn.Name(), mine) {
					bad = append(bad, fn.Name())
				}
			}
			return true
		})
		n++
		sort.Strings(bad)
		c.Check(rule, name+" recurses within the "+mine+" family", fd.Pos(), len(bad) == 0, name+" refers to "+strings.Join(bad, ", ")+": a comparison of the "+mine+" kind that recurses with the "+other+" kind accepts (or rejects) schemas its contract does not, e.g. nested field order is ignored and no conversion is inserted")
	})
	c.Stats[rule+".functions"] = n
}

func containsWord(name, word string) bool {
	return strings.Contains(name, word) || strings.Contains(name, strings.ToLower(word[:1])+word[1:])
}

// ---------------------------------------------------------------------------
// T-MUSTCALL: every path of fn from entry to a return calls callee.

func mustCallRule(c *Ctx, rule, fnKey, callee string) {
	p := c.P
	obj := p.LookupFunc(fnKey)
	if !c.Anchor(rule, fnKey, obj != nil) {
		return
	}
	fn := p.SSAFunc(obj)
	blocks := map[*ssa.BasicBlock]bool{}
	allCalls(fn, false, func(_ *ssa.Function, call ssa.CallInstruction) {
		if calleeName(call) == callee {
			if _, isDefer := call.(*ssa.Defer); !isDefer {
				blocks[call.Block()] = true
			}
		}
	})
	reach := reachableAvoidingSet(fn.Blocks[0], blocks, nil)
	ok := len(blocks) > 0
	for _, r := range returnsOf(fn) {
		if r.Block() != fn.Recover && reach[r.Block()] {
			ok = false
		}
	}
	c.Check(rule, fnKey+" calls "+callee+" on every path", fn.Pos(), ok, "some path through "+fnKey+" returns without calling "+callee)
}

// ---------------------------------------------------------------------------
// T-ENUM: switches over an enum type in the named functions are exhaustive
// or have a default that returns / panics.

func enumRule(c *Ctx, rule, enumKey string, fns []string) {
	p := c.P
	et := p.LookupType(enumKey)
	if !c.Anchor(rule, enumKey, et != nil) {
		return
	}
	consts := enumConsts(et)
	for _, k := range fns {
		fs := p.Syntax(k)
		if !c.Anchor(rule, k, fs != nil) {
			continue
		}
		found := 0
		for _, sw := range fs.enumSwitches(fs.Decl.Body) {
			if sw.TagType.Origin() != et.Origin() {
				continue
			}
			found++
			var missing []string
			for _, kc := range consts {
				if !sw.CaseVals[kc.Val().ExactString()] {
					missing = append(missing, kc.Name())
				}
			}
			okDefault := sw.Default != nil && fs.clauseErrorsOrPanics(sw.Default)
			c.Check(rule, k+": switch over "+enumKey+" #"+itoa(found-1)+" covers every constant or fails loudly", sw.Stmt.Pos(), len(missing) == 0 || okDefault,
				"constants "+strings.Join(missing, ", ")+" of "+enumKey+" are not handled and the switch has no default that returns or panics: values of that kind fall through silently")
		}
		c.Check(rule, k+" dispatches on "+enumKey, fs.Decl.Pos(), found > 0, "no switch over "+enumKey+" found (rule table out of date)")
	}
}

// ---------------------------------------------------------------------------
// T-SIBLING for Type implementations: Encode/Decode/Kind agree.

func typePairRule(c *Ctx, rule string) {
	p := c.P
	tt := p.LookupType("Type")
	if !c.Anchor(rule, "Type", tt != nil) {
		return
	}
	iface, _ := tt.Underlying().(*types.Interface)
	n := 0
	for _, t := range p.Implementations(iface) {
		enc, encProm := MethodOf(t, "Encode")
		dec, decProm := MethodOf(t, "Decode")
		kind, _ := MethodOf(t, "Kind")
		if enc == nil || dec == nil || kind == nil || encProm || decProm {
			continue
		}
		kv, ok := constReturn(p, kind)
		if !ok {
			continue // group / wrapper types whose kind is computed
		}
		kindT := p.LookupType("Kind")
		kname := ""
		for _, kc := range enumConsts(kindT) {
			if kc.Val().ExactString() == kv.ExactString() {
				kname = kc.Name()
			}
		}
		calleeIn := func(m *types.Func, prefix string) string {
			fn := p.SSAFunc(m)
			res := ""
			if fn == nil {
				return res
			}
			allCalls(fn, false, func(_ *ssa.Function, call ssa.CallInstruction) {
				if o := calleeObj(call); o != nil && o.Pkg() != nil && strings.HasSuffix(o.Pkg().Path(), "/encoding") && strings.HasPrefix(o.Name(), prefix) {
					res = strings.TrimPrefix(o.Name(), prefix)
				}
			})
			return res
		}
		e, d := calleeIn(enc, "Encode"), calleeIn(dec, "Decode")
		if e == "" && d == "" {
			continue // types that do not encode (null, group)
		}
		n++
		tn := recvString(t)
		c.Check(rule, tn+": Encode, Decode and Kind agree", enc.Pos(), e == kname && d == kname,
			tn+" reports kind "+kname+" but encodes with encoding.Encode"+e+" and decodes with encoding.Decode"+d+": pages are written with one physical layout and read back with another")
	}
	c.Stats[rule+".types"] = n
}

// ---------------------------------------------------------------------------
// T-COWRITE: a cursor field and the state that must follow it (another field,
// or the position of a stream). Wherever an operation assigns the cursor an
// absolute value (one that is not computed from the cursor's own previous
// value: a repositioning, not a step), the same function performs the
// required action on the same path: in a block that dominates the assignment
// or is reachable from it. Constructors (fresh roots) are not repositionings.

type coReq struct {
	Desc string
	Is   func(ins ssa.Instruction) bool
	// Strict: the action is required on every path from the repositioning to
	// a successful exit, not merely on some path.
	Strict bool
	// Guard: the pointer field through which the required state is reached;
	// when it is nil there is nothing to update.
	Guard *types.Var
}

func reqStoreTo(p *Prog, f *types.Var) (coReq, bool) {
	return coReq{Desc: "assigning " + p.FieldName(f), Is: func(ins ssa.Instruction) bool {
		st, ok := ins.(*ssa.Store)
		if !ok {
			return false
		}
		fs, _, elem := fieldChain(st.Addr)
		return len(fs) > 0 && !elem && fs[len(fs)-1] == f
	}}, f != nil
}

// reqCallOn: a call of one of the methods on the object held in typ.field.
func reqCallOn(p *Prog, f *types.Var, methods ...string) (coReq, bool) {
	ms := map[string]bool{}
	for _, m := range methods {
		ms[m] = true
	}
	return coReq{Desc: "calling " + strings.Join(methods, "/") + " on " + p.FieldName(f), Is: func(ins ssa.Instruction) bool {
		call, ok := ins.(ssa.CallInstruction)
		if !ok {
			return false
		}
		cc := call.Common()
		var recv ssa.Value
		name := ""
		if cc.IsInvoke() {
			recv, name = cc.Value, cc.Method.Name()
		} else if callee := cc.StaticCallee(); callee != nil && callee.Signature.Recv() != nil && len(cc.Args) > 0 {
			recv, name = cc.Args[0], fnName(callee)
		}
		if recv == nil || !ms[name] {
			return false
		}
		fs, _, _ := fieldChain(recv)
		return len(fs) > 0 && fs[len(fs)-1] == f
	}}, f != nil
}

func coWriteRule(c *Ctx, rule, role string, tf *types.Var, req coReq, reqOK bool, exempt map[string]string, why string) {
	p := c.P
	if !c.Anchor(rule, role, tf != nil) || !c.Anchor(rule, role+": "+req.Desc, reqOK) {
		return
	}
	trigName := p.FieldName(tf)
	n := 0
	for _, fn := range p.ModuleSSAFuncs() {
		if fn.Origin() != nil {
			continue
		}
		var trig []*ssa.Store
		var reqs []ssa.Instruction
		allInstrs(fn, false, func(_ *ssa.Function, ins ssa.Instruction) {
			if req.Is(ins) {
				reqs = append(reqs, ins)
			}
			st, ok := ins.(*ssa.Store)
			if !ok {
				return
			}
			fs, root, elem := fieldChain(st.Addr)
			if len(fs) == 0 || elem || fs[len(fs)-1] != tf || isFreshRoot(root) {
				return
			}
			// a helper of constructors: the object is a parameter that every
			// caller has just allocated
			if prm, ok := root.(*ssa.Parameter); ok && !fn.Object().Exported() {
				idx := -1
				for k, q := range fn.Params {
					if q == prm {
						idx = k
					}
				}
				cs := callersOf(p, fn)
				allFresh := len(cs) > 0 && idx >= 0
				for _, call := range cs {
					if args := call.Common().Args; idx >= len(args) || !isFreshRoot(args[idx]) {
						allFresh = false
					}
				}
				if allFresh {
					return
				}
			}
			for _, o := range Origins(st.Val, OriginOpts{ThroughBinOp: true}) {
				if o.Kind == OrgField && o.Field == tf {
					return // a step relative to the previous position
				}
			}
			trig = append(trig, st)
		})
		for i, t := range trig {
			n++
			key := FuncKey(fn) + ": " + role + " repositioned, " + req.Desc
			if i > 0 {
				key += " #" + itoa(i)
			}
			if r, ok := exempt[FuncKey(fn)]; ok {
				c.Pass(rule, key, t.Pos(), "exempt: %s", r)
				continue
			}
			ok := false
			reach := reachableAvoidingSet(t.Block(), nil, nil)
			reqBlocks := map[*ssa.BasicBlock]bool{}
			for _, r := range reqs {
				if reach[r.Block()] || dominatesBlock(r.Block(), t.Block()) {
					ok = true
				}
				reqBlocks[r.Block()] = true
			}
			if !ok && req.Guard != nil {
				// taken before the repositioning, on the side of a test of the
				// guard where there is something to update: `if x.g != nil { … }`
				for e := range nilGuardEdges(fn, req.Guard) {
					test := e[0]
					if !dominatesBlock(test, t.Block()) {
						continue
					}
					for _, side := range test.Succs {
						if side == e[1] {
							continue
						}
						for _, r := range reqs {
							if dominatesBlock(side, r.Block()) {
								ok = true
							}
						}
					}
				}
			}
			// … and not only on some path: unless the action was taken before the
			// cursor moved, no successful exit is reachable from the assignment
			// around the required action (edges on which the object that carries the
			// required state is known to be nil need none)
			if ok && req.Strict {
				before := false
				for _, r := range reqs {
					if dominates(r, t) {
						before = true
					}
				}
				if req.Guard != nil {
					// dropping the object that carries the state needs no update of it
					allInstrs(fn, false, func(_ *ssa.Function, ins ssa.Instruction) {
						if st, ok := ins.(*ssa.Store); ok && isNilConst(st.Val) {
							if fs, _, elem := fieldChain(st.Addr); len(fs) > 0 && !elem && fs[len(fs)-1] == req.Guard {
								reqBlocks[st.Block()] = true
							}
						}
					})
				}
				if !before && !reqBlocks[t.Block()] {
					around := reachableAvoidingSet(t.Block(), reqBlocks, nilGuardEdges(fn, req.Guard))
					for _, ret := range returnsOf(fn) {
						if !around[ret.Block()] {
							continue
						}
						failing := false
						for i := range ret.Results {
							rv, _ := retResult(ret, i)
							if rv != nil && isErrorType(rv.Type()) && !isNilConst(rv) {
								failing = true
							}
						}
						if !failing {
							ok = false
						}
					}
				}
			}
			c.Check(rule, key, t.Pos(), ok, FuncKey(fn)+" assigns "+trigName+" ("+role+") a new position without "+req.Desc+" on the same path: "+why)
		}
	}
	c.Stats[rule+".repositionings"] += n
}

func dominatesBlock(a, b *ssa.BasicBlock) bool { return a != nil && b != nil && a.Dominates(b) }

// stepFields: the integer fields that fn (and the same-package functions it
// calls statically, to the given depth) advance by one (`x.f++`). Used to
// find a cursor by its role rather than by its name.
func stepFields(p *Prog, fn *ssa.Function, depth int, seen map[*ssa.Function]bool, out map[*types.Var]bool) {
	if fn == nil || fn.Blocks == nil || seen[fn] || depth < 0 {
		return
	}
	seen[fn] = true
	allInstrs(fn, false, func(_ *ssa.Function, ins ssa.Instruction) {
		switch x := ins.(type) {
		case *ssa.Store:
			fs, _, elem := fieldChain(x.Addr)
			if len(fs) == 0 || elem {
				return
			}
			b, ok := x.Val.(*ssa.BinOp)
			if !ok || b.Op != token.ADD {
				return
			}
			k, ok := b.Y.(*ssa.Const)
			if !ok || k.Value == nil || k.Value.ExactString() != "1" {
				return
			}
			ld, ok := b.X.(*ssa.UnOp)
			if !ok || ld.Op != token.MUL {
				return
			}
			ls, _, _ := fieldChain(ld.X)
			if len(ls) > 0 && ls[len(ls)-1] == fs[len(fs)-1] {
				out[fs[len(fs)-1]] = true
			}
		case ssa.CallInstruction:
			if callee := x.Common().StaticCallee(); callee != nil && inModule(callee) && fnPkg(callee) == fnPkg(fn) {
				stepFields(p, callee, depth-1, seen, out)
			}
		}
	})
}

func ownerStruct(f *types.Var, p *Prog) *types.Named {
	for _, pkg := range p.Mod {
		sc := pkg.Types.Scope()
		for _, n := range sc.Names() {
			tn, ok := sc.Lookup(n).(*types.TypeName)
			if !ok {
				continue
			}
			named, ok := tn.Type().(*types.Named)
			if !ok {
				continue
			}
			st, ok := named.Underlying().(*types.Struct)
			if !ok {
				continue
			}
			for i := 0; i < st.NumFields(); i++ {
				if st.Field(i).Origin() == f {
					return named
				}
			}
		}
	}
	return nil
}

// ---------------------------------------------------------------------------
// T-WRAPPER: a type that implements an interface by wrapping another value of
// that interface (it has a field of the interface type) and adds behaviour
// (column re-indexing, level handling, reference counting) must survive the
// interface's self-returning methods: T.method() returns a T again, not the
// bare result of the wrapped value's method, or the added behaviour is lost
// for every consumer that slices/clones first.

func wrapperPreservedRule(c *Ctx, rule, ifaceKey, method string, min int) {
	p := c.P
	it := p.LookupType(ifaceKey)
	if !c.Anchor(rule, ifaceKey, it != nil) {
		return
	}
	iface, _ := it.Underlying().(*types.Interface)
	n := 0
	for _, t := range p.Implementations(iface) {
		st := structOf(t)
		if st == nil {
			continue
		}
		wraps := false
		for i := 0; i < st.NumFields(); i++ {
			if types.Identical(st.Field(i).Type(), it) {
				wraps = true
			}
		}
		if !wraps {
			continue
		}
		m, promoted := MethodOf(t, method)
		if m == nil {
			continue
		}
		tn := recvString(t)
		key := tn + "." + method + " returns a " + strings.TrimPrefix(tn, "*")
		if promoted {
			n++
			c.Fail(rule, key, m.Pos(), "%s inherits %s from the value it wraps: the result is the bare wrapped value and the behaviour %s adds is lost", tn, method, tn)
			continue
		}
		fn := p.SSAFunc(m)
		if fn == nil || fn.Blocks == nil {
			continue
		}
		n++
		self := namedOf(t)
		var bad []string
		for _, ret := range returnsOf(fn) {
			rv, _ := retResult(ret, 0)
			if rv == nil {
				continue
			}
			for _, o := range Origins(rv, OriginOpts{}) {
				ok := false
				switch o.Kind {
				case OrgAlloc, OrgParam, OrgField, OrgOther:
					// the concrete value converted to the interface
					if nt := namedOf(o.Val.Type()); nt != nil && self != nil && nt.Origin() == self.Origin() {
						ok = true
					}
				case OrgCall:
					// a constructor of the same type
					if sig := o.Call.Common().Signature(); sig != nil && sig.Results().Len() > 0 {
						if nt := namedOf(sig.Results().At(0).Type()); nt != nil && self != nil && nt.Origin() == self.Origin() {
							ok = true
						}
					}
				}
				if !ok {
					bad = append(bad, describeValue(p, o.Val)+" ("+p.Pos(ret.Pos())+")")
				}
			}
		}
		sort.Strings(bad)
		c.Check(rule, key, fn.Pos(), len(bad) == 0, tn+"."+method+" returns "+strings.Join(bad, ", ")+" instead of wrapping it again: what "+tn+" adds (column index, levels, reference counts) is lost for the sliced value")
	}
	c.Stats[rule+".wrappers"] = n
	c.Min(rule, min)
}

// ---------------------------------------------------------------------------
// T-PAIRS: an encoding that can write values of a kind can read them back and
// vice versa: for every implementation of encoding.Encoding the set of kinds
// with an Encode<K> method of its own (not the inherited NotSupported one)
// equals the set with a Decode<K> method of its own. A one-sided
// implementation writes pages nobody can read, or advertises decoding of pages
// it never produces.

func encodePairsRule(c *Ctx, rule string, min int) {
	p := c.P
	var it *types.Named
	for _, pkg := range p.Mod {
		if strings.HasSuffix(pkg.PkgPath, "/encoding") {
			if tn, ok := pkg.Types.Scope().Lookup("Encoding").(*types.TypeName); ok {
				it, _ = tn.Type().(*types.Named)
			}
		}
	}
	if !c.Anchor(rule, "encoding.Encoding", it != nil) {
		return
	}
	iface, _ := it.Underlying().(*types.Interface)
	n := 0
	for _, t := range p.Implementations(iface) {
		nt := namedOf(t)
		if nt == nil || nt.Obj().Name() == "NotSupported" || nt.Obj().Pkg() == nil || !strings.Contains(nt.Obj().Pkg().Path(), "/encoding/") {
			continue // only the page encodings (the bloom filter "encoding" only hashes)
		}
		tname := nt.Obj().Pkg().Name() + "." + nt.Obj().Name()
		own := func(prefix string) map[string]bool {
			out := map[string]bool{}
			for i := 0; i < iface.NumMethods(); i++ {
				name := iface.Method(i).Name()
				if !strings.HasPrefix(name, prefix) || name == prefix {
					continue
				}
				if m, promoted := MethodOf(t, name); m != nil && !promoted {
					out[strings.TrimPrefix(name, prefix)] = true
				}
			}
			return out
		}
		enc, dec := own("Encode"), own("Decode")
		if len(enc) == 0 && len(dec) == 0 {
			continue
		}
		n++
		var bad []string
		for k := range enc {
			if !dec[k] {
				bad = append(bad, "encodes "+k+" but inherits the unsupported Decode"+k)
			}
		}
		for k := range dec {
			if !enc[k] {
				bad = append(bad, "decodes "+k+" but inherits the unsupported Encode"+k)
			}
		}
		sort.Strings(bad)
		c.Check(rule, tname+": the kinds it encodes are the kinds it decodes", nt.Obj().Pos(), len(bad) == 0, tname+" "+strings.Join(bad, "; ")+": pages of that kind written with this encoding cannot be read back (or are never produced)")
	}
	c.Stats[rule+".encodings"] = n
	c.Min(rule, min)
}

// nilGuardEdges: edges on which a load of the guard field is known to be nil.
func nilGuardEdges(fn *ssa.Function, guard *types.Var) map[[2]*ssa.BasicBlock]bool {
	out := map[[2]*ssa.BasicBlock]bool{}
	if guard == nil {
		return out
	}
	for _, b := range fn.Blocks {
		if len(b.Instrs) == 0 {
			continue
		}
		ifi, ok := b.Instrs[len(b.Instrs)-1].(*ssa.If)
		if !ok {
			continue
		}
		bo, ok := ifi.Cond.(*ssa.BinOp)
		if !ok || !(isNilConst(bo.X) || isNilConst(bo.Y)) {
			continue
		}
		isGuard := false
		for _, side := range []ssa.Value{bo.X, bo.Y} {
			for _, o := range Origins(side, OriginOpts{}) {
				if o.Kind == OrgField && o.Field == guard {
					isGuard = true
				}
			}
		}
		if !isGuard {
			continue
		}
		if bo.Op == token.EQL {
			out[[2]*ssa.BasicBlock{b, b.Succs[0]}] = true
		} else if bo.Op == token.NEQ {
			out[[2]*ssa.BasicBlock{b, b.Succs[1]}] = true
		}
	}
	return out
}

// ---------------------------------------------------------------------------
// T-DELEGATE: a logical type that borrows its column buffer, dictionary,
// page and column indexer from a physical type borrows all four from the same
// one. The sort order of a column lives in those four objects (page bounds,
// dictionary bounds, index order); a wrapper whose dictionary comes from the
// signed type while its indexer comes from the unsigned one records bounds
// that do not bound the data in the column's order.

func delegateSiblingRule(c *Ctx, rule string, methods []string, min int) {
	p := c.P
	tt := p.LookupType("Type")
	if !c.Anchor(rule, "Type", tt != nil) {
		return
	}
	iface, _ := tt.Underlying().(*types.Interface)
	n := 0
	for _, t := range p.Implementations(iface) {
		nt := namedOf(t)
		if nt == nil || nt.Obj().Pkg() != p.Root.Types {
			continue
		}
		sig := map[string]string{}
		for _, m := range methods {
			mo, promoted := MethodOf(t, m)
			if mo == nil || promoted {
				continue
			}
			fn := p.SSAFunc(mo)
			if fn == nil || fn.Blocks == nil {
				continue
			}
			var srcs []string
			allCalls(fn, false, func(_ *ssa.Function, call ssa.CallInstruction) {
				cc := call.Common()
				name := ""
				var recv ssa.Value
				if cc.IsInvoke() {
					name, recv = cc.Method.Name(), cc.Value
				} else if sc := cc.StaticCallee(); sc != nil && sc.Signature.Recv() != nil && len(cc.Args) > 0 {
					name, recv = fnName(sc), cc.Args[0]
				}
				if name != m || recv == nil {
					return
				}
				for _, o := range Origins(recv, OriginOpts{}) {
					switch o.Kind {
					case OrgCall:
						srcs = append(srcs, "result of "+calleeName(o.Call))
					case OrgField:
						srcs = append(srcs, "field "+p.FieldName(o.Field))
					default:
						if tn := namedOf(o.Val.Type()); tn != nil {
							srcs = append(srcs, "a "+tn.Obj().Name()+" value")
						} else {
							srcs = append(srcs, "a "+o.Val.Type().String())
						}
					}
				}
			})
			if len(srcs) == 0 {
				continue // builds its own object
			}
			sort.Strings(srcs)
			srcs = uniqStrings(srcs)
			sig[m] = strings.Join(srcs, " | ")
		}
		if len(sig) < 2 {
			continue
		}
		n++
		// all delegating methods agree
		var ms []string
		for m := range sig {
			ms = append(ms, m)
		}
		sort.Strings(ms)
		agree := true
		for _, m := range ms[1:] {
			if sig[m] != sig[ms[0]] {
				agree = false
			}
		}
		var desc []string
		for _, m := range ms {
			desc = append(desc, m+" from "+sig[m])
		}
		c.Check(rule, recvString(t)+" borrows its column objects from one physical type", nt.Obj().Pos(), agree, recvString(t)+" delegates "+strings.Join(desc, "; ")+": the objects that carry the sort order of the column (buffer, dictionary, page, indexer) do not come from the same physical type, so bounds and index order are computed in an order that is not the column's")
	}
	c.Stats[rule+".delegating_types"] = n
	c.Min(rule, min)
}

func uniqStrings(xs []string) []string {
	var out []string
	for i, x := range xs {
		if i == 0 || x != xs[i-1] {
			out = append(out, x)
		}
	}
	return out
}
