package main

import (
	"fmt"
	"go/constant"
	"go/token"
	"go/types"
	"sort"
	"strings"

	"golang.org/x/tools/go/ssa"
)

// C18.ordbits — the AAD of a module names it by its ordinals; two modules whose
// ordinals differ must get different AADs, so every bit of each int16 ordinal
// has to reach the bytes appended for it. A bit-provenance analysis of the
// expressions appended inside makeAAD's loop over the ordinals (constant
// shifts, constant masks, integer conversions; anything else is "unknown" and
// fails the check) computes which bits of the ordinal each appended byte
// carries: together they are all sixteen.

const (
	bitZero    = -1
	bitUnknown = -2
)

// bitProv returns, for each bit of v (lowest first), the bit of `src` it is a copy of.
func bitProv(v ssa.Value, src ssa.Value, depth int) []int {
	width := func(t types.Type) (int, bool) {
		b, ok := t.Underlying().(*types.Basic)
		if !ok {
			return 0, false
		}
		switch b.Kind() {
		case types.Int8:
			return 8, true
		case types.Uint8:
			return 8, false
		case types.Int16:
			return 16, true
		case types.Uint16:
			return 16, false
		case types.Int32:
			return 32, true
		case types.Uint32:
			return 32, false
		case types.Int64, types.Int:
			return 64, true
		case types.Uint64, types.Uint, types.Uintptr:
			return 64, false
		}
		return 0, false
	}
	w, signed := width(v.Type())
	unknown := func() []int {
		out := make([]int, w)
		for i := range out {
			out[i] = bitUnknown
		}
		return out
	}
	if w == 0 {
		return nil
	}
	if depth > 8 {
		return unknown()
	}
	if v == src {
		out := make([]int, w)
		for i := range out {
			out[i] = i
		}
		return out
	}
	switch x := v.(type) {
	case *ssa.Convert:
		in := bitProv(x.X, src, depth+1)
		if in == nil {
			return unknown()
		}
		_, inSigned := width(x.X.Type())
		out := make([]int, w)
		for i := range out {
			switch {
			case i < len(in):
				out[i] = in[i]
			case inSigned:
				out[i] = in[len(in)-1] // sign extension copies the top bit
			default:
				out[i] = bitZero
			}
		}
		return out
	case *ssa.BinOp:
		k, ok := x.Y.(*ssa.Const)
		if !ok || k.Value == nil || k.Value.Kind() != constant.Int {
			return unknown()
		}
		in := bitProv(x.X, src, depth+1)
		if in == nil || len(in) != w {
			return unknown()
		}
		out := make([]int, w)
		switch x.Op {
		case token.SHR:
			c, _ := constant.Int64Val(k.Value)
			for i := range out {
				switch {
				case int64(i)+c < int64(w):
					out[i] = in[int64(i)+c]
				case signed:
					out[i] = in[w-1]
				default:
					out[i] = bitZero
				}
			}
			return out
		case token.SHL:
			c, _ := constant.Int64Val(k.Value)
			for i := range out {
				if int64(i)-c >= 0 {
					out[i] = in[int64(i)-c]
				} else {
					out[i] = bitZero
				}
			}
			return out
		case token.AND:
			m, _ := constant.Uint64Val(constant.BinaryOp(k.Value, token.AND, constant.MakeUint64(^uint64(0))))
			if constant.Sign(k.Value) < 0 {
				mi, _ := constant.Int64Val(k.Value)
				m = uint64(mi)
			}
			for i := range out {
				if m&(1<<uint(i)) != 0 {
					out[i] = in[i]
				} else {
					out[i] = bitZero
				}
			}
			return out
		}
	}
	return unknown()
}

func c18OrdBits(c *Ctx) {
	p := c.P
	rule := "C18.ordbits"
	obj := p.LookupFunc("makeAAD")
	if !c.Anchor(rule, "makeAAD", obj != nil) {
		return
	}
	fn := p.SSAFunc(obj)
	// the ordinals parameter and the loads of its elements
	var ords *ssa.Parameter
	for _, prm := range fn.Params {
		if sl, ok := prm.Type().Underlying().(*types.Slice); ok {
			if b, ok := sl.Elem().Underlying().(*types.Basic); ok && b.Kind() == types.Int16 {
				ords = prm
			}
		}
	}
	if !c.Anchor(rule, "makeAAD ordinals parameter", ords != nil) {
		return
	}
	n := 0
	allInstrs(fn, false, func(_ *ssa.Function, ins ssa.Instruction) {
		ld, ok := ins.(*ssa.UnOp)
		if !ok || ld.Op != token.MUL {
			return
		}
		ia, ok := ld.X.(*ssa.IndexAddr)
		if !ok || ia.X != ssa.Value(ords) {
			return
		}
		n++
		// every byte-sized value computed from this element that is stored into the
		// variadic array of an append, or handed to an Append/Put routine as 16 bits
		carried := map[int]bool{}
		undecided := ""
		seen := map[ssa.Value]bool{}
		var follow func(v ssa.Value)
		follow = func(v ssa.Value) {
			if seen[v] || v.Referrers() == nil {
				return
			}
			seen[v] = true
			for _, r := range *v.Referrers() {
				switch y := r.(type) {
				case *ssa.Convert:
					follow(y)
				case *ssa.BinOp:
					follow(y)
				case *ssa.Store:
					if y.Val != v {
						continue
					}
					if _, isIdx := y.Addr.(*ssa.IndexAddr); !isIdx {
						continue
					}
					for _, sb := range bitProv(v, ld, 0) {
						if sb >= 0 {
							carried[sb] = true
						}
						if sb == bitUnknown {
							undecided = p.Pos(y.Pos())
						}
					}
				case ssa.CallInstruction:
					name := calleeName(y)
					if strings.Contains(name, "AppendUint16") || strings.Contains(name, "PutUint16") {
						for _, sb := range bitProv(v, ld, 0) {
							if sb >= 0 {
								carried[sb] = true
							}
						}
					}
				}
			}
		}
		follow(ld)
		var missing []string
		for b := 0; b < 16; b++ {
			if !carried[b] {
				missing = append(missing, fmt.Sprint(b))
			}
		}
		sort.Strings(missing)
		detail := "makeAAD appends bytes for each ordinal that together do not carry bit(s) " + strings.Join(missing, ",") + " of it: modules whose ordinals differ only in those bits (page 3 and page 259) get the same AAD and authenticate in each other's place, so pages, row groups or columns can be exchanged without the reader noticing"
		if undecided != "" {
			detail = "makeAAD computes a byte of the AAD from an ordinal with an operation the bit-provenance analysis does not model (" + undecided + "): undecided, which fails"
		}
		c.Check(rule, "makeAAD: every bit of an ordinal reaches the AAD", ld.Pos(), len(missing) == 0 && undecided == "", detail)
	})
	c.Min(rule, 1)
}
