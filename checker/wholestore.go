package main

import (
	"go/types"
	"sort"
	"strings"

	"golang.org/x/tools/go/ssa"
)

// T-KEEPCONFIG — a method that starts its receiver over by overwriting the
// whole struct (`*r = T{a: r.a}`) destroys every field the literal does not
// carry. Fields that code *outside* the type's own methods assigns (a flag an
// owner sets on the readers it creates) are configuration of the instance, not
// state of the operation: the literal of such a whole-struct store sets each of
// them. Otherwise the instance silently loses what its owner told it once.
func runKeepConfigRule(c *Ctx, rule string, min int) {
	p := c.P
	// fields assigned from outside the methods of their struct type
	external := map[*types.Var][]string{}
	ownerOf := map[*types.Var]*types.Named{}
	for _, name := range p.Root.Types.Scope().Names() {
		tn, ok := p.Root.Types.Scope().Lookup(name).(*types.TypeName)
		if !ok {
			continue
		}
		named, ok := tn.Type().(*types.Named)
		if !ok {
			continue
		}
		if st, ok := named.Underlying().(*types.Struct); ok {
			for i := 0; i < st.NumFields(); i++ {
				ownerOf[st.Field(i)] = named
			}
		}
	}
	recvNamed := func(fn *ssa.Function) *types.Named {
		top := fn
		for top.Parent() != nil {
			top = top.Parent()
		}
		if top.Signature.Recv() == nil {
			return nil
		}
		return namedOf(top.Signature.Recv().Type())
	}
	for _, fn := range p.ModuleSSAFuncs() {
		if fn.Origin() != nil || fn.Blocks == nil || fnPkgPath(fn) != modPath {
			continue
		}
		rn := recvNamed(fn)
		for _, w := range ChainWrites(fn) {
			if len(w.Chain) == 0 || w.Kind == EffWhole {
				continue
			}
			f := w.Chain[len(w.Chain)-1]
			owner := ownerOf[f]
			if owner == nil || (rn != nil && rn.Obj() == owner.Obj()) {
				continue
			}
			if len(w.Chain) < 2 {
				continue // a local value of the type being built
			}
			external[f] = append(external[f], FuncKey(fn))
		}
	}
	// one obligation per type with externally configured fields: none of its
	// methods overwrites the whole receiver with a literal that drops one
	problems := map[*types.TypeName][]string{}
	types_ := map[*types.TypeName]bool{}
	for f := range external {
		if o := ownerOf[f]; o != nil {
			types_[o.Obj()] = true
		}
	}
	methods := 0
	for _, fn := range p.ModuleSSAFuncs() {
		if fn.Origin() != nil || fn.Blocks == nil || fn.Parent() != nil || fnPkgPath(fn) != modPath || fn.Signature.Recv() == nil {
			continue
		}
		named := namedOf(fn.Signature.Recv().Type())
		st := structOf(fn.Signature.Recv().Type())
		if named == nil || st == nil || !types_[named.Obj()] {
			continue
		}
		if _, isPtr := fn.Signature.Recv().Type().(*types.Pointer); !isPtr {
			continue
		}
		methods++
		recv := fn.Params[0]
		for _, b := range fn.Blocks {
			for _, ins := range b.Instrs {
				s, ok := ins.(*ssa.Store)
				if !ok || s.Addr != ssa.Value(recv) {
					continue
				}
				// the literal: a local composite loaded into the store
				set := map[int]bool{}
				lit := false
				if ld, ok := s.Val.(*ssa.UnOp); ok {
					if al, ok := ld.X.(*ssa.Alloc); ok {
						lit = true
						for _, r := range *al.Referrers() {
							if fa, ok := r.(*ssa.FieldAddr); ok {
								for _, rr := range *fa.Referrers() {
									if s2, ok := rr.(*ssa.Store); ok && s2.Addr == ssa.Value(fa) {
										set[fa.Field] = true
									}
								}
							}
						}
					}
				}
				if _, isConst := s.Val.(*ssa.Const); isConst {
					lit = true // *r = T{}
				}
				if !lit {
					continue // a copy of another value of the type
				}
				for i := 0; i < st.NumFields(); i++ {
					f := st.Field(i)
					if len(external[f]) > 0 && !set[i] {
						by := external[f]
						sort.Strings(by)
						problems[named.Obj()] = append(problems[named.Obj()], FuncKey(fn)+" at "+p.Pos(s.Pos())+" drops "+f.Name()+" (set by "+by[0]+")")
					}
				}
			}
		}
	}
	var tns []*types.TypeName
	for t := range types_ {
		tns = append(tns, t)
	}
	sort.Slice(tns, func(i, j int) bool { return tns[i].Name() < tns[j].Name() })
	for _, t := range tns {
		probs := problems[t]
		sort.Strings(probs)
		c.Check(rule, "no method of "+t.Name()+" overwrites its receiver without the fields its owner configured", t.Pos(), len(probs) == 0, strings.Join(probs, "; ")+": what the owner of the instance configured once is silently dropped (a reader told to detach its pages from the pool goes back to recycling pages the caller still points into)")
	}
	c.Stats[rule+".methods_examined"] = methods
	c.Stats[rule+".externally_configured_fields"] = len(external)
	c.Min(rule, min)
}
