package main

import (
	"go/constant"
	"go/token"
	"go/types"
	"sort"
	"strings"

	"golang.org/x/tools/go/ssa"
)

// T-REGROW — a buffer that is regrown inside the capacity it retained
// (`x = x[:n]` next to the `cap(x) < n → make` branch) exposes whatever an
// earlier use left in it. When what follows accumulates into the buffer instead
// of overwriting it (bits OR-ed into a bloom filter, a null bitmap, bit-packed
// levels), the regrown extent has to be zeroed after the reslice on every path,
// as the freshly made one is: the content is otherwise a function of the
// instance's history.
//
// A site is a Slice instruction with only a high bound (not the constant 0)
// whose operand is read directly from a field or a parameter, dominated by a
// cap() of the same variable. It is zeroed when, after it (and after the store
// that publishes it), on every path to a return:
//   - clear() is called on it, or
//   - a loop stores the zero constant to its elements, or
//   - a module function is called on the owner that does one of these for the
//     same field.

type regrowSite struct {
	Fn     *ssa.Function
	Slice  *ssa.Slice
	Field  *types.Var     // non-nil when the operand is a field
	Param  *ssa.Parameter // non-nil when the operand is a parameter
	Zeroed bool
	How    string
}

func (s regrowSite) key(p *Prog) string {
	if s.Field != nil {
		return FuncKey(s.Fn) + " regrows " + p.FieldName(s.Field)
	}
	return FuncKey(s.Fn) + " regrows parameter " + s.Param.Name()
}

// bufVarOf: the variable v is read from directly.
func bufVarOf(v ssa.Value) (f *types.Var, root ssa.Value, par *ssa.Parameter) {
	switch x := v.(type) {
	case *ssa.Parameter:
		return nil, nil, x
	case *ssa.UnOp:
		if x.Op != token.MUL {
			return
		}
		switch a := x.X.(type) {
		case *ssa.FieldAddr:
			fields, r, elem := fieldChain(a)
			if len(fields) > 0 && !elem {
				return fields[len(fields)-1], r, nil
			}
		case *ssa.Alloc:
			if sp := spilledParam(a); sp != nil {
				return nil, nil, sp
			}
		}
	}
	return
}

func isZeroConst(v ssa.Value) bool {
	k, ok := v.(*ssa.Const)
	if !ok {
		return false
	}
	if k.Value == nil {
		return true // zero value of the type
	}
	switch k.Value.Kind() {
	case constant.Int, constant.Float:
		return constant.Sign(k.Value) == 0
	case constant.Bool:
		return !constant.BoolVal(k.Value)
	}
	return false
}

// zeroingOf lists the instructions of fn that zero a value read from variable
// (f, par): clear(v) or a looped `v[i] = 0`. The block returned is the one
// every path must cross (the loop header for a loop).
type zeroing struct {
	At     ssa.Instruction
	Operand ssa.Value
	Cross  *ssa.BasicBlock
}

func zeroingsIn(fn *ssa.Function) []zeroing {
	var out []zeroing
	for _, b := range fn.Blocks {
		for _, ins := range b.Instrs {
			switch x := ins.(type) {
			case *ssa.Call:
				if bi, ok := x.Call.Value.(*ssa.Builtin); ok && bi.Name() == "clear" && len(x.Call.Args) == 1 {
					out = append(out, zeroing{At: x, Operand: x.Call.Args[0], Cross: b})
				}
			case *ssa.Defer:
				// `defer clear(x)`: cleared before the object goes back where it came from
				if bi, ok := x.Call.Value.(*ssa.Builtin); ok && bi.Name() == "clear" && len(x.Call.Args) == 1 {
					out = append(out, zeroing{At: x, Operand: x.Call.Args[0], Cross: b})
				}
			case *ssa.Store:
				ia, ok := x.Addr.(*ssa.IndexAddr)
				if !ok || !isZeroConst(x.Val) {
					continue
				}
				if _, isC := ia.Index.(*ssa.Const); isC {
					continue
				}
				// the loop the store sits in: the closest dominator the block
				// can reach again
				header := loopHeaderOf(b)
				if header != nil {
					out = append(out, zeroing{At: x, Operand: ia.X, Cross: header})
				}
			}
		}
	}
	return out
}

func regrowSites(p *Prog, inScope func(*ssa.Function) bool) []regrowSite {
	var out []regrowSite
	for _, fn := range p.ModuleSSAFuncs() {
		if fn.Origin() != nil || fn.Blocks == nil || !inScope(fn) {
			continue
		}
		var zs []zeroing
		zsDone := false
		for _, b := range fn.Blocks {
			for _, ins := range b.Instrs {
				sl, ok := ins.(*ssa.Slice)
				if !ok || sl.Low != nil || sl.High == nil || sl.Max != nil {
					continue
				}
				if _, isSlice := sl.X.Type().Underlying().(*types.Slice); !isSlice {
					continue
				}
				if k, isC := sl.High.(*ssa.Const); isC && isZeroConst(k) {
					continue
				}
				f, root, par := bufVarOf(sl.X)
				grown := false
				if gc, ok := sl.X.(*ssa.Call); ok && f == nil && par == nil {
					// slices.Grow(x, n)[:m] — the same regrowth, the capacity test is in Grow
					if isSlicesGrow(gc) {
						f, root, par = bufVarOf(gc.Call.Args[0])
						grown = true
					}
				}
				if f == nil && par == nil {
					continue
				}
				same := func(v ssa.Value) bool {
					f2, r2, p2 := bufVarOf(v)
					if f != nil {
						return f2 == f && r2 == root
					}
					return p2 != nil && p2 == par
				}
				// guarded by a cap() of the same variable
				guarded := false
				for _, b2 := range fn.Blocks {
					for _, i2 := range b2.Instrs {
						c, ok := i2.(*ssa.Call)
						if !ok {
							continue
						}
						if bi, isB := c.Call.Value.(*ssa.Builtin); isB && bi.Name() == "cap" && same(c.Call.Args[0]) && dominates(c, sl) {
							guarded = true
						}
					}
				}
				if !guarded && !grown {
					continue
				}
				site := regrowSite{Fn: fn, Slice: sl, Field: f, Param: par}
				// the store that publishes the regrown slice into its field
				var publish ssa.Instruction = sl
				if f != nil {
					for _, r := range *sl.Referrers() {
						if st, ok := r.(*ssa.Store); ok && st.Val == sl {
							if fa, ok := st.Addr.(*ssa.FieldAddr); ok {
								fields, r2, elem := fieldChain(fa)
								if len(fields) > 0 && !elem && fields[len(fields)-1] == f && r2 == root {
									publish = st
								}
							}
						}
					}
				}
				if !zsDone {
					zs = zeroingsIn(fn)
					zsDone = true
				}
				crosses := func(cross *ssa.BasicBlock) bool {
					if cross == sl.Block() {
						return true
					}
					for rb := range reachableAvoidingSet(sl.Block(), map[*ssa.BasicBlock]bool{cross: true}, nil) {
						if len(rb.Instrs) > 0 {
							if _, isRet := rb.Instrs[len(rb.Instrs)-1].(*ssa.Return); isRet {
								return false
							}
						}
					}
					return true
				}
				for _, z := range zs {
					operand := z.Operand
					if sub, ok := operand.(*ssa.Slice); ok && sub.X == ssa.Value(sl) {
						operand = sl // the regrown extent only: x[old:new]
					}
					switch {
					case operand == ssa.Value(sl):
						// the regrown value itself, before or after it is published
					case publish != ssa.Instruction(sl) && same(z.Operand) && afterInstr(publish, z.Operand) && afterInstr(publish, z.At):
						// the field read again after the regrown value was stored in it
					default:
						continue
					}
					if crosses(z.Cross) {
						site.Zeroed = true
						site.How = "zeroed at " + p.Pos(z.At.Pos())
					}
				}
				// a module function called on the owner after the store that
				// zeroes the same field
				if !site.Zeroed && f != nil && publish != ssa.Instruction(sl) {
					for _, b2 := range fn.Blocks {
						for _, i2 := range b2.Instrs {
							call, ok := i2.(*ssa.Call)
							if !ok || !afterInstr(publish, call) {
								continue
							}
							g := call.Call.StaticCallee()
							if g == nil || g.Blocks == nil || !inModule(g) {
								continue
							}
							passesOwner := false
							for _, a := range call.Call.Args {
								if a == root {
									passesOwner = true
								}
							}
							if !passesOwner {
								continue
							}
							for _, z := range zeroingsIn(g) {
								f2, _, _ := bufVarOf(z.Operand)
								if f2 != f {
									continue
								}
								// unconditional in the callee: every return crosses it
								uncond := true
								for rb := range reachableAvoidingSet(g.Blocks[0], map[*ssa.BasicBlock]bool{z.Cross: true}, nil) {
									if len(rb.Instrs) > 0 {
										if _, isRet := rb.Instrs[len(rb.Instrs)-1].(*ssa.Return); isRet {
											uncond = false
										}
									}
								}
								if uncond && crosses(call.Block()) {
									site.Zeroed = true
									site.How = "zeroed by " + FuncKey(g)
								}
							}
						}
					}
				}
				// no way round: on the edge of the cap() test where the retained
				// capacity suffices, every path to a return goes through the regrow
				// (or another assignment of the variable). A shortcut such as
				// "same length as last time: keep it" leaves the previous content.
				if site.Zeroed && f != nil && !grown {
					stores := map[*ssa.BasicBlock]bool{sl.Block(): true}
					for _, b2 := range fn.Blocks {
						for _, i2 := range b2.Instrs {
							if st, ok := i2.(*ssa.Store); ok {
								if fa, ok := st.Addr.(*ssa.FieldAddr); ok {
									fields, r2, elem := fieldChain(fa)
									if len(fields) > 0 && !elem && fields[len(fields)-1] == f && r2 == root {
										stores[b2] = true
									}
								}
							}
						}
					}
					for _, g := range fn.Blocks {
						iff, ok := g.Instrs[len(g.Instrs)-1].(*ssa.If)
						if !ok {
							continue
						}
						cmp, ok := iff.Cond.(*ssa.BinOp)
						if !ok {
							continue
						}
						isCap := func(v ssa.Value) bool {
							if cv, ok := v.(*ssa.Convert); ok {
								v = cv.X
							}
							c, ok := v.(*ssa.Call)
							if !ok {
								return false
							}
							bi, isB := c.Call.Value.(*ssa.Builtin)
							return isB && bi.Name() == "cap" && same(c.Call.Args[0])
						}
						if !isCap(cmp.X) && !isCap(cmp.Y) {
							continue
						}
						for _, e := range g.Succs {
							if !(e == sl.Block() || e.Dominates(sl.Block())) || stores[e] && e != sl.Block() {
								continue
							}
							if e == sl.Block() {
								continue // the regrow is the first thing on this edge
							}
							for rb := range reachableAvoidingSet(e, stores, nil) {
								if len(rb.Instrs) > 0 {
									if _, isRet := rb.Instrs[len(rb.Instrs)-1].(*ssa.Return); isRet && rb != fn.Recover {
										site.Zeroed = false
										site.How = "a path from the capacity test (" + p.Pos(iff.Pos()) + ") reaches a return without regrowing or zeroing"
									}
								}
							}
						}
					}
				}
				out = append(out, site)
			}
		}
	}
	sort.Slice(out, func(i, j int) bool { return out[i].key(p) < out[j].key(p) })
	return out
}

// afterInstr: b comes after a in straight-line order — same block and later,
// or a's block strictly dominates b's.
func afterInstr(a ssa.Instruction, bv any) bool {
	b, ok := bv.(ssa.Instruction)
	if !ok {
		return false
	}
	if a.Parent() != b.Parent() {
		return false
	}
	if a.Block() == b.Block() {
		ia, ib := -1, -1
		for i, ins := range a.Block().Instrs {
			if ins == a {
				ia = i
			}
			if ins == b {
				ib = i
			}
		}
		return ib > ia
	}
	return a.Block().Dominates(b.Block())
}

// accumulatesInto: fn stores `v[i] | …` or `v[i] + …` back into v[i] for a v
// that is the regrown slice or derived from parameter par (through slicing,
// phis and slices.Grow).
func accumulatesInto(fn *ssa.Function, par *ssa.Parameter, regrown *ssa.Slice) bool {
	var reaches func(v ssa.Value, seen map[ssa.Value]bool) bool
	reaches = func(v ssa.Value, seen map[ssa.Value]bool) bool {
		if v == nil || seen[v] {
			return false
		}
		seen[v] = true
		if v == ssa.Value(par) || v == ssa.Value(regrown) {
			return true
		}
		switch x := v.(type) {
		case *ssa.Slice:
			return reaches(x.X, seen)
		case *ssa.Phi:
			for _, e := range x.Edges {
				if reaches(e, seen) {
					return true
				}
			}
		case *ssa.Call:
			if isSlicesGrow(x) {
				return reaches(x.Call.Args[0], seen)
			}
		case *ssa.UnOp:
			if a, ok := x.X.(*ssa.Alloc); ok && x.Op == token.MUL {
				if sp := spilledParam(a); sp != nil {
					return sp == par
				}
			}
		}
		return false
	}
	found := false
	allInstrs(fn, false, func(_ *ssa.Function, ins ssa.Instruction) {
		st, ok := ins.(*ssa.Store)
		if !ok || found {
			return
		}
		ia, ok := st.Addr.(*ssa.IndexAddr)
		if !ok {
			return
		}
		bo, ok := st.Val.(*ssa.BinOp)
		if !ok || (bo.Op != token.OR && bo.Op != token.ADD) {
			return
		}
		reads := false
		for _, side := range []ssa.Value{bo.X, bo.Y} {
			if ld, ok := side.(*ssa.UnOp); ok && ld.Op == token.MUL {
				if ia2, ok := ld.X.(*ssa.IndexAddr); ok && (ia2 == ia || (ia2.X == ia.X && ia2.Index == ia.Index)) {
					reads = true
				}
			}
		}
		if reads && reaches(ia.X, map[ssa.Value]bool{}) {
			found = true
		}
	})
	return found
}

// runRegrowRule: the accumulate-into buffers (given fields, plus every
// parameter a function of the scope ORs into and regrows itself) are zeroed
// where they are regrown.
func runRegrowRule(c *Ctx, rule string, fields map[*types.Var]string, inScope func(*ssa.Function) bool) {
	p := c.P
	sites := regrowSites(p, inScope)
	c.Stats[rule+".regrow_sites_examined"] = len(sites)
	seenField := map[*types.Var]bool{}
	for _, s := range sites {
		why := ""
		switch {
		case s.Field != nil && fields[s.Field] != "":
			why = fields[s.Field]
			seenField[s.Field] = true
		case s.Field != nil && pooledPointerField(p, s.Field):
			why = "the field belongs to a pooled object and its elements hold pointers: what the previous user left is read by whoever does not overwrite every element, and keeps the previous user's memory alive"
			seenField[s.Field] = true
		case s.Param != nil && accumulatesInto(s.Fn, s.Param, s.Slice):
			why = "the function adds to (or ORs bits into) the elements of " + s.Param.Name() + " instead of overwriting them"
		default:
			continue
		}
		what := "parameter"
		if s.Field != nil {
			what = p.FieldName(s.Field)
		} else {
			what += " " + s.Param.Name()
		}
		c.Check(rule, s.key(p)+" and zeroes it", s.Slice.Pos(), s.Zeroed, FuncKey(s.Fn)+" regrows "+what+" inside its retained capacity without zeroing the regrown extent afterwards on every path ("+why+"): what an earlier use left in the buffer becomes part of the result, which then depends on the history of the instance")
	}
	var missing []string
	for f, why := range fields {
		if !seenField[f] {
			missing = append(missing, p.FieldName(f)+" ("+why+")")
		}
	}
	sort.Strings(missing)
	c.Anchor(rule, "a regrow site of "+strings.Join(missing, ", "), len(missing) == 0)
}

func isSlicesGrow(call *ssa.Call) bool {
	g := call.Call.StaticCallee()
	if g == nil || len(call.Call.Args) != 2 {
		return false
	}
	if o := g.Origin(); o != nil {
		g = o
	}
	return g.Name() == "Grow" && g.Pkg != nil && g.Pkg.Pkg.Path() == "slices"
}

// pooledPointerField: f is a slice field, with elements that contain pointers,
// of a struct type kept in a memory.Pool[T] package-level pool.
func pooledPointerField(p *Prog, f *types.Var) bool {
	sl, ok := f.Type().Underlying().(*types.Slice)
	if !ok || !hasPointers(sl.Elem(), 0) {
		return false
	}
	for _, t := range pooledTypes(p) {
		st, ok := t.Underlying().(*types.Struct)
		if !ok {
			continue
		}
		for i := 0; i < st.NumFields(); i++ {
			if st.Field(i).Origin() == f {
				return true
			}
		}
	}
	return false
}

func hasPointers(t types.Type, depth int) bool {
	if depth > 4 {
		return true
	}
	switch u := t.Underlying().(type) {
	case *types.Pointer, *types.Slice, *types.Map, *types.Chan, *types.Interface, *types.Signature:
		return true
	case *types.Basic:
		return u.Kind() == types.String || u.Kind() == types.UnsafePointer
	case *types.Array:
		return hasPointers(u.Elem(), depth+1)
	case *types.Struct:
		for i := 0; i < u.NumFields(); i++ {
			if hasPointers(u.Field(i).Type(), depth+1) {
				return true
			}
		}
	}
	return false
}

var pooledTypesMemo = map[*Prog][]types.Type{}

func pooledTypes(p *Prog) []types.Type {
	if ts, ok := pooledTypesMemo[p]; ok {
		return ts
	}
	var out []types.Type
	for _, pkg := range p.Mod {
		sc := pkg.Types.Scope()
		for _, name := range sc.Names() {
			v, ok := sc.Lookup(name).(*types.Var)
			if !ok {
				continue
			}
			n := namedOf(v.Type())
			if n == nil || n.Obj().Name() != "Pool" || n.TypeArgs() == nil || n.TypeArgs().Len() != 1 {
				continue
			}
			out = append(out, n.TypeArgs().At(0))
		}
	}
	pooledTypesMemo[p] = out
	return out
}
