package main

import (
	"go/token"
	"go/types"
	"sort"
	"strings"

	"golang.org/x/tools/go/ssa"
)

// C15 — documented concurrent use behaves like some serial execution.

func init() {
	register(&Property{
		ID:      "C15",
		NeedSSA: true,
		Decided: "Structural necessary conditions for freedom from data races on shared state: (globals) no package-level variable of the library is written outside package initialisation, except the two classified ones: the bufio reader pool map, every access to which is preceded by Lock of its mutex in the same function, and the created-by string, written only inside a sync.Once; a write is a store, a map update, a copy/clear into, a callee that writes through its parameter, or an append to a shortened re-slice (`g[:0]`, `g[:n]`, capacity kept) of a package-level slice, array or map; (immutable) package-level values shared by every writer and reader (encodings, codecs, types) have no method that writes a field of its receiver other than through sync/atomic/pool types; (cow) a map published through atomic.Value is never updated after the Store that publishes it — neither the map itself nor a map stored in it — and a map obtained from Load is never updated; (release) a buffer given back to a pool through a struct field is cleared from that field on every path, so it cannot be returned twice and handed to two owners; (wire) no call passes a struct field in the position of the parameter named after a sibling field (reference-counted level buffers handed to the wrong slot lose their reference); (async) the page-reading goroutine shares nothing but channels and the reader it owns with the consumer, and the page it sends in an iteration of its loop is not a value carried over from an earlier iteration; (commit) row-group writers other than through Commit write no state of the parent writer; (construct) see C18.construct for the encryption state of concurrently filled row groups. (reentrant) a function that returns a closure and is not itself only called per operation returns a closure without state of its own: the closure assigns no captured variable, stores through no captured factory-allocated pointer/slice/map and calls no reflect setter on a captured reflect.Value. (atomic) no function both updates (Add/And/Or) and reloads the same atomic field; (globals, cont.) the lock call dominates every access to the guarded map. (commitorder) in ConcurrentRowGroupWriter.Commit the call that records the committed row group (it hands the receiver to a method of the parent writer that stores into writer.rowGroups) is dominated by another call of a parent-writer method that reaches the same recorder: the parent's own buffered rows are written first, on every path. (putclear) a function that hands the object held in a field of its receiver back to a pool (through a callee that puts its parameter into a memory.Pool / sync.Pool without reference counting) overwrites that field on every path to a return. (globals, cont.) copying or clearing into the memory of a package-level slice, array or map (seen through phis, re-slicing and module helpers that return the slice they are given), or handing it to a module function that writes through its parameter, counts as a write of the variable. (bucket) every allocation function handed to slicePools[i].Get in internal/memory sizes the new slice with bucketSize(i) for the same i: the pools are process-wide and their users re-slice what they get up to the bucket size.",
		NotDecided: "deadlock freedom, scheduling, equality with a serial run, races inside dependencies or assembly, correctness of the reference counts as numbers.",
		Assumptions: []string{"sync, sync/atomic and internal/memory.Pool are correct", "writes through unsafe pointers and reflection are not seen"},
		Run:         runC15,
	})
}

func runC15(c *Ctx) {
	c15Globals(c)
	c15Bucket(c)
	c15Immutable(c)
	c15COW(c)
	c15Release(c)
	c15Wire(c, "C15.wire")
	c15Async(c)
	c15AsyncFresh(c)
	c15Commit(c)
	c15CommitOrder(c)
	runPutClearRule(c, "C15.putclear", 1)
	c15AtomicDecide(c)
	// the per-type functions cached on the shared *Schema keep no scratch of their own
	runReentrantRule(c, "C15.reentrant", func(fn *ssa.Function) bool { return inModule(fn) }, nil, 60)
}

func globalOf(v ssa.Value) *ssa.Global {
	_, root, _ := fieldChain(v)
	switch r := root.(type) {
	case *ssa.Global:
		return r
	case *ssa.UnOp:
		if g, ok := r.X.(*ssa.Global); ok {
			return g
		}
	}
	return nil
}

func isModuleGlobal(g *ssa.Global) bool {
	return g != nil && g.Pkg != nil && (g.Pkg.Pkg.Path() == modPath || strings.HasPrefix(g.Pkg.Pkg.Path(), modPath+"/"))
}

func isInitFunc(fn *ssa.Function) bool {
	bk := baseFuncKey(fn)
	if i := strings.LastIndex(bk, "."); i >= 0 {
		bk = bk[i+1:]
	}
	return bk == "init" || strings.HasPrefix(bk, "init#")
}

// rawMemoryGlobal: a package-level slice, map or array — memory with no
// discipline of its own (pools and caches are structs that lock or count).
func rawMemoryGlobal(g *ssa.Global) bool {
	if g == nil {
		return false
	}
	switch u := g.Type().(*types.Pointer).Elem().Underlying().(type) {
	case *types.Slice:
		return !syncLikeType(u.Elem())
	case *types.Array:
		return !syncLikeType(u.Elem())
	case *types.Map:
		return true
	}
	return false
}

// rawGlobalBehind: the raw-memory package-level variable whose storage v can
// denote — through phis, re-slicing, and module helpers that return (a slice
// of) the slice they are given.
func rawGlobalBehind(v ssa.Value, depth int) *ssa.Global {
	if depth > 3 {
		return nil
	}
	for _, o := range Origins(v, OriginOpts{}) {
		switch o.Kind {
		case OrgGlobal:
			if g, ok := o.Val.(*ssa.Global); ok && isModuleGlobal(g) && rawMemoryGlobal(g) {
				return g
			}
			if u, ok := o.Val.(*ssa.UnOp); ok {
				if g, ok := u.X.(*ssa.Global); ok && isModuleGlobal(g) && rawMemoryGlobal(g) {
					return g
				}
			}
		case OrgCall:
			callee := o.Call.Common().StaticCallee()
			if callee == nil || !inModule(callee) {
				continue
			}
			for _, a := range o.Call.Common().Args {
				if types.Identical(a.Type(), v.Type()) {
					if g := rawGlobalBehind(a, depth+1); g != nil {
						return g
					}
				}
			}
		}
	}
	return nil
}

// shortenedGlobalBehind: v is (an append chain or phi over) a re-slice of a
// raw-memory package-level variable that keeps its capacity — `g[:0]`,
// `g[:n]` — so that appending to it writes the variable's storage.
func shortenedGlobalBehind(v ssa.Value, seen map[ssa.Value]bool) *ssa.Global {
	if v == nil || seen[v] || len(seen) > 64 {
		return nil
	}
	seen[v] = true
	switch x := v.(type) {
	case *ssa.Slice:
		if x.Max == nil && x.High != nil {
			if g := rawGlobalBehind(x.X, 0); g != nil {
				return g
			}
			if g := globalOf(x.X); isModuleGlobal(g) && rawMemoryGlobal(g) {
				return g
			}
		}
		return shortenedGlobalBehind(x.X, seen)
	case *ssa.Phi:
		for _, e := range x.Edges {
			if g := shortenedGlobalBehind(e, seen); g != nil {
				return g
			}
		}
	case *ssa.Call:
		if bi, ok := x.Call.Value.(*ssa.Builtin); ok && bi.Name() == "append" {
			return shortenedGlobalBehind(x.Call.Args[0], seen)
		}
	case *ssa.UnOp:
		if a, ok := x.X.(*ssa.Alloc); ok && x.Op == token.MUL {
			for _, ref := range *a.Referrers() {
				if st, ok := ref.(*ssa.Store); ok && st.Addr == ssa.Value(a) {
					if g := shortenedGlobalBehind(st.Val, seen); g != nil {
						return g
					}
				}
			}
		}
	}
	return nil
}

var globalsParamWrites = &paramWriteSummaries{memo: map[*ssa.Function]map[int][]chainWrite{}, busy: map[*ssa.Function]bool{}}

func c15Globals(c *Ctx) {
	p := c.P
	rule := "C15.globals"
	scope := rootImportClosure(p)
	nGlobals := 0
	for _, pkg := range p.Mod {
		if !scope[pkg.PkgPath] {
			continue
		}
		for _, n := range pkg.Types.Scope().Names() {
			if _, ok := pkg.Types.Scope().Lookup(n).(*types.Var); ok {
				nGlobals++
			}
		}
	}
	c.Stats[rule+".package_level_variables"] = nGlobals
	type guard struct{ lock, how string }
	guarded := map[string]guard{
		"bufioReaderPool":      {"bufioReaderPoolLock", "mutex"},
		"defaultCreatedByInfo": {"defaultCreatedByOnce", "once"},
	}
	nWrites := 0
	for _, fn := range p.ModuleSSAFuncs() {
		if fn.Origin() != nil || isInitFunc(fn) || !scope[fnPkgPath(fn)] {
			continue
		}
		locked := map[string]bool{}
		lockCalls := map[string][]ssa.Instruction{}
		allCalls(fn, false, func(_ *ssa.Function, call ssa.CallInstruction) {
			if n := calleeName(call); n == "sync.(*Mutex).Lock" || n == "sync.(*RWMutex).Lock" || n == "sync.(*RWMutex).RLock" {
				if g := globalOf(call.Common().Args[0]); g != nil {
					locked[g.Name()] = true
					if ins, ok := call.(ssa.Instruction); ok {
						lockCalls[g.Name()] = append(lockCalls[g.Name()], ins)
					}
				}
			}
		})
		// held: the lock was taken on every path to the access
		held := func(lock string, at ssa.Instruction) bool {
			for _, l := range lockCalls[lock] {
				if dominates(l, at) {
					return true
				}
			}
			return false
		}
		allInstrs(fn, false, func(_ *ssa.Function, ins ssa.Instruction) {
			var addr ssa.Value
			write := false
			switch x := ins.(type) {
			case ssa.CallInstruction:
				// copy/clear into, or a callee that writes through, memory reached
				// from a package-level variable
				cc := x.Common()
				if bi, isB := cc.Value.(*ssa.Builtin); isB {
					if (bi.Name() == "copy" || bi.Name() == "clear") && len(cc.Args) > 0 {
						if g := rawGlobalBehind(cc.Args[0], 0); g != nil {
							nWrites++
							c.Fail(rule, FuncKey(fn)+" writes package-level "+shortPkg(g.Pkg.Pkg.Path())+g.Name(), ins.Pos(), "%s copies into memory of the package-level variable %s outside package initialisation: every goroutine using the library shares it, and nothing synchronises the write", FuncKey(fn), g.Name())
						}
					}
					if bi.Name() == "append" && len(cc.Args) > 0 {
						// appending to a shortened slice of the variable fills its storage
						if g := shortenedGlobalBehind(cc.Args[0], map[ssa.Value]bool{}); g != nil {
							nWrites++
							c.Fail(rule, FuncKey(fn)+" writes package-level "+shortPkg(g.Pkg.Pkg.Path())+g.Name(), ins.Pos(), "%s appends to a shortened slice of the package-level variable %s, which writes the variable's storage, outside package initialisation: every goroutine using the library shares it, and nothing synchronises the write", FuncKey(fn), g.Name())
						}
					}
					return
				} else if callee := cc.StaticCallee(); callee != nil && inModule(callee) && callee.Blocks != nil {
					ws := globalsParamWrites.of(callee, 0)
					for i, a := range cc.Args {
						if g := globalOf(a); len(ws[i]) > 0 && isModuleGlobal(g) && rawMemoryGlobal(g) {
							addr, write = a, true
						}
					}
				}
				if addr == nil {
					return
				}
			case *ssa.Store:
				addr, write = x.Addr, true
			case *ssa.MapUpdate:
				addr, write = x.Map, true
			case *ssa.Lookup:
				addr = x.X
			case *ssa.UnOp:
				if x.Op == token.MUL {
					if g, ok := x.X.(*ssa.Global); ok && isModuleGlobal(g) {
						if gd, isG := guarded[g.Name()]; isG && gd.how == "mutex" {
							c.Check(rule, FuncKey(fn)+" reads "+g.Name()+" under "+gd.lock, x.Pos(), locked[gd.lock] && held(gd.lock, x), g.Name()+" is accessed on a path where "+gd.lock+" has not been taken yet: concurrent OpenFile/readers race on the map (the runtime aborts with concurrent map read and map write)")
						}
					}
				}
				return
			}
			g := globalOf(addr)
			if !isModuleGlobal(g) || !write {
				return
			}
			nWrites++
			key := FuncKey(fn) + " writes package-level " + shortPkg(g.Pkg.Pkg.Path()) + g.Name()
			gd, ok := guarded[g.Name()]
			switch {
			case !ok:
				c.Fail(rule, key, ins.Pos(), "package-level variable %s is written outside package initialisation by %s: every goroutine using the library shares it, and nothing synchronises the write", g.Name(), FuncKey(fn))
			case gd.how == "mutex":
				c.Check(rule, key, ins.Pos(), locked[gd.lock] && held(gd.lock, ins), g.Name()+" is written without holding "+gd.lock)
			case gd.how == "once":
				// the writing function is a closure passed to sync.Once.Do
				inOnce := false
				if par := fn.Parent(); par != nil {
					allCalls(par, false, func(_ *ssa.Function, call ssa.CallInstruction) {
						if calleeName(call) == "sync.(*Once).Do" {
							switch a := call.Common().Args[1].(type) {
							case *ssa.MakeClosure:
								if a.Fn == ssa.Value(fn) {
									inOnce = true
								}
							case *ssa.Function:
								if a == fn {
									inOnce = true
								}
							}
						}
					})
				}
				c.Check(rule, key, ins.Pos(), inOnce, g.Name()+" is written outside the sync.Once that is meant to publish it")
			}
		})
	}
	c.Stats[rule+".writes_outside_init"] = nWrites
	c.Min(rule, 3)
}

func syncLikeType(t types.Type) bool {
	s := types.TypeString(t, nil)
	return strings.Contains(s, "sync.") || strings.Contains(s, "sync/atomic.") || strings.Contains(s, "internal/memory.Pool") || strings.Contains(s, "atomic.")
}

func c15Immutable(c *Ctx) {
	p := c.P
	rule := "C15.immutable"
	scope := rootImportClosure(p)
	seenT := map[*types.Named]bool{}
	n := 0
	for _, pkg := range p.Mod {
		if !scope[pkg.PkgPath] {
			continue
		}
		sc := pkg.Types.Scope()
		for _, name := range sc.Names() {
			v, ok := sc.Lookup(name).(*types.Var)
			if !ok {
				continue
			}
			named := namedOf(v.Type())
			if named == nil || seenT[named] || named.Obj().Pkg() == nil || !strings.HasPrefix(named.Obj().Pkg().Path(), modPath) {
				continue
			}
			if _, isStruct := named.Underlying().(*types.Struct); !isStruct {
				continue
			}
			if syncLikeType(named) {
				continue
			}
			seenT[named] = true
			own := fieldsOfStruct(named)
			for _, m := range p.methodsOf(named) {
				if m.Blocks == nil || len(m.Params) == 0 {
					continue
				}
				recv := m.Params[0]
				var bad []string
				for _, w := range ChainWrites(m) {
					if w.Root != ssa.Value(recv) || len(w.Chain) == 0 || !own[w.Chain[0]] {
						continue
					}
					if syncLikeType(w.Chain[0].Type()) {
						continue
					}
					bad = append(bad, chainString(p, w.Chain))
				}
				n++
				sort.Strings(bad)
				c.Check(rule, shortPkg(pkg.PkgPath)+name+": "+FuncKey(m)+" leaves the shared value unchanged", m.Pos(), len(bad) == 0,
					"package-level value "+name+" is shared by every goroutine using the library, and its method "+FuncKey(m)+" writes "+strings.Join(bad, ", ")+" without synchronisation")
			}
		}
	}
	c.Stats[rule+".methods_of_shared_values"] = n
	c.Min(rule, 40)
}

func c15COW(c *Ctx) {
	p := c.P
	rule := "C15.cow"
	n := 0
	for _, fn := range p.ModuleSSAFuncs() {
		if fn.Origin() != nil {
			continue
		}
		k := 0
		allCalls(fn, false, func(_ *ssa.Function, call ssa.CallInstruction) {
			name := calleeName(call)
			if name != "sync/atomic.(*Value).Store" {
				return
			}
			// the published map
			var pub []ssa.Value
			for _, o := range Origins(call.Common().Args[1], OriginOpts{}) {
				if _, ok := o.Val.Type().Underlying().(*types.Map); ok {
					pub = append(pub, o.Val)
				}
			}
			if len(pub) == 0 {
				return
			}
			n++
			published := map[ssa.Value]bool{}
			for _, m := range pub {
				published[m] = true
			}
			// maps stored inside the published map
			allInstrs(fn, false, func(_ *ssa.Function, ins ssa.Instruction) {
				if mu, ok := ins.(*ssa.MapUpdate); ok && published[mu.Map] {
					if _, isMap := mu.Value.Type().Underlying().(*types.Map); isMap {
						published[mu.Value] = true
					}
				}
			})
			bad := token.NoPos
			for _, ins := range instrsAfter(call.(ssa.Instruction)) {
				if mu, ok := ins.(*ssa.MapUpdate); ok && published[mu.Map] {
					bad = mu.Pos()
				}
			}
			c.Check(rule, FuncKey(fn)+": map published with atomic.Value.Store is complete#"+itoa(k), call.Pos(), bad == token.NoPos,
				"the map (or a map stored in it) is updated at "+p.Pos(bad)+" after it was published with Store: other goroutines already read it (concurrent map read and map write), or see it before it is filled")
			k++
		})
		// maps obtained from Load are never updated
		allInstrs(fn, false, func(_ *ssa.Function, ins ssa.Instruction) {
			mu, ok := ins.(*ssa.MapUpdate)
			if !ok {
				return
			}
			for _, o := range Origins(mu.Map, OriginOpts{}) {
				if o.Kind == OrgCall && calleeName(o.Call) == "sync/atomic.(*Value).Load" {
					c.Fail(rule, FuncKey(fn)+": updates a map obtained from atomic.Value.Load", mu.Pos(), "a map loaded from an atomic.Value is shared with every other goroutine and must be copied before it is changed")
				}
			}
		})
	}
	c.Stats[rule+".publishing_stores"] = n
	c.Min(rule, 2)
}

// c15Release: a pooled buffer released through a struct field is cleared from the field.
func c15Release(c *Ctx) {
	p := c.P
	rule := "C15.release"
	n := 0
	for _, fn := range p.ModuleSSAFuncs() {
		if fn.Origin() != nil {
			continue
		}
		k := 0
		allCalls(fn, false, func(_ *ssa.Function, call ssa.CallInstruction) {
			cc := call.Common()
			name := ""
			if cc.IsInvoke() {
				name = cc.Method.Name()
			} else if sc := cc.StaticCallee(); sc != nil {
				name = fnName(sc)
			}
			if name != "PutBuffer" {
				return
			}
			if _, isDefer := call.(*ssa.Defer); isDefer {
				return
			}
			args := cc.Args
			arg := args[len(args)-1]
			var field *types.Var
			for _, o := range resolveFreeVarOrigins(arg, 0) {
				if o.Kind == OrgField {
					field = o.Field
				}
			}
			if field == nil {
				return // local buffer, not kept in a struct
			}
			n++
			// every path from the call to an exit of the function stores the field
			wb := map[*ssa.BasicBlock]bool{}
			sameBlockAfter := false
			after := false
			for _, ins := range call.Block().Instrs {
				if ins == call.(ssa.Instruction) {
					after = true
					continue
				}
				if st, ok := ins.(*ssa.Store); ok && after {
					if fs, _, _ := fieldChain(st.Addr); len(fs) > 0 && fs[len(fs)-1] == field {
						sameBlockAfter = true
					}
				}
			}
			for _, b := range fn.Blocks {
				for _, ins := range b.Instrs {
					if st, ok := ins.(*ssa.Store); ok && b != call.Block() {
						if fs, _, _ := fieldChain(st.Addr); len(fs) > 0 && fs[len(fs)-1] == field {
							wb[b] = true
						}
					}
				}
			}
			ok := sameBlockAfter
			if !ok {
				ok = true
				reach := map[*ssa.BasicBlock]bool{}
				var walk func(b *ssa.BasicBlock)
				walk = func(b *ssa.BasicBlock) {
					if reach[b] || wb[b] {
						return
					}
					reach[b] = true
					for _, s := range b.Succs {
						walk(s)
					}
				}
				for _, s := range call.Block().Succs {
					walk(s)
				}
				if len(call.Block().Succs) == 0 {
					ok = false
				}
				for b := range reach {
					if len(b.Instrs) > 0 {
						if _, isRet := b.Instrs[len(b.Instrs)-1].(*ssa.Return); isRet {
							ok = false
						}
					}
				}
			}
			c.Check(rule, FuncKey(fn)+": "+p.FieldName(field)+" is cleared after PutBuffer#"+itoa(k), call.Pos(), ok,
				"the buffer kept in "+p.FieldName(field)+" is returned to the pool but stays in the field on some path: the next reset returns it a second time and the pool hands the same buffer to two writers running concurrently")
			k++
		})
	}
	c.Stats[rule+".release_sites"] = n
	c.Min(rule, 2)
}

func c15Wire(c *Ctx, rule string) {
	fs, sites := nameWireFindings(c.P)
	c.Stats[rule+".field_arguments_matching_a_parameter_name"] = sites
	seen := map[string]int{}
	for _, f := range fs {
		k := FuncKey(f.Fn) + " calls " + calleeName(f.Call)
		seen[k]++
		c.Fail(rule, k+"#"+itoa(seen[k]-1), f.Call.Pos(), "field %s is passed as parameter %s of %s although the callee has a parameter named %s: the two are of the same type and belong to different slots (for reference-counted level buffers the slot decides which buffer is retained)", f.Field, f.Param, calleeName(f.Call), f.Field)
	}
	// positive instances: calls where field names and parameter names line up
	n := 0
	for _, fn := range c.P.ModuleSSAFuncs() {
		if fn.Origin() != nil {
			continue
		}
		allCalls(fn, false, func(_ *ssa.Function, call ssa.CallInstruction) {
			callee := call.Common().StaticCallee()
			if callee == nil || !inModule(callee) || len(callee.Params) != len(call.Common().Args) {
				return
			}
			for i, a := range call.Common().Args {
				if u, ok := a.(*ssa.UnOp); ok {
					if fa, ok := u.X.(*ssa.FieldAddr); ok {
						if st := structOf(fa.X.Type()); st != nil && st.Field(fa.Field).Name() == callee.Params[i].Name() {
							n++
						}
					}
				}
			}
		})
	}
	c.Stats[rule+".field_arguments_in_the_slot_of_their_name"] = n
	c.Check(rule, "calls passing fields into parameters of the same name were examined", token.NoPos, n >= 20, "fewer aligned field/parameter call sites than on the pinned tree: the rule would be vacuous")
}

func c15Async(c *Ctx) {
	p := c.P
	rule := "C15.async"
	obj := p.LookupFunc("readPages")
	ap := p.LookupType("asyncPages")
	if !c.Anchor(rule, "readPages", obj != nil) || !c.Anchor(rule, "asyncPages", ap != nil) {
		return
	}
	fn := p.SSAFunc(obj)
	bad := token.NoPos
	allInstrs(fn, true, func(_ *ssa.Function, ins ssa.Instruction) {
		if fa, ok := ins.(*ssa.FieldAddr); ok {
			if n := namedOf(fa.X.Type()); n != nil && n.Origin() == ap.Origin() {
				bad = fa.Pos()
			}
		}
	})
	c.Check(rule, "the page-reading goroutine does not touch the consumer's asyncPages struct", fn.Pos(), bad == token.NoPos, "readPages accesses fields of asyncPages, which the consumer goroutine reads and writes without synchronisation (version, channel fields)")
	// parameters of the goroutine are channels and the Pages it owns
	okParams := true
	for _, par := range fn.Params {
		switch par.Type().Underlying().(type) {
		case *types.Chan, *types.Interface:
		default:
			okParams = false
		}
	}
	c.Check(rule, "readPages receives only channels and the reader it owns", fn.Pos(), okParams, "the goroutine receives shared memory other than channels")
	// version is accessed only by consumer-side methods
	ver := p.LookupField("asyncPages", "version")
	var users []string
	for _, g := range p.ModuleSSAFuncs() {
		if g.Origin() != nil {
			continue
		}
		allInstrs(g, false, func(_ *ssa.Function, ins ssa.Instruction) {
			if fa, ok := ins.(*ssa.FieldAddr); ok {
				if st := structOf(fa.X.Type()); st != nil && st.Field(fa.Field).Origin() == ver {
					users = append(users, baseFuncKey(g))
				}
			}
		})
	}
	sort.Strings(users)
	okUsers := true
	for _, u := range users {
		if !strings.HasPrefix(u, "(*asyncPages).") {
			okUsers = false
		}
	}
	c.Check(rule, "asyncPages.version is used only by the consumer-side methods", fn.Pos(), okUsers && len(users) > 0, "version accessed by "+strings.Join(users, ", "))
	c.Min(rule, 3)
}

func c15Commit(c *Ctx) {
	p := c.P
	rule := "C15.commit"
	wt := p.LookupType("writer")
	if !c.Anchor(rule, "writer", wt != nil) {
		return
	}
	heads := fieldsOfStruct(wt)
	back := p.LookupField("ConcurrentRowGroupWriter", "writer")
	n := 0
	for _, tn := range []string{"ConcurrentRowGroupWriter", "ColumnWriter"} {
		t := p.LookupType(tn)
		if t == nil {
			continue
		}
		for _, m := range p.methodsOf(t) {
			if m.Blocks == nil || m.Name() == "Commit" {
				continue
			}
			n++
			var bad []string
			for _, w := range ChainWrites(m) {
				for i, f := range w.Chain {
					if heads[f] && i > 0 && w.Chain[i-1] == back {
						bad = append(bad, chainString(p, w.Chain))
					}
				}
			}
			sort.Strings(bad)
			c.Check(rule, FuncKey(m)+" leaves the parent writer alone", m.Pos(), len(bad) == 0, FuncKey(m)+" writes "+strings.Join(bad, ", ")+" of the parent writer: row groups are documented to be filled concurrently and only Commit is serialised")
		}
	}
	c.Stats[rule+".methods"] = n
	c.Min(rule, 20)
}

// c15AtomicDecide: a decision about a shared counter is taken on the value
// the atomic update returned. A function that updates an atomic field (Add,
// Swap, CompareAndSwap) and then reads it again with Load to decide what to do
// lets two goroutines both observe the final value: both release the same
// buffer to the pool. Per function and atomic field: no Load of a field the
// function also updates.
func c15AtomicDecide(c *Ctx) {
	rule := "C15.atomic"
	p := c.P
	n := 0
	for _, fn := range p.ModuleSSAFuncs() {
		if fn.Origin() != nil || fn.Blocks == nil {
			continue
		}
		type use struct {
			pos token.Pos
		}
		updates := map[*types.Var]token.Pos{}
		loads := map[*types.Var]token.Pos{}
		allCalls(fn, true, func(_ *ssa.Function, call ssa.CallInstruction) {
			cc := call.Common()
			sc := cc.StaticCallee()
			if sc == nil || sc.Signature.Recv() == nil || fnPkg(sc) == nil || fnPkg(sc).Path() != "sync/atomic" || len(cc.Args) == 0 {
				return
			}
			fs, _, elem := fieldChain(cc.Args[0])
			if len(fs) == 0 || elem {
				return
			}
			f := fs[len(fs)-1]
			switch fnName(sc) {
			case "Add", "And", "Or": // arithmetic updates of a counter; CompareAndSwap(nil, v) followed by Load is the set-once idiom
				updates[f] = call.Pos()
			case "Load":
				loads[f] = call.Pos()
			}
		})
		if len(updates) == 0 {
			continue
		}
		var bad []string
		for f := range updates {
			n++
			if pos, ok := loads[f]; ok {
				bad = append(bad, p.FieldName(f)+" (Load at "+p.Pos(pos)+")")
			}
		}
		sort.Strings(bad)
		c.Check(rule, FuncKey(fn)+" decides on the value its atomic update returned", fn.Pos(), len(bad) == 0, FuncKey(fn)+" updates and then reloads "+strings.Join(bad, ", ")+": between the update and the Load another goroutine can update the counter too, and both act on the same final value (for a reference count: the buffer is returned to the pool twice and handed to two users)")
	}
	c.Stats[rule+".atomic_updates"] = n
	c.Min(rule, 2)
}

// c15CommitOrder — Commit of a concurrently filled row group first writes the
// rows the parent writer has buffered itself, then its own: in Commit, the call
// that records the committed row group (it passes the receiver to a method of
// the parent writer that stores into writer.rowGroups) is dominated by another
// call of a parent-writer method that reaches the same recorder without being
// handed the receiver. When the first call is missing, or made only under a
// condition, rows written before BeginRowGroup come out after the committed
// row group.
func c15CommitOrder(c *Ctx) {
	rule := "C15.commitorder"
	p := c.P
	obj := p.LookupFunc("(*ConcurrentRowGroupWriter).Commit")
	rowGroups := p.LookupField("writer", "rowGroups")
	wt := p.LookupType("writer")
	if !c.Anchor(rule, "(*ConcurrentRowGroupWriter).Commit, writer.rowGroups", obj != nil && rowGroups != nil && wt != nil) {
		return
	}
	fn := p.SSAFunc(obj)
	records := func(g *ssa.Function) bool {
		found := false
		for _, w := range ChainWrites(g) {
			for _, f := range w.Chain {
				if f == rowGroups {
					found = true
				}
			}
		}
		return found
	}
	reachesRecorder := func(g *ssa.Function) bool {
		if records(g) {
			return true
		}
		ok := false
		allCalls(g, true, func(_ *ssa.Function, call ssa.CallInstruction) {
			if h := call.Common().StaticCallee(); h != nil && h.Blocks != nil && records(h) {
				ok = true
			}
		})
		return ok
	}
	isWriterMethod := func(g *ssa.Function) bool {
		if g == nil || g.Signature.Recv() == nil {
			return false
		}
		n := namedOf(g.Signature.Recv().Type())
		return n != nil && n.Obj() == wt.Obj()
	}
	var own, parent []ssa.CallInstruction
	allCalls(fn, false, func(_ *ssa.Function, call ssa.CallInstruction) {
		g := call.Common().StaticCallee()
		if !isWriterMethod(g) || g.Blocks == nil || !reachesRecorder(g) {
			return
		}
		passesRecv := false
		for _, a := range call.Common().Args[1:] {
			if a == ssa.Value(fn.Params[0]) {
				passesRecv = true
			}
		}
		if passesRecv {
			own = append(own, call)
		} else {
			parent = append(parent, call)
		}
	})
	if !c.Anchor(rule, "the call of Commit that records the committed row group", len(own) > 0) {
		return
	}
	for i, o := range own {
		ok := false
		for _, pc := range parent {
			if dominates(pc, o) {
				ok = true
			}
		}
		c.Check(rule, "Commit writes the parent's buffered rows before the committed row group#"+itoa(i+1), o.Pos(), ok, "(*ConcurrentRowGroupWriter).Commit records its row group without first, on every path, flushing the rows the parent writer has buffered: rows written before BeginRowGroup land after the committed row group in the file")
	}
}
