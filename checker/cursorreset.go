package main

import (
	"go/token"
	"go/types"

	"golang.org/x/tools/go/ssa"
)

// T-CURSORRESET: a resumable reader (a method filling a caller-supplied
// []Value or []Row) that walks a two-level structure keeps an inner cursor in
// a receiver field, advances it in a loop that also stops when the
// destination is full, and rewinds it to zero when it moves on to the next
// outer element. The rewind must happen only where the inner cursor is known
// to be exhausted: on a branch of a test, made after the step, that reads the
// cursor or compares the fill count with the length of the destination (the
// destination is not full, so the loop stopped on the cursor). A rewind that
// is merely placed after the loop also runs when the loop stopped because the
// destination was full, and the rest of the inner elements is skipped.
func runCursorResetRule(c *Ctx, rule string, min int) {
	p := c.P
	n := 0
	for _, fn := range p.ModuleSSAFuncs() {
		if fn.Origin() != nil || fn.Blocks == nil || fn.Signature.Recv() == nil || fnPkgPath(fn) != modPath {
			continue
		}
		fills := false
		for _, prm := range fn.Params[1:] {
			if isRowSlice(prm.Type()) || isValueSlice(prm.Type()) {
				fills = true
			}
		}
		if !fills || len(fn.Params) == 0 {
			continue
		}
		recv := fn.Params[0]
		fieldOf := func(addr ssa.Value) *types.Var {
			fa, ok := addr.(*ssa.FieldAddr)
			if !ok || fa.X != ssa.Value(recv) {
				return nil
			}
			if stt := structOf(fa.X.Type()); stt != nil {
				return stt.Field(fa.Field)
			}
			return nil
		}
		loadOf := func(v ssa.Value) *types.Var {
			if u, ok := v.(*ssa.UnOp); ok && u.Op == token.MUL {
				return fieldOf(u.X)
			}
			return nil
		}
		inLoop := loopBlocks(fn)
		advanced := map[*types.Var]bool{}
		var resets []*ssa.Store
		allInstrs(fn, false, func(_ *ssa.Function, ins ssa.Instruction) {
			st, ok := ins.(*ssa.Store)
			if !ok {
				return
			}
			f := fieldOf(st.Addr)
			if f == nil {
				return
			}
			if b, ok := st.Val.(*ssa.BinOp); ok && b.Op == token.ADD && inLoop[st.Block()] && (loadOf(b.X) == f || loadOf(b.Y) == f) {
				advanced[f] = true
			}
			if isZeroConst(st.Val) && inLoop[st.Block()] {
				resets = append(resets, st)
			}
		})
		// a cursor indexes something: some load of the field is (converted to) an index
		indexes := map[*types.Var]bool{}
		var advBlocks = map[*types.Var][]*ssa.BasicBlock{}
		allInstrs(fn, false, func(_ *ssa.Function, ins ssa.Instruction) {
			var idx ssa.Value
			switch x := ins.(type) {
			case *ssa.IndexAddr:
				idx = x.Index
			case *ssa.Index:
				idx = x.Index
			case *ssa.Store:
				if f := fieldOf(x.Addr); f != nil {
					if b, ok := x.Val.(*ssa.BinOp); ok && b.Op == token.ADD && (loadOf(b.X) == f || loadOf(b.Y) == f) {
						advBlocks[f] = append(advBlocks[f], x.Block())
					}
				}
			}
			for idx != nil {
				if cv, ok := idx.(*ssa.Convert); ok {
					idx = cv.X
					continue
				}
				if f := loadOf(idx); f != nil {
					indexes[f] = true
				}
				break
			}
		})
		destLen := func(v ssa.Value) bool {
			call, ok := v.(*ssa.Call)
			if !ok {
				return false
			}
			if bi, ok := call.Call.Value.(*ssa.Builtin); !ok || bi.Name() != "len" {
				return false
			}
			for _, prm := range fn.Params[1:] {
				if call.Call.Args[0] == ssa.Value(prm) && (isRowSlice(prm.Type()) || isValueSlice(prm.Type())) {
					return true
				}
			}
			return false
		}
		for _, st := range resets {
			f := fieldOf(st.Addr)
			if !advanced[f] || !indexes[f] {
				continue
			}
			n++
			ok := false
			for _, b := range fn.Blocks {
				if len(b.Instrs) == 0 {
					continue
				}
				ifi, isIf := b.Instrs[len(b.Instrs)-1].(*ssa.If)
				if !isIf {
					continue
				}
				bo, isB := ifi.Cond.(*ssa.BinOp)
				if !isB || !(loadOf(bo.X) == f || loadOf(bo.Y) == f || destLen(bo.X) || destLen(bo.Y)) {
					continue
				}
				// the test is made after the advance, not before it (a loop
				// condition evaluated before the step knows nothing about it)
				stale := false
				for _, ab := range advBlocks[f] {
					if b.Dominates(ab) {
						stale = true
					}
				}
				if stale {
					continue
				}
				for _, e := range b.Succs {
					if len(e.Preds) == 1 && e.Dominates(st.Block()) {
						ok = true
					}
				}
			}
			c.Check(rule, FuncKey(fn)+": the inner cursor "+f.Name()+" is rewound only where it is known to be exhausted", st.Pos(), ok,
				FuncKey(fn)+" rewinds "+f.Name()+" to zero at a point that is not on a branch of a test of "+f.Name()+": it is also reached when the loop that advances it stopped because the destination was full, and the elements it had not visited yet are skipped — the values returned depend on the size of the buffer the caller reads with")
		}
	}
	c.Min(rule, min)
}

func isValueSlice(t types.Type) bool {
	s, ok := t.Underlying().(*types.Slice)
	if !ok {
		return false
	}
	n, ok := s.Elem().(*types.Named)
	return ok && n.Obj().Name() == "Value" && n.Obj().Pkg() != nil && n.Obj().Pkg().Path() == modPath
}
