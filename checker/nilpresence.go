package main

import (
	"go/token"
	"go/types"
	"strings"

	"golang.org/x/tools/go/ssa"
)

// C05.nilpresence — the statistics of a chunk record "no bound yet" as a nil
// MinValue/MaxValue and a bound that is the empty byte string as an empty,
// non-nil one. Whether bounds have been recorded is therefore decided by
// comparing with nil; a test of the length confuses the empty string with the
// absence of a bound, and the next page replaces the bounds instead of
// merging with them.
func c05NilPresence(c *Ctx) {
	p := c.P
	rule := "C05.nilpresence"
	boundField := func(v ssa.Value) *types.Var {
		u, ok := v.(*ssa.UnOp)
		if !ok || u.Op != token.MUL {
			return nil
		}
		fa, ok := u.X.(*ssa.FieldAddr)
		if !ok {
			return nil
		}
		stt := structOf(fa.X.Type())
		named := namedOf(fa.X.Type())
		if stt == nil || named == nil || named.Obj().Name() != "Statistics" || named.Obj().Pkg() == nil || !strings.HasSuffix(named.Obj().Pkg().Path(), "/format") {
			return nil
		}
		f := stt.Field(fa.Field)
		if _, isSl := f.Type().Underlying().(*types.Slice); !isSl {
			return nil
		}
		return f
	}
	n := 0
	for _, fn := range p.ModuleSSAFuncs() {
		if fn.Origin() != nil || fn.Blocks == nil || fnPkgPath(fn) != modPath {
			continue
		}
		nilTests := 0
		var bad []string
		allInstrs(fn, false, func(_ *ssa.Function, ins ssa.Instruction) {
			bo, ok := ins.(*ssa.BinOp)
			if !ok {
				return
			}
			switch bo.Op {
			case token.EQL, token.NEQ, token.GTR, token.LSS, token.GEQ, token.LEQ:
			default:
				return
			}
			for _, side := range []ssa.Value{bo.X, bo.Y} {
				if f := boundField(side); f != nil && (isNilConst(bo.X) || isNilConst(bo.Y)) {
					nilTests++
				}
				if call, ok := side.(*ssa.Call); ok {
					if bi, isB := call.Call.Value.(*ssa.Builtin); isB && bi.Name() == "len" {
						if f := boundField(call.Call.Args[0]); f != nil && (isZeroConst(bo.X) || isZeroConst(bo.Y)) {
							bad = append(bad, f.Name()+" at "+p.Pos(bo.Pos()))
						}
					}
				}
			}
		})
		if nilTests == 0 && len(bad) == 0 {
			continue
		}
		n++
		c.Check(rule, FuncKey(fn)+": recorded bounds are told from missing ones by nil, not by length", fn.Pos(), len(bad) == 0,
			FuncKey(fn)+" tests the length of "+strings.Join(bad, ", ")+" to decide whether a bound was recorded: the empty byte string is a legitimate bound (stored as an empty, non-nil slice), so a chunk whose values so far are all empty strings is taken to have no statistics and the next page replaces its min/max instead of merging — the chunk minimum is no longer a lower bound")
	}
	c.Min(rule, 1)
}
