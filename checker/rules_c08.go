package main

import (
	"go/token"
	"go/types"
	"sort"
	"strings"

	"golang.org/x/tools/go/ssa"
)

// C08 — seeking to a row then reading equals skipping to that row sequentially.

func init() {
	register(&Property{
		ID:      "C08",
		NeedSSA: true,
		Decided: "Structural necessary conditions: (coherence) for the frozen table of cursor fields of every seekable reader (row index, page index, skip count, pending-action flags, buffered page/values), the field is assigned — or pinned by the true edge of an equality test on it — on every path to a success exit of the method that moves the position (SeekToRow, ReadRows, ReadPage, ReadValues); a flag that only some paths set, or a count that some successful exit does not account for, is reported with the exit; (prefix) a count-returning method that advances its slice parameter returns counts that include the advance; (errors) no error of a SeekToRow/Seek/Discard call is dropped or swallowed outside the listed exceptions; (async) the asynchronous page reader hands out a page only under the version equality test, and its sticky fatal error is never cleared inside the read loop. (reposition) wherever FilePages assigns its page cursor (found by role: the field ReadPage advances by one) an absolute position, the same function repositions the stream (Seek/Reset/new stream) on the same path; (position) FilePages.SeekToRow returns success without moving the stream only through a test on a value derived from the stream position query; (reset) the cursors of rowGroupRows and columnChunkValueReader are re-established by their Reset; (closed) a method that closes the object held in a receiver field while the receiver stays in use replaces the field on every non-failing path. (errexit) a ReadRows that reads several column readers stores into its receiver (or calls a method of it) in the block that returns the error of a column read; (loopcond) no loop whose only exit is its condition has a condition that nothing in the loop can change. (fanout) a SeekToRow of a composite reader that repositions children kept in a slice field of the receiver does it in a loop whose only bound is the length of that field (`i < len(S)` or a range over it), with no condition inside the loop that lets an iteration skip a child and continue; a child indexed by a variable is never rewound to a constant outside such a loop. (slicekeep) a Slice or Clone method of a page type that builds its result as a literal of its own receiver type sets every field of the type (directly or by filling it through a method of the field). (rowsfollow) a function that gives the internal reader another row group also replaces (or has just dropped, under a nil test) the rows it has open. (fanout, cont.) the loop is left only at its bound or on a failing return, and its first index is computed from the cursor as the function leaves it (no later assignment of the field it was read from). (errexit, cont.) the same for SeekToRow methods that have an \"already there\" shortcut (a parameter compared with a field of the receiver) and reposition the elements of a slice field one after the other. (cursorreset) in a method that fills a caller-supplied []Value or []Row, a receiver field that a loop advances and that is rewound to zero inside a loop is rewound only on a branch of a test made after the step that reads it or that compares against the length of the destination (the inner cursor is exhausted), never merely after the loop that also stops when the destination is full. (valuerecv) no method with a value receiver stores a field through a pointer embedded in the receiver: narrowing a copy of a page (Slice) must not narrow the chunk the copy still points to. (rowcountprio) a function that takes the rows of chunk i from both the per-chunk list (multiColumnChunk.rowCounts) and the row groups reads the row groups only on the edge of a test of len(rowCounts) on which the list has no entry: the chunk index is a row group index only for columns that were never flattened.",
		NotDecided: "the row arithmetic of skips and slices (boundary comparisons, the first index of a rewind loop), equality of the rows returned, behaviour after a read error has been reported.",
		Assumptions: []string{
			"path consistency is evaluated per function over its SSA control-flow graph; a callee counts as assigning a field when it assigns it on all of its own paths",
			"the table of cursor fields is frozen from the pinned tree; fields not listed are not constrained",
		},
		Run: runC08,
	})
}

type cursorObl struct {
	Fn, Field, Mode string
	Pin             string // optional: another field whose equality test pins this one too
}

var c08Cursor = []cursorObl{
	// the cached last page is served without reading the stream: SeekToRow sets
	// serveLastPage only when index already follows that page (fix of F19)
	{"(*FilePages).ReadPage", "index", "value", "serveLastPage"},
	{"(*FilePages).ReadPage", "skip", "value", ""},
	{"(*FilePages).SeekToRow", "skip", "nilerr", ""},
	{"(*FilePages).SeekToRow", "serveLastPage", "nilerr", ""},
	{"(*Reader).ReadRows", "rowIndex", "value", ""},
	{"(*Reader).SeekToRow", "rowIndex", "nilerr", ""},
	{"(*reader).ReadRows", "rowIndex", "value", ""},
	{"(*reader).SeekToRow", "rowIndex", "nilerr", ""},
	// Reset rewinds: whichever way the underlying rows are rewound, the row index goes back to the start
	{"(*reader).Reset", "rowIndex", "nilerr", ""},
	{"(*rowGroupRows).Reset", "rowIndex", "nilerr", ""},
	{"(*columnPages).SeekToRow", "index", "nilerr", ""},
	{"(*concatenatingRowsWrapper).ReadRows", "rowIndex", "value", ""},
	{"(*mergedRowGroupRows).ReadRows", "rowIndex", "value", ""},
	{"(*multiPages).SeekToRow", "index", "nilerr", ""},
	{"(*multiPages).SeekToRow", "pages", "nilerr", ""},
	{"(*rangePages).ReadPage", "remaining", "value", ""},
	{"(*rowBufferRows).ReadRows", "index", "value", ""},
	{"(*rowBufferRows).SeekToRow", "index", "nilerr", ""},
	{"(*rowGroupRows).ReadRows", "rowIndex", "value", ""},
	{"(*rowGroupRows).SeekToRow", "rowIndex", "nilerr", ""},
	{"(*rowGroupRows).SeekToRow", "buffers", "nilerr", "rowIndex"},
	{"(*singlePage).ReadPage", "seek", "value", ""},
	{"(*singlePage).SeekToRow", "seek", "nilerr", ""},
	{"(*columnChunkValueReader).SeekToRow", "page", "nilerr", ""},
	{"(*columnChunkValueReader).SeekToRow", "values", "nilerr", "page"},
	{"(*indexedPageValues).ReadValues", "offset", "value", ""},
	{"(*nullPageValues).ReadValues", "remain", "value", ""},
	// every row read from the underlying reader is counted, skipped or not (fix of F55)
	{"(*forwardRowSeeker).ReadRows", "index", "value", ""},
}

// c08Reposition: the page cursor of FilePages names the page the *stream* is
// positioned at. Wherever the cursor is assigned a new absolute position the
// same function repositions the stream (Seek on the section reader, or
// Discard/Reset on the buffered reader) on the same path. A cursor moved
// without the stream makes the following ReadPage return the pages of another
// position under the new index (finding F19).
func c08Reposition(c *Ctx) {
	rule := "C08.reposition"
	p := c.P
	cursor, _, _ := filePagesCursorRoles(p)
	fp := p.LookupType("FilePages")
	if !c.Anchor(rule, "FilePages", fp != nil) {
		return
	}
	// the stream fields: FilePages fields of type io.SectionReader / *bufio.Reader
	var streams []*types.Var
	for f := range fieldsOfStruct(fp) {
		t := f.Type()
		if pt, ok := t.(*types.Pointer); ok {
			t = pt.Elem()
		}
		if n, ok := t.(*types.Named); ok && n.Obj().Pkg() != nil {
			if (n.Obj().Pkg().Path() == "io" && n.Obj().Name() == "SectionReader") || (n.Obj().Pkg().Path() == "bufio" && n.Obj().Name() == "Reader") {
				streams = append(streams, f)
			}
		}
	}
	sort.Slice(streams, func(i, j int) bool { return streams[i].Name() < streams[j].Name() })
	req := coReq{Desc: "repositioning the page stream (Seek/Reset)"}
	var preds []func(ssa.Instruction) bool
	for _, sf := range streams {
		r, _ := reqCallOn(p, sf, "Seek", "Reset") // absolute repositioning; Discard is a relative step
		preds = append(preds, r.Is)
		w, _ := reqStoreTo(p, sf) // a new stream (init)
		preds = append(preds, w.Is)
	}
	req.Is = func(ins ssa.Instruction) bool {
		for _, f := range preds {
			if f(ins) {
				return true
			}
		}
		return false
	}
	coWriteRule(c, rule, "page cursor of FilePages", cursor, req, len(streams) >= 2, map[string]string{
		"(*FilePages).Close": "the page reader is unusable after Close (chunk, section and buffers are dropped)",
	}, "ReadPage reads the next page from wherever the stream is and labels it with the new index: rows of another position are returned after the seek")
	c.Min(rule, 3)
}

func runC08(c *Ctx) {
	c08Reposition(c)
	c08Position(c)
	c08ErrExit(c)
	// skipping loops advance what their condition tests
	runLoopCondRule(c, "C08.loopcond", func(fn *ssa.Function) bool { return inModule(fn) }, 300)
	// a composite reader repositions every child
	runFanoutRule(c, "C08.fanout", "SeekToRow", 2)
	runSliceKeepRule(c, "C08.slicekeep", 10)
	runCursorResetRule(c, "C08.cursorreset", 1)
	runValueRecvRule(c, "C08.valuerecv", 5)
	runFallbackPrioRule(c, "C08.rowcountprio", 2)
	// the rows a reader has open belong to its row group: they are replaced together
	{
		rg := c.P.LookupField("reader", "rowGroup")
		rows := c.P.LookupField("reader", "rows")
		req, ok := reqStoreTo(c.P, rows)
		req.Guard = rows
		coWriteRule(c, "C08.rowsfollow", "row group of the reader", rg, req, ok && rows != nil, map[string]string{
			"(*reader).Close": "Close ends the life of the reader: with a nil row group ReadRows and SeekToRow refuse before they look at the rows",
		}, "the rows already open keep coming from the row group that was replaced (the unconverted one when a conversion was just installed) and are reconstructed with the new schema")
		c.Min("C08.rowsfollow", 1)
	}
	// the cursors of the resettable readers are re-established by their Reset
	ci := newChainIndex(c.P)
	closeWhy := "Close ends the life of the reader; Reset is not expected to reopen it"
	for _, s := range []resetSpec{
		{Type: "rowGroupRows", Reset: []string{"(*rowGroupRows).Reset"}, IgnoreFns: map[string]string{"(*rowGroupRows).Close": closeWhy}},
		{Type: "columnChunkValueReader", Reset: []string{"(*columnChunkValueReader).Reset"}, IgnoreFns: map[string]string{"(*columnChunkValueReader).Close": closeWhy, "(*rowGroupRows).Close": closeWhy}},
	} {
		runResetRule(c, "C08.reset", ci, s)
	}
	c.Min("C08.reset", 6)
	// a reader that closes its current source while it stays in use forgets it
	runClosedFieldRule(c, "C08.closed", nil, 2)
	p := c.P
	pc := newPathCons(p)
	rule := "C08.coherence"
	for _, o := range c08Cursor {
		obj := p.LookupFunc(o.Fn)
		if !c.Anchor(rule, o.Fn, obj != nil) {
			continue
		}
		fn := p.SSAFunc(obj)
		recv := namedOf(fn.Signature.Recv().Type())
		var field *types.Var
		for f := range fieldsOfStruct(recv) {
			if f.Name() == o.Field {
				field = f
			}
		}
		if field == nil {
			// the field may have been renamed: the frozen pair cannot be
			// evaluated; the instance minimum below fails the check if many
			// entries disappear
			c.Note("%s: field %s of %s not found (renamed?); pair skipped", rule, o.Field, o.Fn)
			continue
		}
		var pin *types.Var
		if o.Pin != "" {
			for f := range fieldsOfStruct(recv) {
				if f.Name() == o.Pin {
					pin = f
				}
			}
		}
		ok, bad, n := pc.CheckField(fn, field, pin, o.Mode)
		key := o.Fn + " keeps " + o.Field
		if n == 0 {
			c.Fail(rule, key, fn.Pos(), "no success exit found in %s: the rule cannot be evaluated", o.Fn)
			continue
		}
		c.Check(rule, key, bad, ok, "a successful exit of "+o.Fn+" ("+p.Pos(bad)+") is reachable without assigning "+o.Field+" and without an equality test pinning it: the cursor keeps a value from before the call (stale flag / unaccounted rows) and the next read starts from the wrong position")
	}
	c.Min(rule, len(c08Cursor)*3/4)

	runPrefixRule(c, "C08.prefix", map[string]bool{"ReadRows": true, "ReadValues": true, "Read": true, "ReadAt": true, "WriteRows": true, "WriteValues": true, "Write": true, "ReadValuesAt": true})
	c.Min("C08.prefix", 4)

	// errors of seeks
	seekNames := map[string]bool{"SeekToRow": true, "Seek": true, "Discard": true}
	runErrRule(c, "C08.errors",
		func(fn *ssa.Function) bool { return true },
		func(s ErrSite) bool {
			o := calleeObj(s.Call)
			return o != nil && seekNames[o.Name()]
		},
		[]errException{
			{"(*columnChunkValueReader).Reset", "(Pages).SeekToRow", "dropped", "documented best effort: Reset has no error result; a persisting error resurfaces on the next read"},
			{"(*FilePages).ReadPage", "bufio.(*Reader).Discard", "dropped", "skipping a duplicate dictionary page: a short discard leaves the stream misaligned and resurfaces as a header decode error on the next iteration"},
			{"(*seekRowGroup).Rows", "(Rows).SeekToRow", "dropped", "seekRowGroup is never constructed (dead code)"},
			{"(*seekColumnChunk).Pages", "(Pages).SeekToRow", "dropped", "seekColumnChunk is never constructed (dead code)"},
			{"OpenFile", "io.(*SectionReader).Seek*", "dropped", "SectionReader.Seek with SeekStart/SeekCurrent and a non-negative in-memory offset cannot fail"},
			{"(*FileColumnChunk).readBloomFilter", "io.(*SectionReader).Seek", "dropped", "Seek(0, SeekCurrent) only reports the position and cannot fail"},
		})
	c.Min("C08.errors", 4)
	// the dead-code exemption is itself checked
	for _, tn := range []string{"seekRowGroup", "seekColumnChunk"} {
		if t := p.LookupType(tn); t != nil {
			c.Check("C08.errors", "dead:"+tn, t.Obj().Pos(), !typeIsConstructed(p, t), tn+" is now constructed somewhere: the dropped SeekToRow error in its accessor is no longer dead code")
		}
	}

	c08Async(c)
}

// CheckField evaluates one (function, field) pair.
func (pc *pathCons) CheckField(fn *ssa.Function, f, pin *types.Var, mode string) (ok bool, bad token.Pos, nsuccess int) {
	var success []*ssa.Return
	for _, r := range returnsOf(fn) {
		if isSuccessReturn(r, mode) {
			success = append(success, r)
		}
	}
	pc.pin = pin
	pc.mustWrite = map[*ssa.Function]map[*types.Var]bool{}
	wb := pc.writeBlocks(fn, f)
	pins := pinEdges(fn, f)
	if pin != nil {
		for e := range pinEdges(fn, pin) {
			pins[e] = true
		}
	}
	reach := reachableAvoidingSet(fn.Blocks[0], wb, pins)
	for _, r := range success {
		if !reach[r.Block()] {
			continue
		}
		// `err := f(); if err == nil { x.f = v }; return err`: the paths on
		// which the returned error is known to be non-nil are failing paths,
		// although they end in the same return as the successful one
		if mode == "nilerr" && len(r.Results) > 0 {
			ev, _ := retResult(r, len(r.Results)-1)
			if ev != nil && isErrorType(ev.Type()) {
				skip := map[[2]*ssa.BasicBlock]bool{}
				for e := range pins {
					skip[e] = true
				}
				for e := range nonNilEdgesOf(fn, ev) {
					skip[e] = true
				}
				if !reachableAvoidingSet(fn.Blocks[0], wb, skip)[r.Block()] {
					continue
				}
			}
		}
		return false, r.Pos(), len(success)
	}
	return true, fn.Pos(), len(success)
}

// nonNilEdgesOf: the edges of fn on which v (an error value, or one of the
// values it is a phi of) is known to be non-nil.
func nonNilEdgesOf(fn *ssa.Function, v ssa.Value) map[[2]*ssa.BasicBlock]bool {
	out := map[[2]*ssa.BasicBlock]bool{}
	vals := map[ssa.Value]bool{v: true}
	if ph, ok := v.(*ssa.Phi); ok {
		for _, e := range ph.Edges {
			vals[e] = true
		}
	}
	for _, b := range fn.Blocks {
		if len(b.Instrs) == 0 {
			continue
		}
		ifi, ok := b.Instrs[len(b.Instrs)-1].(*ssa.If)
		if !ok {
			continue
		}
		bo, ok := ifi.Cond.(*ssa.BinOp)
		if !ok || (bo.Op != token.NEQ && bo.Op != token.EQL) {
			continue
		}
		other := bo.X
		if isNilConst(bo.X) {
			other = bo.Y
		} else if !isNilConst(bo.Y) {
			continue
		}
		if !vals[other] {
			continue
		}
		if bo.Op == token.NEQ {
			out[[2]*ssa.BasicBlock{b, b.Succs[0]}] = true
		} else {
			out[[2]*ssa.BasicBlock{b, b.Succs[1]}] = true
		}
	}
	return out
}

// typeIsConstructed: is there a composite literal / new of the struct type in the module?
func typeIsConstructed(p *Prog, t *types.Named) bool {
	found := false
	for _, fn := range p.ModuleSSAFuncs() {
		if found {
			break
		}
		allInstrs(fn, false, func(_ *ssa.Function, ins ssa.Instruction) {
			if a, ok := ins.(*ssa.Alloc); ok {
				if n := namedOf(a.Type()); n != nil && n.Origin() == t.Origin() {
					found = true
				}
			}
		})
	}
	return found
}

func c08Async(c *Ctx) {
	p := c.P
	rule := "C08.async"
	// (1) ReadPage hands out a page only under p.version == pages.version
	if obj := p.LookupFunc("(*asyncPages).ReadPage"); c.Anchor(rule, "(*asyncPages).ReadPage", obj != nil) {
		fn := p.SSAFunc(obj)
		verPages := p.LookupField("asyncPages", "version")
		verPage := p.LookupField("asyncPage", "version")
		if c.Anchor(rule, "asyncPages.version", verPages != nil) && c.Anchor(rule, "asyncPage.version", verPage != nil) {
			var eqTrue []*ssa.BasicBlock
			for _, b := range fn.Blocks {
				if len(b.Instrs) == 0 {
					continue
				}
				ifi, ok := b.Instrs[len(b.Instrs)-1].(*ssa.If)
				if !ok {
					continue
				}
				bo, ok := ifi.Cond.(*ssa.BinOp)
				if !ok || (bo.Op != token.EQL && bo.Op != token.NEQ) {
					continue
				}
				has := func(v ssa.Value, f *types.Var) bool {
					for _, o := range Origins(v, OriginOpts{}) {
						if o.Kind == OrgField && o.Field == f {
							return true
						}
					}
					return false
				}
				if (has(bo.X, verPages) && has(bo.Y, verPage)) || (has(bo.X, verPage) && has(bo.Y, verPages)) {
					if bo.Op == token.EQL {
						eqTrue = append(eqTrue, b.Succs[0])
					} else {
						eqTrue = append(eqTrue, b.Succs[1])
					}
				}
			}
			ok := len(eqTrue) > 0
			for _, r := range returnsOf(fn) {
				v, rec := retResult(r, 0)
				if rec || v == nil || isNilConst(v) {
					continue
				}
				dom := false
				for _, e := range eqTrue {
					if e.Dominates(r.Block()) {
						dom = true
					}
				}
				if !dom {
					ok = false
				}
			}
			c.Check(rule, "asyncPages.ReadPage:page-only-under-version-equality", fn.Pos(), ok, "a page read before the last SeekToRow can be returned: the return of a page is not dominated by the test p.version == pages.version")
		}
	}
	asyncStickyRule(c, rule)
	// (3) SeekToRow publishes the version it sends
	if obj := p.LookupFunc("(*asyncPages).SeekToRow"); c.Anchor(rule, "(*asyncPages).SeekToRow", obj != nil) {
		fn := p.SSAFunc(obj)
		ver := p.LookupField("asyncPages", "version")
		stores, sends := 0, 0
		allInstrs(fn, false, func(_ *ssa.Function, ins ssa.Instruction) {
			switch x := ins.(type) {
			case *ssa.Store:
				if fs, _, _ := fieldChain(x.Addr); len(fs) > 0 && fs[len(fs)-1] == ver {
					stores++
				}
			case *ssa.Send:
				sends++
			}
		})
		c.Check(rule, "asyncPages.SeekToRow:bumps-version-and-sends", fn.Pos(), stores > 0 && sends > 0, "SeekToRow must advance the version and send the seek request")
	}
	c.Min(rule, 3)
	_ = strings.TrimSpace
}

// asyncStickyRule: the sticky fatal error of the asynchronous reader goroutine
// is never cleared inside the read loop.
func asyncStickyRule(c *Ctx, rule string) {
	p := c.P
	if obj := p.LookupFunc("readPages"); c.Anchor(rule, "readPages", obj != nil) {
		fn := p.SSAFunc(obj)
		bad := token.NoPos
		nphi := 0
		for _, b := range fn.Blocks {
			for _, ins := range b.Instrs {
				phi, ok := ins.(*ssa.Phi)
				if !ok || !isErrorType(phi.Type()) {
					continue
				}
				nphi++
				inLoop := reachableFrom(b)
				for i, e := range phi.Edges {
					if isNilConst(e) && inLoop[b.Preds[i]] && b.Preds[i] != fn.Blocks[0] {
						bad = phi.Pos()
						if bad == token.NoPos {
							bad = fn.Pos()
						}
					}
				}
			}
		}
		c.Check(rule, "readPages:fatal-error-is-sticky", fn.Pos(), bad == token.NoPos && nphi > 0, "the error variable of the page-reading goroutine is reset to nil inside the read loop: after a fatal read error the underlying reader is in an unknown position, and a later seek would resume reading from it and return rows of the wrong page")
	}
}

// c08Position: FilePages.SeekToRow reports success without moving the stream
// only when it has looked at where the stream is. The page cursor alone is a
// belief: a read that failed in the middle of a page has consumed its bytes
// without advancing the cursor (finding F25), and an earlier seek may have
// moved the stream while a page is still cached (finding F19). Every success
// exit is therefore reached through a repositioning of the stream
// (Seek/Discard/Reset on a stream field) or through a test on a value derived
// from the stream position query (Seek(0, io.SeekCurrent)); the exit taken
// when the chunk has no pages at all is the one exception.
func c08Position(c *Ctx) {
	rule := "C08.position"
	p := c.P
	obj := p.LookupFunc("(*FilePages).SeekToRow")
	fp := p.LookupType("FilePages")
	if !c.Anchor(rule, "(*FilePages).SeekToRow", obj != nil) || !c.Anchor(rule, "FilePages", fp != nil) {
		return
	}
	fn := p.SSAFunc(obj)
	streams := map[*types.Var]bool{}
	for f := range fieldsOfStruct(fp) {
		t := f.Type()
		if pt, ok := t.(*types.Pointer); ok {
			t = pt.Elem()
		}
		if n, ok := t.(*types.Named); ok && n.Obj().Pkg() != nil {
			if (n.Obj().Pkg().Path() == "io" && n.Obj().Name() == "SectionReader") || (n.Obj().Pkg().Path() == "bufio" && n.Obj().Name() == "Reader") {
				streams[f] = true
			}
		}
	}
	onStream := func(call ssa.CallInstruction) (string, bool) {
		cc := call.Common()
		callee := cc.StaticCallee()
		if callee == nil || callee.Signature.Recv() == nil || len(cc.Args) == 0 {
			return "", false
		}
		fs, _, _ := fieldChain(cc.Args[0])
		if len(fs) == 0 || !streams[fs[len(fs)-1]] {
			return "", false
		}
		return fnName(callee), true
	}
	isQuery := func(call ssa.CallInstruction) bool {
		name, ok := onStream(call)
		if !ok || name != "Seek" {
			return false
		}
		args := call.Common().Args
		if len(args) != 3 {
			return false
		}
		off, ok1 := args[1].(*ssa.Const)
		wh, ok2 := args[2].(*ssa.Const)
		return ok1 && ok2 && off.Value != nil && off.Value.ExactString() == "0" && wh.Value != nil && wh.Value.ExactString() == "1"
	}
	// values derived from the position query
	derived := map[ssa.Value]bool{}
	var work []ssa.Value
	cut := map[*ssa.BasicBlock]bool{} // blocks that reposition or test the position
	nq := 0
	allCalls(fn, false, func(_ *ssa.Function, call ssa.CallInstruction) {
		if isQuery(call) {
			nq++
			if v := call.Value(); v != nil {
				derived[v] = true
				work = append(work, v)
			}
			return
		}
		if name, ok := onStream(call); ok && (name == "Seek" || name == "Discard" || name == "Reset") {
			cut[call.Block()] = true
		}
	})
	for len(work) > 0 {
		v := work[len(work)-1]
		work = work[:len(work)-1]
		if v.Referrers() == nil {
			continue
		}
		for _, r := range *v.Referrers() {
			switch x := r.(type) {
			case *ssa.Extract, *ssa.BinOp, *ssa.Convert, *ssa.ChangeType, *ssa.Phi, *ssa.UnOp:
				xv := x.(ssa.Value)
				if !derived[xv] {
					derived[xv] = true
					work = append(work, xv)
				}
			case *ssa.Store:
				if al, ok := x.Addr.(*ssa.Alloc); ok {
					for _, lr := range *al.Referrers() {
						if u, ok := lr.(*ssa.UnOp); ok && !derived[u] {
							derived[u] = true
							work = append(work, u)
						}
					}
				}
			case *ssa.If:
				cut[x.Block()] = true
			}
		}
	}
	// the chunk without pages: true edge of len(...) == 0
	emptyEdge := map[[2]*ssa.BasicBlock]bool{}
	for _, b := range fn.Blocks {
		if len(b.Instrs) == 0 {
			continue
		}
		ifi, ok := b.Instrs[len(b.Instrs)-1].(*ssa.If)
		if !ok {
			continue
		}
		bo, ok := ifi.Cond.(*ssa.BinOp)
		if !ok || bo.Op != token.EQL {
			continue
		}
		if call, ok := bo.X.(*ssa.Call); ok {
			if bi, ok := call.Call.Value.(*ssa.Builtin); ok && bi.Name() == "len" {
				if k, ok := bo.Y.(*ssa.Const); ok && k.Value != nil && k.Value.ExactString() == "0" {
					emptyEdge[[2]*ssa.BasicBlock{b, b.Succs[0]}] = true
				}
			}
		}
	}
	c.Check(rule, "SeekToRow queries the stream position", fn.Pos(), nq > 0, "FilePages.SeekToRow never asks the stream where it is (Seek(0, io.SeekCurrent)): its shortcuts rest on the page cursor alone")
	reach := reachableAvoidingSet(fn.Blocks[0], cut, emptyEdge)
	var bad []string
	for _, ret := range returnsOf(fn) {
		if !reach[ret.Block()] || cut[ret.Block()] {
			continue
		}
		ev, _ := retResult(ret, 0)
		if ev != nil && !isNilConst(ev) {
			// a non-nil error constant/global or a fresh error: failure exit
			onlyFail := true
			for _, o := range Origins(ev, OriginOpts{}) {
				if o.Kind == OrgConst {
					if k, ok := o.Val.(*ssa.Const); ok && k.IsNil() {
						onlyFail = false
					}
				}
			}
			if onlyFail {
				continue
			}
		}
		bad = append(bad, p.Pos(ret.Pos()))
	}
	sort.Strings(bad)
	c.Check(rule, "SeekToRow succeeds without moving the stream only after looking at its position", fn.Pos(), len(bad) == 0,
		"FilePages.SeekToRow can return success ("+strings.Join(bad, ", ")+") without repositioning the stream and without a test on the stream position: when the page cursor and the stream disagree (a read failed half way through a page, an earlier seek moved the stream) the next ReadPage returns the rows of another page without error")
	c.Min(rule, 2)
}

// c08ErrExit: a reader that assembles rows from several column readers
// advances them one after the other. When one of them fails, those before it
// have moved while the row index has not: an error exit taken after a column
// was read must leave a trace in the reader (a flag, an invalidated index),
// otherwise the next read or a seek to the row the reader believes it is at
// goes on with columns standing on different rows (finding F34). Checked on
// every ReadRows method that calls ReadValues on elements of a slice field of
// its receiver: the block returning the error of that call stores into a
// receiver field or calls a method of the receiver that does.
func c08ErrExit(c *Ctx) {
	rule := "C08.errexit"
	p := c.P
	n := 0
	for _, fn := range p.ModuleSSAFuncs() {
		if fn.Origin() != nil || fn.Blocks == nil || fn.Parent() != nil || (fn.Name() != "ReadRows" && fn.Name() != "SeekToRow") || fn.Signature.Recv() == nil || fn.Pkg == nil || fn.Pkg.Pkg != p.Root.Types {
			continue
		}
		recv := fn.Params[0]
		own := fieldsOfStruct(namedOf(recv.Type()))
		wanted := "ReadValues"
		if fn.Name() == "SeekToRow" {
			// only the seeks that have a shortcut ("already there") can go on
			// from a half-done repositioning: a parameter compared with a field
			// of the receiver
			wanted = "SeekToRow"
			shortcut := false
			allInstrs(fn, false, func(_ *ssa.Function, ins ssa.Instruction) {
				bo, ok := ins.(*ssa.BinOp)
				if !ok || (bo.Op != token.EQL && bo.Op != token.NEQ) {
					return
				}
				isPar := func(v ssa.Value) bool { _, ok := v.(*ssa.Parameter); return ok }
				isOwn := func(v ssa.Value) bool {
					fs, root, _ := fieldChain(v)
					return len(fs) > 0 && root == ssa.Value(recv) && own[fs[0]]
				}
				if (isPar(bo.X) && isOwn(bo.Y)) || (isPar(bo.Y) && isOwn(bo.X)) {
					shortcut = true
				}
			})
			if !shortcut {
				continue
			}
		}
		var calls []*ssa.Call
		allCalls(fn, false, func(_ *ssa.Function, ci ssa.CallInstruction) {
			call, ok := ci.(*ssa.Call)
			if !ok {
				return
			}
			cc := call.Common()
			name := ""
			var target ssa.Value
			if cc.IsInvoke() {
				name, target = cc.Method.Name(), cc.Value
			} else if sc := cc.StaticCallee(); sc != nil && sc.Signature.Recv() != nil && len(cc.Args) > 0 {
				name, target = fnName(sc), cc.Args[0]
			}
			if name != wanted || target == nil {
				return
			}
			// the callee object is an element of a slice field of the receiver
			fs, root, _ := fieldChainPhi(target)
			if len(fs) == 0 || root != ssa.Value(recv) || !own[fs[0]] {
				return
			}
			if _, isSlice := fs[0].Type().Underlying().(*types.Slice); !isSlice {
				return
			}
			calls = append(calls, call)
		})
		for i, call := range calls {
			n++
			var errv ssa.Value
			if isErrorType(call.Type()) {
				errv = call // SeekToRow returns the error alone
			}
			for _, r := range *call.Referrers() {
				if ex, ok := r.(*ssa.Extract); ok && isErrorType(ex.Type()) {
					errv = ex
				}
			}
			key := FuncKey(fn) + ": error exit after a column was read leaves a trace #" + itoa(i)
			if errv == nil {
				c.Fail(rule, key, call.Pos(), "the error of ReadValues is discarded")
				continue
			}
			var bad []string
			found := 0
			for _, ret := range returnsOf(fn) {
				returnsIt := false
				for k := range ret.Results {
					rv, _ := retResult(ret, k)
					if rv == errv {
						returnsIt = true
					}
				}
				if !returnsIt {
					continue
				}
				found++
				traced := false
				for _, ins := range ret.Block().Instrs {
					switch x := ins.(type) {
					case *ssa.Store:
						if fs, root, _ := fieldChain(x.Addr); len(fs) > 0 && root == ssa.Value(recv) && own[fs[0]] {
							traced = true
						}
					case ssa.CallInstruction:
						if sc := x.Common().StaticCallee(); sc != nil && sc.Signature.Recv() != nil && len(x.Common().Args) > 0 && x.Common().Args[0] == ssa.Value(recv) {
							traced = true
						}
					}
				}
				if !traced {
					bad = append(bad, p.Pos(ret.Pos()))
				}
			}
			sort.Strings(bad)
			c.Check(rule, key, call.Pos(), len(bad) == 0 && found > 0, FuncKey(fn)+" returns the error of a column read ("+strings.Join(bad, ", ")+") without recording that the columns read before it have advanced: the next read, or a seek to the row the reader believes it is at, returns rows assembled from different rows of the columns")
		}
	}
	c.Stats[rule+".column_reads"] = n
	c.Min(rule, 1)
}
