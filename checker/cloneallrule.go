package main

import (
	"go/types"
	"sort"
	"strings"

	"golang.org/x/tools/go/ssa"
)

// T-CLONEALL — a function that returns a copy of a struct it was given,
// starting from a shallow copy (`out := *p`) and re-assigning reference fields
// with copies of their own, is a deep copy by intent: it re-assigns *every*
// field that is a slice or a map (Engler's contradiction rule: cloning five
// slice fields and sharing the sixth means one of the two beliefs is wrong).
// The field left out keeps pointing into the source, and whoever clears or
// truncates the copy in place wipes the source.
func runCloneAllRule(c *Ctx, rule string, min int) {
	p := c.P
	n := 0
	for _, fn := range p.ModuleSSAFuncs() {
		if fn.Origin() != nil || fn.Blocks == nil || fn.Parent() != nil || fnPkgPath(fn) != modPath {
			continue
		}
		if fn.Signature.Results().Len() != 1 {
			continue
		}
		st := structOf(fn.Signature.Results().At(0).Type())
		if st == nil {
			continue
		}
		if _, isPtr := fn.Signature.Results().At(0).Type().Underlying().(*types.Pointer); isPtr {
			continue
		}
		// the local that starts as a shallow copy of a parameter
		var local *ssa.Alloc
		for _, b := range fn.Blocks {
			for _, ins := range b.Instrs {
				s, ok := ins.(*ssa.Store)
				if !ok {
					continue
				}
				al, ok := s.Addr.(*ssa.Alloc)
				if !ok || structOf(al.Type()) != st {
					continue
				}
				src := s.Val
				if u, ok := src.(*ssa.UnOp); ok {
					src = u.X
				}
				if _, isPar := src.(*ssa.Parameter); isPar {
					local = al
				}
			}
		}
		if local == nil {
			continue
		}
		// returned?
		returned := false
		for _, ret := range returnsOf(fn) {
			if u, ok := ret.Results[0].(*ssa.UnOp); ok && u.X == ssa.Value(local) {
				returned = true
			}
		}
		if !returned {
			continue
		}
		assigned := map[int]bool{}
		for _, r := range *local.Referrers() {
			fa, ok := r.(*ssa.FieldAddr)
			if !ok {
				continue
			}
			for _, rr := range *fa.Referrers() {
				if s, ok := rr.(*ssa.Store); ok && s.Addr == ssa.Value(fa) {
					assigned[fa.Field] = true
				}
			}
		}
		var refFields, missing []string
		any := false
		for i := 0; i < st.NumFields(); i++ {
			switch st.Field(i).Type().Underlying().(type) {
			case *types.Slice, *types.Map:
				refFields = append(refFields, st.Field(i).Name())
				if assigned[i] {
					any = true
				} else {
					missing = append(missing, st.Field(i).Name())
				}
			}
		}
		if !any {
			continue
		}
		n++
		sort.Strings(missing)
		c.Check(rule, FuncKey(fn)+" gives the copy storage of its own for every slice field", fn.Pos(), len(missing) == 0, FuncKey(fn)+" copies "+strings.Join(refFields, ", ")+" field by field but leaves "+strings.Join(missing, ", ")+" pointing into the value it was given: clearing or truncating the copy in place (a writer's Reset does) wipes the source")
	}
	c.Min(rule, min)
}
