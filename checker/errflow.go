package main

import (
	"go/token"
	"go/types"
	"sort"
	"strings"

	"golang.org/x/tools/go/ssa"
)

// E2: error discipline. A call whose callee returns an error is a *source*;
// the error is
//   dropped    when the SSA error value has no use at all (expression
//              statement, `_` binding, assignment overwritten before read),
//   swallowed  when its only uses are comparisons (err != nil, err == io.EOF)
//              and it never reaches a return, a store, a call argument, a
//              panic or a channel,
//   deferred   when the call is the operand of defer/go (result unobservable).

type ErrSite struct {
	Fn     *ssa.Function
	Call   ssa.CallInstruction
	Callee string // calleeName
	Kind   string // dropped | swallowed | deferred
	Nth    int    // ordinal of this callee among same-kind sites in Fn (stable key)
}

func (s ErrSite) Key() string {
	k := FuncKey(s.Fn) + " " + s.Kind + " " + s.Callee
	if s.Nth > 0 {
		k += "#" + itoa(s.Nth)
	}
	return k
}

func itoa(n int) string {
	if n == 0 {
		return "0"
	}
	var b []byte
	for n > 0 {
		b = append([]byte{byte('0' + n%10)}, b...)
		n /= 10
	}
	return string(b)
}

func errResultIndex(sig *types.Signature) int {
	res := sig.Results()
	if res.Len() == 0 {
		return -1
	}
	last := res.At(res.Len() - 1)
	if isErrorType(last.Type()) {
		return res.Len() - 1
	}
	return -1
}

// ErrSites scans fn (not its anonymous functions; they are functions of
// their own in ModuleSSAFuncs) for undisciplined error sources.
func ErrSites(fn *ssa.Function) []ErrSite {
	var out []ErrSite
	count := map[string]int{}
	add := func(call ssa.CallInstruction, kind string) {
		name := calleeName(call)
		k := kind + " " + name
		out = append(out, ErrSite{Fn: fn, Call: call, Callee: name, Kind: kind, Nth: count[k]})
		count[k]++
	}
	for _, b := range fn.Blocks {
		for _, ins := range b.Instrs {
			call, ok := ins.(ssa.CallInstruction)
			if !ok {
				continue
			}
			cc := call.Common()
			if _, isBuiltin := cc.Value.(*ssa.Builtin); isBuiltin {
				continue
			}
			sig := cc.Signature()
			idx := errResultIndex(sig)
			if idx < 0 {
				continue
			}
			switch call.(type) {
			case *ssa.Defer, *ssa.Go:
				add(call, "deferred")
				continue
			}
			cv := call.(*ssa.Call)
			var errVal ssa.Value
			if sig.Results().Len() == 1 {
				errVal = cv
			} else {
				for _, ref := range *cv.Referrers() {
					if ex, ok := ref.(*ssa.Extract); ok && ex.Index == idx {
						errVal = ex
					}
				}
			}
			if errVal == nil {
				add(call, "dropped")
				continue
			}
			uses := realReferrers(errVal)
			if len(uses) == 0 {
				add(call, "dropped")
				continue
			}
			if onlyCompared(errVal, map[ssa.Value]bool{}) {
				add(call, "swallowed")
				continue
			}
			if overwrittenInLoop(errVal) {
				add(call, "overwritten")
			}
		}
	}
	return out
}

func realReferrers(v ssa.Value) []ssa.Instruction {
	var out []ssa.Instruction
	refs := v.Referrers()
	if refs == nil {
		return nil
	}
	for _, r := range *refs {
		if _, ok := r.(*ssa.DebugRef); ok {
			continue
		}
		out = append(out, r)
	}
	return out
}

// onlyCompared: every transitive use (through phi) is a ==/!= comparison.
func onlyCompared(v ssa.Value, seen map[ssa.Value]bool) bool {
	if seen[v] {
		return true
	}
	seen[v] = true
	for _, r := range realReferrers(v) {
		switch x := r.(type) {
		case *ssa.BinOp:
			if x.Op != token.EQL && x.Op != token.NEQ {
				return false
			}
		case *ssa.Phi:
			if !onlyCompared(x, seen) {
				return false
			}
		case *ssa.ChangeInterface:
			// error → any on the way into fmt.Errorf(..., err)
			if !onlyCompared(x, seen) {
				return false
			}
		case *ssa.Store:
			// the variadic argument array of an error constructor whose own
			// result goes nowhere (`err = fmt.Errorf("…: %w", err)` assigned to
			// a variable that is never read): wrapping is not handling
			if x.Val != v || !deadWrapArray(x.Addr, seen) {
				return false
			}
		case *ssa.Call:
			if !deadWrapCall(x, seen) {
				return false
			}
		default:
			return false
		}
	}
	return true
}

var errorConstructors = map[string]bool{"fmt.Errorf": true, "errors.Join": true}

func deadWrapCall(call *ssa.Call, seen map[ssa.Value]bool) bool {
	if !errorConstructors[calleeName(call)] {
		return false
	}
	return len(realReferrers(call)) == 0 || onlyCompared(call, seen)
}

func deadWrapArray(addr ssa.Value, seen map[ssa.Value]bool) bool {
	ia, ok := addr.(*ssa.IndexAddr)
	if !ok {
		return false
	}
	arr, ok := ia.X.(*ssa.Alloc)
	if !ok {
		return false
	}
	used := false
	for _, r := range realReferrers(arr) {
		switch x := r.(type) {
		case *ssa.IndexAddr:
			// element addresses: stores only
			for _, rr := range realReferrers(x) {
				if _, isStore := rr.(*ssa.Store); !isStore {
					return false
				}
			}
		case *ssa.Slice:
			for _, rr := range realReferrers(x) {
				call, isCall := rr.(*ssa.Call)
				if !isCall || !deadWrapCall(call, seen) {
					return false
				}
				used = true
			}
		default:
			return false
		}
	}
	return used
}

// ---------------------------------------------------------------------------
// which callees can return an error that originates in the I/O medium

type IOErrs struct {
	p     *Prog
	memo  map[*ssa.Function]bool
	state map[*ssa.Function]int
}

func NewIOErrs(p *Prog) *IOErrs {
	return &IOErrs{p: p, memo: map[*ssa.Function]bool{}, state: map[*ssa.Function]int{}}
}

var ioPkgs = map[string]bool{"io": true, "bufio": true, "os": true, "io/fs": true, "net": true}

// ioInterfaceMethod reports whether the invoked interface method belongs to
// an interface of package io (Reader.Read, Writer.Write, ReaderAt.ReadAt,
// Seeker.Seek, Closer.Close, …) or has one of their names with the same
// result shape (module interfaces embedding them).
func ioInterfaceMethod(m *types.Func) bool {
	if m == nil {
		return false
	}
	if m.Pkg() != nil && ioPkgs[m.Pkg().Path()] {
		return true
	}
	switch m.Name() {
	case "Read", "Write", "ReadAt", "WriteAt", "Seek", "Close", "ReadFrom", "WriteTo", "WriteString", "Flush", "Sync":
		return true
	// the library's own reader/writer interfaces sit on top of the medium
	case "ReadRows", "ReadPage", "ReadValues", "ReadValuesAt", "WriteRows", "WritePage", "WriteValues", "WriteRowGroup", "SeekToRow", "ReadRowsFrom", "WriteRowsTo", "CopyRows":
		return true
	}
	return false
}

// CallMayFail reports whether a call can return an error coming from the
// I/O medium: an io interface method, a function of io/bufio/os, or a module
// function that transitively contains such a call and returns an error.
func (e *IOErrs) CallMayFail(call ssa.CallInstruction) bool {
	cc := call.Common()
	if cc.IsInvoke() {
		if ioInterfaceMethod(cc.Method) {
			return true
		}
		// module interface: any implementation in the module that may fail
		return e.ifaceMayFail(cc)
	}
	callee := cc.StaticCallee()
	if callee == nil {
		return true // dynamic function value: unknown, conservatively yes
	}
	return e.FuncMayFail(callee)
}

func (e *IOErrs) ifaceMayFail(cc *ssa.CallCommon) bool {
	iface, ok := cc.Value.Type().Underlying().(*types.Interface)
	if !ok {
		return true
	}
	for _, t := range e.p.Implementations(iface) {
		m, _ := MethodOf(t, cc.Method.Name())
		if m == nil {
			continue
		}
		if fn := e.p.SSA.FuncValue(m.Origin()); fn != nil && e.FuncMayFail(fn) {
			return true
		}
	}
	return false
}

func (e *IOErrs) FuncMayFail(fn *ssa.Function) bool {
	if fn == nil {
		return false
	}
	if v, ok := e.memo[fn]; ok {
		return v
	}
	if e.state[fn] == 1 {
		return false // cycle: assume no, outer frames decide
	}
	pkg := fnPkg(fn)
	if pkg != nil && !inModule(fn) {
		v := ioPkgs[pkg.Path()] && errResultIndex(fn.Signature) >= 0
		e.memo[fn] = v
		return v
	}
	if errResultIndex(fn.Signature) < 0 {
		e.memo[fn] = false
		return false
	}
	e.state[fn] = 1
	res := false
	body := fn
	if fn.Blocks == nil && fn.Origin() != nil {
		body = fn.Origin()
	}
	allCalls(body, true, func(in *ssa.Function, call ssa.CallInstruction) {
		if res {
			return
		}
		cc := call.Common()
		if _, isBuiltin := cc.Value.(*ssa.Builtin); isBuiltin {
			return
		}
		if errResultIndex(cc.Signature()) < 0 {
			return
		}
		if cc.IsInvoke() {
			if ioInterfaceMethod(cc.Method) {
				res = true
			}
			return
		}
		if c := cc.StaticCallee(); c != nil {
			if e.FuncMayFail(c) {
				res = true
			}
		} else {
			res = true
		}
	})
	e.state[fn] = 2
	e.memo[fn] = res
	return res
}

// errException is one frozen, explained exception of an error rule.
type errException struct {
	Fn     string // FuncKey of the containing function ("*" = any)
	Callee string // calleeName prefix ("*" = any)
	Kind   string // dropped|swallowed|deferred|*
	Reason string
}

// errExceptionProg gives matchErrException access to the callers of a
// function: an exception recorded for a function also covers an unexported
// helper whose only callers are that function (the excepted statement was moved
// into a helper, its context is unchanged).
var errExceptionProg *Prog

var staticCallerIndex = map[*Prog]map[*ssa.Function]map[*ssa.Function]bool{}

func staticCallersOf(p *Prog, fn *ssa.Function) map[*ssa.Function]bool {
	idx := staticCallerIndex[p]
	if idx == nil {
		idx = map[*ssa.Function]map[*ssa.Function]bool{}
		for _, g := range p.ModuleSSAFuncs() {
			top := g
			for top.Parent() != nil {
				top = top.Parent()
			}
			allCalls(g, false, func(_ *ssa.Function, call ssa.CallInstruction) {
				if sc := call.Common().StaticCallee(); sc != nil {
					o := originFn(sc)
					if idx[o] == nil {
						idx[o] = map[*ssa.Function]bool{}
					}
					idx[o][originFn(top)] = true
				}
			})
		}
		staticCallerIndex[p] = idx
	}
	return idx[originFn(fn)]
}

func errFnMatches(pattern string, fn *ssa.Function, depth int) bool {
	fk := FuncKey(fn)
	bk := baseFuncKey(fn)
	if pattern == "*" || pattern == fk || pattern == bk || (strings.HasSuffix(pattern, "*") && strings.HasPrefix(fk, strings.TrimSuffix(pattern, "*"))) {
		return true
	}
	if errExceptionProg == nil || depth >= 2 {
		return false
	}
	top := fn
	for top.Parent() != nil {
		top = top.Parent()
	}
	if top.Object() == nil || top.Object().Exported() {
		return false
	}
	callers := staticCallersOf(errExceptionProg, top)
	if len(callers) == 0 {
		return false
	}
	for g := range callers {
		if g == originFn(top) {
			continue
		}
		if !errFnMatches(pattern, g, depth+1) {
			return false
		}
	}
	return true
}

func matchErrException(tbl []errException, s ErrSite) *errException {
	for i := range tbl {
		x := &tbl[i]
		if x.Kind != "*" && x.Kind != s.Kind {
			continue
		}
		if !errFnMatches(x.Fn, s.Fn, 0) {
			continue
		}
		if x.Callee != "*" && x.Callee != s.Callee && !(strings.HasSuffix(x.Callee, "*") && strings.HasPrefix(s.Callee, strings.TrimSuffix(x.Callee, "*"))) {
			continue
		}
		return x
	}
	return nil
}

// runErrRule evaluates error discipline over the functions selected by
// inScope and the sources selected by isSource.
func runErrRule(c *Ctx, rule string, inScope func(*ssa.Function) bool, isSource func(ErrSite) bool, exceptions []errException) (sites, sources int) {
	used := map[*errException]int{}
	errExceptionProg = c.P
	for _, fn := range c.P.ModuleSSAFuncs() {
		if fn.Origin() != nil {
			continue // analyse generic bodies once (the origin)
		}
		if !inScope(fn) {
			continue
		}
		// count every error-returning call as an examined source
		allCalls(fn, false, func(_ *ssa.Function, call ssa.CallInstruction) {
			if _, isBuiltin := call.Common().Value.(*ssa.Builtin); isBuiltin {
				return
			}
			if errResultIndex(call.Common().Signature()) >= 0 {
				sources++
			}
		})
		all := ErrSites(fn)
		for _, nr := range NilReturnSites(fn) {
			var call ssa.CallInstruction
			switch x := nr.Failed.(type) {
			case *ssa.Call:
				call = x
			case *ssa.Extract:
				call, _ = x.Tuple.(*ssa.Call)
			}
			if call != nil {
				all = append(all, ErrSite{Fn: fn, Call: call, Callee: calleeName(call), Kind: "nilreturn"})
			}
		}
		for _, s := range all {
			if !isSource(s) {
				continue
			}
			sites++
			if x := matchErrException(exceptions, s); x != nil {
				used[x]++
				c.Pass(rule, s.Key(), s.Call.Pos(), "excepted: %s", x.Reason)
				continue
			}
			what := "is " + s.Kind
			if s.Kind == "nilreturn" {
				what = "is tested, but on its failure path the function returns another error variable that is known to be nil there"
			}
			c.Fail(rule, s.Key(), s.Call.Pos(), "error returned by %s %s in %s: the failure cannot reach the caller", s.Callee, what, FuncKey(s.Fn))
		}
	}
	c.Stats[rule+".error_sources_examined"] = sources
	var unused []string
	for i := range exceptions {
		if used[&exceptions[i]] == 0 {
			unused = append(unused, exceptions[i].Fn+"/"+exceptions[i].Callee)
		}
	}
	sort.Strings(unused)
	if len(unused) > 0 {
		c.Note("%s: exception entries matching nothing on this tree: %s", rule, strings.Join(unused, "; "))
	}
	return
}

// overwrittenInLoop: the error value flows only into phis (it is assigned to
// a variable and not looked at), and from the merge point control can come
// round to the same merge point again without any instruction reading the
// variable: on that path the error is overwritten before it was checked.
func overwrittenInLoop(v ssa.Value) bool {
	uses := realReferrers(v)
	if len(uses) == 0 {
		return false
	}
	var phis []*ssa.Phi
	for _, u := range uses {
		p, ok := u.(*ssa.Phi)
		if !ok {
			return false
		}
		phis = append(phis, p)
	}
	for _, p := range phis {
		// tracked names: p and every phi it feeds
		tracked := map[ssa.Value]bool{p: true}
		for changed := true; changed; {
			changed = false
			for t := range tracked {
				for _, r := range realReferrers(t) {
					if q, ok := r.(*ssa.Phi); ok && !tracked[q] {
						tracked[q] = true
						changed = true
					}
				}
			}
		}
		useBlocks := map[*ssa.BasicBlock]bool{}
		for t := range tracked {
			for _, r := range realReferrers(t) {
				if _, ok := r.(*ssa.Phi); ok {
					continue
				}
				useBlocks[r.Block()] = true
			}
		}
		start := p.Block()
		if useBlocks[start] {
			continue
		}
		seen := map[*ssa.BasicBlock]bool{}
		var cyc bool
		var walk func(b *ssa.BasicBlock)
		walk = func(b *ssa.BasicBlock) {
			for _, s := range b.Succs {
				if s == start {
					cyc = true
					return
				}
				if seen[s] || useBlocks[s] {
					continue
				}
				seen[s] = true
				walk(s)
			}
		}
		walk(start)
		if cyc {
			return true
		}
	}
	return false
}

// NilReturnSites: returns, on a path where some error e1 is known to be
// non-nil, of a *different* error value e2 that is known to be nil there
// (the return is dominated by the nil edge of e2's own test). The failure e1
// is then reported to the caller as success.
type nilReturnSite struct {
	Fn     *ssa.Function
	Ret    *ssa.Return
	Failed ssa.Value // e1
	NilErr ssa.Value // e2
}

func nilEdgeBlocks(v ssa.Value) (nilEdges, nonNilEdges []*ssa.BasicBlock) {
	refs := v.Referrers()
	if refs == nil {
		return
	}
	for _, r := range *refs {
		b, ok := r.(*ssa.BinOp)
		if !ok || (b.Op != token.NEQ && b.Op != token.EQL) || !(isNilConst(b.X) || isNilConst(b.Y)) {
			continue
		}
		for _, br := range realReferrers(b) {
			ifi, ok := br.(*ssa.If)
			if !ok {
				continue
			}
			nonNil, isNil := ifi.Block().Succs[0], ifi.Block().Succs[1]
			if b.Op == token.EQL {
				nonNil, isNil = isNil, nonNil
			}
			// an edge is usable only when its target has this single predecessor
			if len(isNil.Preds) == 1 {
				nilEdges = append(nilEdges, isNil)
			}
			if len(nonNil.Preds) == 1 {
				nonNilEdges = append(nonNilEdges, nonNil)
			}
		}
	}
	return
}

func NilReturnSites(fn *ssa.Function) []nilReturnSite {
	var out []nilReturnSite
	ei := errResultIndex(fn.Signature)
	if ei < 0 {
		return nil
	}
	// error values of the function: call results of type error
	var errVals []ssa.Value
	for _, b := range fn.Blocks {
		for _, ins := range b.Instrs {
			if v, ok := ins.(ssa.Value); ok && isErrorType(v.Type()) {
				switch ins.(type) {
				case *ssa.Call, *ssa.Extract:
					errVals = append(errVals, v)
				}
			}
		}
	}
	for _, r := range returnsOf(fn) {
		rv, rec := retResult(r, ei)
		if rec || rv == nil {
			continue
		}
		// a literal nil returned on the failure path of e1
		if isNilConst(rv) {
			for _, e1 := range errVals {
				_, nonNil := nilEdgeBlocks(e1)
				for _, e := range nonNil {
					// only the blatant form: the failure edge leads straight
					// to the return, with no further test in between (a
					// nested `if err == io.EOF` or a fallback is a decision)
					if e == r.Block() {
						out = append(out, nilReturnSite{fn, r, e1, rv})
					}
				}
			}
			continue
		}
		// e2: the returned value itself must be a plain error value (no phi)
		isErrVal := false
		for _, e := range errVals {
			if e == rv {
				isErrVal = true
			}
		}
		if !isErrVal {
			continue
		}
		nilE, _ := nilEdgeBlocks(rv)
		knownNil := false
		for _, e := range nilE {
			if e.Dominates(r.Block()) {
				knownNil = true
			}
		}
		if !knownNil {
			continue
		}
		for _, e1 := range errVals {
			if e1 == rv {
				continue
			}
			_, nonNil := nilEdgeBlocks(e1)
			for _, e := range nonNil {
				if e.Dominates(r.Block()) {
					out = append(out, nilReturnSite{fn, r, e1, rv})
				}
			}
		}
	}
	return out
}
