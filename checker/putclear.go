package main

import (
	"strings"

	"golang.org/x/tools/go/ssa"
)

// T-PUTCLEAR — an object kept in a field and handed back to a pool is no longer
// the holder's: on every path from the hand-over to a return the field is
// overwritten (nil), so that a second Close, a Reset or a late use cannot put
// the same object into the pool twice — after which two unrelated users are
// given the same object.

func putsParamIntoPool(g *ssa.Function, i int, depth int) bool {
	if g == nil || g.Blocks == nil || i >= len(g.Params) || depth > 2 {
		return false
	}
	par := g.Params[i]
	found := false
	refCounted := false
	allCalls(g, false, func(_ *ssa.Function, call ssa.CallInstruction) {
		if strings.HasPrefix(calleeName(call), "sync/atomic.") {
			refCounted = true // the object goes back when its last reference does: another discipline (C15.atomic)
		}
	})
	if refCounted {
		return false
	}
	allCalls(g, false, func(_ *ssa.Function, call ssa.CallInstruction) {
		cc := call.Common()
		nm := calleeName(call)
		for ai, a := range cc.Args {
			if a != ssa.Value(par) {
				continue
			}
			if ai == 0 && cc.StaticCallee() != nil && cc.StaticCallee().Signature.Recv() != nil {
				continue // the pool itself, not the object
			}
			if strings.HasSuffix(nm, "internal/memory.(*Pool).Put") || nm == "sync.(*Pool).Put" || strings.HasSuffix(nm, ".Put") && strings.Contains(nm, "Pool") {
				found = true
			} else if h := cc.StaticCallee(); h != nil && inModule(h) && putsParamIntoPool(h, ai, depth+1) {
				found = true
			}
		}
	})
	return found
}

func runPutClearRule(c *Ctx, rule string, min int) {
	p := c.P
	n := 0
	for _, fn := range p.ModuleSSAFuncs() {
		if fn.Origin() != nil || fn.Blocks == nil || fnPkgPath(fn) != modPath {
			continue
		}
		k := 0
		for _, b := range fn.Blocks {
			for _, ins := range b.Instrs {
				call, ok := ins.(*ssa.Call)
				if !ok {
					continue
				}
				g := call.Call.StaticCallee()
				if g == nil || !inModule(g) {
					continue
				}
				for ai, a := range call.Call.Args {
					f, root, _ := bufVarOf(a)
					if f == nil || root == nil {
						continue
					}
					if _, isPar := root.(*ssa.Parameter); !isPar {
						continue
					}
					if !putsParamIntoPool(g, ai, 0) {
						continue
					}
					n++
					k++
					// a store to the same field after the call, on every path to a return
					cleared := map[*ssa.BasicBlock]bool{}
					sameBlockAfter := false
					for _, b2 := range fn.Blocks {
						for _, i2 := range b2.Instrs {
							st, ok := i2.(*ssa.Store)
							if !ok {
								continue
							}
							fa, ok := st.Addr.(*ssa.FieldAddr)
							if !ok {
								continue
							}
							fields, r2, elem := fieldChain(fa)
							if len(fields) == 0 || elem || fields[len(fields)-1] != f || r2 != root {
								continue
							}
							if b2 == b {
								if afterInstr(call, st) {
									sameBlockAfter = true
								}
							} else {
								cleared[b2] = true
							}
						}
					}
					ok2 := sameBlockAfter
					if !ok2 {
						ok2 = true
						for rb := range reachableAvoidingSet(b, cleared, nil) {
							if rb == b && len(cleared) == 0 {
								// fallthrough to the generic test below
							}
							if _, isRet := rb.Instrs[len(rb.Instrs)-1].(*ssa.Return); isRet {
								ok2 = false
							}
						}
					}
					c.Check(rule, FuncKey(fn)+" forgets "+p.FieldName(f)+" once it is back in the pool#"+itoa(k), call.Pos(), ok2, FuncKey(fn)+" hands "+p.FieldName(f)+" back to a pool through "+FuncKey(g)+" and can return with the field still pointing at it: a second call puts the same object into the pool twice, and two unrelated readers are then given the same object")
				}
			}
		}
	}
	c.Min(rule, min)
}
