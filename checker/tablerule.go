package main

import (
	"go/ast"
	"go/constant"
	"go/types"
	"strings"

	"golang.org/x/tools/go/packages"
)

// T-TABLE: each keyed element `K: &V` of a package-level table satisfies
// const(return of V.method()) == K: the code a writer stamps into a header and
// the entry a reader looks up under that code are the same implementation.
func runTableRule(c *Ctx, rule, varName, method string, minEntries int) {
	p := c.P
	var lit *ast.CompositeLit
	var pkg *packages.Package
	for _, f := range p.Root.Syntax {
		ast.Inspect(f, func(n ast.Node) bool {
			vs, ok := n.(*ast.ValueSpec)
			if !ok {
				return true
			}
			for i, name := range vs.Names {
				if name.Name == varName && i < len(vs.Values) {
					if cl, ok := vs.Values[i].(*ast.CompositeLit); ok {
						lit, pkg = cl, p.Root
					}
				}
			}
			return true
		})
	}
	if !c.Anchor(rule, "table "+varName, lit != nil) {
		return
	}
	info := pkg.TypesInfo
	n := 0
	for _, el := range lit.Elts {
		kv, ok := el.(*ast.KeyValueExpr)
		if !ok {
			continue
		}
		ktv := info.Types[kv.Key]
		if ktv.Value == nil {
			continue
		}
		n++
		keyName := exprString(kv.Key)
		vt := info.TypeOf(kv.Value)
		m, _ := MethodOf(vt, method)
		if m == nil {
			c.Fail(rule, varName+"["+keyName+"]", kv.Pos(), "entry has no method %s", method)
			continue
		}
		got, ok := constReturn(p, m)
		if !ok {
			c.Fail(rule, varName+"["+keyName+"]", kv.Pos(), "%s of %s does not return a constant: the table cannot be checked", method, types.TypeString(vt, shortQual))
			continue
		}
		c.Check(rule, varName+"["+keyName+"]", kv.Pos(), got.ExactString() == ktv.Value.ExactString(),
			"table entry "+keyName+" holds an implementation whose "+method+"() returns "+got.ExactString()+": the writer stamps that code into the file and the reader looks the implementation up under "+ktv.Value.ExactString())
	}
	c.Stats[rule+"."+varName+".entries"] = n
	c.Check(rule, varName+" has its entries", lit.Pos(), n >= minEntries, "fewer keyed entries than on the pinned tree")
}

// constReturn evaluates a method whose body is `return <constant expr>`.
func constReturn(p *Prog, m *types.Func) (constant.Value, bool) {
	fd := p.Decl(m)
	if fd == nil || fd.Body == nil || len(fd.Body.List) != 1 {
		return nil, false
	}
	rs, ok := fd.Body.List[0].(*ast.ReturnStmt)
	if !ok || len(rs.Results) != 1 {
		return nil, false
	}
	pkg := p.PkgOfDecl(fd)
	tv, ok := pkg.TypesInfo.Types[rs.Results[0]]
	if !ok || tv.Value == nil {
		return nil, false
	}
	return tv.Value, true
}

var _ = strings.TrimSpace
