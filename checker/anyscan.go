package main

import (
	"golang.org/x/tools/go/ssa"
)

// T-ANYSCAN — "does any element have the property" is computed by a boolean
// that starts false and is OR-ed (or set) while a loop visits the elements. If
// the loop can also be left early for another reason (a `break` taken when
// something else was found), the boolean that leaves through that exit has
// only seen the elements up to there. For every loop with such an accumulator
// whose value is used after the loop: on each exit other than the loop
// condition, the exit is taken on (or below) the true edge of a test of the
// accumulator itself — the scan stopped because the answer is known.
func runAnyScanRule(c *Ctx, rule string, scope func(fn *ssa.Function) bool, min int) {
	p := c.P
	n := 0
	for _, fn := range p.ModuleSSAFuncs() {
		if fn.Origin() != nil || fn.Blocks == nil || !scope(fn) {
			continue
		}
		for _, h := range fn.Blocks {
			// natural loop of header h
			body := map[*ssa.BasicBlock]bool{}
			for _, pr := range h.Preds {
				if !h.Dominates(pr) {
					continue
				}
				// blocks that reach pr without passing h
				var stack []*ssa.BasicBlock
				if !body[pr] {
					body[pr] = true
					stack = append(stack, pr)
				}
				for len(stack) > 0 {
					b := stack[len(stack)-1]
					stack = stack[:len(stack)-1]
					if b == h {
						continue
					}
					for _, q := range b.Preds {
						if !body[q] && h.Dominates(q) {
							body[q] = true
							stack = append(stack, q)
						}
					}
				}
			}
			if len(body) == 0 {
				continue
			}
			body[h] = true
			for _, ins := range h.Instrs {
				acc, ok := ins.(*ssa.Phi)
				if !ok {
					break
				}
				if !isBoolType(acc.Type()) {
					continue
				}
				startsFalse, fedInLoop := false, false
				for i, e := range acc.Edges {
					if body[h.Preds[i]] {
						if _, isConst := e.(*ssa.Const); !isConst {
							fedInLoop = true
						}
					} else if k, ok := e.(*ssa.Const); ok && isZeroConst(k) {
						startsFalse = true
					}
				}
				if !startsFalse || !fedInLoop {
					continue
				}
				// values derived from the accumulator inside the loop (merges of it)
				derived := map[ssa.Value]bool{acc: true}
				// what is fed back is the accumulator of the next round (with `a || x`
				// the dependence on a is a branch, the merged value lists constants)
				for i, e := range acc.Edges {
					if _, isConst := e.(*ssa.Const); body[h.Preds[i]] && !isConst {
						derived[e] = true
					}
				}
				for changed := true; changed; {
					changed = false
					for b := range body {
						for _, i2 := range b.Instrs {
							ph, ok := i2.(*ssa.Phi)
							if !ok {
								break
							}
							if derived[ph] {
								continue
							}
							for _, e := range ph.Edges {
								if derived[e] {
									derived[ph] = true
									changed = true
								}
							}
						}
					}
				}
				// what leaves the loop through exits other than the header
				examined := false
				bad := ""
				for b := range body {
					for _, s := range b.Succs {
						if body[s] {
							continue
						}
						// a break runs through a block of its own before it joins the code after the loop
						join, from := s, b
						for steps := 0; steps < 4 && len(join.Succs) == 1; steps++ {
							if _, isPhi := join.Instrs[0].(*ssa.Phi); isPhi {
								break
							}
							from, join = join, join.Succs[0]
						}
						for _, i2 := range join.Instrs {
							ph, ok := i2.(*ssa.Phi)
							if !ok {
								break
							}
							for k, e := range ph.Edges {
								if join.Preds[k] != from || !derived[e] {
									continue
								}
								examined = true
								// the exit is taken because the flag is known to be true: on the
								// true edge of a test of the flag, or below such an edge
								knownTrue := false
								if ifi, ok := b.Instrs[len(b.Instrs)-1].(*ssa.If); ok && derived[ifi.Cond] && b.Succs[0] == s {
									knownTrue = true
								}
								for _, tb := range fn.Blocks {
									if len(tb.Instrs) == 0 || !body[tb] {
										continue
									}
									if ifi, ok := tb.Instrs[len(tb.Instrs)-1].(*ssa.If); ok && derived[ifi.Cond] {
										if t := tb.Succs[0]; len(t.Preds) == 1 && t.Dominates(b) {
											knownTrue = true
										}
									}
								}
								// the loop's own continuation test: the header, or a block that
								// also holds the back edge (rotated loops test at the bottom)
								ownTest := b == h
								for _, s2 := range b.Succs {
									if s2 == h {
										ownTest = true
									}
								}
								if !ownTest && !knownTrue {
									bad = p.Pos(b.Instrs[len(b.Instrs)-1].Pos())
									if bad == "-" || bad == "" {
										bad = p.Pos(ph.Pos())
									}
								}
							}
						}
					}
				}
				if !examined {
					continue
				}
				n++
				c.Check(rule, FuncKey(fn)+": an any-element flag leaves its loop only where the scan is complete or the flag is true", acc.Pos(), bad == "",
					FuncKey(fn)+" accumulates a boolean over the elements of a loop that can also be left early ("+bad+") while the boolean may still be false: the elements after that exit are never looked at, so the flag says \"none\" for a sequence whose later elements have the property (null pages after the first page with values)")
			}
		}
	}
	c.Stats[rule+".accumulators"] = n
	c.Min(rule, min)
}

func isBoolType(t interface{ String() string }) bool { return t.String() == "bool" }
