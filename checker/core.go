package main

import (
	"fmt"
	"go/ast"
	"go/token"
	"go/types"
	"os"
	"path/filepath"
	"sort"
	"strings"
	"time"

	"golang.org/x/tools/go/callgraph"
	"golang.org/x/tools/go/callgraph/cha"
	"golang.org/x/tools/go/callgraph/vta"
	"golang.org/x/tools/go/packages"
	"golang.org/x/tools/go/ssa"
	"golang.org/x/tools/go/ssa/ssautil"
)

const modPath = "github.com/parquet-go/parquet-go"

// BuildConfig is one of the configurations of DESIGN.md §2.2.
type BuildConfig struct {
	Name   string
	GOARCH string
	Tags   string
}

var buildConfigs = []BuildConfig{
	{"amd64", "amd64", ""},
	{"amd64+purego", "amd64", "purego"},
	{"arm64", "arm64", ""},
	{"386", "386", ""},
	{"s390x", "s390x", ""},
}

func configByName(name string) (BuildConfig, bool) {
	for _, c := range buildConfigs {
		if c.Name == name {
			return c, true
		}
	}
	return BuildConfig{}, false
}

// Prog is the resolved program all rules work on.
type Prog struct {
	Repo    string
	Config  BuildConfig
	Fset    *token.FileSet
	All     []*packages.Package          // every package incl. dependencies
	Mod     []*packages.Package          // packages of the module under analysis
	ByPath  map[string]*packages.Package // import path -> package
	Root    *packages.Package            // the parquet package
	SSA     *ssa.Program
	SSAPkgs map[string]*ssa.Package
	Funcs   map[*ssa.Function]bool // all functions incl. instantiations

	declOf    map[*types.Func]*ast.FuncDecl
	pkgOfDecl map[*ast.FuncDecl]*packages.Package
	fieldName map[*types.Var]string
	modFuncs  []*ssa.Function
	cgCHA     *callgraph.Graph
	cgVTA     *callgraph.Graph

	LoadSecs float64
	SSASecs  float64
}

func loadProg(repo string, cfg BuildConfig, needSSA bool) (*Prog, error) {
	t0 := time.Now()
	env := os.Environ()
	env = append(env, "GOOS=linux", "GOARCH="+cfg.GOARCH, "GOWORK=off", "GOFLAGS=-mod=mod", "GOPROXY=off")
	if cfg.GOARCH != "amd64" {
		env = append(env, "CGO_ENABLED=0")
	}
	pc := &packages.Config{
		Mode:  packages.LoadAllSyntax,
		Dir:   repo,
		Env:   env,
		Tests: false,
	}
	if cfg.Tags != "" {
		pc.BuildFlags = []string{"-tags=" + cfg.Tags}
	}
	roots, err := packages.Load(pc, "./...")
	if err != nil {
		return nil, fmt.Errorf("packages.Load: %w", err)
	}
	if len(roots) == 0 {
		return nil, fmt.Errorf("no packages loaded from %s", repo)
	}
	p := &Prog{Repo: repo, Config: cfg, ByPath: map[string]*packages.Package{}}
	var nerr int
	var firstErr string
	packages.Visit(roots, nil, func(pkg *packages.Package) {
		p.All = append(p.All, pkg)
		p.ByPath[pkg.PkgPath] = pkg
		if pkg.PkgPath == modPath || strings.HasPrefix(pkg.PkgPath, modPath+"/") {
			p.Mod = append(p.Mod, pkg)
			for _, e := range pkg.Errors {
				nerr++
				if firstErr == "" {
					firstErr = e.Error()
				}
			}
		}
	})
	if nerr > 0 {
		return nil, fmt.Errorf("%d load/type errors in module packages (config %s), first: %s", nerr, cfg.Name, firstErr)
	}
	sort.Slice(p.Mod, func(i, j int) bool { return p.Mod[i].PkgPath < p.Mod[j].PkgPath })
	p.Root = p.ByPath[modPath]
	if p.Root == nil {
		return nil, fmt.Errorf("root package %s not loaded", modPath)
	}
	p.Fset = p.Root.Fset
	p.LoadSecs = time.Since(t0).Seconds()

	p.declOf = map[*types.Func]*ast.FuncDecl{}
	p.pkgOfDecl = map[*ast.FuncDecl]*packages.Package{}
	p.fieldName = map[*types.Var]string{}
	for _, pkg := range p.Mod {
		for _, f := range pkg.Syntax {
			for _, d := range f.Decls {
				if fd, ok := d.(*ast.FuncDecl); ok {
					if obj, ok := pkg.TypesInfo.Defs[fd.Name].(*types.Func); ok {
						p.declOf[obj] = fd
						p.pkgOfDecl[fd] = pkg
					}
				}
			}
		}
		scope := pkg.Types.Scope()
		for _, n := range scope.Names() {
			tn, ok := scope.Lookup(n).(*types.TypeName)
			if !ok {
				continue
			}
			if st, ok := tn.Type().Underlying().(*types.Struct); ok {
				p.nameFields(shortPkg(pkg.PkgPath)+tn.Name(), st, 0)
			}
		}
	}

	if needSSA {
		t1 := time.Now()
		prog, _ := ssautil.AllPackages(roots, ssa.InstantiateGenerics)
		prog.Build()
		p.SSA = prog
		p.SSAPkgs = map[string]*ssa.Package{}
		for _, sp := range prog.AllPackages() {
			p.SSAPkgs[sp.Pkg.Path()] = sp
		}
		p.Funcs = ssautil.AllFunctions(prog)
		p.SSASecs = time.Since(t1).Seconds()
	}
	return p, nil
}

func shortPkg(path string) string {
	if path == modPath {
		return ""
	}
	return strings.TrimPrefix(path, modPath+"/") + "."
}

func (p *Prog) nameFields(prefix string, st *types.Struct, depth int) {
	for i := 0; i < st.NumFields(); i++ {
		f := st.Field(i)
		if _, dup := p.fieldName[f]; !dup {
			p.fieldName[f] = prefix + "." + f.Name()
		}
		// anonymous inline struct fields get dotted names
		if depth < 3 {
			if inner, ok := f.Type().(*types.Struct); ok {
				p.nameFields(prefix+"."+f.Name(), inner, depth+1)
			}
		}
	}
}

// FieldName gives "Type.field" for a field object of the module (origin of
// generic instantiations), or a position-based name for others.
func (p *Prog) FieldName(v *types.Var) string {
	v = v.Origin()
	if s, ok := p.fieldName[v]; ok {
		return s
	}
	if v.Pkg() != nil {
		return v.Pkg().Name() + ".?." + v.Name()
	}
	return "?." + v.Name()
}

// ---------------------------------------------------------------------------
// positions and names

// Pos renders a position relative to the repository root.
func (p *Prog) Pos(pos token.Pos) string {
	if !pos.IsValid() {
		return "-"
	}
	ps := p.Fset.Position(pos)
	rel, err := filepath.Rel(p.Repo, ps.Filename)
	if err != nil || strings.HasPrefix(rel, "..") {
		rel = ps.Filename
	}
	return fmt.Sprintf("%s:%d", rel, ps.Line)
}

func (p *Prog) File(pos token.Pos) string {
	ps := p.Fset.Position(pos)
	rel, err := filepath.Rel(p.Repo, ps.Filename)
	if err != nil || strings.HasPrefix(rel, "..") {
		return ps.Filename
	}
	return rel
}

// inModule reports whether the function's package belongs to the module.
func inModule(fn *ssa.Function) bool {
	pkg := fnPkg(fn)
	if pkg == nil {
		return false
	}
	return pkg.Path() == modPath || strings.HasPrefix(pkg.Path(), modPath+"/")
}

func fnPkg(fn *ssa.Function) *types.Package {
	if fn == nil {
		return nil
	}
	if fn.Pkg != nil {
		return fn.Pkg.Pkg
	}
	if o := fn.Origin(); o != nil && o.Pkg != nil {
		return o.Pkg.Pkg
	}
	if fn.Object() != nil {
		return fn.Object().Pkg()
	}
	if par := fn.Parent(); par != nil {
		return fnPkg(par)
	}
	return nil
}

// FuncKey is the construct key of a function: "pkg.(*Recv).Name" with the
// module prefix removed, generic instantiations folded onto their origin,
// anonymous functions named parent$N.
func FuncKey(fn *ssa.Function) string {
	if fn == nil {
		return "<nil>"
	}
	if o := fn.Origin(); o != nil {
		fn = o
	}
	if par := fn.Parent(); par != nil {
		return FuncKey(par) + "$" + strings.TrimPrefix(fn.Name(), par.Name()+"$")
	}
	pkg := fnPkg(fn)
	pp := ""
	if pkg != nil {
		pp = shortPkg(pkg.Path())
		if pkg.Path() != modPath && !strings.HasPrefix(pkg.Path(), modPath+"/") {
			pp = pkg.Path() + "."
		}
	}
	if recv := fn.Signature.Recv(); recv != nil {
		return pp + "(" + recvString(recv.Type()) + ")." + fn.Name()
	}
	return pp + fn.Name()
}

func recvString(t types.Type) string {
	star := ""
	if pt, ok := t.(*types.Pointer); ok {
		star = "*"
		t = pt.Elem()
	}
	if n, ok := t.(*types.Named); ok {
		return star + n.Obj().Name()
	}
	return star + t.String()
}

// ObjKey is FuncKey for a types.Func.
func ObjKey(f *types.Func) string {
	f = f.Origin()
	pp := ""
	if f.Pkg() != nil {
		pp = shortPkg(f.Pkg().Path())
		if f.Pkg().Path() != modPath && !strings.HasPrefix(f.Pkg().Path(), modPath+"/") {
			pp = f.Pkg().Path() + "."
		}
	}
	sig := f.Type().(*types.Signature)
	if recv := sig.Recv(); recv != nil {
		return pp + "(" + recvString(recv.Type()) + ")." + f.Name()
	}
	return pp + f.Name()
}

// ---------------------------------------------------------------------------
// lookups

// LookupFunc resolves "Name", "(*T).Name", "(T).Name", "sub/pkg.Name",
// "sub/pkg.(*T).Name" to the types.Func of the module. nil when absent.
func (p *Prog) LookupFunc(key string) *types.Func {
	pkg := p.Root
	rest := key
	if i := strings.Index(key, ".("); i >= 0 && !strings.HasPrefix(key, "(") {
		pkg = p.ByPath[modPath+"/"+key[:i]]
		rest = key[i+1:]
	} else if !strings.HasPrefix(key, "(") {
		if i := strings.LastIndex(key, "."); i >= 0 {
			pkg = p.ByPath[modPath+"/"+key[:i]]
			rest = key[i+1:]
		}
	}
	if pkg == nil {
		return nil
	}
	if strings.HasPrefix(rest, "(") {
		j := strings.Index(rest, ").")
		if j < 0 {
			return nil
		}
		tname := strings.TrimPrefix(rest[1:j], "*")
		mname := rest[j+2:]
		tn, ok := pkg.Types.Scope().Lookup(tname).(*types.TypeName)
		if !ok {
			return nil
		}
		named, ok := tn.Type().(*types.Named)
		if !ok {
			return nil
		}
		for i := 0; i < named.NumMethods(); i++ {
			if m := named.Method(i); m.Name() == mname {
				return m
			}
		}
		return nil
	}
	f, _ := pkg.Types.Scope().Lookup(rest).(*types.Func)
	return f
}

// Decl returns the syntax of a module function.
func (p *Prog) Decl(f *types.Func) *ast.FuncDecl {
	if f == nil {
		return nil
	}
	return p.declOf[f.Origin()]
}

func (p *Prog) PkgOfDecl(fd *ast.FuncDecl) *packages.Package { return p.pkgOfDecl[fd] }

// SSAFunc returns the (origin) ssa function for a types.Func.
func (p *Prog) SSAFunc(f *types.Func) *ssa.Function {
	if f == nil || p.SSA == nil {
		return nil
	}
	return p.SSA.FuncValue(f.Origin())
}

// Instances returns all ssa functions whose origin is fn (fn itself if not generic).
func (p *Prog) Instances(fn *ssa.Function) []*ssa.Function {
	var out []*ssa.Function
	for f := range p.Funcs {
		if f == fn || f.Origin() == fn {
			out = append(out, f)
		}
	}
	sort.Slice(out, func(i, j int) bool { return out[i].String() < out[j].String() })
	return out
}

// LookupType returns the named type "T" or "sub/pkg.T".
func (p *Prog) LookupType(key string) *types.Named {
	pkg := p.Root
	name := key
	if i := strings.LastIndex(key, "."); i >= 0 {
		pkg = p.ByPath[modPath+"/"+key[:i]]
		name = key[i+1:]
	}
	if pkg == nil {
		return nil
	}
	tn, ok := pkg.Types.Scope().Lookup(name).(*types.TypeName)
	if !ok {
		return nil
	}
	n, _ := tn.Type().(*types.Named)
	return n
}

// LookupField returns field `name` of struct type key.
func (p *Prog) LookupField(typeKey, name string) *types.Var {
	n := p.LookupType(typeKey)
	if n == nil {
		return nil
	}
	st, ok := n.Underlying().(*types.Struct)
	if !ok {
		return nil
	}
	for i := 0; i < st.NumFields(); i++ {
		if st.Field(i).Name() == name {
			return st.Field(i)
		}
	}
	return nil
}

// ModuleFuncDecls iterates all function declarations of module packages in a
// deterministic order.
func (p *Prog) ModuleFuncDecls(fn func(pkg *packages.Package, fd *ast.FuncDecl, obj *types.Func)) {
	for _, pkg := range p.Mod {
		for _, f := range pkg.Syntax {
			for _, d := range f.Decls {
				if fd, ok := d.(*ast.FuncDecl); ok {
					obj, _ := pkg.TypesInfo.Defs[fd.Name].(*types.Func)
					if obj != nil {
						fn(pkg, fd, obj)
					}
				}
			}
		}
	}
}

// ModuleSSAFuncs returns all source functions of the module (incl. anonymous
// functions, range-over-func bodies and generic instantiations) sorted by
// name. Functions are enumerated from the declarations, not from
// reachability: ssautil.AllFunctions omits methods of types that nothing
// references, which are source all the same.
func (p *Prog) ModuleSSAFuncs() []*ssa.Function {
	if p.modFuncs != nil {
		return p.modFuncs
	}
	set := map[*ssa.Function]bool{}
	var add func(f *ssa.Function)
	add = func(f *ssa.Function) {
		if f == nil || set[f] {
			return
		}
		set[f] = true
		for _, a := range f.AnonFuncs {
			add(a)
		}
	}
	for obj := range p.declOf {
		if f := p.SSA.FuncValue(obj); f != nil && f.Blocks != nil {
			add(f)
		}
	}
	// package initialisers
	for _, pkg := range p.Mod {
		if sp := p.SSAPkgs[pkg.PkgPath]; sp != nil {
			if f := sp.Func("init"); f != nil && f.Blocks != nil {
				add(f)
			}
		}
	}
	for f := range p.Funcs {
		if f.Blocks == nil || !inModule(f) {
			continue
		}
		// synthetic functions are wrappers and thunks without source of their
		// own, except instantiations and the bodies of range-over-func loops
		if f.Synthetic != "" && f.Origin() == nil && !strings.HasPrefix(f.Synthetic, "range-over-func") {
			continue
		}
		add(f)
	}
	var out []*ssa.Function
	for f := range set {
		out = append(out, f)
	}
	sort.Slice(out, func(i, j int) bool {
		a, b := out[i].String(), out[j].String()
		if a != b {
			return a < b
		}
		return out[i].Pos() < out[j].Pos()
	})
	p.modFuncs = out
	return out
}

// Implementations returns the named (module) types whose method set (of T or
// *T) includes every method of iface; ptr tells whether only *T implements.
func (p *Prog) Implementations(iface *types.Interface) []types.Type {
	var out []types.Type
	for _, pkg := range p.Mod {
		scope := pkg.Types.Scope()
		for _, n := range scope.Names() {
			tn, ok := scope.Lookup(n).(*types.TypeName)
			if !ok || tn.IsAlias() {
				continue
			}
			named, ok := tn.Type().(*types.Named)
			if !ok || types.IsInterface(named) {
				continue
			}
			if named.TypeParams().Len() > 0 {
				// instantiate with its own type parameters is not possible in
				// general; test the generic type through method lookup instead.
				if implementsByLookup(named, iface) {
					out = append(out, named)
				}
				continue
			}
			if types.Implements(named, iface) {
				out = append(out, named)
			} else if types.Implements(types.NewPointer(named), iface) {
				out = append(out, types.NewPointer(named))
			}
		}
	}
	return out
}

func implementsByLookup(named *types.Named, iface *types.Interface) bool {
	ms := types.NewMethodSet(types.NewPointer(named))
	for i := 0; i < iface.NumMethods(); i++ {
		m := iface.Method(i)
		if ms.Lookup(m.Pkg(), m.Name()) == nil {
			return false
		}
	}
	return iface.NumMethods() > 0
}

// MethodOf resolves method `name` in the method set of t (T or *T),
// following promotion through embedded fields. It returns the concrete
// function and whether it was promoted.
func MethodOf(t types.Type, name string) (*types.Func, bool) {
	ms := types.NewMethodSet(t)
	for i := 0; i < ms.Len(); i++ {
		sel := ms.At(i)
		if sel.Obj().Name() == name {
			f, _ := sel.Obj().(*types.Func)
			return f, len(sel.Index()) > 1
		}
	}
	if _, ok := t.(*types.Pointer); !ok {
		return MethodOf(types.NewPointer(t), name)
	}
	return nil, false
}

// ---------------------------------------------------------------------------
// call graph

func (p *Prog) CHA() *callgraph.Graph {
	if p.cgCHA == nil {
		p.cgCHA = cha.CallGraph(p.SSA)
	}
	return p.cgCHA
}

func (p *Prog) VTA() *callgraph.Graph {
	if p.cgVTA == nil {
		p.cgVTA = vta.CallGraph(p.Funcs, p.CHA())
	}
	return p.cgVTA
}

// Graph returns the call graph of the tier: CHA for quick, VTA for thorough.
func (p *Prog) Graph(thorough bool) *callgraph.Graph {
	if thorough {
		return p.VTA()
	}
	return p.CHA()
}

// Reachable computes the set of functions reachable from the entries in g,
// not traversing into functions for which stop returns true.
func Reachable(g *callgraph.Graph, entries []*ssa.Function, stop func(*ssa.Function) bool) map[*ssa.Function]*ssa.Function {
	parent := map[*ssa.Function]*ssa.Function{}
	var work []*ssa.Function
	for _, e := range entries {
		if e == nil {
			continue
		}
		if _, ok := parent[e]; !ok {
			parent[e] = nil
			work = append(work, e)
		}
	}
	for len(work) > 0 {
		f := work[len(work)-1]
		work = work[:len(work)-1]
		n := g.Nodes[f]
		if n == nil {
			continue
		}
		for _, e := range n.Out {
			c := e.Callee.Func
			if _, seen := parent[c]; seen {
				continue
			}
			if stop != nil && stop(c) {
				continue
			}
			parent[c] = f
			work = append(work, c)
		}
	}
	return parent
}

// PathTo renders the call path entry -> ... -> fn recorded by Reachable.
func PathTo(parent map[*ssa.Function]*ssa.Function, fn *ssa.Function) string {
	var parts []string
	for f := fn; f != nil; f = parent[f] {
		parts = append(parts, FuncKey(f))
		if len(parts) > 40 {
			break
		}
	}
	for i, j := 0, len(parts)-1; i < j; i, j = i+1, j-1 {
		parts[i], parts[j] = parts[j], parts[i]
	}
	return strings.Join(parts, " -> ")
}
