package main

import (
	"go/token"
	"go/types"
	"sort"
	"strings"

	"golang.org/x/tools/go/ssa"
)

// T-BORROWED — a struct field of type []Row that receives rows of a []Row
// parameter (appended or copied one header at a time) holds borrowed rows: the
// headers are the library's, the Values behind them belong to whoever passed
// the rows. Through such a field the library may reorder and drop headers
// (`f[i] = Row{}`, `f = f[:0]`), never write the Values: no store through an
// element of an element, no clear/copy into an element, no call of a function
// that does either.

func isRowSlice(t types.Type) bool {
	sl, ok := t.Underlying().(*types.Slice)
	if !ok {
		return false
	}
	n := namedOf(sl.Elem())
	if n == nil || n.Obj().Name() != "Row" {
		return false
	}
	_, inner := n.Underlying().(*types.Slice)
	return inner
}

// sliceFrom: v is `base`, a sub-slice or a phi of them, where base satisfies is.
func sliceFrom(v ssa.Value, is func(ssa.Value) bool, seen map[ssa.Value]bool) bool {
	if v == nil || seen[v] {
		return false
	}
	seen[v] = true
	if is(v) {
		return true
	}
	switch x := v.(type) {
	case *ssa.Slice:
		return sliceFrom(x.X, is, seen)
	case *ssa.Phi:
		for _, e := range x.Edges {
			if sliceFrom(e, is, seen) {
				return true
			}
		}
	case *ssa.ChangeType:
		return sliceFrom(x.X, is, seen)
	}
	return false
}

// elementOf: v is an element (a Row) read out of a slice satisfying is.
func elementOf(v ssa.Value, is func(ssa.Value) bool, seen map[ssa.Value]bool) bool {
	if v == nil || seen[v] {
		return false
	}
	seen[v] = true
	switch x := v.(type) {
	case *ssa.UnOp:
		if x.Op == token.MUL {
			if ia, ok := x.X.(*ssa.IndexAddr); ok {
				return sliceFrom(ia.X, is, map[ssa.Value]bool{})
			}
		}
	case *ssa.Index:
		return sliceFrom(x.X, is, map[ssa.Value]bool{})
	case *ssa.Slice:
		return elementOf(x.X, is, seen)
	case *ssa.Phi:
		for _, e := range x.Edges {
			if elementOf(e, is, seen) {
				return true
			}
		}
	case *ssa.ChangeType:
		return elementOf(x.X, is, seen)
	}
	return false
}

type deepWriteSummaries struct {
	elem *paramWriteSummaries
	memo map[*ssa.Function]map[int]string
	busy map[*ssa.Function]bool
}

// deepWrites lists what fn does to the Values behind the rows of a []Row
// value satisfying is.
func (s *deepWriteSummaries) deepWrites(p *Prog, fn *ssa.Function, is func(ssa.Value) bool, depth int) []string {
	var out []string
	isElem := func(v ssa.Value) bool { return elementOf(v, is, map[ssa.Value]bool{}) }
	allInstrs(fn, false, func(_ *ssa.Function, ins ssa.Instruction) {
		switch x := ins.(type) {
		case *ssa.Store:
			// row[j] = …, row[j].field = …
			a := x.Addr
			for d := 0; d < 6; d++ {
				switch y := a.(type) {
				case *ssa.FieldAddr:
					a = y.X
					continue
				case *ssa.IndexAddr:
					if isElem(y.X) {
						out = append(out, "store into a value of a borrowed row at "+p.Pos(x.Pos()))
					}
				}
				break
			}
		}
		call, ok := ins.(ssa.CallInstruction)
		if !ok {
			return
		}
		cc := call.Common()
		if b, isB := cc.Value.(*ssa.Builtin); isB {
			if (b.Name() == "clear" || b.Name() == "copy") && len(cc.Args) > 0 && isElem(cc.Args[0]) {
				out = append(out, b.Name()+" into a borrowed row at "+p.Pos(call.Pos()))
			}
			return
		}
		callee := cc.StaticCallee()
		if callee == nil || !inModule(callee) || callee.Blocks == nil {
			return
		}
		for i, a := range cc.Args {
			if i >= len(callee.Params) {
				break
			}
			if isElem(a) && len(s.elem.of(callee, 0)[i]) > 0 {
				out = append(out, FuncKey(callee)+" writes the values of the row it is given, at "+p.Pos(call.Pos()))
			}
			if isRowSlice(a.Type()) && sliceFrom(a, is, map[ssa.Value]bool{}) {
				if why := s.param(p, callee, i, depth+1); why != "" {
					out = append(out, FuncKey(callee)+" ("+why+") at "+p.Pos(call.Pos()))
				}
			}
		}
	})
	return out
}

func (s *deepWriteSummaries) param(p *Prog, fn *ssa.Function, i int, depth int) string {
	if m, ok := s.memo[fn]; ok {
		if why, ok := m[i]; ok {
			return why
		}
	} else {
		s.memo[fn] = map[int]string{}
	}
	if s.busy[fn] || depth > 3 || i >= len(fn.Params) {
		return ""
	}
	s.busy[fn] = true
	defer func() { s.busy[fn] = false }()
	par := fn.Params[i]
	ws := s.deepWrites(p, fn, func(v ssa.Value) bool { return v == ssa.Value(par) }, depth)
	why := ""
	if len(ws) > 0 {
		why = ws[0]
	}
	s.memo[fn][i] = why
	return why
}

func runBorrowedRowsRule(c *Ctx, rule string, min int) {
	p := c.P
	// fields that receive rows of a parameter
	borrowed := map[*types.Var]string{}
	for _, fn := range p.ModuleSSAFuncs() {
		if fn.Origin() != nil || fn.Blocks == nil || fnPkgPath(fn) != modPath {
			continue
		}
		top := fn
		for top.Parent() != nil {
			top = top.Parent()
		}
		var pars []*ssa.Parameter
		for pi, par := range top.Params {
			if top.Signature.Recv() != nil && pi == 0 {
				continue
			}
			if isRowSlice(par.Type()) {
				pars = append(pars, par)
			}
		}
		if len(pars) == 0 || fn != top {
			continue
		}
		fromParam := func(v ssa.Value) *ssa.Parameter {
			for _, par := range pars {
				is := func(x ssa.Value) bool { return x == ssa.Value(par) }
				if sliceFrom(v, is, map[ssa.Value]bool{}) || elementOf(v, is, map[ssa.Value]bool{}) {
					return par
				}
			}
			return nil
		}
		allInstrs(fn, false, func(_ *ssa.Function, ins ssa.Instruction) {
			st, ok := ins.(*ssa.Store)
			if !ok {
				return
			}
			fa, ok := st.Addr.(*ssa.FieldAddr)
			if !ok || !isRowSlice(st.Val.Type()) {
				return
			}
			fields, _, elem := fieldChain(fa)
			if len(fields) == 0 || elem {
				return
			}
			f := fields[len(fields)-1]
			// f = append(f…, rows...) / append(f, row)
			call, ok := st.Val.(*ssa.Call)
			if !ok {
				return
			}
			if bi, isB := call.Call.Value.(*ssa.Builtin); !isB || bi.Name() != "append" || len(call.Call.Args) < 2 {
				return
			}
			src := call.Call.Args[1]
			var par *ssa.Parameter
			if par = fromParam(src); par == nil {
				// append(f, row): the variadic slice is a fresh one-element array
				if sl, ok := src.(*ssa.Slice); ok {
					if al, ok := sl.X.(*ssa.Alloc); ok {
						for _, r := range *al.Referrers() {
							if ia, ok := r.(*ssa.IndexAddr); ok {
								for _, rr := range *ia.Referrers() {
									if s2, ok := rr.(*ssa.Store); ok && s2.Addr == ssa.Value(ia) {
										if pp := fromParam(s2.Val); pp != nil {
											par = pp
										}
									}
								}
							}
						}
					}
				}
			}
			if par != nil {
				borrowed[f] = "filled by " + FuncKey(fn) + " from its parameter " + par.Name()
			}
		})
	}
	sum := &deepWriteSummaries{elem: &paramWriteSummaries{memo: map[*ssa.Function]map[int][]chainWrite{}, busy: map[*ssa.Function]bool{}}, memo: map[*ssa.Function]map[int]string{}, busy: map[*ssa.Function]bool{}}
	var fields []*types.Var
	for f := range borrowed {
		fields = append(fields, f)
	}
	sort.Slice(fields, func(i, j int) bool { return p.FieldName(fields[i]) < p.FieldName(fields[j]) })
	for _, f := range fields {
		is := func(v ssa.Value) bool {
			f2, _, _ := bufVarOf(v)
			return f2 == f
		}
		var probs []string
		for _, fn := range p.ModuleSSAFuncs() {
			if fn.Origin() != nil || fn.Blocks == nil || fnPkgPath(fn) != modPath {
				continue
			}
			probs = append(probs, sum.deepWrites(p, fn, is, 0)...)
		}
		sort.Strings(probs)
		c.Check(rule, "the values of the rows held in "+p.FieldName(f)+" are not written", f.Pos(), len(probs) == 0, p.FieldName(f)+" holds rows borrowed from a caller ("+borrowed[f]+") and the library writes the values behind them: "+strings.Join(probs, "; ")+". The rows the caller passed are changed after the call")
	}
	c.Min(rule, min)
}

// runRetainedRowRule — a single Row kept in a struct field from one call to
// the next (the last row a dedupe saw) outlives the rows it was taken from:
// the reader contract lets their owner reuse the bytes behind them on the next
// call. Such a field is filled with cloned values, never with a shallow append
// of a row that derives from a []Row parameter.
func runRetainedRowRule(c *Ctx, rule string, min int) {
	p := c.P
	isRow := func(t types.Type) bool {
		n := namedOf(t)
		if n == nil || n.Obj().Name() != "Row" {
			return false
		}
		_, ok := n.Underlying().(*types.Slice)
		return ok
	}
	n := 0
	for _, fn := range p.ModuleSSAFuncs() {
		if fn.Origin() != nil || fn.Blocks == nil || fn.Parent() != nil || fnPkgPath(fn) != modPath {
			continue
		}
		var pars []*ssa.Parameter
		for pi, par := range fn.Params {
			if fn.Signature.Recv() != nil && pi == 0 {
				continue
			}
			if isRowSlice(par.Type()) {
				pars = append(pars, par)
			}
		}
		if len(pars) == 0 {
			continue
		}
		fromRows := func(v ssa.Value) bool {
			for _, par := range pars {
				is := func(x ssa.Value) bool { return x == ssa.Value(par) }
				if elementOf(v, is, map[ssa.Value]bool{}) {
					return true
				}
			}
			return false
		}
		k := 0
		allInstrs(fn, false, func(_ *ssa.Function, ins ssa.Instruction) {
			st, ok := ins.(*ssa.Store)
			if !ok || !isRow(st.Val.Type()) {
				return
			}
			fa, ok := st.Addr.(*ssa.FieldAddr)
			if !ok {
				return
			}
			fields, _, elem := fieldChain(fa)
			if len(fields) == 0 || elem {
				return
			}
			f := fields[len(fields)-1]
			n++
			k++
			shallow := false
			for _, o := range Origins(st.Val, OriginOpts{}) {
				if o.Kind != OrgCall {
					continue
				}
				call, ok := o.Call.(*ssa.Call)
				if !ok {
					continue
				}
				if bi, isB := call.Call.Value.(*ssa.Builtin); isB && bi.Name() == "append" && len(call.Call.Args) == 2 && fromRows(call.Call.Args[1]) {
					shallow = true
				}
			}
			if fromRows(st.Val) {
				shallow = true
			}
			c.Check(rule, FuncKey(fn)+" keeps a copy of its own in "+p.FieldName(f)+"#"+itoa(k), st.Pos(), !shallow, FuncKey(fn)+" keeps in "+p.FieldName(f)+" a row (or a shallow copy of a row) of its []Row parameter: its byte array values point into memory the owner of those rows may reuse before the field is read again")
		})
	}
	c.Min(rule, min)
}
