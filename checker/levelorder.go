package main

import (
	"go/token"
	"strings"

	"golang.org/x/tools/go/ssa"
)

// T-LEVELORDER: a column with a repetition level always has a definition
// level too, so wherever the code chooses between the repeated, the optional
// and the required form of a column, the test of the maximum repetition level
// comes first. A repetition test that can only be reached through the
// "definition level is zero" edge, or only through the "definition level is
// positive" edge of an exclusive choice that has already selected the
// optional form, never selects the repeated form.

func levelTest(v ssa.Value) (kind string, positiveIsTrue bool) {
	b, ok := v.(*ssa.BinOp)
	if !ok {
		return "", false
	}
	var side ssa.Value
	switch {
	case isZeroConst(b.Y):
		side = b.X
	case isZeroConst(b.X):
		side = b.Y
	default:
		return "", false
	}
	switch b.Op {
	case token.GTR, token.NEQ, token.LSS:
		positiveIsTrue = true
	case token.EQL, token.LEQ, token.GEQ:
		positiveIsTrue = false
	default:
		return "", false
	}
	for {
		switch x := side.(type) {
		case *ssa.Convert:
			side = x.X
			continue
		case *ssa.ChangeType:
			side = x.X
			continue
		}
		break
	}
	u, ok := side.(*ssa.UnOp)
	if !ok || u.Op != token.MUL {
		return "", false
	}
	fa, ok := u.X.(*ssa.FieldAddr)
	if !ok {
		return "", false
	}
	stt := structOf(fa.X.Type())
	if stt == nil {
		return "", false
	}
	switch strings.ToLower(stt.Field(fa.Field).Name()) {
	case "maxrepetitionlevel":
		return "rep", positiveIsTrue
	case "maxdefinitionlevel":
		return "def", positiveIsTrue
	}
	return "", false
}

func runLevelOrderRule(c *Ctx, rule string, min int) {
	p := c.P
	n := 0
	for _, fn := range p.ModuleSSAFuncs() {
		if fn.Origin() != nil || fn.Blocks == nil || fnPkgPath(fn) != modPath {
			continue
		}
		type test struct {
			ifi *ssa.If
			pos bool
		}
		var reps, defs []test
		for _, b := range fn.Blocks {
			if len(b.Instrs) == 0 {
				continue
			}
			ifi, ok := b.Instrs[len(b.Instrs)-1].(*ssa.If)
			if !ok {
				continue
			}
			switch k, pos := levelTest(ifi.Cond); k {
			case "rep":
				reps = append(reps, test{ifi, pos})
			case "def":
				defs = append(defs, test{ifi, pos})
			}
		}
		if len(reps) == 0 || len(defs) == 0 {
			continue
		}
		for _, r := range reps {
			// the exclusive choices: a definition test on the "not repeated" edge of this test
			exclusive := false
			notRep := r.ifi.Block().Succs[1]
			if !r.pos {
				notRep = r.ifi.Block().Succs[0]
			}
			shadowed := ""
			for _, d := range defs {
				if len(notRep.Preds) == 1 && notRep.Dominates(d.ifi.Block()) {
					exclusive = true
				}
				// the repetition test sits on the "no definition level" edge of d
				zero := d.ifi.Block().Succs[1]
				if !d.pos {
					zero = d.ifi.Block().Succs[0]
				}
				if len(zero.Preds) == 1 && zero.Dominates(r.ifi.Block()) {
					shadowed = p.Pos(d.ifi.Cond.Pos())
				}
			}
			if !exclusive && shadowed == "" {
				continue
			}
			n++
			c.Check(rule, FuncKey(fn)+": the repeated form of a column is chosen before the optional one", r.ifi.Cond.Pos(), shadowed == "",
				FuncKey(fn)+" tests the maximum repetition level only where the definition level is already known to be zero (test at "+shadowed+"): a repeated column always has a definition level, so it is handled as an optional one — its repetition levels are neither buffered nor written, and the pages cannot be read back")
		}
	}
	c.Min(rule, min)
}
