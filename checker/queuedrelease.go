package main

import (
	"go/token"
	"strings"

	"golang.org/x/tools/go/ssa"
)

// T-QUEUEDRELEASE — a function that queues a buffer for later (stores it, and
// the closure that releases it, in a struct appended to a slice field) no
// longer owns it: it neither defers the release — a deferred call also runs
// on the exit that follows the queueing — nor releases it on a path after the
// append. Releases on the failing exits before the append are what the
// function is expected to do.
// queuedByAppend: the values stored in the fields of a struct literal that the
// call appends to a slice held in a field (nil when the call is not such an append).
func queuedByAppend(app *ssa.Call) []ssa.Value {
	bi, ok := app.Call.Value.(*ssa.Builtin)
	if !ok || bi.Name() != "append" || len(app.Call.Args) != 2 {
		return nil
	}
	if fs, _, _ := fieldChain(app.Call.Args[0]); len(fs) == 0 {
		return nil
	}
	sl, ok := app.Call.Args[1].(*ssa.Slice)
	if !ok {
		return nil
	}
	arr, ok := sl.X.(*ssa.Alloc)
	if !ok {
		return nil
	}
	var bases []ssa.Value
	for _, ref := range *arr.Referrers() {
		ia, ok := ref.(*ssa.IndexAddr)
		if !ok {
			continue
		}
		bases = append(bases, ia)
		for _, r2 := range *ia.Referrers() {
			if st, ok := r2.(*ssa.Store); ok && st.Addr == ssa.Value(ia) {
				if u, ok := st.Val.(*ssa.UnOp); ok && u.Op == token.MUL {
					if tmp, ok := u.X.(*ssa.Alloc); ok {
						bases = append(bases, tmp)
					}
				}
			}
		}
	}
	var out []ssa.Value
	for _, base := range bases {
		if base.Referrers() == nil {
			continue
		}
		for _, r2 := range *base.Referrers() {
			fa, ok := r2.(*ssa.FieldAddr)
			if !ok {
				continue
			}
			for _, r3 := range *fa.Referrers() {
				if st, ok := r3.(*ssa.Store); ok && st.Addr == ssa.Value(fa) {
					v := st.Val
					if mi, ok := v.(*ssa.MakeInterface); ok {
						v = mi.X
					}
					out = append(out, v)
				}
			}
		}
	}
	return out
}

func runQueuedReleaseRule(c *Ctx, rule string, min int) {
	p := c.P
	n := 0
	cellOf := func(v ssa.Value) ssa.Value {
		if u, ok := v.(*ssa.UnOp); ok && u.Op == token.MUL {
			if _, isAlloc := u.X.(*ssa.Alloc); isAlloc {
				return u.X
			}
		}
		return v
	}
	// helpers that queue their parameters: function -> indexes of the parameters queued
	queues := map[*ssa.Function][]int{}
	for _, g := range p.ModuleSSAFuncs() {
		if g.Origin() != nil || g.Blocks == nil || fnPkgPath(g) != modPath {
			continue
		}
		allInstrs(g, false, func(_ *ssa.Function, ins ssa.Instruction) {
			app, ok := ins.(*ssa.Call)
			if !ok {
				return
			}
			for _, v := range queuedByAppend(app) {
				for k, prm := range g.Params {
					if v == ssa.Value(prm) {
						queues[g] = append(queues[g], k)
					}
				}
			}
		})
	}
	for _, fn := range p.ModuleSSAFuncs() {
		if fn.Origin() != nil || fn.Blocks == nil || fnPkgPath(fn) != modPath {
			continue
		}
		allInstrs(fn, false, func(_ *ssa.Function, ins ssa.Instruction) {
			app, ok := ins.(*ssa.Call)
			if !ok {
				return
			}
			// the queueing point: an append of a literal, or a call of a helper that does it
			vals := queuedByAppend(app)
			if vals == nil {
				if callee := app.Call.StaticCallee(); callee != nil && len(queues[callee]) > 0 {
					for _, k := range queues[callee] {
						if k < len(app.Call.Args) {
							v := app.Call.Args[k]
							if mi, ok := v.(*ssa.MakeInterface); ok {
								v = mi.X
							}
							vals = append(vals, v)
						}
					}
				}
			}
			if len(vals) == 0 {
				return
			}
			queued := map[ssa.Value]bool{}
			releases := false
			for _, v := range vals {
				queued[cellOf(v)] = true
				queued[v] = true
				if mc, ok := v.(*ssa.MakeClosure); ok {
					allCalls(mc.Fn.(*ssa.Function), false, func(_ *ssa.Function, c2 ssa.CallInstruction) {
						if strings.HasSuffix(calleeName(c2), ".PutBuffer") || strings.HasSuffix(calleeName(c2), ".Put") {
							releases = true
						}
					})
				}
			}
			if !releases {
				return
			}
			n++
			isRelease := func(call ssa.CallInstruction) bool {
				cc := call.Common()
				if queued[cc.Value] || queued[cellOf(cc.Value)] {
					return true // calling the queued release closure
				}
				name := calleeName(call)
				if strings.HasSuffix(name, ".PutBuffer") || strings.HasSuffix(name, ".Put") {
					for _, a := range cc.Args {
						if mi, ok := a.(*ssa.MakeInterface); ok {
							a = mi.X
						}
						if queued[a] || queued[cellOf(a)] {
							return true
						}
					}
				}
				return false
			}
			// the queued values are defined anew in every iteration of an enclosing
			// loop: a path that passes their definition again is about another buffer
			defBlocks := map[*ssa.BasicBlock]bool{}
			for q := range queued {
				if ins, ok := q.(ssa.Instruction); ok && ins.Block() != nil && ins.Block() != app.Block() {
					defBlocks[ins.Block()] = true
				}
			}
			bad := ""
			reach := reachableAvoidingSet(app.Block(), defBlocks, nil)
			allCalls(fn, false, func(_ *ssa.Function, call ssa.CallInstruction) {
				ci, _ := call.(ssa.Instruction)
				if ci == nil || !isRelease(call) {
					return
				}
				if _, isDefer := call.(*ssa.Defer); isDefer {
					// runs at every exit after it was registered, the one after the append included
					fromDefer := map[*ssa.BasicBlock]bool{}
					for _, sc := range ci.Block().Succs {
						for b := range reachableAvoidingSet(sc, defBlocks, nil) {
							fromDefer[b] = true
						}
						fromDefer[sc] = !defBlocks[sc]
					}
					if ci.Block() == app.Block() || fromDefer[app.Block()] {
						bad = "deferred at " + p.Pos(call.Pos())
					}
					return
				}
				if ci.Block() == app.Block() {
					if dominates(ssa.Instruction(app), ci) {
						bad = "called at " + p.Pos(call.Pos())
					}
				} else if reach[ci.Block()] {
					bad = "called at " + p.Pos(call.Pos())
				}
			})
			c.Check(rule, FuncKey(fn)+": a buffer queued with its release is not released by the function that queues it", app.Pos(), bad == "",
				FuncKey(fn)+" queues the buffer and its release ("+p.Pos(app.Pos())+") and also releases it itself ("+bad+"), on a path that passes the queueing: the buffer goes back to its pool while the queue still refers to it, and what is written from the queue later is empty or belongs to whoever got the buffer next")
		})
	}
	c.Min(rule, min)
}
