package main

import (
	"go/token"
	"go/types"
	"sort"
	"strings"

	"golang.org/x/tools/go/ssa"
)

// T-SLICEKEEP — Slice and Clone of a page return a page of the same kind over
// fewer (or copied) values: when the method builds the result as a literal of
// its own receiver type, the literal sets every field of the type. A field that
// is left out silently takes its zero value in the result (the maximum
// definition level of the column: the sliced page then reports no levels).
func runSliceKeepRule(c *Ctx, rule string, min int) {
	p := c.P
	n := 0
	for _, fn := range p.ModuleSSAFuncs() {
		if fn.Origin() != nil || fn.Blocks == nil || fn.Parent() != nil || fnPkgPath(fn) != modPath || fn.Signature.Recv() == nil {
			continue
		}
		if fn.Name() != "Slice" && fn.Name() != "Clone" {
			continue
		}
		named := namedOf(fn.Signature.Recv().Type())
		st := structOf(fn.Signature.Recv().Type())
		if named == nil || st == nil || st.NumFields() == 0 {
			continue
		}
		// column buffers carry scratch that a clone rightly starts without
		if cb := p.LookupType("ColumnBuffer"); cb != nil {
			if iface, ok := cb.Underlying().(*types.Interface); ok && (types.Implements(types.NewPointer(named), iface) || types.Implements(named, iface)) {
				continue
			}
		}
		k := 0
		for _, b := range fn.Blocks {
			for _, ins := range b.Instrs {
				al, ok := ins.(*ssa.Alloc)
				if !ok {
					continue
				}
				an := namedOf(al.Type())
				if an == nil || an.Obj() != named.Obj() {
					continue
				}
				if _, isPtr := al.Type().Underlying().(*types.Pointer); !isPtr {
					continue
				}
				set := map[int]bool{}
				whole := false
				for _, r := range *al.Referrers() {
					switch x := r.(type) {
					case *ssa.FieldAddr:
						for _, rr := range *x.Referrers() {
							switch y := rr.(type) {
							case *ssa.Store:
								if y.Addr == ssa.Value(x) {
									set[x.Field] = true
								}
							case ssa.CallInstruction:
								// filled through a method of the field (values.Append(…))
								for _, a := range y.Common().Args {
									if a == ssa.Value(x) {
										set[x.Field] = true
									}
								}
							}
						}
					case *ssa.Store:
						if x.Addr == ssa.Value(al) {
							whole = true // *new = *p: a copy of the receiver
						}
					}
				}
				if whole || len(set) == 0 {
					continue
				}
				n++
				k++
				var missing []string
				for i := 0; i < st.NumFields(); i++ {
					if !set[i] {
						missing = append(missing, st.Field(i).Name())
					}
				}
				sort.Strings(missing)
				c.Check(rule, FuncKey(fn)+" carries every field of the page into its result#"+itoa(k), al.Pos(), len(missing) == 0, FuncKey(fn)+" builds its result as a "+named.Obj().Name()+" literal that leaves out "+strings.Join(missing, ", ")+": the field is zero in the slice or clone although it describes the column, not the values (a page that forgets its maximum definition level reports no levels)")
			}
		}
	}
	c.Min(rule, min)
}

// runViewStateRule — when Slice computes an integer field of the page it
// returns (the bit offset of a sliced boolean page, its number of values)
// instead of copying it from the receiver, that field is part of what the page
// *means*: both ways of getting at the values — Values() and Data() — read it
// (directly or in a callee of the same receiver). A Data() that ignores it
// hands encoders other values than Values() returns.
func runViewStateRule(c *Ctx, rule string, min int) {
	p := c.P
	n := 0
	for _, fn := range p.ModuleSSAFuncs() {
		if fn.Origin() != nil || fn.Blocks == nil || fn.Parent() != nil || fnPkgPath(fn) != modPath || fn.Signature.Recv() == nil || fn.Name() != "Slice" {
			continue
		}
		named := namedOf(fn.Signature.Recv().Type())
		st := structOf(fn.Signature.Recv().Type())
		if named == nil || st == nil {
			continue
		}
		// computed integer fields of the literal
		computed := map[int]bool{}
		for _, b := range fn.Blocks {
			for _, ins := range b.Instrs {
				al, ok := ins.(*ssa.Alloc)
				if !ok {
					continue
				}
				if an := namedOf(al.Type()); an == nil || an.Obj() != named.Obj() {
					continue
				}
				for _, r := range *al.Referrers() {
					fa, ok := r.(*ssa.FieldAddr)
					if !ok || !isNumericBasic(st.Field(fa.Field).Type()) {
						continue
					}
					for _, rr := range *fa.Referrers() {
						s, ok := rr.(*ssa.Store)
						if !ok || s.Addr != ssa.Value(fa) {
							continue
						}
						v := s.Val
						for {
							cv, ok := v.(*ssa.Convert)
							if !ok {
								break
							}
							v = cv.X
						}
						if bo, ok := v.(*ssa.BinOp); ok && (bo.Op == token.REM || bo.Op == token.AND) {
							computed[fa.Field] = true // a position inside a unit (bit in a byte)
						}
					}
				}
			}
		}
		if len(computed) == 0 {
			continue
		}
		// the accessors of the same type
		for _, m := range p.methodsOf(named) {
			if m.Blocks == nil || (m.Name() != "Data" && m.Name() != "Values") {
				continue
			}
			reads := map[int]bool{}
			var visit func(g *ssa.Function, depth int)
			visit = func(g *ssa.Function, depth int) {
				allInstrs(g, true, func(_ *ssa.Function, ins ssa.Instruction) {
					if fa, ok := ins.(*ssa.FieldAddr); ok {
						if n2 := namedOf(fa.X.Type()); n2 != nil && n2.Obj() == named.Obj() {
							reads[fa.Field] = true
						}
					}
					if call, ok := ins.(ssa.CallInstruction); ok && depth < 2 {
						if h := call.Common().StaticCallee(); h != nil && h.Blocks != nil && h.Signature.Recv() != nil {
							if hn := namedOf(h.Signature.Recv().Type()); hn != nil && hn.Obj() == named.Obj() {
								visit(h, depth+1)
							}
						}
					}
				})
			}
			visit(m, 0)
			if m.Name() == "Values" {
				continue // readers built by Values() keep the page and read it later: counted through Data only
			}
			n++
			var missing []string
			for i := range computed {
				if !reads[i] {
					missing = append(missing, st.Field(i).Name())
				}
			}
			sort.Strings(missing)
			c.Check(rule, FuncKey(m)+" honours the position its page starts at", m.Pos(), len(missing) == 0, FuncKey(m)+" never reads "+strings.Join(missing, ", ")+", which Slice computes for the page it returns (the position of its first value inside a byte): the data handed to encoders starts before the first value of the page")
		}
	}
	c.Min(rule, min)
}
