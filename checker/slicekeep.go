package main

import (
	"go/types"
	"sort"
	"strings"

	"golang.org/x/tools/go/ssa"
)

// T-SLICEKEEP — Slice and Clone of a page return a page of the same kind over
// fewer (or copied) values: when the method builds the result as a literal of
// its own receiver type, the literal sets every field of the type. A field that
// is left out silently takes its zero value in the result (the maximum
// definition level of the column: the sliced page then reports no levels).
func runSliceKeepRule(c *Ctx, rule string, min int) {
	p := c.P
	n := 0
	for _, fn := range p.ModuleSSAFuncs() {
		if fn.Origin() != nil || fn.Blocks == nil || fn.Parent() != nil || fnPkgPath(fn) != modPath || fn.Signature.Recv() == nil {
			continue
		}
		if fn.Name() != "Slice" && fn.Name() != "Clone" {
			continue
		}
		named := namedOf(fn.Signature.Recv().Type())
		st := structOf(fn.Signature.Recv().Type())
		if named == nil || st == nil || st.NumFields() == 0 {
			continue
		}
		// column buffers carry scratch that a clone rightly starts without
		if cb := p.LookupType("ColumnBuffer"); cb != nil {
			if iface, ok := cb.Underlying().(*types.Interface); ok && (types.Implements(types.NewPointer(named), iface) || types.Implements(named, iface)) {
				continue
			}
		}
		k := 0
		for _, b := range fn.Blocks {
			for _, ins := range b.Instrs {
				al, ok := ins.(*ssa.Alloc)
				if !ok {
					continue
				}
				an := namedOf(al.Type())
				if an == nil || an.Obj() != named.Obj() {
					continue
				}
				if _, isPtr := al.Type().Underlying().(*types.Pointer); !isPtr {
					continue
				}
				set := map[int]bool{}
				whole := false
				for _, r := range *al.Referrers() {
					switch x := r.(type) {
					case *ssa.FieldAddr:
						for _, rr := range *x.Referrers() {
							switch y := rr.(type) {
							case *ssa.Store:
								if y.Addr == ssa.Value(x) {
									set[x.Field] = true
								}
							case ssa.CallInstruction:
								// filled through a method of the field (values.Append(…))
								for _, a := range y.Common().Args {
									if a == ssa.Value(x) {
										set[x.Field] = true
									}
								}
							}
						}
					case *ssa.Store:
						if x.Addr == ssa.Value(al) {
							whole = true // *new = *p: a copy of the receiver
						}
					}
				}
				if whole || len(set) == 0 {
					continue
				}
				n++
				k++
				var missing []string
				for i := 0; i < st.NumFields(); i++ {
					if !set[i] {
						missing = append(missing, st.Field(i).Name())
					}
				}
				sort.Strings(missing)
				c.Check(rule, FuncKey(fn)+" carries every field of the page into its result#"+itoa(k), al.Pos(), len(missing) == 0, FuncKey(fn)+" builds its result as a "+named.Obj().Name()+" literal that leaves out "+strings.Join(missing, ", ")+": the field is zero in the slice or clone although it describes the column, not the values (a page that forgets its maximum definition level reports no levels)")
			}
		}
	}
	c.Min(rule, min)
}
