package main

import (
	"go/token"
	"go/types"
	"sort"

	"golang.org/x/tools/go/ssa"
)

// E1: field effects. Type-keyed, flow-insensitive: "some instance of struct
// type S has field f written / read by function fn (or its static callees)".

type EffKind uint8

const (
	EffAssign EffKind = 1 << iota // the field itself is stored to
	EffElem                       // storage reachable through the field is stored to (x.f[i] = …, clear(x.f), copy(x.f, …))
	EffCall                       // a pointer-receiver method of a non-module type is called on the field (buf.Reset())
	EffWhole                      // written as part of a whole-struct store (*p = T{…})
)

type effSite struct {
	Kind EffKind
	Pos  token.Pos
	Fn   *ssa.Function
}

type fnEffects struct {
	writes map[*types.Var]effSite
	reads  map[*types.Var]token.Pos
	calls  []*ssa.Function // static callees + closures created
}

type Effects struct {
	p      *Prog
	direct map[*ssa.Function]*fnEffects
}

func NewEffects(p *Prog) *Effects {
	return &Effects{p: p, direct: map[*ssa.Function]*fnEffects{}}
}

func (e *Effects) addWrite(fe *fnEffects, f *types.Var, k EffKind, pos token.Pos, fn *ssa.Function) {
	f = f.Origin()
	if old, ok := fe.writes[f]; ok {
		old.Kind |= k
		fe.writes[f] = old
		return
	}
	fe.writes[f] = effSite{Kind: k, Pos: pos, Fn: fn}
}

// wholeStore marks every field of struct type t (recursively for embedded
// value structs) as written.
func (e *Effects) wholeStore(fe *fnEffects, t types.Type, pos token.Pos, fn *ssa.Function, depth int) {
	st, ok := t.Underlying().(*types.Struct)
	if !ok || depth > 4 {
		return
	}
	for i := 0; i < st.NumFields(); i++ {
		f := st.Field(i)
		e.addWrite(fe, f, EffWhole, pos, fn)
		if _, ok := f.Type().Underlying().(*types.Struct); ok {
			e.wholeStore(fe, f.Type(), pos, fn, depth+1)
		}
	}
}

// Direct computes the direct effects of fn (not including anonymous
// functions, which appear as callees).
func (e *Effects) Direct(fn *ssa.Function) *fnEffects {
	if fe, ok := e.direct[fn]; ok {
		return fe
	}
	fe := &fnEffects{writes: map[*types.Var]effSite{}, reads: map[*types.Var]token.Pos{}}
	e.direct[fn] = fe
	markTarget := func(addr ssa.Value, pos token.Pos, isStore bool, val ssa.Value) {
		fields, root, elem := fieldChain(addr)
		if len(fields) > 0 {
			last := fields[len(fields)-1]
			k := EffAssign
			if elem {
				k = EffElem
			}
			e.addWrite(fe, last, k, pos, fn)
			// a store of a struct value into a struct-typed field writes its sub-fields
			if isStore && !elem && val != nil {
				e.wholeStore(fe, val.Type(), pos, fn, 0)
			}
			return
		}
		_ = root
		// store through a pointer that is not a field address: *p = v
		if isStore && !elem {
			if pt, ok := addr.Type().Underlying().(*types.Pointer); ok {
				if _, isAlloc := addr.(*ssa.Alloc); !isAlloc {
					e.wholeStore(fe, pt.Elem(), pos, fn, 0)
				}
			}
		}
	}
	for _, b := range fn.Blocks {
		for _, ins := range b.Instrs {
			switch x := ins.(type) {
			case *ssa.Store:
				markTarget(x.Addr, x.Pos(), true, x.Val)
			case *ssa.MapUpdate:
				markTarget(x.Map, x.Pos(), false, nil)
				if fields, _, _ := fieldChain(x.Map); len(fields) > 0 {
					e.addWrite(fe, fields[len(fields)-1], EffElem, x.Pos(), fn)
				}
			case *ssa.UnOp:
				if x.Op == token.MUL {
					if fa, ok := x.X.(*ssa.FieldAddr); ok {
						if st := structOf(fa.X.Type()); st != nil {
							f := st.Field(fa.Field).Origin()
							if _, ok := fe.reads[f]; !ok {
								fe.reads[f] = x.Pos()
							}
						}
					}
				}
			case *ssa.Field:
				if st := structOf(x.X.Type()); st != nil {
					f := st.Field(x.Field).Origin()
					if _, ok := fe.reads[f]; !ok {
						fe.reads[f] = x.Pos()
					}
				}
			case *ssa.MakeClosure:
				if f, ok := x.Fn.(*ssa.Function); ok {
					fe.calls = append(fe.calls, f)
				}
			}
			if call, ok := ins.(ssa.CallInstruction); ok {
				cc := call.Common()
				if bi, ok := cc.Value.(*ssa.Builtin); ok {
					switch bi.Name() {
					case "clear", "copy", "delete":
						if len(cc.Args) > 0 {
							if fields, _, _ := fieldChain(cc.Args[0]); len(fields) > 0 {
								e.addWrite(fe, fields[len(fields)-1], EffElem, call.Pos(), fn)
							}
						}
					}
					continue
				}
				if callee := cc.StaticCallee(); callee != nil {
					fe.calls = append(fe.calls, callee)
					// pointer-receiver method of a type outside the module
					// called on a field: treat as a mutation of that field.
					if callee.Signature.Recv() != nil && !inModule(callee) && len(cc.Args) > 0 {
						if _, isPtr := callee.Signature.Recv().Type().(*types.Pointer); isPtr {
							if fields, _, _ := fieldChain(cc.Args[0]); len(fields) > 0 && mutatingName(callee.Name()) {
								e.addWrite(fe, fields[len(fields)-1], EffCall, call.Pos(), fn)
							}
						}
					}
				}
			}
		}
	}
	return fe
}

func mutatingName(n string) bool {
	switch n {
	case "Len", "Cap", "String", "Bytes", "Load", "Size", "Buffered", "Available":
		return false
	}
	return true
}

// TransOpts restricts the transitive closure.
type TransOpts struct {
	// Stop: do not descend into these functions.
	Stop func(*ssa.Function) bool
	// Dynamic: resolver for dynamic calls (nil = static callees only).
	Dynamic func(caller *ssa.Function) []*ssa.Function
}

// Writes returns the transitive write set of the entries over static calls,
// with for each field one witness site.
func (e *Effects) Writes(entries []*ssa.Function, opts TransOpts) map[*types.Var]effSite {
	out := map[*types.Var]effSite{}
	e.walk(entries, opts, func(fn *ssa.Function, fe *fnEffects) {
		for f, s := range fe.writes {
			if old, ok := out[f]; ok {
				old.Kind |= s.Kind
				out[f] = old
			} else {
				out[f] = s
			}
		}
	})
	return out
}

// Reads returns the transitive read set of the entries.
func (e *Effects) Reads(entries []*ssa.Function, opts TransOpts) map[*types.Var]effSite {
	out := map[*types.Var]effSite{}
	e.walk(entries, opts, func(fn *ssa.Function, fe *fnEffects) {
		for f, pos := range fe.reads {
			if _, ok := out[f]; !ok {
				out[f] = effSite{Pos: pos, Fn: fn}
			}
		}
	})
	return out
}

func (e *Effects) walk(entries []*ssa.Function, opts TransOpts, visit func(*ssa.Function, *fnEffects)) map[*ssa.Function]bool {
	seen := map[*ssa.Function]bool{}
	var work []*ssa.Function
	for _, f := range entries {
		if f != nil && !seen[f] {
			seen[f] = true
			work = append(work, f)
		}
	}
	for len(work) > 0 {
		f := work[len(work)-1]
		work = work[:len(work)-1]
		if f.Blocks == nil {
			continue
		}
		fe := e.Direct(f)
		visit(f, fe)
		next := fe.calls
		if opts.Dynamic != nil {
			next = append(append([]*ssa.Function{}, next...), opts.Dynamic(f)...)
		}
		for _, c := range next {
			if seen[c] {
				continue
			}
			if opts.Stop != nil && opts.Stop(c) {
				continue
			}
			seen[c] = true
			work = append(work, c)
		}
	}
	return seen
}

// Closure returns the set of functions in the static-call closure.
func (e *Effects) Closure(entries []*ssa.Function, opts TransOpts) map[*ssa.Function]bool {
	return e.walk(entries, opts, func(*ssa.Function, *fnEffects) {})
}

// fieldsOfType filters a field set to those declared in struct type n.
func fieldsOfStruct(n *types.Named) map[*types.Var]bool {
	out := map[*types.Var]bool{}
	if n == nil {
		return out
	}
	n = n.Origin()
	st, ok := n.Underlying().(*types.Struct)
	if !ok {
		return out
	}
	for i := 0; i < st.NumFields(); i++ {
		out[st.Field(i).Origin()] = true
	}
	return out
}

func sortedFieldNames(p *Prog, m map[*types.Var]effSite) []string {
	var out []string
	for f := range m {
		out = append(out, p.FieldName(f))
	}
	sort.Strings(out)
	return out
}

// methodsOf returns the ssa functions for all methods declared on named type
// n (both value and pointer receivers), origin functions only.
func (p *Prog) methodsOf(n *types.Named) []*ssa.Function {
	var out []*ssa.Function
	n = n.Origin()
	for i := 0; i < n.NumMethods(); i++ {
		if f := p.SSA.FuncValue(n.Method(i)); f != nil {
			out = append(out, f)
		}
	}
	return out
}

// withInstances expands origin generic functions to all their instantiations
// (bodies of generic origins are not built by go/ssa; instances are).
func (p *Prog) withInstances(fns []*ssa.Function) []*ssa.Function {
	var out []*ssa.Function
	for _, f := range fns {
		if f == nil {
			continue
		}
		if f.TypeParams().Len() > 0 && len(f.TypeArgs()) == 0 {
			inst := p.Instances(f)
			for _, g := range inst {
				if g != f {
					out = append(out, g)
				}
			}
			continue
		}
		out = append(out, f)
	}
	return out
}
