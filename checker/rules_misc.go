package main

import (
	"go/ast"
	"go/token"
	"go/types"
	"sort"
	"strings"

	"golang.org/x/tools/go/ssa"
)

// C01, C03, C04, C10, C12, C19: properties whose core quantifies over runtime
// values. Only narrow structural clauses are decided; see NotDecided.

func init() {
	register(&Property{
		ID:      "C01",
		NeedSSA: true,
		Decided: "Narrow structural necessary conditions only: (tables) each entry of the encoding table, the compression codec table and the two level-encoding tables is the implementation whose identifying method/field equals its key, so the code stamped in a page header selects the same algorithm when read; (typepair) every Type implementation encodes with encoding.Encode<K>, decodes with encoding.Decode<K> and reports Kind() == K for one and the same K; (kinds) the dispatchers over the physical kind on the write and read side cover every kind or fail loudly; (wire) no call passes a struct field into the parameter named after a sibling field (e.g. repetition and definition level limits of a column buffer); (header) page header fields come from the matching accessors and sizes are measured at the right moment (C02.header); (sink) the destination writer is assigned and written only inside the offset-tracking wrapper, and every path of the writer's reset re-targets it through that wrapper, so a reused writer starts at offset 0; (fallback) the dictionary-to-PLAIN fallback never clears the dictionary that earlier pages refer to; (rows) values handed to WriteRowValues are aligned on rows (C11.rows). (lazybuffer) every store of a freshly made column buffer into a column writer is dominated by the nil edge of a test of that field. (chunkbase) a loop that walks a sparse array in chunks (Slice(i, j) with a loop-carried i) and indexes the whole array inside the loop uses an index that depends on i (8 sibling dictionary insert loops). (levelorder) wherever a function chooses exclusively between the repeated, optional and required form of a column (a test of a maxDefinitionLevel field on the not-repeated edge of a test of a maxRepetitionLevel field), the repetition test is not confined to the edge on which the definition level is zero — a repeated column always has a definition level, so such a test never selects the repeated form. (timeunit) in every function that asks for the duration of a time unit, no product with that duration reaches time.Unix or Time.Add: a stored count of milli- or microseconds is turned into a time.Time with the constructor of its unit, not through a count of nanoseconds that overflows beyond about 292 years. (unitpair) for every logical type whose AssignValue compares the destination with time.Time or time.Duration (it reads the column into that Go type with a unit of its own), both write paths — makeValue and the functions writeRowsFuncOf dispatches to — look that logical type up (logicalTypeOf/logicalTypeIs instantiated with it).",
		NotDecided: "equality of values, levels and nesting after a round trip; behaviour of encoders, compressors, page cutting arithmetic and row-group limits; null detection kernels (which rows of a batch are null) beyond their element width (C03.nullwidth).",
		Assumptions: []string{"see DESIGN.md §4 C01: the property as a whole is outside static reach"},
		Run:         runC01,
	})
	register(&Property{
		ID:      "C03",
		NeedSSA: true,
		Decided: "Narrow structural necessary conditions only: (nullwidth) every width-specific null scanner nullIndex<T> of the typed ingestion path scans elements of the width of T (it calls the kernel named after 8·sizeof(T) or the generic scanner instantiated with a type of that width), and the floating-point scanners never instantiate the generic scanner with a floating-point type (it would compare values, and -0.0 == 0, where reflect.Value.IsZero and the assembly kernels test bits), in every build configuration; (nullkinds) the reflection path decides `null` for pointer-like kinds (pointer, map, slice, interface) by IsNil, like the typed path's pointer test, never by length or zero-ness; (siblings) the entry points that shred through a shared implementation hand it the same set of level fields (composite literals passed to one callee set the same keys); (mapscratch) the map re-assembly clears its scratch element after each entry; (dispatch) the node-shape dispatchers of the typed, reflection and row paths test the same predicates (optional, repeated, list, map) in the same order. (appendalias) inside a loop, a slice built by appending to a base slice that is the same on every iteration (a parameter not always passed clipped, a field, a value computed before the loop) is not retained unless the base's capacity was clipped: retained slices would share the base's spare capacity. (accum) a recursive walk (schema tree, embedded structs) that adds to an integer parameter — column index, level, byte offset — passes, at every recursive call, an argument computed from that parameter (through arithmetic, conversions, calls that received it, maps filled with it, and the reaching definitions of local struct fields), so the running number is not restarted at a nested level. (stride) a typed write function that hands a column buffer's writeValues a scratch array of fixed-width integers reads the physical kind of the column's type in the function that builds it. (siblings, cont.) sibling call sites fill each literal field from the same source field. (loopfresh) a reflect scratch made by reflect.New outside a loop is not both refilled (Set) and handed, inside the loop, to a function that receives the [][]Value columns of a row being deconstructed. (headercopy) in the typed dispatch writeRowsFuncOf, within the cases of reflect.String and reflect.Slice, every call of the direct-memory writer is unreachable from the FIXED_LEN_BYTE_ARRAY outcome of a test on the column's kind made in that case: a string or slice header is never copied as if it were the fixed-size value. (clobber) in a method that writes a buffer at positions computed from an integer cursor field of its receiver, between a write and a later non-merging write (a bulk write through a re-slice, a plain store) at the same expression of the cursor, the cursor is stored on every path: the later write does not replace what the earlier one stored.",
		NotDecided: "the level values themselves, null-bitmap scanning, batch boundaries, the amounts added to offsets and indexes, ordering of map keys — value-dependent.",
		Assumptions: []string{"see DESIGN.md §4 C03"},
		Run:         runC03,
	})
	register(&Property{
		ID:      "C04",
		NeedSSA: true,
		Decided: "Narrow structural necessary conditions only: (dst) in every Encode/Decode method under encoding/ the reusable output buffer (and the offsets buffer of DecodeByteArray) is only truncated, measured with cap(), passed to a helper obeying the same rule, reinterpreted with unsafecast, or returned — results cannot depend on what the buffers held before; (tables) the encoding tables map each code to the implementation that reports it (C01.tables); (twins) the tree type-checks in every build configuration (amd64, purego, arm64, 386, s390x; thorough tier) so each accelerated kernel has a portable twin with the same signature. (pairs) for every page encoding the kinds with an Encode method of its own are exactly the kinds with a Decode method of its own. (viewstate) when Slice of a page type computes an integer field as a position inside a unit (x % 8), the Data method of the type reads that field, directly or through a method of the same receiver. (offsetsrc) every use of the src parameter of an EncodeByteArray method goes through a slice or an index of it (or measures it): the values are the bytes the offsets cover. (inplace) the branch taken when an encoding's CanDecodeInPlace() is true — the one that hands the page buffer to the decoder as its destination — is entered from that test alone: further conditions may narrow it, no alternative condition widens it.",
		NotDecided: "losslessness, conformance with the format specification, equality of assembly and portable kernels (assembly is not analysed), bit-level arithmetic inside encoders and decoders (a wrong index, an off-by-one guard or a wrong copy source inside a kernel is invisible to these rules).",
		Assumptions: []string{"see DESIGN.md §4 C04"},
		Run:         runC04,
	})
	register(&Property{
		ID:      "C10",
		NeedSSA: true,
		Decided: "Narrow structural necessary conditions only: (swap) Swap of the nullable and repeated column-buffer wrappers exchanges every per-row array it keeps on every path (no early exit that swaps some arrays and not others), and Buffer/GenericBuffer swap all columns, not only the sorting columns; (direction) the descending wrapper compares (j, i), wraps exactly the columns declared descending, and the null ordering follows NullsFirst; (rowpos) the row comparator uses row positions as column indexes only when no leaf of the schema is repeated (the test is not nested under the sorting-column test); (metadata) recorded sorting columns are the declared ones (C05.sorting); (close) SortingWriter.Close propagates the errors of the run merge and the output writer (C14.errflow scope). (direction, cont.) the null ordering handed to a sorting column of a Buffer depends on both NullsFirst() and Descending(), because the descending wrapper inverts the whole comparison including the placement of nulls. (wraporder) the argument of CompareDescending never derives from CompareNullsFirst / CompareNullsLast (C09.wraporder). (rowpos, cont.) no second condition stands between the repetition test and the store it guards.",
		NotDecided: "that the result is an ordered permutation; offset bookkeeping of repeated columns when rows are reordered.",
		Assumptions: []string{"see DESIGN.md §4 C10"},
		Run:         runC10,
	})
	register(&Property{
		ID:      "C12",
		NeedSSA: true,
		Decided: "Narrow structural necessary conditions only: (polarity) the order-sensitive schema comparison recurses with the order-sensitive comparison and the order-insensitive one with itself; (insert) copyRows consults the schema comparison before it takes any fast path that bypasses conversion (RowWriterTo / RowReaderFrom), and inserts the conversion on the unequal edge; (adjacent) the choice of a sibling column to mirror for an added column compares repetition depth as well as the parent path; (errors) errors of Convert and of conversions are not dropped or swallowed; (convertvalue) ConvertValue of every physical type dispatches over every source kind or fails loudly; (marker) converted row groups never take chunk-level fast paths (C11.marker). (wrapper) every Page implementation that wraps another Page returns a value of its own type from Slice. (mergeconv) MergeRowGroups never returns a bare multi-row-group over converted inputs. (sortprefix) a loop that copies sorting columns one by one under a condition stops at the first column it rejects: the rejecting branch does not come back to the loop header, so the result is a prefix of the declared order. (insert, cont.) the RowWriterTo fast path of copyRows is asserted on the very value the slow path reads rows from (the source after the conversion was inserted), not on the reader as it was passed in. (nullable) the per-column flag of Convert that says whether the target column can hold nulls is computed from the maximum definition level of the leaf (its whole path), not from the leaf node alone. (initorder) no call of (*reader).init that is handed the current value of a field is followed, in the same function, by a store to that field: the internal reader is initialised with the schema and row group the Reader ends up with.",
		NotDecided: "level remapping and value equality through a conversion; behaviour on incompatible targets beyond the presence of an error path.",
		Assumptions: []string{"see DESIGN.md §4 C12"},
		Run:         runC12,
	})
	register(&Property{
		ID:      "C19",
		NeedSSA: true,
		Decided: "Narrow structural necessary conditions only: (siblings) the two entry points that write shredded variants (typed write path and row deconstruction) pass the same level context to the shared shredding implementation; (enum) the encoder, the size computation, the decoder and the shredded typed-write switch over the variant primitive and basic types cover every constant or fail loudly; (pagereset) the columnar leaf reader re-establishes every per-page field when it moves to a new page. (siblings, cont.) the sibling call sites of one callee fill each field of the literal they pass from the same source field of the same struct. (coladvance) a loop variable advanced by the result of a leaf-counting helper (numLeafColumns*) is advanced on every path around the loop. (windowreset) every slice field of the columnar variant reader's per-window scratch that some function grows by append is assigned by the scratch's reset. (arenawindow) a function that takes a window x.f[a:b] of a slice field, then calls something that may store a new backing array into the same field (make or append, directly or through static callees, typically itself by recursion on a nested value) and keeps using the window, does not touch the elements of the field through the field again (only the truncation stored straight back, len and cap): after the move the window and the field are different arrays.",
		NotDecided: "equality of decoded values, metadata dictionaries, offsets inside nested arrays and objects, shredding and reconstruction — entirely value-dependent.",
		Assumptions: []string{"see DESIGN.md §4 C19"},
		Run:         runC19,
	})
}

func levelTableRule(c *Ctx, rule, varName string) {
	p := c.P
	for _, f := range p.Root.Syntax {
		ast.Inspect(f, func(n ast.Node) bool {
			vs, ok := n.(*ast.ValueSpec)
			if !ok {
				return true
			}
			for i, name := range vs.Names {
				if name.Name != varName || i >= len(vs.Values) {
					continue
				}
				cl, ok := vs.Values[i].(*ast.CompositeLit)
				if !ok {
					continue
				}
				n := 0
				for _, el := range cl.Elts {
					kv, ok := el.(*ast.KeyValueExpr)
					if !ok {
						continue
					}
					kc := p.Root.TypesInfo.Types[kv.Key].Value
					inner, ok := kv.Value.(*ast.CompositeLit)
					if kc == nil || !ok {
						continue
					}
					for _, iel := range inner.Elts {
						ikv, ok := iel.(*ast.KeyValueExpr)
						if !ok {
							continue
						}
						if id, ok := ikv.Key.(*ast.Ident); ok && id.Name == "BitWidth" {
							bw := p.Root.TypesInfo.Types[ikv.Value].Value
							n++
							want := kc.ExactString()
							okv := bw != nil && bw.ExactString() == itoa(atoi(want)+1)
							c.Check(rule, varName+"["+want+"]", kv.Pos(), okv, "level encoding table entry "+want+" must have BitWidth "+itoa(atoi(want)+1)+": levels are encoded with the entry at bits.Len8(maxLevel)-1 and decoded with the same lookup")
						}
					}
				}
				c.Check(rule, varName+" has its entries", cl.Pos(), n >= 8, "level encoding table shrank")
			}
			return true
		})
	}
}

func atoi(s string) int {
	n := 0
	for _, ch := range s {
		if ch < '0' || ch > '9' {
			return -1
		}
		n = n*10 + int(ch-'0')
	}
	return n
}

func runC01(c *Ctx) {
	runChunkBaseRule(c, "C01.chunkbase", 6)
	runLevelOrderRule(c, "C01.levelorder", 4)
	c01TimeUnit(c)
	c01UnitPair(c)
	c01LazyBuffer(c)
	p := c.P
	runTableRule(c, "C01.tables", "encodings", "Encoding", 9)
	runTableRule(c, "C01.tables", "compressionCodecs", "CompressionCodec", 6)
	levelTableRule(c, "C01.tables", "levelEncodingsRLE")
	levelTableRule(c, "C01.tables", "levelEncodingsBitPacked")
	c.Min("C01.tables", 25)
	typePairRule(c, "C01.typepair")
	c.Min("C01.typepair", 8)
	enumRule(c, "C01.kinds", "Kind", []string{"canEncode", "parseValue", "(Value).hash"})
	c.Min("C01.kinds", 5)
	c15Wire(c, "C01.wire")
	c02Header(c, "C01.header")

	// sink: stores to the destination writer only inside the wrapper; reset re-targets through it
	rule := "C01.sink"
	sink := p.LookupField("offsetTrackingWriter", "writer")
	if c.Anchor(rule, "offsetTrackingWriter.writer", sink != nil) {
		var bad []string
		n := 0
		for _, fn := range p.ModuleSSAFuncs() {
			if fn.Origin() != nil {
				continue
			}
			allInstrs(fn, false, func(_ *ssa.Function, ins ssa.Instruction) {
				st, ok := ins.(*ssa.Store)
				if !ok {
					return
				}
				fs, root, elem := fieldChain(st.Addr)
				if len(fs) == 0 || elem || fs[len(fs)-1] != sink || isFreshRoot(root) {
					return
				}
				n++
				if !strings.HasPrefix(FuncKey(fn), "(*offsetTrackingWriter).") {
					bad = append(bad, FuncKey(fn)+" at "+p.Pos(st.Pos()))
				}
			})
		}
		sort.Strings(bad)
		c.Check(rule, "the destination writer is assigned only by the offset-tracking wrapper", token.NoPos, len(bad) == 0 && n > 0, "offsetTrackingWriter.writer is assigned directly by "+strings.Join(bad, ", ")+": the byte offset is not restarted with the new destination, so the next file has no leading magic and shifted footer offsets")
	}
	mustCallRule(c, rule, "(*writer).reset", "(*offsetTrackingWriter).Reset")
	mustCallRule(c, rule, "(*writer).reset", "(*ConcurrentRowGroupWriter).reset")
	c.Min(rule, 3)

	// fallback keeps the dictionary
	rule = "C01.fallback"
	if obj := p.LookupFunc("(*ColumnWriter).fallbackDictionaryToPlain"); c.Anchor(rule, "(*ColumnWriter).fallbackDictionaryToPlain", obj != nil) {
		dict := p.LookupField("ColumnWriter", "dictionary")
		w := NewEffects(p).Writes([]*ssa.Function{p.SSAFunc(obj)}, TransOpts{})
		_, writes := w[dict]
		c.Check(rule, "fallback to PLAIN keeps the dictionary", obj.Pos(), !writes, "the fallback assigns ColumnWriter.dictionary: pages already written with dictionary indexes lose the dictionary page they refer to")
	}
}

var nullWidth = map[string]int64{"Bool": 1, "Int": 8, "Int8": 1, "Int16": 2, "Int32": 4, "Int64": 8, "Uint": 8, "Uint8": 1, "Uint16": 2, "Uint32": 4, "Uint64": 8, "Uint128": 16,
	"Float32": 4, "Float64": 8, "Pointer": 8, "Slice": 8, "String": 8}

func runC03(c *Ctx) {
	// field index / column path slices built per struct field do not share spare capacity
	runAppendAliasRule(c, "C03.appendalias", func(fn *ssa.Function) bool { return inModule(fn) }, 40)
	runAccumRule(c, "C03.accum", func(fn *ssa.Function) bool {
		return inModule(fn) && !strings.Contains(fnPkgPath(fn), "/internal/quick")
	})
	c.Min("C03.accum", 15)
	c03Stride(c)
	runLoopFreshRule(c, "C03.loopfresh", 3)
	c03HeaderCopy(c)
	runClobberRule(c, "C03.clobber", 1)
	p := c.P
	rule := "C03.nullwidth"
	sizes := types.SizesFor("gc", c.P.Config.GOARCH)
	n := 0
	for name, width := range nullWidth {
		obj := p.LookupFunc("nullIndex" + name)
		if obj == nil {
			continue
		}
		fn := p.SSAFunc(obj)
		if fn == nil || fn.Blocks == nil {
			continue
		}
		want := width
		if (name == "Int" || name == "Uint" || name == "Pointer" || name == "Slice" || name == "String") && sizes != nil {
			want = sizes.Sizeof(types.Typ[types.Uintptr])
		}
		var got []string
		ok := false
		floatCompare := ""
		allCalls(fn, false, func(_ *ssa.Function, call ssa.CallInstruction) {
			callee := call.Common().StaticCallee()
			if callee == nil || !strings.HasPrefix(fnName(callee), "nullIndex") {
				return
			}
			suffix := strings.TrimPrefix(fnName(callee), "nullIndex")
			if suffix == "" && len(callee.TypeArgs()) == 1 {
				if bt, isB := callee.TypeArgs()[0].Underlying().(*types.Basic); isB && bt.Info()&types.IsFloat != 0 {
					floatCompare = "nullIndex[" + callee.TypeArgs()[0].String() + "]"
				}
				// the generic scanner compares whole values of T: T must be the type the function is named after
				ta := callee.TypeArgs()[0].String()
				got = append(got, "nullIndex["+ta+"]")
				sz := int64(-1)
				if sizes != nil {
					sz = sizes.Sizeof(callee.TypeArgs()[0])
				}
				if strings.EqualFold(ta, name) || sz == want {
					ok = true
				}
				return
			}
			got = append(got, fnName(callee))
			if bits := atoi(suffix); bits > 0 && int64(bits) == 8*want {
				ok = true
			}
		})
		if len(got) == 0 {
			continue // implemented inline (portable build)
		}
		n++
		sort.Strings(got)
		if strings.HasPrefix(name, "Float") {
			// -0.0 == 0 but is not the zero value (reflect.Value.IsZero, and the
			// assembly scanners, test the bits): a float scanner that compares
			// values makes -0.0 a null in this build only
			c.Check(rule, "nullIndex"+name+" tests the bits of the value", fn.Pos(), floatCompare == "", "nullIndex"+name+" delegates to "+floatCompare+", which compares floating-point values: -0.0 equals the zero value and is written as null, while the accelerated build and the reflection path (reflect.Value.IsZero) test the bits and write it as a value — the same rows give different files in the two builds")
		}
		c.Check(rule, "nullIndex"+name+" scans "+itoa(int(want))+"-byte elements", fn.Pos(), ok, "nullIndex"+name+" delegates to "+strings.Join(got, ", ")+", which tests elements of another width: a value whose low bytes are zero is taken for the zero value and written as null (or the reverse)")
	}
	c.Stats[rule+".scanners"] = n
	if c.P.Config.Tags == "" && c.P.Config.GOARCH == "amd64" {
		c.Min(rule, 12)
	}

	// nullkinds
	rule = "C03.nullkinds"
	if fs := p.Syntax("isNullValue"); c.Anchor(rule, "isNullValue", fs != nil) {
		n := 0
		ast.Inspect(fs.Decl.Body, func(x ast.Node) bool {
			sw, ok := x.(*ast.SwitchStmt)
			if !ok {
				return true
			}
			for _, s := range sw.Body.List {
				cc := s.(*ast.CaseClause)
				for _, e := range cc.List {
					name := exprString(e)
					if name != "reflect.Map" && name != "reflect.Pointer" && name != "reflect.Ptr" && name != "reflect.Slice" && name != "reflect.Interface" {
						continue
					}
					n++
					var callees []string
					for _, call := range fs.Calls(cc) {
						if fn := fs.Callee(call); fn != nil {
							callees = append(callees, fn.Name())
						}
					}
					sort.Strings(callees)
					okNil := false
					for _, cn := range callees {
						if cn == "IsNil" {
							okNil = true
						}
					}
					bad := false
					for _, cn := range callees {
						if cn == "Len" || cn == "IsZero" {
							bad = true
						}
					}
					c.Check(rule, "isNullValue: "+name+" is null iff nil", cc.Pos(), okNil && !bad, "the reflection path decides null for "+name+" with "+strings.Join(callees, ",")+" while the typed path tests the pointer: an empty non-nil value is null on one ingestion path and present on the other")
				}
			}
			return true
		})
		c.Check(rule, "isNullValue handles pointer-like kinds", fs.Decl.Pos(), n > 0, "no case for pointer-like kinds found")
	}

	literalSiblingRule(c, "C03.siblings", 1)

	// mapscratch
	rule = "C03.mapscratch"
	if obj := p.LookupFunc("reconstructFuncOfMap"); c.Anchor(rule, "reconstructFuncOfMap", obj != nil) {
		fn := p.SSAFunc(obj)
		set, zero := 0, 0
		allCalls(fn, true, func(_ *ssa.Function, call ssa.CallInstruction) {
			switch calleeName(call) {
			case "reflect.(Value).SetMapIndex":
				set++
			case "reflect.(Value).SetZero":
				zero++
			}
		})
		c.Check(rule, "map re-assembly clears its scratch element after each entry", fn.Pos(), set > 0 && zero > 0, "the scratch key/value element is reused for the next entry without being zeroed: a nested map or slice left in it is shared by all entries")
	}

	// dispatch order of node predicates
	rule = "C03.dispatch"
	var sigs []string
	var names []string
	for _, k := range []string{"deconstructFuncOf", "reconstructFuncOf", "writeValueFuncOf"} {
		fs := p.Syntax(k)
		if !c.Anchor(rule, k, fs != nil) {
			continue
		}
		var order []string
		ast.Inspect(fs.Decl.Body, func(x ast.Node) bool {
			sw, ok := x.(*ast.SwitchStmt)
			if !ok || sw.Tag != nil || len(order) > 0 {
				return true
			}
			for _, s := range sw.Body.List {
				cc := s.(*ast.CaseClause)
				if cc.List == nil {
					order = append(order, "default")
					continue
				}
				var preds []string
				for _, e := range cc.List {
					for _, call := range fs.Calls(e) {
						if fn := fs.Callee(call); fn != nil {
							preds = append(preds, fn.Name())
						} else if id, ok := call.Fun.(*ast.Ident); ok {
							preds = append(preds, id.Name)
						}
					}
				}
				order = append(order, strings.Join(preds, "+"))
			}
			return true
		})
		sigs = append(sigs, strings.Join(order, " > "))
		names = append(names, k)
	}
	for i := range sigs {
		c.Check(rule, names[i]+" tests node shapes in the family's order", token.NoPos, sigs[i] == sigs[0] && sigs[i] != "", names[i]+" dispatches as ["+sigs[i]+"] while "+names[0]+" dispatches as ["+sigs[0]+"]: a node that is, say, both optional and a list is unwrapped in a different order on the two paths")
	}
	c.Min(rule, 3)
}

func runC04(c *Ctx) {
	runViewStateRule(c, "C04.viewstate", 1)
	c04OffsetSrc(c)
	c04InPlace(c)
	runDstRule(c, "C04.dst", []string{"/encoding"}, nil)
	c.Min("C04.dst", 50)
	runTableRule(c, "C04.tables", "encodings", "Encoding", 9)
	levelTableRule(c, "C04.tables", "levelEncodingsRLE")
	levelTableRule(c, "C04.tables", "levelEncodingsBitPacked")
	encodePairsRule(c, "C04.pairs", 8)
	c.Pass("C04.twins", "configuration "+c.P.Config.Name+" type-checks", token.NoPos, "all module packages load with zero type errors in this configuration (%d packages)", len(c.P.Mod))
}

func runC10(c *Ctx) {
	c10WrapOrder(c)
	p := c.P
	pc := newPathCons(p)
	rule := "C10.swap"
	for _, chk := range []struct{ fn, field string }{
		{"(*optionalColumnBuffer).Swap", "rows"}, {"(*optionalColumnBuffer).Swap", "definitionLevels"}, {"(*optionalColumnBuffer).Swap", "reordered"},
		{"(*repeatedColumnBuffer).Swap", "rows"}, {"(*repeatedColumnBuffer).Swap", "reordered"},
	} {
		obj := p.LookupFunc(chk.fn)
		if !c.Anchor(rule, chk.fn, obj != nil) {
			continue
		}
		fn := p.SSAFunc(obj)
		var field *types.Var
		for f := range fieldsOfStruct(namedOf(fn.Signature.Recv().Type())) {
			if f.Name() == chk.field {
				field = f
			}
		}
		if !c.Anchor(rule, chk.fn+"."+chk.field, field != nil) {
			continue
		}
		// element writes go through a Slice() accessor on the field: accept stores whose address derives from a call on the field
		ok := swapWritesOnAllPaths(pc, fn, field)
		c.Check(rule, chk.fn+" exchanges "+chk.field+" on every path", fn.Pos(), ok, chk.fn+" can return without exchanging "+chk.field+": the row's entry in that array stays behind while every other column swaps, so after sorting the row is no longer intact")
	}
	// Buffer.Swap iterates over all columns
	for _, k := range []string{"(*Buffer).Swap", "(*GenericBuffer).Swap"} {
		obj := p.LookupFunc(k)
		if obj == nil {
			continue
		}
		fn := p.SSAFunc(obj)
		usesSorted, usesColumns := false, false
		allInstrs(fn, false, func(_ *ssa.Function, ins ssa.Instruction) {
			if fa, ok := ins.(*ssa.FieldAddr); ok {
				if st := structOf(fa.X.Type()); st != nil {
					switch st.Field(fa.Field).Name() {
					case "sorted":
						usesSorted = true
					case "columns":
						usesColumns = true
					}
				}
			}
		})
		if k == "(*GenericBuffer).Swap" && !usesColumns && !usesSorted {
			continue // delegates to the embedded Buffer
		}
		c.Check(rule, k+" swaps all columns", fn.Pos(), usesColumns && !usesSorted, k+" iterates over the sorting columns only: the other columns of the row stay in place")
	}
	c.Min(rule, 6)

	// direction
	rule = "C10.direction"
	if obj := p.LookupFunc("(*reversedColumnBuffer).Less"); c.Anchor(rule, "(*reversedColumnBuffer).Less", obj != nil) {
		fn := p.SSAFunc(obj)
		ok := false
		allCalls(fn, false, func(_ *ssa.Function, call ssa.CallInstruction) {
			cc := call.Common()
			if cc.IsInvoke() && cc.Method.Name() == "Less" && len(cc.Args) == 2 && len(fn.Params) == 3 {
				if cc.Args[0] == ssa.Value(fn.Params[2]) && cc.Args[1] == ssa.Value(fn.Params[1]) {
					ok = true
				}
			}
		})
		c.Check(rule, "reversedColumnBuffer.Less compares (j, i)", fn.Pos(), ok, "the descending wrapper no longer swaps the arguments of the wrapped Less")
	}
	for _, k := range []string{"(*Buffer).configure"} {
		obj := p.LookupFunc(k)
		if !c.Anchor(rule, k, obj != nil) {
			continue
		}
		fn := p.SSAFunc(obj)
		okDesc, okNulls, okBoth := false, false, false
		allInstrs(fn, true, func(in *ssa.Function, ins ssa.Instruction) {
			ifi, ok := ins.(*ssa.If)
			if !ok {
				return
			}
			names := map[string]bool{}
			for _, o := range Origins(ifi.Cond, OriginOpts{ThroughBinOp: true}) {
				if o.Kind == OrgCall {
					names[calleeName(o.Call)] = true
				}
			}
			if names["(SortingColumn).Descending"] && !names["(SortingColumn).NullsFirst"] {
				// the true edge allocates the reversed wrapper
				for _, x := range ifi.Block().Succs[0].Instrs {
					if a, isA := x.(*ssa.Alloc); isA && strings.Contains(a.Type().String(), "reversedColumnBuffer") {
						okDesc = true
					}
				}
			}
			if names["(SortingColumn).NullsFirst"] {
				okNulls = true
				// the reverser wraps the optional column as a whole, so it also
				// inverts where nulls go: the null ordering has to take the
				// direction into account
				if names["(SortingColumn).Descending"] {
					okBoth = true
				}
			}
		})
		c.Check(rule, k+" wraps exactly the descending columns", fn.Pos(), okDesc, "the reversed wrapper is not created on the Descending() edge")
		c.Check(rule, k+" takes the null ordering from NullsFirst()", fn.Pos(), okNulls, "null ordering no longer depends on NullsFirst()")
		c.Check(rule, k+" corrects the null ordering of reversed columns", fn.Pos(), okBoth, "the null ordering is chosen from NullsFirst() alone, but the descending wrapper inverts the whole comparison of the optional column including the placement of nulls: Descending sorts nulls first and NullsFirst(Descending) sorts them last, against the declared sorting column and Schema.Comparator")
	}
	c.Min(rule, 3)

	// rowpos
	rule = "C10.rowpos"
	if obj := p.LookupFunc("compareRowsFuncOf"); c.Anchor(rule, "compareRowsFuncOf", obj != nil) {
		fn := p.SSAFunc(obj)
		rep := p.LookupField("leafColumn", "maxRepetitionLevel")
		ok := false
		allInstrs(fn, true, func(in *ssa.Function, ins ssa.Instruction) {
			ifi, isIf := ins.(*ssa.If)
			if !isIf {
				return
			}
			bo, isB := ifi.Cond.(*ssa.BinOp)
			if !isB {
				return
			}
			isRep := false
			for _, side := range []ssa.Value{bo.X, bo.Y} {
				for _, o := range Origins(side, OriginOpts{}) {
					if o.Kind == OrgField && o.Field == rep {
						isRep = true
					}
				}
			}
			if !isRep {
				return
			}
			// the test is evaluated for every leaf: its block is not dominated by a test involving searchSortingColumn
			nested := false
			for _, b := range in.Blocks {
				if len(b.Instrs) == 0 {
					continue
				}
				if i2, ok2 := b.Instrs[len(b.Instrs)-1].(*ssa.If); ok2 && b != ifi.Block() {
					for _, o := range Origins(i2.Cond, OriginOpts{ThroughBinOp: true}) {
						if o.Kind == OrgCall && calleeName(o.Call) == "searchSortingColumn" && (b.Succs[0].Dominates(ifi.Block())) {
							nested = true
						}
					}
				}
			}
			// … and for every leaf that is repeated, whatever else is true of it:
			// no second condition stands between the repetition test and what
			// it switches off (the blocks on its true edge up to the first
			// store do not end in another test)
			conjunct := false
			for t := ifi.Block().Succs[0]; t != nil; {
				stores := false
				for _, x := range t.Instrs {
					if _, isStore := x.(*ssa.Store); isStore {
						stores = true
					}
				}
				if stores {
					break
				}
				if _, isIf := t.Instrs[len(t.Instrs)-1].(*ssa.If); isIf {
					conjunct = true
					break
				}
				if len(t.Succs) != 1 {
					break
				}
				t = t.Succs[0]
			}
			if !nested && !conjunct {
				ok = true
			}
		})
		c.Check(rule, "row positions are used as column indexes only when no leaf is repeated", fn.Pos(), ok, "the repetition test of compareRowsFuncOf is evaluated for sorting columns only: with a repeated column before the key a row holds more values than columns, row[columnIndex] is then not the key, and rows sort in the wrong order")
	}
	c05Sorting(c, "C10.metadata")
}

// swapWritesOnAllPaths: every return of fn is preceded by a store into
// storage reached through field f (directly, through an element, or through
// the slice returned by an accessor called on the field).
func swapWritesOnAllPaths(pc *pathCons, fn *ssa.Function, f *types.Var) bool {
	wb := map[*ssa.BasicBlock]bool{}
	derives := func(v ssa.Value) bool {
		for depth := 0; depth < 10 && v != nil; depth++ {
			switch x := v.(type) {
			case *ssa.FieldAddr:
				if st := structOf(x.X.Type()); st != nil && st.Field(x.Field).Origin() == f {
					return true
				}
				v = x.X
			case *ssa.IndexAddr:
				v = x.X
			case *ssa.UnOp:
				v = x.X
			case *ssa.Slice:
				v = x.X
			case *ssa.Call:
				if len(x.Call.Args) > 0 {
					v = x.Call.Args[0]
				} else {
					return false
				}
			default:
				return false
			}
		}
		return false
	}
	for _, b := range fn.Blocks {
		for _, ins := range b.Instrs {
			if st, ok := ins.(*ssa.Store); ok && derives(st.Addr) {
				wb[b] = true
			}
		}
	}
	if len(wb) == 0 {
		return false
	}
	reach := reachableAvoidingSet(fn.Blocks[0], wb, nil)
	for _, r := range returnsOf(fn) {
		if r.Block() != fn.Recover && reach[r.Block()] {
			return false
		}
	}
	return true
}

func runC12(c *Ctx) {
	// whether a target column can hold nulls is a property of its whole path (an
	// optional or repeated ancestor makes a required leaf nullable): the flag
	// recorded per converted column comes from the maximum definition level
	runWire(c, "C12.nullable", wireSpec{Fn: "Convert", Sink: "field:conversionColumn.isOptional", Through: true,
		Allowed: []string{"field:leafColumn.maxDefinitionLevel", "const"}, Require: []string{"field:leafColumn.maxDefinitionLevel"}})
	c.Min("C12.nullable", 1)
	// pages re-indexed for the target schema stay re-indexed when sliced
	wrapperPreservedRule(c, "C12.wrapper", "Page", "Slice", 4)
	// MergeRowGroups converts every input to the merged schema; values are
	// converted by the Rows() of the converted row groups, so the result must
	// not be a bare multi-row-group (whose Rows() reads the flattened chunks)
	runPrefixFilterRule(c, "C12.sortprefix", 1)
	c12InitOrder(c)
	if obj := c.P.LookupFunc("MergeRowGroups"); c.Anchor("C12.mergeconv", "MergeRowGroups", obj != nil) {
		fn := c.P.SSAFunc(obj)
		var bad []string
		nret := 0
		for _, ret := range returnsOf(fn) {
			rv, _ := retResult(ret, 0)
			if rv == nil || isNilConst(rv) {
				continue
			}
			nret++
			for _, o := range Origins(rv, OriginOpts{}) {
				t := o.Val.Type()
				if o.Kind == OrgCall {
					if sig := o.Call.Common().Signature(); sig != nil && sig.Results().Len() > 0 {
						t = sig.Results().At(0).Type()
					}
				}
				if nt := namedOf(t); nt != nil && nt.Obj().Name() == "multiRowGroup" {
					bad = append(bad, c.P.Pos(ret.Pos()))
				}
			}
		}
		sort.Strings(bad)
		c.Check("C12.mergeconv", "MergeRowGroups never returns a bare multi-row-group", fn.Pos(), len(bad) == 0 && nret > 0, "MergeRowGroups returns a plain multiRowGroup ("+strings.Join(bad, ", ")+") over its converted inputs: its Rows() reads the flattened column chunks, which for a converted row group may be the source's, so conversions that change values (timestamp units, added columns) are bypassed and the rows do not match the merged schema")
	}
	p := c.P
	// polarity: explicit families
	rule := "C12.polarity"
	fam := map[string]string{"EqualNodes": "Equal", "groupNodesAreEqual": "Equal", "SameNodes": "Same", "groupNodesAreSame": "Same"}
	for name, mine := range fam {
		fs := p.Syntax(name)
		if !c.Anchor(rule, name, fs != nil) {
			continue
		}
		var bad []string
		ast.Inspect(fs.Decl.Body, func(x ast.Node) bool {
			if id, ok := x.(*ast.Ident); ok {
				if fn, ok := fs.Info().Uses[id].(*types.Func); ok {
					if other, isFam := fam[fn.Name()]; isFam && other != mine {
						bad = append(bad, fn.Name())
					}
				}
			}
			return true
		})
		sort.Strings(bad)
		c.Check(rule, name+" recurses within its own family", fs.Decl.Pos(), len(bad) == 0, name+" (order-"+map[string]string{"Equal": "sensitive", "Same": "insensitive"}[mine]+") refers to "+strings.Join(bad, ", ")+": nested groups are then compared with the other notion of equality, schemas that differ only in nested field order are judged equal, no conversion is inserted and same-typed siblings are read crossed")
	}
	c.Min(rule, 4)

	// insert
	rule = "C12.insert"
	if obj := p.LookupFunc("copyRows"); c.Anchor(rule, "copyRows", obj != nil) {
		fn := p.SSAFunc(obj)
		var cmp ssa.Instruction
		allCalls(fn, false, func(_ *ssa.Function, call ssa.CallInstruction) {
			if n := calleeName(call); n == "EqualNodes" || n == "nodesAreEqual" {
				if cmp == nil {
					cmp = call.(ssa.Instruction)
				}
			}
		})
		c.Check(rule, "copyRows compares the schemas", fn.Pos(), cmp != nil, "copyRows no longer compares source and target schema")
		k := 0
		allCalls(fn, false, func(_ *ssa.Function, call ssa.CallInstruction) {
			cc := call.Common()
			if !cc.IsInvoke() || (cc.Method.Name() != "WriteRowsTo" && cc.Method.Name() != "ReadRowsFrom") {
				return
			}
			c.Check(rule, "copyRows: fast path "+cc.Method.Name()+" only after the schema comparison#"+itoa(k), call.Pos(), cmp != nil && reachableFrom(cmp.Block())[call.Block()] && !reachableFrom(call.Block())[cmp.Block()],
				"the "+cc.Method.Name()+" shortcut is taken before source and target schemas were compared: rows are handed over verbatim although the destination has a different schema (columns crossed, or a panic in the writer)")
			k++
		})
		// the source the fast path hands over is the source the slow path reads:
		// the (possibly converted) reader, not the reader as it was passed in
		var slowSrc ssa.Value
		allCalls(fn, false, func(_ *ssa.Function, call ssa.CallInstruction) {
			if cc := call.Common(); cc.IsInvoke() && cc.Method.Name() == "ReadRows" {
				slowSrc = cc.Value
			}
		})
		k = 0
		allInstrs(fn, false, func(_ *ssa.Function, ins ssa.Instruction) {
			ta, ok := ins.(*ssa.TypeAssert)
			if !ok || slowSrc == nil {
				return
			}
			iface, _ := ta.AssertedType.Underlying().(*types.Interface)
			if iface == nil {
				return
			}
			has := false
			for i := 0; i < iface.NumMethods(); i++ {
				if iface.Method(i).Name() == "WriteRowsTo" {
					has = true
				}
			}
			if !has || !types.Identical(ta.X.Type(), slowSrc.Type()) {
				return
			}
			same := ta.X == slowSrc
			if !same {
				// both read the same variable cell: the assertion must not be
				// taken before a store into the cell that can still happen
				lx, ok1 := ta.X.(*ssa.UnOp)
				ly, ok2 := slowSrc.(*ssa.UnOp)
				if ok1 && ok2 && lx.X == ly.X {
					same = true
					if cell, isAlloc := lx.X.(*ssa.Alloc); isAlloc {
						for _, r := range *cell.Referrers() {
							if st, isSt := r.(*ssa.Store); isSt && st.Addr == ssa.Value(cell) && executesAfter(lx, st) {
								same = false
							}
						}
					}
				}
			}
			c.Check(rule, "copyRows: the WriteRowsTo fast path hands over the reader the slow path would read#"+itoa(k), ta.Pos(), same, "the RowWriterTo assertion is made on "+describeValue(p, ta.X)+" while the rows are otherwise read from "+describeValue(p, slowSrc)+" (the source after a conversion was inserted): a source that can write itself hands over unconverted rows to a destination with another schema")
			k++
		})
		conv := 0
		allCalls(fn, false, func(_ *ssa.Function, call ssa.CallInstruction) {
			if n := calleeName(call); n == "ConvertRowReader" || n == "Convert" {
				conv++
			}
		})
		c.Check(rule, "copyRows inserts a conversion when schemas differ", fn.Pos(), conv > 0, "no conversion is inserted any more")
	}
	c.Min(rule, 5)

	// adjacent
	rule = "C12.adjacent"
	if obj := p.LookupFunc("findAdjacentColumnChunk"); c.Anchor(rule, "findAdjacentColumnChunk", obj != nil) {
		fn := p.SSAFunc(obj)
		rep := p.LookupField("leafColumn", "maxRepetitionLevel")
		ok := false
		allInstrs(fn, true, func(_ *ssa.Function, ins ssa.Instruction) {
			bo, isB := ins.(*ssa.BinOp)
			if !isB || (bo.Op != token.EQL && bo.Op != token.NEQ) {
				return
			}
			l, r := false, false
			for _, o := range Origins(bo.X, OriginOpts{}) {
				if o.Kind == OrgField && o.Field == rep {
					l = true
				}
			}
			for _, o := range Origins(bo.Y, OriginOpts{}) {
				if o.Kind == OrgField && o.Field == rep {
					r = true
				}
			}
			if l && r {
				ok = true
			}
		})
		c.Check(rule, "sibling chosen for an added column has the same repetition depth", fn.Pos(), ok, "findAdjacentColumnChunk no longer compares maxRepetitionLevel of the candidate with the target: an added column can mirror the levels of a sibling nested one list deeper and gets a wrong number of values")
	}

	// errors
	names := map[string]bool{"Convert": true, "(Conversion).Convert": true, "ConvertRowGroup": true, "(*conversion).Convert": true, "convertToLevels": true}
	runErrRule(c, "C12.errors", func(fn *ssa.Function) bool { return true }, func(s ErrSite) bool { return names[s.Callee] }, nil)
	// convertvalue exhaustiveness
	tt := p.LookupType("Type")
	if tt != nil {
		iface, _ := tt.Underlying().(*types.Interface)
		var fns []string
		for _, t := range p.Implementations(iface) {
			m, prom := MethodOf(t, "ConvertValue")
			if m == nil || prom {
				continue
			}
			if fs := p.SyntaxOf(m); fs != nil && len(fs.enumSwitches(fs.Decl.Body)) > 0 {
				fns = append(fns, ObjKey(m))
			}
		}
		sort.Strings(fns)
		enumRule(c, "C12.convertvalue", "Kind", fns)
		c.Min("C12.convertvalue", 8)
	}
	markerRule(c, "C12.marker")
}

func runC19(c *Ctx) {
	p := c.P
	literalSiblingRule(c, "C19.siblings", 1)
	runColumnAdvanceRule(c, "C19.coladvance", 2)
	// enum coverage of the primitive type in the variant package
	if et := p.LookupType("variant.PrimitiveType"); c.Anchor("C19.enum", "variant.PrimitiveType", et != nil) {
		var fns []string
		for _, pkg := range p.Mod {
			if pkg.PkgPath != modPath+"/variant" {
				continue
			}
			for _, f := range pkg.Syntax {
				for _, d := range f.Decls {
					fd, ok := d.(*ast.FuncDecl)
					if !ok || fd.Body == nil {
						continue
					}
					obj, _ := pkg.TypesInfo.Defs[fd.Name].(*types.Func)
					if obj == nil {
						continue
					}
					fs := p.SyntaxOf(obj)
					if fs == nil {
						continue
					}
					for _, sw := range fs.enumSwitches(fd.Body) {
						if sw.TagType.Origin() == et.Origin() {
							fns = append(fns, ObjKey(obj))
							break
						}
					}
				}
			}
		}
		sort.Strings(fns)
		enumRule(c, "C19.enum", "variant.PrimitiveType", fns)
	}
	c.Min("C19.enum", 4)

	// pagereset: the per-page cursor fields are assigned unconditionally when a page is installed
	rule := "C19.pagereset"
	if obj := p.LookupFunc("(*variantLeafReader).setPage"); c.Anchor(rule, "(*variantLeafReader).setPage", obj != nil) {
		fn := p.SSAFunc(obj)
		for _, fname := range []string{"page", "pdefs", "preps", "pcount", "ppos", "pdense", "pidx"} {
			f := p.LookupField("variantLeafReader", fname)
			if !c.Anchor(rule, "variantLeafReader."+fname, f != nil) {
				continue
			}
			// some store to the field lies on every path to every return
			wb := map[*ssa.BasicBlock]bool{}
			allInstrs(fn, false, func(_ *ssa.Function, ins ssa.Instruction) {
				if st, ok := ins.(*ssa.Store); ok {
					if fs, _, elem := fieldChain(st.Addr); len(fs) > 0 && !elem && fs[len(fs)-1] == f {
						wb[st.Block()] = true
					}
				}
			})
			ok := len(wb) > 0
			if ok {
				reach := reachableAvoidingSet(fn.Blocks[0], wb, nil)
				for _, r := range returnsOf(fn) {
					if r.Block() != fn.Recover && reach[r.Block()] {
						ok = false
					}
				}
			}
			c.Check(rule, "setPage re-establishes "+fname, fn.Pos(), ok, "installing a new page does not assign "+fname+" on every path: the reader keeps the value of the previous page (for instance the dictionary indexes of a dictionary page while reading the PLAIN page that follows it) and returns wrong values without error")
		}
	}
	c.Min(rule, 7)
	runGrownResetRule(c, "C19.windowreset", "variantLeafWindow", "(*variantLeafWindow).reset", 5)
	runArenaWindowRule(c, "C19.arenawindow", 1) // five windows today; a rewrite without a window is legitimate, so only vacuity is guarded
}

// c01LazyBuffer: the column buffer of a column writer is created lazily by
// several entry points (WriteRows, WriteRowValues, the typed Write). Each of
// them creates it only when there is none: an unconditional creation discards
// the rows another entry point has buffered (finding F38). Every store of a
// freshly made column buffer into ColumnWriter.columnBuffer is dominated by
// the nil edge of a test of that field.
func c01LazyBuffer(c *Ctx) {
	rule := "C01.lazybuffer"
	p := c.P
	f := p.LookupField("ColumnWriter", "columnBuffer")
	if !c.Anchor(rule, "ColumnWriter.columnBuffer", f != nil) {
		return
	}
	n := 0
	for _, fn := range p.ModuleSSAFuncs() {
		if fn.Origin() != nil || fn.Blocks == nil {
			continue
		}
		nilEdges := nilGuardEdgeTargets(fn, f)
		k := 0
		allInstrs(fn, false, func(_ *ssa.Function, ins ssa.Instruction) {
			st, ok := ins.(*ssa.Store)
			if !ok {
				return
			}
			fs, root, elem := fieldChain(st.Addr)
			if len(fs) == 0 || elem || fs[len(fs)-1] != f || isFreshRoot(root) {
				return
			}
			fresh := false
			for _, o := range Origins(st.Val, OriginOpts{}) {
				if o.Kind == OrgCall && strings.HasSuffix(calleeName(o.Call), ").newColumnBuffer") {
					fresh = true
				}
			}
			if !fresh {
				return
			}
			n++
			guarded := false
			for _, t := range nilEdges {
				if t.Dominates(st.Block()) {
					guarded = true
				}
			}
			key := FuncKey(fn) + ": a column buffer is created only when there is none"
			if k > 0 {
				key += " #" + itoa(k)
			}
			k++
			c.Check(rule, key, st.Pos(), guarded, FuncKey(fn)+" installs a new column buffer without testing that the column has none: rows already buffered through another write entry point (WriteRows before the first typed Write) are dropped without error")
		})
	}
	c.Stats[rule+".creations"] = n
	c.Min(rule, 3)
}

// nilGuardEdgeTargets: successor blocks entered when a load of field f is nil.
func nilGuardEdgeTargets(fn *ssa.Function, f *types.Var) []*ssa.BasicBlock {
	var out []*ssa.BasicBlock
	for e := range nilGuardEdges(fn, f) {
		// the edge target must have the test block as its only predecessor to stand for the edge
		if len(e[1].Preds) == 1 {
			out = append(out, e[1])
		}
	}
	return out
}

// c03Stride — a column buffer reads the array it is handed with the element
// size of its physical type. A typed write function that builds a scratch array
// of fixed-width integers (sparse.MakeInt32Array / MakeInt64Array) and passes
// it to a column buffer's writeValues decides the width from the column: the
// function that builds the closure reads the physical kind of the column's type
// (Type.Kind()). One that never looks at the column hands a 4-byte-stride array
// to an 8-byte column when a tag widens it (F51).
func c03Stride(c *Ctx) {
	rule := "C03.stride"
	p := c.P
	n := 0
	tops := map[*ssa.Function]bool{}
	for _, fn := range p.ModuleSSAFuncs() {
		if fn.Origin() != nil || fn.Blocks == nil || fnPkgPath(fn) != modPath {
			continue
		}
		makes, writes := false, false
		allCalls(fn, false, func(_ *ssa.Function, call ssa.CallInstruction) {
			cc := call.Common()
			if sc := cc.StaticCallee(); sc != nil && strings.HasSuffix(fnPkgPath(sc), "/sparse") && (sc.Name() == "MakeInt32Array" || sc.Name() == "MakeInt64Array") {
				makes = true
			}
			if cc.IsInvoke() && cc.Method.Name() == "writeValues" {
				writes = true
			}
		})
		if !makes || !writes {
			continue
		}
		top := fn
		for top.Parent() != nil {
			top = top.Parent()
		}
		tops[top] = true
	}
	for _, top := range sortedFuncs(tops) {
		readsKind := false
		allCalls(top, true, func(_ *ssa.Function, call ssa.CallInstruction) {
			cc := call.Common()
			if cc.IsInvoke() && cc.Method.Name() == "Kind" {
				if nt := namedOf(cc.Value.Type()); nt != nil && nt.Obj().Name() == "Type" && nt.Obj().Pkg() != nil && nt.Obj().Pkg().Path() == modPath {
					readsKind = true
				}
			}
		})
		n++
		c.Check(rule, FuncKey(top)+" chooses the width of its scratch array from the column", top.Pos(), readsKind, FuncKey(top)+" hands a column buffer a scratch array of fixed-width integers without ever reading the physical kind of the column: when a tag gives the column another width (int(64) on an int16 field) the buffer reads the array with the wrong element size — neighbouring values glued together, and memory past the scratch")
	}
	c.Min(rule, 2)
}

// c10WrapOrder — where nulls go is declared independently of the direction: a
// comparison built from a column's Compare is reversed first and given its
// null placement second, so the null wrapper is the outermost one. Module-wide:
// the argument of CompareDescending never derives from the result of
// CompareNullsFirst / CompareNullsLast (reversing a null-aware comparison
// inverts the placement of nulls as well).
func c10WrapOrder(c *Ctx) {
	rule := "C10.wraporder"
	p := c.P
	n := 0
	for _, fn := range p.ModuleSSAFuncs() {
		if fn.Origin() != nil || fn.Blocks == nil || !inModule(fn) {
			continue
		}
		k := 0
		allCalls(fn, false, func(_ *ssa.Function, call ssa.CallInstruction) {
			if calleeName(call) != "CompareDescending" {
				return
			}
			n++
			k++
			inner := ""
			for _, o := range Origins(call.Common().Args[0], OriginOpts{}) {
				if o.Kind == OrgCall {
					if nm := calleeName(o.Call); nm == "CompareNullsFirst" || nm == "CompareNullsLast" {
						inner = nm
					}
				}
			}
			c.Check(rule, FuncKey(fn)+" reverses the comparison before it places the nulls#"+itoa(k), call.Pos(), inner == "", FuncKey(fn)+" passes the result of "+inner+" to CompareDescending: the reversal also inverts where nulls are placed, so a descending nulls-first column sorts its nulls last, against the declared sorting column and the column buffers")
		})
	}
	c.Min(rule, 1)
}

// c09NullCount — a value is null when its definition level is below the
// maximum of its column, whatever lies in between (a null leaf inside a present
// optional group has a level that is neither 0 nor the maximum). Every count
// over definition levels (countLevelsEqual / countLevelsNotEqual on a value
// read from a field or parameter named definitionLevels) compares with a
// maximum definition level, never with a constant.
func c09NullCount(c *Ctx) {
	rule := "C09.nullcount"
	p := c.P
	n := 0
	for _, fn := range p.ModuleSSAFuncs() {
		if fn.Origin() != nil || fn.Blocks == nil || fnPkgPath(fn) != modPath {
			continue
		}
		k := 0
		allCalls(fn, false, func(_ *ssa.Function, call ssa.CallInstruction) {
			nm := calleeName(call)
			if nm != "countLevelsEqual" && nm != "countLevelsNotEqual" {
				return
			}
			args := call.Common().Args
			isDef := false
			var look func(v ssa.Value, depth int)
			look = func(v ssa.Value, depth int) {
				for _, o := range Origins(v, OriginOpts{}) {
					switch {
					case o.Kind == OrgField && strings.Contains(strings.ToLower(o.Field.Name()), "definitionlevel"):
						isDef = true
					case o.Kind == OrgParam && strings.Contains(strings.ToLower(o.Val.Name()), "definitionlevel"):
						isDef = true
					case o.Kind == OrgCall && depth < 2:
						// x.definitionLevels.Slice(), unsafecast of the same
						cc := o.Call.Common()
						if cc.IsInvoke() {
							look(cc.Value, depth+1)
						} else if len(cc.Args) > 0 {
							look(cc.Args[0], depth+1)
						}
					}
				}
			}
			look(args[0], 0)
			if !isDef {
				return
			}
			n++
			k++
			_, isConst := args[1].(*ssa.Const)
			c.Check(rule, FuncKey(fn)+" counts nulls against the maximum definition level#"+itoa(k), call.Pos(), !isConst, FuncKey(fn)+" counts definition levels against a constant: nulls below a present optional group (a level between 0 and the maximum) are not counted, the key range of a sorted input misses its nulls and overlapping inputs are concatenated instead of merged")
		})
	}
	c.Min(rule, 3)
}

// c04OffsetSrc — the values of an EncodeByteArray call are the bytes of src
// that its offsets cover, not src: every use of the src parameter in an
// EncodeByteArray method goes through a slice or an index of it (or measures
// it). A method that appends, copies or passes src whole encodes bytes the
// offsets do not describe when the page is a slice of a larger buffer.
func c04OffsetSrc(c *Ctx) {
	rule := "C04.offsetsrc"
	n := 0
	for _, fn := range c.P.ModuleSSAFuncs() {
		if fn.Origin() != nil || fn.Blocks == nil || fn.Parent() != nil || fn.Name() != "EncodeByteArray" || !strings.Contains(fnPkgPath(fn), "/encoding/") || len(fn.Params) != 4 {
			continue
		}
		src := fn.Params[2]
		var whole []string
		uses := 0
		var check func(v ssa.Value, seen map[ssa.Value]bool)
		check = func(v ssa.Value, seen map[ssa.Value]bool) {
			if seen[v] || v.Referrers() == nil {
				return
			}
			seen[v] = true
			for _, r := range *v.Referrers() {
				switch x := r.(type) {
				case *ssa.Slice, *ssa.IndexAddr, *ssa.Index, *ssa.DebugRef:
					uses++
				case *ssa.Phi:
					check(x, seen)
				case *ssa.Store:
					// spilled for a closure: the loads of the cell denote src
					if al, ok := x.Addr.(*ssa.Alloc); ok && x.Val == v {
						for _, rr := range *al.Referrers() {
							if ld, ok := rr.(*ssa.UnOp); ok {
								check(ld, seen)
							}
						}
					}
				case ssa.CallInstruction:
					if bi, isB := x.Common().Value.(*ssa.Builtin); isB && (bi.Name() == "len" || bi.Name() == "cap") {
						uses++
						continue
					}
					whole = append(whole, calleeName(x)+" at "+c.P.Pos(x.Pos()))
				default:
					whole = append(whole, "used at "+c.P.Pos(r.Pos()))
				}
			}
		}
		check(src, map[ssa.Value]bool{})
		n++
		sort.Strings(whole)
		c.Check(rule, FuncKey(fn)+" encodes the bytes its offsets cover", fn.Pos(), len(whole) == 0, FuncKey(fn)+" uses its src parameter whole ("+strings.Join(whole, ", ")+"): the offsets of a sliced page cover a part of the values buffer, and the page is encoded with bytes the offsets do not describe")
	}
	c.Min(rule, 3)
}
