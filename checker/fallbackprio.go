package main

import (
	"go/token"
	"go/types"

	"golang.org/x/tools/go/ssa"
)

// T-FALLBACKPRIO — two sources answer the same question ("how many rows has
// chunk i"): the per-chunk list (multiColumnChunk.rowCounts, indexed like the
// chunks) and, as a fallback for columns that were never flattened, the row
// groups (indexed by row group). Only the first is indexed like the chunks, so
// whenever it has an entry it wins: every element access to
// multiRowGroup.rowGroups in a function that also reads an element of
// rowCounts lies on the edge of a test of len(rowCounts) on which the list has
// no entry for the index (or is empty).
func runFallbackPrioRule(c *Ctx, rule string, min int) {
	p := c.P
	primary := p.LookupField("multiColumnChunk", "rowCounts")
	fallback := p.LookupField("multiRowGroup", "rowGroups")
	if !c.Anchor(rule, "multiColumnChunk.rowCounts", primary != nil) || !c.Anchor(rule, "multiRowGroup.rowGroups", fallback != nil) {
		return
	}
	loadOf := func(v ssa.Value, f *types.Var) bool {
		for _, o := range Origins(v, OriginOpts{}) {
			if o.Kind == OrgField && o.Field == f {
				return true
			}
		}
		return false
	}
	isLenOf := func(v ssa.Value, f *types.Var) bool {
		for {
			cv, ok := v.(*ssa.Convert)
			if !ok {
				break
			}
			v = cv.X
		}
		call, ok := v.(*ssa.Call)
		if !ok {
			return false
		}
		b, ok := call.Call.Value.(*ssa.Builtin)
		return ok && b.Name() == "len" && loadOf(call.Call.Args[0], f)
	}
	n := 0
	for _, fn := range p.ModuleSSAFuncs() {
		if fn.Origin() != nil || fn.Blocks == nil || fnPkgPath(fn) != modPath {
			continue
		}
		var prim, fall []*ssa.IndexAddr
		allInstrs(fn, false, func(_ *ssa.Function, ins ssa.Instruction) {
			ia, ok := ins.(*ssa.IndexAddr)
			if !ok {
				return
			}
			if loadOf(ia.X, primary) {
				prim = append(prim, ia)
			}
			if loadOf(ia.X, fallback) {
				fall = append(fall, ia)
			}
		})
		if len(prim) == 0 || len(fall) == 0 {
			continue
		}
		// edges on which the per-chunk list has no entry
		empty := map[*ssa.BasicBlock]bool{}
		for _, b := range fn.Blocks {
			iff, ok := b.Instrs[len(b.Instrs)-1].(*ssa.If)
			if !ok {
				continue
			}
			cmp, ok := iff.Cond.(*ssa.BinOp)
			if !ok {
				continue
			}
			op := cmp.Op
			switch {
			case isLenOf(cmp.X, primary):
			case isLenOf(cmp.Y, primary):
				switch op { // idx op len  ≡  len op' idx
				case token.LSS:
					op = token.GTR
				case token.GTR:
					op = token.LSS
				case token.LEQ:
					op = token.GEQ
				case token.GEQ:
					op = token.LEQ
				}
			default:
				continue
			}
			var succ *ssa.BasicBlock
			switch op {
			case token.GTR, token.GEQ, token.NEQ: // len > idx, len != 0: populated on the true edge
				succ = b.Succs[1]
			case token.LSS, token.LEQ, token.EQL:
				succ = b.Succs[0]
			default:
				continue
			}
			if len(succ.Preds) == 1 {
				for _, x := range fn.Blocks {
					if succ.Dominates(x) {
						empty[x] = true
					}
				}
			}
		}
		for i, ia := range fall {
			n++
			c.Check(rule, FuncKey(fn)+": row groups consulted only where the per-chunk row counts have no entry #"+itoa(i), ia.Pos(), empty[ia.Block()],
				FuncKey(fn)+" reads both multiColumnChunk.rowCounts (indexed like the chunks) and multiRowGroup.rowGroups (indexed by row group) for the rows of a chunk, and takes the row group although the per-chunk list may have an entry: for a multi row group built from multi row groups the chunk index is not a row group index, so seeks and page offsets land in the wrong chunk")
		}
	}
	c.Min(rule, min)
}
