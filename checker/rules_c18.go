package main

import (
	"go/token"
	"go/types"
	"sort"
	"strings"

	"golang.org/x/tools/go/ssa"
)

// C18 — encrypted files round-trip, leak no plaintext and authenticate every module.

func init() {
	register(&Property{
		ID:      "C18",
		NeedSSA: true,
		Decided: "Structural necessary conditions: (aad) for every module type the writer-side and reader-side makeAAD call sites both exist, pass the same number of ordinals, and put row-group, column and page ordinals in that order (no ordinal position is fed from a field of another role); page header modules seal the serialised header and page body modules the body; (plaintext) in writeDataPage, writeDictionaryPage and writeBloomFilter, on the edge where the column key is non-nil every byte handed to the output derives from encryptModule, and the plaintext emission is not reachable from that edge; (config) every option-merging Configure method carries every field of its configuration struct from the field of the same name (an Encryption/Decryption option is never dropped); (construct) every path that creates column writers for a writer with encryption configured installs the column key and AAD state; (auth) bytes decoded on the encrypted read path come from decryptModule (C13.provenance) and no error of decryptModule, readDecryptedEnvelopeFrom, verifyFooterSignature or a KeyRetriever is dropped or swallowed; the decryption helpers never return a bare io.EOF of their own; (rand) buffers filled from crypto/rand (nonces, file identifier) have a non-zero constant length; (ordinals) the page ordinal advances once per page written, only after the page was accepted; (nocopy) the verbatim-copy eligibility consults the encryption state of both sides; (reset) the ordinal state of column writers is re-established on Reset (C17.reset). (readord) on the read side, wherever the page cursor of FilePages is repositioned the data page ordinal of the decryption state is assigned on the same path, and wherever that ordinal is repositioned the dictionary-page flag is assigned too (fields found by role). (fileid) the function that draws the random file identifier is reachable from (*writer).reset, which also assigns the column writers' reference to it; (missingkey) the branch accepting ErrKeyNotFound stores into a field of the column chunk, and every consumer of the chunk's decryption key also loads that field. (nilconfig) every dereference of FileConfig.Decryption is dominated by the non-nil edge of a test of that field. (footerstrip) a function that stores a ColumnChunk.EncryptedColumnMetadata also overwrites the MetaData of the chunk recorded in the footer with the zero value as a whole, on a branch of a test computed from the EncryptedFooter setting. (ordbits) a bit-provenance analysis of the bytes makeAAD appends for each int16 ordinal (constant shifts and masks, integer conversions; any other operation is undecided and fails) shows that together they carry all sixteen bits of the ordinal. (signed) in the function that verifies the footer signature, from the point where the bytes trailing the decoded footer are measured no successful return is reachable without passing the verification or a test of the footer's declared EncryptionAlgorithm.",
		NotDecided: "cryptographic strength; exhaustive tamper detection; equality of decrypted rows; whether pages of a concurrently filled row group can know their row-group ordinal before commit.",
		Assumptions: []string{"AES-GCM Seal/Open authenticate plaintext and AAD (crypto/cipher)"},
		Run:         runC18,
	})
}

func runC18(c *Ctx) {
	c18NilConfig(c)
	c18FooterStrip(c)
	c18OrdBits(c)
	c18Signed(c)
	c18AAD(c)
	c18Plaintext(c)
	runConfigMergeRule(c, "C18.config", map[string]string{
		"FileConfig.OptimisticRead": "performance option of the reader (prefetch of the footer); dropping it changes I/O pattern only. Incidental finding: ConfigureFile does not carry it.",
	})
	c.Min("C18.config", 8)
	c18Construct(c)
	c18Auth(c)
	c18Rand(c)
	c18Ordinals(c)
	c18NoCopy(c)
	c18ReadOrdinals(c)
	c18FileID(c)
	c18MissingKey(c)
}

// c18FileID: the file identifier is part of the AAD of every module and is
// what ties a module to its file. A writer that is reused for another file
// (Reset) draws a new one: the function that fills the identifier from
// crypto/rand is reachable from (*writer).reset, and reset hands the new
// identifier to the column writers (which keep their own reference).
func c18FileID(c *Ctx) {
	p := c.P
	rule := "C18.fileid"
	idField := p.LookupField("fileEncryptionState", "fileUnique")
	colField := p.LookupField("ColumnWriter", "fileUnique")
	resetObj := p.LookupFunc("(*writer).reset")
	if !c.Anchor(rule, "fileEncryptionState.fileUnique", idField != nil) || !c.Anchor(rule, "ColumnWriter.fileUnique", colField != nil) || !c.Anchor(rule, "(*writer).reset", resetObj != nil) {
		return
	}
	// functions that read crypto/rand and assign the identifier
	var drawers []*ssa.Function
	for _, fn := range p.ModuleSSAFuncs() {
		if fn.Origin() != nil || fn.Blocks == nil {
			continue
		}
		reads, stores := false, false
		allInstrs(fn, false, func(_ *ssa.Function, ins ssa.Instruction) {
			switch x := ins.(type) {
			case *ssa.Store:
				if fs, _, elem := fieldChain(x.Addr); len(fs) > 0 && !elem && fs[len(fs)-1] == idField {
					stores = true
				}
			case ssa.CallInstruction:
				for _, a := range x.Common().Args {
					for _, o := range Origins(a, OriginOpts{}) {
						if g, ok := o.Val.(*ssa.Global); ok && o.Kind == OrgGlobal && g.Pkg != nil && g.Pkg.Pkg.Path() == "crypto/rand" {
							reads = true
						}
					}
				}
			}
		})
		if reads && stores {
			drawers = append(drawers, fn)
		}
	}
	if !c.Anchor(rule, "a function that draws the file identifier from crypto/rand", len(drawers) > 0) {
		return
	}
	_, closure := ResetCover(p, []*ssa.Function{p.SSAFunc(resetObj)}, 7)
	reached := false
	for _, d := range drawers {
		if closure[d] {
			reached = true
		}
	}
	c.Check(rule, "(*writer).reset draws a new file identifier", resetObj.Pos(), reached, "(*writer).reset reaches no function that draws the random file identifier: every file written by a reused writer carries the same identifier, and a module transplanted from one of them into another at the same position is accepted")
	propagated := false
	for fn := range closure {
		allInstrs(fn, false, func(_ *ssa.Function, ins ssa.Instruction) {
			if st, ok := ins.(*ssa.Store); ok {
				if fs, _, elem := fieldChain(st.Addr); len(fs) > 0 && !elem && fs[len(fs)-1] == colField {
					propagated = true
				}
			}
		})
	}
	c.Check(rule, "(*writer).reset hands the new identifier to the column writers", resetObj.Pos(), propagated, "the column writers keep their own reference to the file identifier; reset does not update it, so pages are sealed under the previous identifier while the footer announces the new one")
	c.Min(rule, 2)
}

// c18ReadOrdinals: the reader derives the AAD of the next page from
// (dictPagePending, dataPageOrd), which must follow the page cursor.
func c18ReadOrdinals(c *Ctx) {
	rule := "C18.readord"
	p := c.P
	cursor, ord, pending := filePagesCursorRoles(p)
	closeWhy := map[string]string{
		"(*FilePages).Close": "the page reader is unusable after Close (chunk, section and buffers are dropped)",
	}
	r1, _ := reqStoreTo(p, ord)
	r1.Strict, r1.Guard = true, p.LookupField("FilePages", "dec")
	coWriteRule(c, rule, "page cursor of FilePages", cursor, r1, ord != nil, closeWhy, "the next encrypted page is authenticated with the AAD of another page ordinal and fails to decrypt (or a swapped page is accepted)")
	r2, _ := reqStoreTo(p, pending)
	r2.Strict = true
	coWriteRule(c, rule, "data page ordinal of the decryption state", ord, r2, pending != nil, nil,
		"after repositioning on a data page the reader still expects the dictionary page and derives the dictionary-page AAD for a data page")
	c.Min(rule, 5)
}

// filePagesCursorRoles finds, by role, the page cursor of FilePages (the
// FilePages field ReadPage advances by one), the data page ordinal of its
// decryption state (the field of another struct advanced by one in the
// functions ReadPage calls) and the dictionary-page flag (the bool field of
// that struct).
func filePagesCursorRoles(p *Prog) (cursor, ord, pending *types.Var) {
	obj := p.LookupFunc("(*FilePages).ReadPage")
	fp := p.LookupType("FilePages")
	if obj == nil || fp == nil {
		return
	}
	steps := map[*types.Var]bool{}
	stepFields(p, p.SSAFunc(obj), 2, map[*ssa.Function]bool{}, steps)
	own := fieldsOfStruct(fp)
	nc, no := 0, 0
	for f := range steps {
		if own[f] {
			cursor = f
			nc++
		} else if owner := ownerStruct(f, p); owner != nil && owner.Obj().Pkg() == p.Root.Types {
			ord = f
			no++
		}
	}
	if nc != 1 {
		cursor = nil
	}
	if no != 1 {
		ord = nil
	}
	if ord != nil {
		if st, ok := ownerStruct(ord, p).Underlying().(*types.Struct); ok {
			nb := 0
			for i := 0; i < st.NumFields(); i++ {
				if b, ok := st.Field(i).Type().Underlying().(*types.Basic); ok && b.Kind() == types.Bool {
					pending = st.Field(i)
					nb++
				}
			}
			if nb != 1 {
				pending = nil
			}
		}
	}
	return
}

type aadSite struct {
	fn       *ssa.Function
	call     *ssa.Call
	module   []string // names of the module constants that can reach the site
	ordinals []ssa.Value
	side     string // writer | reader | ?
}

func moduleConstNames(p *Prog) map[int64]string {
	out := map[int64]string{}
	scope := p.Root.Types.Scope()
	for _, n := range scope.Names() {
		if k, ok := scope.Lookup(n).(*types.Const); ok && strings.HasSuffix(n, "Module") {
			if b, ok := k.Type().Underlying().(*types.Basic); ok && b.Kind() == types.Uint8 {
				if v, ok := constInt(k); ok {
					out[v] = n
				}
			}
		}
	}
	return out
}

func constInt(k *types.Const) (int64, bool) {
	s := k.Val().ExactString()
	n := int64(0)
	for _, ch := range s {
		if ch < '0' || ch > '9' {
			return 0, false
		}
		n = n*10 + int64(ch-'0')
	}
	return n, true
}

func c18AAD(c *Ctx) {
	p := c.P
	rule := "C18.aad"
	names := moduleConstNames(p)
	if !c.Anchor(rule, "module type constants", len(names) >= 10) {
		return
	}
	var sites []aadSite
	for _, fn := range p.ModuleSSAFuncs() {
		if fn.Origin() != nil {
			continue
		}
		allCalls(fn, false, func(_ *ssa.Function, call ssa.CallInstruction) {
			cv, ok := call.(*ssa.Call)
			if !ok || calleeName(call) != "makeAAD" {
				return
			}
			s := aadSite{fn: fn, call: cv}
			args := cv.Call.Args
			for _, o := range Origins(args[2], OriginOpts{}) {
				if k, ok := o.Val.(*ssa.Const); ok && k.Value != nil {
					s.module = append(s.module, names[k.Int64()])
				} else if o.Kind == OrgParam {
					// module type passed in by the caller: resolve one level up
					for _, cs := range callersOf(p, fn) {
						for i, par := range fn.Params {
							if par == o.Val && i < len(cs.Common().Args) {
								for _, o2 := range Origins(cs.Common().Args[i], OriginOpts{}) {
									if k, ok := o2.Val.(*ssa.Const); ok && k.Value != nil {
										s.module = append(s.module, names[k.Int64()])
									}
								}
							}
						}
					}
				} else {
					s.module = append(s.module, "?")
				}
			}
			sort.Strings(s.module)
			// variadic ordinals
			if len(args) > 3 {
				if sl, ok := args[3].(*ssa.Slice); ok {
					if a, ok := sl.X.(*ssa.Alloc); ok {
						idx := map[int64]ssa.Value{}
						for _, ref := range *a.Referrers() {
							if ia, ok := ref.(*ssa.IndexAddr); ok {
								if k, ok := ia.Index.(*ssa.Const); ok {
									for _, r2 := range *ia.Referrers() {
										if st, ok := r2.(*ssa.Store); ok {
											idx[k.Int64()] = st.Val
										}
									}
								}
							}
						}
						for i := int64(0); i < int64(len(idx)); i++ {
							s.ordinals = append(s.ordinals, idx[i])
						}
					}
				}
			}
			// side: what consumes the AAD
			for _, r := range realReferrers(cv) {
				if cc, ok := r.(ssa.CallInstruction); ok {
					switch calleeName(cc) {
					case "encryptModule", "signFooter":
						s.side = "writer"
					case "decryptModule", "readDecryptedEnvelopeFrom", "verifyFooterSignature":
						s.side = "reader"
					}
				}
			}
			if s.side == "" {
				if strings.Contains(p.File(cv.Pos()), "writer") {
					s.side = "writer"
				} else {
					s.side = "reader"
				}
			}
			sites = append(sites, s)
		})
	}
	c.Stats[rule+".makeAAD_sites"] = len(sites)
	wantCount := map[string]int{"footerModule": 0, "columnMetaDataModule": 2, "dataPageBodyModule": 3, "dataPageHeaderModule": 3, "dictPageBodyModule": 3, "dictPageHeaderModule": 3,
		"bloomFilterHdrModule": 2, "bloomFilterBitsModule": 2, "columnIndexModule": 2, "offsetIndexModule": 2}
	sides := map[string]map[string]int{}
	perFn := map[string]int{}
	for _, s := range sites {
		fk := FuncKey(s.fn)
		key := fk + " " + strings.Join(s.module, "|") + "#" + itoa(perFn[fk+strings.Join(s.module, "|")])
		perFn[fk+strings.Join(s.module, "|")]++
		problem := ""
		for _, m := range s.module {
			if m == "" || m == "?" {
				problem = "module type is not one of the declared module constants"
				continue
			}
			if sides[m] == nil {
				sides[m] = map[string]int{}
			}
			sides[m][s.side]++
			if want, ok := wantCount[m]; ok && want != len(s.ordinals) {
				problem = "module " + m + " takes " + itoa(want) + " ordinals, this site passes " + itoa(len(s.ordinals))
			}
		}
		// roles by position
		for i, v := range s.ordinals {
			var fields []string
			for _, o := range Origins(v, OriginOpts{}) {
				if o.Kind == OrgField && o.Field != nil {
					fields = append(fields, strings.ToLower(o.Field.Name()))
				}
			}
			for _, f := range fields {
				isRG := strings.Contains(f, "rowgroup") || f == "ordinal"
				isCol := strings.Contains(f, "column")
				isPage := strings.Contains(f, "page")
				switch i {
				case 0:
					if isCol || isPage {
						problem = "ordinal position 0 (row group) is fed from field " + f
					}
				case 1:
					if isRG || isPage {
						problem = "ordinal position 1 (column) is fed from field " + f
					}
				case 2:
					if isRG || isCol {
						problem = "ordinal position 2 (page) is fed from field " + f
					}
				}
			}
		}
		c.Check(rule, key, s.call.Pos(), problem == "", problem+": the reader rebuilds the AAD as prefix|file id|module|row group|column|page, so a module sealed with different ordinals fails authentication — or authenticates in the wrong place")
	}
	var mods []string
	for m := range wantCount {
		mods = append(mods, m)
	}
	sort.Strings(mods)
	for _, m := range mods {
		c.Check(rule, "module "+m+" has writer-side and reader-side AAD sites", token.NoPos, sides[m]["writer"] > 0 && sides[m]["reader"] > 0,
			"module "+m+": writer sites "+itoa(sides[m]["writer"])+", reader sites "+itoa(sides[m]["reader"])+" (a module that is sealed but never opened, or the reverse)")
	}
	// header modules seal the serialised header, body modules do not
	for _, fn := range p.ModuleSSAFuncs() {
		if fn.Origin() != nil {
			continue
		}
		k := 0
		allCalls(fn, false, func(_ *ssa.Function, call ssa.CallInstruction) {
			if calleeName(call) != "encryptModule" {
				return
			}
			args := call.Common().Args
			var mod string
			for _, o := range Origins(args[1], OriginOpts{}) {
				if o.Kind == OrgCall && calleeName(o.Call) == "makeAAD" {
					for _, o2 := range Origins(o.Call.Common().Args[2], OriginOpts{}) {
						if kk, ok := o2.Val.(*ssa.Const); ok && kk.Value != nil {
							mod = names[kk.Int64()]
						}
					}
				}
			}
			if !strings.Contains(mod, "Page") {
				return
			}
			headerLike := false
			for _, o := range Origins(args[2], OriginOpts{}) {
				if o.Kind == OrgCall && calleeName(o.Call) == "bytes.(*Buffer).Bytes" {
					headerLike = true
				}
			}
			isHdr := strings.Contains(mod, "Header")
			c.Check(rule, FuncKey(fn)+" seals "+mod+" with the matching bytes#"+itoa(k), call.Pos(), headerLike == isHdr, "a page "+map[bool]string{true: "header", false: "body"}[isHdr]+" module type is used to seal the "+map[bool]string{true: "serialised header", false: "page body"}[headerLike]+": the reader opens header and body with the module types of the specification and authentication fails, or header and body become interchangeable")
			k++
		})
	}
	c.Min(rule, 40)
}

func callersOf(p *Prog, fn *ssa.Function) []ssa.CallInstruction {
	var out []ssa.CallInstruction
	for _, g := range p.ModuleSSAFuncs() {
		allCalls(g, false, func(_ *ssa.Function, call ssa.CallInstruction) {
			if sc := call.Common().StaticCallee(); sc != nil && originFn(sc) == originFn(fn) {
				out = append(out, call)
			}
		})
	}
	return out
}

// resolveFreeVarOrigins: origins of v where free variables are resolved to
// the values stored in the captured cells of the enclosing function.
func resolveFreeVarOrigins(v ssa.Value, depth int) []Origin {
	var out []Origin
	for _, o := range Origins(v, OriginOpts{}) {
		if o.Kind != OrgFreeVar || depth > 3 {
			out = append(out, o)
			continue
		}
		fv, _ := o.Val.(*ssa.FreeVar)
		if fv == nil {
			out = append(out, o)
			continue
		}
		fn := fv.Parent()
		par := fn.Parent()
		idx := -1
		for i, f := range fn.FreeVars {
			if f == fv {
				idx = i
			}
		}
		resolved := false
		if par != nil && idx >= 0 {
			for _, b := range par.Blocks {
				for _, ins := range b.Instrs {
					mc, ok := ins.(*ssa.MakeClosure)
					if !ok || mc.Fn != fn || idx >= len(mc.Bindings) {
						continue
					}
					switch bnd := mc.Bindings[idx].(type) {
					case *ssa.Alloc:
						for _, ref := range *bnd.Referrers() {
							if st, ok := ref.(*ssa.Store); ok && st.Addr == bnd {
								out = append(out, resolveFreeVarOrigins(st.Val, depth+1)...)
								resolved = true
							}
						}
					default:
						out = append(out, resolveFreeVarOrigins(bnd, depth+1)...)
						resolved = true
					}
				}
			}
		}
		if !resolved {
			out = append(out, o)
		}
	}
	return out
}

func c18Plaintext(c *Ctx) {
	p := c.P
	rule := "C18.plaintext"
	encKey := p.LookupField("ColumnWriter", "encKey")
	if !c.Anchor(rule, "ColumnWriter.encKey", encKey != nil) {
		return
	}
	for _, k := range []string{"(*ColumnWriter).writeDataPage", "(*ColumnWriter).writeDictionaryPage", "(*ColumnWriter).writeBloomFilter"} {
		obj := p.LookupFunc(k)
		if !c.Anchor(rule, k, obj != nil) {
			continue
		}
		fn := p.SSAFunc(obj)
		var keyed *ssa.BasicBlock
		for _, b := range fn.Blocks {
			if len(b.Instrs) == 0 {
				continue
			}
			ifi, ok := b.Instrs[len(b.Instrs)-1].(*ssa.If)
			if !ok {
				continue
			}
			bo, ok := ifi.Cond.(*ssa.BinOp)
			if !ok || (bo.Op != token.NEQ && bo.Op != token.EQL) || !(isNilConst(bo.X) || isNilConst(bo.Y)) {
				continue
			}
			isKey := false
			for _, side := range []ssa.Value{bo.X, bo.Y} {
				for _, o := range Origins(side, OriginOpts{}) {
					if o.Kind == OrgField && o.Field == encKey {
						isKey = true
					}
				}
			}
			if !isKey {
				continue
			}
			if bo.Op == token.NEQ {
				keyed = b.Succs[0]
			} else {
				keyed = b.Succs[1]
			}
		}
		if keyed == nil {
			c.Fail(rule, k+" branches on the column key", fn.Pos(), "%s has no branch on c.encKey != nil: pages of encrypted columns would be written in clear", k)
			continue
		}
		c.Pass(rule, k+" branches on the column key", keyed.Instrs[0].Pos(), "keyed edge found")
		fromKeyed := reachableFrom(keyed)
		// every Write in the keyed region (and in closures created there) emits ciphertext only
		type wsite struct {
			call ssa.CallInstruction
			in   *ssa.Function
			blk  *ssa.BasicBlock // block of fn the write belongs to (closure creation block for closures)
		}
		var writes []wsite
		allCalls(fn, false, func(_ *ssa.Function, call ssa.CallInstruction) {
			cc := call.Common()
			if cc.IsInvoke() && cc.Method.Name() == "Write" {
				writes = append(writes, wsite{call, fn, call.Block()})
			}
		})
		for _, b := range fn.Blocks {
			for _, ins := range b.Instrs {
				mc, ok := ins.(*ssa.MakeClosure)
				if !ok {
					continue
				}
				cf := mc.Fn.(*ssa.Function)
				allCalls(cf, true, func(in *ssa.Function, call ssa.CallInstruction) {
					cc := call.Common()
					if cc.IsInvoke() && cc.Method.Name() == "Write" {
						writes = append(writes, wsite{call, in, b})
					}
				})
			}
		}
		nk, np := 0, 0
		for _, w := range writes {
			var kinds []string
			cipher := true
			for _, o := range resolveFreeVarOrigins(w.call.Common().Args[0], 0) {
				d := originDescribe(p, o)
				kinds = append(kinds, d)
				if !(o.Kind == OrgCall && calleeName(o.Call) == "encryptModule") {
					cipher = false
				}
			}
			sort.Strings(kinds)
			if keyed.Dominates(w.blk) {
				nk++
				c.Check(rule, k+": keyed branch writes ciphertext only#"+itoa(nk-1), w.call.Pos(), cipher, "on the path where the column has a key, bytes derived from {"+strings.Join(kinds, ", ")+"} are written to the output: anything that is not the result of encryptModule is plaintext of an encrypted column in the file")
			} else if !cipher {
				np++
				c.Check(rule, k+": plaintext emission unreachable when the column has a key#"+itoa(np-1), w.call.Pos(), !fromKeyed[w.blk], "the plaintext write of {"+strings.Join(kinds, ", ")+"} can be reached although c.encKey != nil (the keyed branch does not cover every case): encrypted columns leak in clear for those cases")
			}
		}
		c.Check(rule, k+" has keyed and plain emissions", fn.Pos(), nk > 0 && np > 0, "expected both a ciphertext emission under the key test and a plaintext emission outside it")
	}
	c.Min(rule, 15)
}

// c18Construct: every construction path of column writers installs the key.
func c18Construct(c *Ctx) {
	p := c.P
	rule := "C18.construct"
	encKey := p.LookupField("ColumnWriter", "encKey")
	ctor := p.LookupFunc("newConcurrentRowGroupWriter")
	if !c.Anchor(rule, "newConcurrentRowGroupWriter", ctor != nil) || !c.Anchor(rule, "ColumnWriter.encKey", encKey != nil) {
		return
	}
	eff := NewEffects(p)
	n := 0
	for _, call := range callersOf(p, p.SSAFunc(ctor)) {
		caller := call.Parent()
		if caller.Origin() != nil {
			continue
		}
		n++
		w := eff.Writes([]*ssa.Function{caller}, TransOpts{})
		_, ok := w[encKey]
		c.Check(rule, FuncKey(caller)+" installs the encryption state of the column writers it creates", call.Pos(), ok,
			FuncKey(caller)+" creates column writers (newConcurrentRowGroupWriter) but neither it nor its static callees assign ColumnWriter.encKey / columnOrdinal / fileUnique / aadPrefix; newWriter does so for the writer's own row group only. With encryption configured the pages of these column writers are written in clear inside a file whose footer declares them encrypted")
	}
	c.Min(rule, 3)
}

func c18Auth(c *Ctx) {
	names := map[string]bool{"decryptModule": true, "readDecryptedEnvelopeFrom": true, "verifyFooterSignature": true, "(KeyRetriever).FooterKey": true, "(KeyRetriever).ColumnKey": true,
		"encryptModule": true, "signFooter": true, "newFileEncryptionState": true, "(*fileEncryptionState).newFileIdentifier": true, "(*FilePages).readEncryptedPage": true}
	runErrRule(c, "C18.auth",
		func(fn *ssa.Function) bool { return true },
		func(s ErrSite) bool { return names[s.Callee] },
		[]errException{})
	c.Stats["C18.auth.callees"] = len(names)
	// the decryption helpers do not invent a clean EOF
	p := c.P
	rule := "C18.eof"
	for _, k := range []string{"readDecryptedEnvelopeFrom", "decryptModule", "verifyFooterSignature"} {
		obj := p.LookupFunc(k)
		if !c.Anchor(rule, k, obj != nil) {
			continue
		}
		fn := p.SSAFunc(obj)
		bad := token.NoPos
		for _, r := range returnsOf(fn) {
			ei := len(r.Results) - 1
			v, rec := retResult(r, ei)
			if rec || v == nil {
				continue
			}
			for _, o := range Origins(v, OriginOpts{}) {
				if o.Kind == OrgGlobal && (o.Val.Name() == "EOF" || o.Val.Name() == "ErrUnexpectedEOF") {
					bad = r.Pos()
				}
			}
		}
		c.Check(rule, k+" never returns io.EOF of its own", fn.Pos(), bad == token.NoPos, k+" returns the io.EOF sentinel itself: callers treat io.EOF as the clean end of the column, so a module whose length prefix was tampered with truncates the rows silently instead of failing authentication")
	}
	c.Min(rule, 3)
}

func c18Rand(c *Ctx) {
	p := c.P
	rule := "C18.rand"
	n := 0
	for _, fn := range p.ModuleSSAFuncs() {
		if fn.Origin() != nil || !rootImportClosure(p)[fnPkgPath(fn)] {
			continue
		}
		k := 0
		allCalls(fn, false, func(_ *ssa.Function, call ssa.CallInstruction) {
			if calleeName(call) != "io.ReadFull" {
				return
			}
			args := call.Common().Args
			isRand := false
			for _, o := range Origins(args[0], OriginOpts{}) {
				if o.Kind == OrgGlobal && o.Val.Name() == "Reader" {
					if g, ok := o.Val.(*ssa.Global); ok && g.Pkg != nil && g.Pkg.Pkg.Path() == "crypto/rand" {
						isRand = true
					}
				}
			}
			if !isRand {
				return
			}
			n++
			ok := true
			// the buffer value: directly, or what was stored into the field it is kept in
			vals := []ssa.Value{args[1]}
			if u, isLoad := args[1].(*ssa.UnOp); isLoad && u.Op == token.MUL {
				if fs, _, _ := fieldChain(u.X); len(fs) > 0 {
					f := fs[len(fs)-1]
					vals = nil
					allInstrs(fn, false, func(_ *ssa.Function, ins ssa.Instruction) {
						if st, isSt := ins.(*ssa.Store); isSt {
							if fs2, _, elem := fieldChain(st.Addr); len(fs2) > 0 && !elem && fs2[len(fs2)-1] == f && dominates(st, call.(ssa.Instruction)) {
								vals = append(vals, st.Val)
							}
						}
					})
				}
			}
			ok = len(vals) > 0
			for _, v := range vals {
				if n, known := constSliceLen(v); !known || n <= 0 {
					ok = false
				}
			}
			c.Check(rule, FuncKey(fn)+" fills a fixed, non-empty buffer from crypto/rand#"+itoa(k), call.Pos(), ok, "the buffer read from crypto/rand does not have a positive constant length: an empty nonce or file identifier removes the per-file / per-module uniqueness from every AAD (modules of another file authenticate here)")
			k++
		})
	}
	c.Stats[rule+".sites"] = n
	c.Min(rule, 3)
}

// constSliceLen: the constant length of a slice value built by make with
// constant sizes (go/ssa lowers it to an array allocation and a slice) or by
// slicing a local array.
func constSliceLen(v ssa.Value) (int64, bool) {
	switch x := v.(type) {
	case *ssa.MakeSlice:
		if k, ok := x.Len.(*ssa.Const); ok && k.Value != nil {
			return k.Int64(), true
		}
	case *ssa.Slice:
		a, ok := x.X.(*ssa.Alloc)
		if !ok {
			return 0, false
		}
		arr, ok := a.Type().Underlying().(*types.Pointer).Elem().Underlying().(*types.Array)
		if !ok {
			return 0, false
		}
		lo := int64(0)
		if x.Low != nil {
			k, ok := x.Low.(*ssa.Const)
			if !ok || k.Value == nil {
				return 0, false
			}
			lo = k.Int64()
		}
		hi := arr.Len()
		if x.High != nil {
			k, ok := x.High.(*ssa.Const)
			if !ok || k.Value == nil {
				return 0, false
			}
			hi = k.Int64()
		}
		return hi - lo, true
	}
	return 0, false
}

func fnPkgPath(fn *ssa.Function) string {
	if pk := fnPkg(fn); pk != nil {
		return pk.Path()
	}
	return ""
}

func c18Ordinals(c *Ctx) {
	p := c.P
	rule := "C18.ordinals"
	np := p.LookupField("ColumnWriter", "numPages")
	obj := p.LookupFunc("(*ColumnWriter).writePageTo")
	if !c.Anchor(rule, "(*ColumnWriter).writePageTo", obj != nil) || !c.Anchor(rule, "ColumnWriter.numPages", np != nil) {
		return
	}
	fn := p.SSAFunc(obj)
	var incs []*ssa.Store
	allInstrs(fn, false, func(_ *ssa.Function, ins ssa.Instruction) {
		if st, ok := ins.(*ssa.Store); ok {
			if fs, _, _ := fieldChain(st.Addr); len(fs) > 0 && fs[len(fs)-1] == np {
				incs = append(incs, st)
			}
		}
	})
	okOne := len(incs) == 1
	okAfter := false
	if okOne {
		// the increment is followed only by a nil return: no error exit after it
		okAfter = true
		for _, ins := range instrsAfter(incs[0]) {
			if r, ok := ins.(*ssa.Return); ok {
				v, _ := retResult(r, 0)
				if !isNilConst(v) {
					// named result spill: accept loads of the result local that were stored nil… conservatively check origins
					for _, o := range Origins(v, OriginOpts{}) {
						if o.Kind != OrgConst {
							okAfter = false
						}
					}
				}
			}
		}
	}
	c.Check(rule, "writePageTo advances the page ordinal once, after the page was accepted", fn.Pos(), okOne && okAfter, "the page ordinal (numPages) is part of the AAD of the next page: it must advance exactly once per page and only when the page was written completely, or writer and reader disagree on page ordinals")
	// only writePageTo and resets touch numPages
	var others []string
	for _, g := range p.ModuleSSAFuncs() {
		if g.Origin() != nil {
			continue
		}
		allInstrs(g, false, func(_ *ssa.Function, ins ssa.Instruction) {
			if st, ok := ins.(*ssa.Store); ok {
				if fs, root, _ := fieldChain(st.Addr); len(fs) > 0 && fs[len(fs)-1] == np && !isFreshRoot(root) {
					k := FuncKey(g)
					if k != "(*ColumnWriter).writePageTo" && k != "(*ColumnWriter).reset" && k != "(*ColumnWriter).loadCopiedChunk" {
						others = append(others, k)
					}
				}
			}
		})
	}
	sort.Strings(others)
	c.Check(rule, "only writePageTo, reset and the verbatim-copy loader (never used with encryption, see C18.nocopy) assign the page ordinal", fn.Pos(), len(others) == 0, "numPages is also assigned by "+strings.Join(others, ", "))
	c.Min(rule, 2)
}

func c18NoCopy(c *Ctx) {
	p := c.P
	rule := "C18.nocopy"
	eff := NewEffects(p)
	enc := p.LookupField("writer", "encryption")
	key := p.LookupField("ColumnWriter", "encKey")
	for _, chk := range []struct {
		fn string
		f  *types.Var
	}{{"(*Writer).copyableColumnChunks", enc}, {"columnChunkIsCopyable", key}} {
		obj := p.LookupFunc(chk.fn)
		if !c.Anchor(rule, chk.fn, obj != nil) || chk.f == nil {
			continue
		}
		r := eff.Reads([]*ssa.Function{p.SSAFunc(obj)}, TransOpts{Stop: func(*ssa.Function) bool { return true }})
		_, ok := r[chk.f]
		c.Check(rule, chk.fn+" consults "+p.FieldName(chk.f), obj.Pos(), ok, chk.fn+" no longer looks at "+p.FieldName(chk.f)+": column chunks could be spliced verbatim (in clear, or under another key) into an encrypted file")
	}
	// an encrypted source, or an encrypting destination, rules the verbatim copy
	// out on its own: the non-nil edge of each of those tests leads straight to
	// `return false`, not to a further condition
	if obj := p.LookupFunc("columnChunkIsCopyable"); obj != nil {
		fn := p.SSAFunc(obj)
		srcKey := p.LookupField("FileColumnChunk", "decryptionKey")
		watched := map[*types.Var]bool{key: true, srcKey: true}
		for _, b := range fn.Blocks {
			if len(b.Instrs) == 0 {
				continue
			}
			ifi, ok := b.Instrs[len(b.Instrs)-1].(*ssa.If)
			if !ok {
				continue
			}
			bo, ok := ifi.Cond.(*ssa.BinOp)
			if !ok || !(isNilConst(bo.X) || isNilConst(bo.Y)) || (bo.Op != token.NEQ && bo.Op != token.EQL) {
				continue
			}
			var f *types.Var
			for _, side := range []ssa.Value{bo.X, bo.Y} {
				for _, o := range Origins(side, OriginOpts{}) {
					if o.Kind == OrgField && watched[o.Field] {
						f = o.Field
					}
				}
			}
			if f == nil {
				continue
			}
			t := b.Succs[0]
			if bo.Op == token.EQL {
				t = b.Succs[1]
			}
			// `case a || b:` evaluates the disjunction as a value: the edge leads to a
			// block that tests a phi which is the constant true on this edge
			if len(t.Instrs) > 0 {
				if if2, isIf := t.Instrs[len(t.Instrs)-1].(*ssa.If); isIf {
					if ph, isPhi := if2.Cond.(*ssa.Phi); isPhi && ph.Block() == t {
						for i, pred := range t.Preds {
							if pred == b {
								if k, isC := ph.Edges[i].(*ssa.Const); isC && k.Value != nil {
									if k.Value.ExactString() == "true" {
										t = t.Succs[0]
									} else {
										t = t.Succs[1]
									}
								}
							}
						}
					}
				}
			}
			refuses := false
			if len(t.Instrs) > 0 {
				if ret, isRet := t.Instrs[len(t.Instrs)-1].(*ssa.Return); isRet && len(ret.Results) == 1 {
					if k, isC := ret.Results[0].(*ssa.Const); isC && k.Value != nil && k.Value.ExactString() == "false" {
						refuses = true
					}
				}
			}
			c.Check(rule, "columnChunkIsCopyable refuses as soon as "+p.FieldName(f)+" is set", ifi.Pos(), refuses, "in columnChunkIsCopyable a non-nil "+p.FieldName(f)+" no longer refuses the verbatim copy by itself (the test is combined with another condition): the ciphertext of an encrypted source is spliced into a plaintext file, or plaintext into an encrypting writer")
		}
	}
	c.Min(rule, 4)
}

// c18MissingKey: a column whose key the KeyRetriever does not have must not
// look like a column that is not encrypted. The branch of OpenFile that
// accepts ErrKeyNotFound records the fact in a field of the column chunk, and
// every consumer of the chunk's decryption key consults that field too: the
// functions of FileColumnChunk (and free functions) that load decryptionKey
// load it themselves, and for a consumer that is a method of another type
// (the page reader) some method of that type does.
func c18MissingKey(c *Ctx) {
	rule := "C18.missingkey"
	p := c.P
	keyField := p.LookupField("FileColumnChunk", "decryptionKey")
	fcc := p.LookupType("FileColumnChunk")
	if !c.Anchor(rule, "FileColumnChunk.decryptionKey", keyField != nil && fcc != nil) {
		return
	}
	own := fieldsOfStruct(fcc)
	// the field recorded on the ErrKeyNotFound branch
	var marker *types.Var
	for _, fn := range p.ModuleSSAFuncs() {
		if fn.Origin() != nil || fn.Blocks == nil {
			continue
		}
		storesKey := false
		allInstrs(fn, false, func(_ *ssa.Function, ins ssa.Instruction) {
			if st, ok := ins.(*ssa.Store); ok {
				if fs, _, _ := fieldChain(st.Addr); len(fs) > 0 && fs[len(fs)-1] == keyField {
					storesKey = true
				}
			}
		})
		if !storesKey {
			continue
		}
		for _, b := range fn.Blocks {
			if len(b.Instrs) == 0 {
				continue
			}
			ifi, ok := b.Instrs[len(b.Instrs)-1].(*ssa.If)
			if !ok {
				continue
			}
			call, ok := ifi.Cond.(*ssa.Call)
			if !ok || calleeName(call) != "errors.Is" || len(call.Call.Args) != 2 {
				continue
			}
			isNotFound := false
			for _, o := range Origins(call.Call.Args[1], OriginOpts{}) {
				if o.Kind == OrgGlobal && o.Val.Name() == "ErrKeyNotFound" {
					isNotFound = true
				}
			}
			if !isNotFound {
				continue
			}
			for _, d := range fn.Blocks {
				if !b.Succs[0].Dominates(d) {
					continue
				}
				for _, ins := range d.Instrs {
					if st, ok := ins.(*ssa.Store); ok {
						if fs, _, _ := fieldChain(st.Addr); len(fs) > 0 && own[fs[len(fs)-1]] && fs[len(fs)-1] != keyField {
							marker = fs[len(fs)-1]
						}
					}
				}
			}
		}
	}
	c.Check(rule, "a column whose key is not available is marked as such", token.NoPos, marker != nil, "the branch that accepts ErrKeyNotFound for a column key records nothing on the column chunk: a nil decryption key is what an unencrypted column has, so the column is later read, or copied verbatim into another file, as if it were plaintext")
	if marker == nil {
		return
	}
	loads := func(fn *ssa.Function, f *types.Var) bool {
		found := false
		allInstrs(fn, true, func(_ *ssa.Function, ins ssa.Instruction) {
			if u, ok := ins.(*ssa.UnOp); ok && u.Op == token.MUL {
				if fs, _, _ := fieldChain(u.X); len(fs) > 0 && fs[len(fs)-1] == f {
					found = true
				}
			}
		})
		return found
	}
	n := 0
	for _, fn := range p.ModuleSSAFuncs() {
		if fn.Origin() != nil || fn.Blocks == nil || fn.Parent() != nil || !loads(fn, keyField) {
			continue
		}
		// the function that resolves the keys is not a consumer
		resolves := false
		allInstrs(fn, false, func(_ *ssa.Function, ins ssa.Instruction) {
			if st, ok := ins.(*ssa.Store); ok {
				if fs, _, _ := fieldChain(st.Addr); len(fs) > 0 && fs[len(fs)-1] == keyField {
					resolves = true
				}
			}
		})
		if resolves {
			continue
		}
		n++
		ok := loads(fn, marker)
		if !ok && fn.Signature.Recv() != nil {
			rt := namedOf(fn.Signature.Recv().Type())
			if rt != nil && rt.Origin() != fcc.Origin() {
				for _, g := range p.ModuleSSAFuncs() {
					if g.Signature.Recv() != nil && namedOf(g.Signature.Recv().Type()) != nil && namedOf(g.Signature.Recv().Type()).Origin() == rt.Origin() && loads(g, marker) {
						ok = true
					}
				}
			}
		}
		c.Check(rule, FuncKey(fn)+" tells an unavailable key from no encryption", fn.Pos(), ok, FuncKey(fn)+" decides on FileColumnChunk.decryptionKey alone and never looks at "+p.FieldName(marker)+": a column whose key is not available is handled as if it were not encrypted (ciphertext decoded as page data, or copied verbatim into an unencrypted file)")
	}
	c.Stats[rule+".consumers_of_the_key"] = n
	c.Min(rule, 5)
}

// c18NilConfig — decryption is optional configuration: every use of what
// FileConfig.Decryption points to is dominated by the non-nil edge of a test of
// that field. A dereference reached without the test turns a file that claims
// to be encrypted (a tampered magic) into a panic instead of an error.
func c18NilConfig(c *Ctx) {
	rule := "C18.nilconfig"
	p := c.P
	f := p.LookupField("FileConfig", "Decryption")
	if !c.Anchor(rule, "FileConfig.Decryption", f != nil) {
		return
	}
	n := 0
	for _, fn := range p.ModuleSSAFuncs() {
		if fn.Origin() != nil || fn.Blocks == nil || fnPkgPath(fn) != modPath {
			continue
		}
		isLoad := func(v ssa.Value) bool {
			u, ok := v.(*ssa.UnOp)
			if !ok || u.Op != token.MUL {
				return false
			}
			fa, ok := u.X.(*ssa.FieldAddr)
			if !ok {
				return false
			}
			st := structOf(fa.X.Type())
			return st != nil && st.Field(fa.Field).Origin() == f
		}
		// non-nil edges of tests of the field
		var nonNil []*ssa.BasicBlock
		for _, b := range fn.Blocks {
			ifi, ok := b.Instrs[len(b.Instrs)-1].(*ssa.If)
			if !ok {
				continue
			}
			bo, ok := ifi.Cond.(*ssa.BinOp)
			if !ok || (bo.Op != token.EQL && bo.Op != token.NEQ) {
				continue
			}
			if !((isLoad(bo.X) && isNilConst(bo.Y)) || (isLoad(bo.Y) && isNilConst(bo.X))) {
				continue
			}
			if bo.Op == token.NEQ {
				nonNil = append(nonNil, b.Succs[0])
			} else {
				nonNil = append(nonNil, b.Succs[1])
			}
		}
		k := 0
		allInstrs(fn, false, func(_ *ssa.Function, ins ssa.Instruction) {
			fa, ok := ins.(*ssa.FieldAddr)
			if !ok || !isLoad(fa.X) {
				return
			}
			n++
			k++
			guarded := false
			for _, e := range nonNil {
				// the edge, not merely its target: a block other paths join says nothing
				if len(e.Preds) == 1 && e.Dominates(fa.Block()) {
					guarded = true
				}
			}
			// `a == nil || a.b == nil`: the dereference sits on the non-nil edge itself
			c.Check(rule, FuncKey(fn)+" uses the decryption configuration only where it is known to be set#"+itoa(k), fa.Pos(), guarded, FuncKey(fn)+" dereferences FileConfig.Decryption at "+p.Pos(fa.Pos())+" without a dominating nil test: a file that claims an encrypted footer while no decryption was configured makes OpenFile panic instead of failing")
		})
	}
	c.Min(rule, 2)
}
