// pqverif decides structural necessary conditions of the parquet-go
// properties in /verif/properties.jsonl by static analysis of /repo's current
// source (go/types, go/ssa, call graph). It never executes parquet-go code.
package main

import (
	"encoding/json"
	"flag"
	"fmt"
	"os"
	"os/exec"
	"runtime/debug"
	"sort"
	"strconv"
	"strings"
	"sync"
	"time"
)

// Property is the registration of the rules deciding one property.
type Property struct {
	ID          string
	Decided     string // clause decided (goes to evidence.coverage.explanation)
	NotDecided  string
	Assumptions []string
	NeedSSA     bool
	Technique   string
	Run         func(c *Ctx)
}

var registry = map[string]*Property{}

func register(p *Property) { registry[p.ID] = p }

func main() {
	var (
		propID   = flag.String("prop", "", "property id (C01..C20)")
		tier     = flag.String("tier", "quick", "quick|thorough")
		repo     = flag.String("repo", "/repo", "repository under analysis")
		evDir    = flag.String("evidence", "/verif/evidence", "evidence directory")
		known    = flag.String("known", "/verif/known_findings.json", "known findings file (read only)")
		replay   = flag.String("replay", "", "replay file: re-evaluate the recorded rule instance")
		cfgName  = flag.String("config", "", "internal: analyse a single build configuration and dump obligations as JSON to -child-out")
		childOut = flag.String("child-out", "", "internal")
		list     = flag.Bool("list", false, "list registered properties")
		verbose  = flag.Bool("v", false, "print every obligation")
		manifest = flag.String("manifest", "", "write MANIFEST.json to this path and exit")
		sweep    = flag.Bool("sweep", false, "tooling: load the tree once (quick configuration) and run every property; prints one line per property with the violated rule instances; writes no evidence")
	)
	flag.Parse()
	if *manifest != "" {
		if err := writeManifest(*manifest); err != nil {
			fmt.Fprintln(os.Stderr, err)
			os.Exit(2)
		}
		return
	}
	if *list {
		var ids []string
		for id := range registry {
			ids = append(ids, id)
		}
		sort.Strings(ids)
		for _, id := range ids {
			fmt.Println(id)
		}
		return
	}
	if *sweep {
		os.Exit(runSweep(*repo, *known))
	}
	prop := registry[*propID]
	if prop == nil {
		fmt.Fprintf(os.Stderr, "unknown property %q\n", *propID)
		os.Exit(2)
	}
	if *tier != "quick" && *tier != "thorough" {
		fmt.Fprintf(os.Stderr, "unknown tier %q\n", *tier)
		os.Exit(2)
	}
	thorough := *tier == "thorough"

	if *cfgName != "" {
		cfg, ok := configByName(*cfgName)
		if !ok {
			fmt.Fprintf(os.Stderr, "unknown config %q\n", *cfgName)
			os.Exit(2)
		}
		res := runConfig(prop, *repo, cfg, thorough)
		b, _ := json.Marshal(res)
		if err := os.WriteFile(*childOut, b, 0o644); err != nil {
			fmt.Fprintln(os.Stderr, err)
			os.Exit(2)
		}
		return
	}

	start := time.Now()
	seed, _ := strconv.Atoi(os.Getenv("VERIF_SEED"))
	var results []runResult
	if !thorough {
		results = append(results, runConfig(prop, *repo, buildConfigs[0], false))
	} else {
		results = runAllConfigs(prop, *repo)
	}

	kf, err := loadKnown(*known)
	if err != nil {
		fmt.Fprintf(os.Stderr, "known findings: %v\n", err)
		os.Exit(2)
	}

	var replayObl *Obl
	if *replay != "" {
		b, err := os.ReadFile(*replay)
		if err != nil {
			fmt.Fprintln(os.Stderr, err)
			os.Exit(2)
		}
		var rf replayFile
		if err := json.Unmarshal(b, &rf); err != nil {
			fmt.Fprintln(os.Stderr, err)
			os.Exit(2)
		}
		replayObl = &rf.Obl
	}

	// merge failed obligations across configurations by rule+construct
	type agg struct {
		o    Obl
		cfgs []string
	}
	failed := map[string]*agg{}
	var order []string
	nObl, nOK := 0, 0
	for _, r := range results {
		for _, o := range r.Obls {
			nObl++
			if o.OK {
				nOK++
				if *verbose {
					fmt.Printf("ok    [%s] %s %s (%s) %s\n", r.Config, o.Rule, o.Key, o.Pos, o.Detail)
				}
				continue
			}
			id := o.Rule + "\x00" + o.Key
			a := failed[id]
			if a == nil {
				a = &agg{o: o}
				failed[id] = a
				order = append(order, id)
			}
			a.cfgs = append(a.cfgs, r.Config)
		}
	}
	sort.Strings(order)

	violations := []Obl{}
	knownLines := []string{}
	for _, id := range order {
		a := failed[id]
		if replayObl != nil && (a.o.Rule != replayObl.Rule || a.o.Key != replayObl.Key) {
			continue
		}
		if f := kf.match(prop.ID, a.o); f != nil {
			line := fmt.Sprintf("KNOWN-FINDING: property=%s %s [%s %s at %s]", prop.ID, f.What, a.o.Rule, a.o.Key, a.o.Pos)
			knownLines = append(knownLines, line)
			fmt.Println(line)
			continue
		}
		violations = append(violations, a.o)
	}
	for i, v := range violations {
		path := writeReplay(*evDir, prop.ID, *tier, i, v)
		fmt.Printf("  rule=%s construct=%s at %s configs=%s\n    %s\n", v.Rule, v.Key, v.Pos, strings.Join(failed[v.Rule+"\x00"+v.Key].cfgs, ","), v.Detail)
		fmt.Printf("VIOLATION property=%s replay=%s\n", prop.ID, path)
	}
	wall := time.Since(start).Seconds()
	if replayObl == nil {
		if err := writeEvidence(*evDir, prop, *tier, seed, results, violations, knownLines, wall); err != nil {
			fmt.Fprintf(os.Stderr, "evidence: %v\n", err)
			os.Exit(2)
		}
	}
	var cfgNames []string
	for _, r := range results {
		cfgNames = append(cfgNames, r.Config)
	}
	fmt.Printf("%s %s: configs=%s obligations=%d discharged=%d known=%d violations=%d wall=%.1fs\n",
		prop.ID, *tier, strings.Join(cfgNames, ","), nObl, nOK, len(knownLines), len(violations), wall)
	if len(violations) > 0 {
		os.Exit(1)
	}
}

func runConfig(prop *Property, repo string, cfg BuildConfig, thorough bool) (res runResult) {
	res.Config = cfg.Name
	res.Stats = map[string]int{}
	defer func() {
		if r := recover(); r != nil {
			res.Obls = append(res.Obls, Obl{Rule: prop.ID + ".checker", Key: "panic", OK: false, Config: cfg.Name,
				Detail: fmt.Sprintf("checker panicked (a panic is a failed check, not a pass): %v\n%s", r, debug.Stack())})
		}
	}()
	p, err := loadProg(repo, cfg, prop.NeedSSA)
	if err != nil {
		res.Obls = append(res.Obls, Obl{Rule: prop.ID + ".checker", Key: "load", OK: false, Config: cfg.Name,
			Detail: "cannot load/type-check the tree: " + err.Error()})
		return res
	}
	res.Packages = len(p.Mod)
	res.Funcs = len(p.Funcs)
	res.LoadS, res.SSAS = p.LoadSecs, p.SSASecs
	res.Decls = len(p.declOf)
	c := newCtx(p, prop.ID, thorough)
	prop.Run(c)
	c.finish()
	res.Obls = c.Obls
	res.Notes = c.notes
	res.Stats = c.Stats
	return res
}

func runAllConfigs(prop *Property, repo string) []runResult {
	self, err := os.Executable()
	if err != nil {
		self = os.Args[0]
	}
	results := make([]runResult, len(buildConfigs))
	var wg sync.WaitGroup
	sem := make(chan struct{}, 5)
	for i, cfg := range buildConfigs {
		wg.Add(1)
		go func(i int, cfg BuildConfig) {
			defer wg.Done()
			sem <- struct{}{}
			defer func() { <-sem }()
			tmp, err := os.CreateTemp("", "pqverif-child-*.json")
			if err != nil {
				results[i] = childFailure(prop, cfg, err.Error())
				return
			}
			tmp.Close()
			defer os.Remove(tmp.Name())
			cmd := exec.Command(self, "-prop", prop.ID, "-tier", "thorough", "-repo", repo, "-config", cfg.Name, "-child-out", tmp.Name())
			cmd.Stderr = os.Stderr
			out, err := cmd.Output()
			if err != nil {
				results[i] = childFailure(prop, cfg, fmt.Sprintf("child process failed: %v %s", err, out))
				return
			}
			b, err := os.ReadFile(tmp.Name())
			if err != nil {
				results[i] = childFailure(prop, cfg, err.Error())
				return
			}
			var r runResult
			if err := json.Unmarshal(b, &r); err != nil {
				results[i] = childFailure(prop, cfg, "child output: "+err.Error())
				return
			}
			results[i] = r
		}(i, cfg)
	}
	wg.Wait()
	return results
}

func childFailure(prop *Property, cfg BuildConfig, msg string) runResult {
	return runResult{Config: cfg.Name, Stats: map[string]int{}, Obls: []Obl{{Rule: prop.ID + ".checker", Key: "child:" + cfg.Name, OK: false, Config: cfg.Name, Detail: msg}}}
}

// runSweep is a development aid (seeded-change and refactoring corpora): one
// load of the quick configuration, every claimed property evaluated on it.
func runSweep(repo, known string) int {
	kf, err := loadKnown(known)
	if err != nil {
		fmt.Fprintln(os.Stderr, err)
		return 2
	}
	p, err := loadProg(repo, buildConfigs[0], true)
	if err != nil {
		fmt.Printf("LOAD-FAILED %v\n", err)
		return 2
	}
	var ids []string
	for id := range registry {
		if strings.HasPrefix(id, "C") {
			ids = append(ids, id)
		}
	}
	sort.Strings(ids)
	rc := 0
	for _, id := range ids {
		prop := registry[id]
		var obls []Obl
		func() {
			defer func() {
				if r := recover(); r != nil {
					obls = append(obls, Obl{Rule: id + ".checker", Key: "panic", Detail: fmt.Sprint(r)})
				}
			}()
			c := newCtx(p, id, false)
			prop.Run(c)
			c.finish()
			obls = c.Obls
		}()
		seen := map[string]bool{}
		var bad []string
		for _, o := range obls {
			if o.OK || kf.match(id, o) != nil || seen[o.Rule+o.Key] {
				continue
			}
			seen[o.Rule+o.Key] = true
			bad = append(bad, o.Rule+" {"+o.Key+"}")
		}
		if len(bad) > 0 {
			rc = 1
			fmt.Printf("SWEEP %s: %s\n", id, strings.Join(bad, "; "))
		}
	}
	return rc
}
