package main

import (
	"go/token"
	"go/types"
	"sort"
	"strings"

	"golang.org/x/tools/go/ssa"
)

// C20 — compression codecs are lossless whatever was compressed before.

func init() {
	register(&Property{
		ID:          "C20",
		NeedSSA:     true,
		Decided:     "Structural necessary conditions for history independence of the codecs: (dst) in every Encode/Decode method under compress/ the reusable output buffer is only truncated (dst[:0]), measured with cap(), passed to a helper obeying the same rule or to a listed library routine that treats it as scratch, or returned — its previous length and content are never observed and it is never re-sliced up to its old capacity; (pool) an object taken from a pool is not used after it was put back, an object that received Close is put back only after a Reset, the reset closure given to Pool.Get re-targets the stream, and a reader whose Reset failed is dropped instead of pooled; (stateless) Encode/Decode of every compress.Codec implementation write no field of the codec value (shared by all writers and readers) other than its pools; (tables) each entry of the codec table is the implementation whose CompressionCodec() returns its key. (result) every caller of Codec.Encode/Decode (and of the pooled Compressor/Decompressor) that passes a destination buffer takes the returned slice on every non-failing path (returns, stores, passes it on, or compares it by identity with the buffer); (pool, cont.) a function that returns memory held in a field of a pooled object replaces that field before the object is put back. (retry) from the failure edge of a fallible call in a loop some path leaves the loop without passing the call again, and no test on that path measures (len/cap) the buffer just allocated for the next attempt, or compares the size computed for it, in place of the buffer that failed; (pool, cont.) the decompressor pools a reader only on the nil edges of both its Reset error and the function's own error, and panics of the functions handed to Pool.Get are recovered by a deferred function, registered after the deferred release so that the release runs once the panic has become the error result. (bound) every buffer that reaches the destination argument of a block compressor (CompressBlock) is sized by the library's bound: made with a length computed from CompressBlockBound, returned by a module helper that was given that bound, or the caller's buffer re-sliced on the false edge of `cap(buf) < n` with n computed from the bound. (readtoeof) a function of the compress packages that reads a decompressing reader in a loop returns from it only on the non-nil edge of a test of the error that Read returned.",
		NotDecided:  "losslessness; the behaviour of the third-party compressors; sizing arithmetic of output buffers (for instance the worst-case bound an LZ4 block needs).",
		Assumptions: []string{"the listed library routines (snappy, lz4, zstd EncodeAll/DecodeAll) treat dst as scratch per their documentation"},
		Run:         runC20,
	})
}

func runC20(c *Ctx) {
	runDstRule(c, "C20.dst", []string{"/compress"}, nil)
	c.Min("C20.dst", 10)
	poolRule(c, "C20.pool", []string{"/compress"})
	runCodecResultRule(c, "C20.result", 4)
	runRetryRule(c, "C20.retry", func(fn *ssa.Function) bool { return inModule(fn) }, 60)
	c20Stateless(c)
	c20Bound(c)
	c20ReadToEOF(c)
	runTableRule(c, "C20.tables", "compressionCodecs", "CompressionCodec", 6)
}

// poolRule: discipline of pooled objects in the given package subtrees.
func poolRule(c *Ctx, rule string, pkgPrefixes []string) {
	p := c.P
	errorResultProg = p
	isPut := func(call ssa.CallInstruction) bool {
		n := calleeName(call)
		return strings.HasSuffix(n, "internal/memory.(*Pool).Put") || n == "sync.(*Pool).Put"
	}
	isGet := func(call ssa.CallInstruction) bool {
		n := calleeName(call)
		return strings.HasSuffix(n, "internal/memory.(*Pool).Get") || n == "sync.(*Pool).Get"
	}
	// identity of a value: the cell it was loaded from, or itself
	ident := func(v ssa.Value) ssa.Value {
		if u, ok := v.(*ssa.UnOp); ok && u.Op == token.MUL {
			switch u.X.(type) {
			case *ssa.FreeVar, *ssa.Alloc:
				return u.X
			}
		}
		return v
	}
	sameObj := func(v ssa.Value, id ssa.Value) bool {
		// v derives from the object (field addresses, loads of its cell)
		for depth := 0; depth < 12 && v != nil; depth++ {
			if ident(v) == id || v == id {
				return true
			}
			switch x := v.(type) {
			case *ssa.FieldAddr:
				v = x.X
			case *ssa.UnOp:
				if ident(x) == id {
					return true
				}
				v = x.X
			case *ssa.MakeInterface:
				v = x.X
			case *ssa.ChangeType:
				v = x.X
			default:
				return false
			}
		}
		return false
	}
	nput, nget := 0, 0
	for _, fn := range p.ModuleSSAFuncs() {
		if fn.Origin() != nil {
			continue
		}
		pk := fnPkgPath(fn)
		in := false
		for _, pre := range pkgPrefixes {
			if pk == modPath+pre || strings.HasPrefix(pk, modPath+pre+"/") {
				in = true
			}
		}
		if !in {
			continue
		}
		k := 0
		allCalls(fn, false, func(_ *ssa.Function, call ssa.CallInstruction) {
			if !isPut(call) {
				return
			}
			if _, isDefer := call.(*ssa.Defer); isDefer {
				return // runs last by construction
			}
			nput++
			args := call.Common().Args
			obj := ident(args[len(args)-1])
			// (1) no use after Put
			var after []string
			for _, ins := range instrsAfter(call.(ssa.Instruction)) {
				for _, op := range ins.Operands(nil) {
					if *op != nil && sameObj(*op, obj) {
						if _, isRet := ins.(*ssa.Return); isRet {
							continue
						}
						if _, isDbg := ins.(*ssa.DebugRef); isDbg {
							continue
						}
						after = append(after, p.Pos(ins.Pos()))
					}
				}
			}
			sort.Strings(after)
			c.Check(rule, FuncKey(fn)+": pooled object not used after Put#"+itoa(k), call.Pos(), len(after) == 0,
				"the object is still used ("+strings.Join(after, ", ")+") after it was returned to the pool: another goroutine can already have taken it, and both write to the same stream state")
			k++
		})
		// Get with a reset closure that re-targets the stream
		allCalls(fn, false, func(_ *ssa.Function, call ssa.CallInstruction) {
			if !isGet(call) || len(call.Common().Args) < 3 {
				return
			}
			nget++
			resetArg := call.Common().Args[2]
			var rf *ssa.Function
			switch x := resetArg.(type) {
			case *ssa.MakeClosure:
				rf, _ = x.Fn.(*ssa.Function)
			case *ssa.Function:
				rf = x
			}
			if rf == nil {
				return
			}
			resets := 0
			allCalls(rf, false, func(_ *ssa.Function, c2 ssa.CallInstruction) {
				if strings.HasSuffix(calleeName(c2), ".Reset") || strings.HasSuffix(calleeName(c2), ").Reset") {
					resets++
				}
			})
			empty := len(rf.Blocks) == 1 && len(rf.Blocks[0].Instrs) <= 1
			// an empty reset closure is accepted for objects used only through stateless entry points (EncodeAll/DecodeAll)
			stateless := false
			if empty {
				stateless = true
				allCalls(fn, true, func(_ *ssa.Function, c3 ssa.CallInstruction) {
					if o := calleeObj(c3); o != nil && o.Pkg() != nil && !strings.HasPrefix(o.Pkg().Path(), modPath) && !isGet(c3) && !isPut(c3) {
						if n := o.Name(); n != "EncodeAll" && n != "DecodeAll" && !strings.HasPrefix(n, "New") && !strings.HasPrefix(n, "With") && n != "Errorf" {
							if sig, ok := o.Type().(*types.Signature); ok && sig.Recv() != nil {
								stateless = false
							}
						}
					}
				})
			}
			c.Check(rule, FuncKey(fn)+": reset closure of Pool.Get re-targets the pooled stream", call.Pos(), resets > 0 || stateless,
				"an object taken from the pool keeps pointing at the input/output of its previous user: the reset function given to Get neither calls Reset nor is the object used only through stateless calls")
		})
		// Close … Put requires a Reset in between
		allCalls(fn, false, func(_ *ssa.Function, call ssa.CallInstruction) {
			if !isGet(call) {
				return
			}
			gv, ok := call.(*ssa.Call)
			if !ok {
				return
			}
			// all values denoting the pooled object in fn and its closures
			closed := token.NoPos
			allCalls(fn, false, func(_ *ssa.Function, c2 ssa.CallInstruction) {
				if _, isDefer := c2.(*ssa.Defer); isDefer {
					return
				}
				cc := c2.Common()
				name := ""
				var recv ssa.Value
				if cc.IsInvoke() {
					name, recv = cc.Method.Name(), cc.Value
				} else if sc := cc.StaticCallee(); sc != nil && sc.Signature.Recv() != nil && len(cc.Args) > 0 {
					name, recv = fnName(sc), cc.Args[0]
				}
				if name != "Close" || recv == nil {
					return
				}
				if derivesFromCallResult(recv, gv, map[ssa.Value]bool{}) {
					closed = c2.Pos()
				}
			})
			if closed == token.NoPos {
				return
			}
			// a Reset on the object must exist in the function or its deferred closures
			resets := 0
			allCalls(fn, true, func(_ *ssa.Function, c2 ssa.CallInstruction) {
				if strings.HasSuffix(calleeName(c2), ".Reset") || strings.HasSuffix(calleeName(c2), ").Reset") {
					resets++
				}
			})
			c.Check(rule, FuncKey(fn)+": a pooled object that was closed is reset before it is put back", closed, resets > 0,
				"the pooled object receives Close ("+p.Pos(closed)+") and is then returned to the pool without Reset: the next user gets a closed stream (\"used after Close\") and valid input fails to decode")
		})
	}
	c.Stats[rule+".put_sites"] = nput
	c.Stats[rule+".get_sites"] = nget
	poolDetachRule(c, rule, isGet, isPut)
	// the decompressor drops a reader whose Reset failed
	if obj := p.LookupFunc("compress.(*Decompressor).Decode"); obj != nil {
		fn := p.SSAFunc(obj)
		ok := false
		// the cleanup may live in the function, in a deferred closure, or in a
		// method it calls
		scope := []*ssa.Function{fn}
		allCalls(fn, true, func(_ *ssa.Function, call ssa.CallInstruction) {
			if sc := call.Common().StaticCallee(); sc != nil && inModule(sc) && sc.Blocks != nil && fnPkgPath(sc) == fnPkgPath(fn) {
				scope = append(scope, sc)
			}
		})
		for _, sf := range scope {
			allCalls(sf, true, func(in *ssa.Function, call ssa.CallInstruction) {
				if !isPut(call) {
					return
				}
				// dominated by the nil edge of a Reset error test
				for _, b := range in.Blocks {
					if len(b.Instrs) == 0 {
						continue
					}
					ifi, isIf := b.Instrs[len(b.Instrs)-1].(*ssa.If)
					if !isIf {
						continue
					}
					bo, isB := ifi.Cond.(*ssa.BinOp)
					if !isB || !(isNilConst(bo.X) || isNilConst(bo.Y)) {
						continue
					}
					fromReset := false
					for _, side := range []ssa.Value{bo.X, bo.Y} {
						for _, o := range Origins(side, OriginOpts{}) {
							if o.Kind == OrgCall && strings.HasSuffix(calleeName(o.Call), ".Reset") {
								fromReset = true
							}
						}
					}
					if !fromReset {
						continue
					}
					nilEdge := b.Succs[0]
					if bo.Op == token.NEQ {
						nilEdge = b.Succs[1]
					}
					if nilEdge.Dominates(call.Block()) {
						ok = true
					}
				}
			})
		}
		c.Check(rule, "Decompressor.Decode pools a reader only when its Reset succeeded", fn.Pos(), ok, "a reader left in a failed state by the previous (possibly corrupt) input is returned to the pool and handed to the next Decode")
		// … and only when the decode itself succeeded: Reset of a reader that
		// failed need not clear everything (brotli keeps unread input)
		okErr := false
		for _, sf := range scope {
			allCalls(sf, true, func(in *ssa.Function, call ssa.CallInstruction) {
				if !isPut(call) {
					return
				}
				for _, b := range in.Blocks {
					if len(b.Instrs) == 0 {
						continue
					}
					ifi, isIf := b.Instrs[len(b.Instrs)-1].(*ssa.If)
					if !isIf {
						continue
					}
					bo, isB := ifi.Cond.(*ssa.BinOp)
					if !isB || !(isNilConst(bo.X) || isNilConst(bo.Y)) {
						continue
					}
					ownErr := false
					for _, side := range []ssa.Value{bo.X, bo.Y} {
						if isErrorResultOf(fn, side) {
							ownErr = true
						}
					}
					if !ownErr {
						continue
					}
					nilEdge := b.Succs[0]
					if bo.Op == token.NEQ {
						nilEdge = b.Succs[1]
					}
					if nilEdge.Dominates(call.Block()) {
						okErr = true
					}
				}
			})
		}
		c.Check(rule, "Decompressor.Decode pools a reader only when the decode succeeded", fn.Pos(), okErr, "a reader that failed to decode its input is reset and returned to the pool: Reset need not clear everything a failure leaves behind (unread input, a sticky error), and the next Decode of a valid input on the same codec fails")
	}
	// … and that error is final when the release looks at it: deferred calls
	// run last in first out, so the release is deferred BEFORE the recovery
	// that turns a panic into the error result
	if obj := p.LookupFunc("compress.(*Decompressor).Decode"); obj != nil {
		fn := p.SSAFunc(obj)
		var putDefer, recDefer *ssa.Defer
		// inside one deferred function: the instructions of that function that lead to the recover and to the Put
		recTop, putTop := map[*ssa.Defer]ssa.Instruction{}, map[*ssa.Defer]ssa.Instruction{}
		allCalls(fn, false, func(_ *ssa.Function, call ssa.CallInstruction) {
			d, ok := call.(*ssa.Defer)
			if !ok {
				return
			}
			var target *ssa.Function
			switch v := d.Call.Value.(type) {
			case *ssa.Function:
				target = v
			case *ssa.MakeClosure:
				target, _ = v.Fn.(*ssa.Function)
			}
			if target == nil {
				target = d.Call.StaticCallee()
			}
			if target == nil || target.Blocks == nil {
				return
			}
			seen := map[*ssa.Function]bool{}
			var walk func(f *ssa.Function, top ssa.Instruction)
			walk = func(f *ssa.Function, top ssa.Instruction) {
				if f == nil || seen[f] || f.Blocks == nil {
					return
				}
				seen[f] = true
				allCalls(f, false, func(_ *ssa.Function, c2 ssa.CallInstruction) {
					at := top
					if at == nil {
						at, _ = c2.(ssa.Instruction)
					}
					if b, ok := c2.Common().Value.(*ssa.Builtin); ok && b.Name() == "recover" {
						recDefer = d
						recTop[d] = at
					}
					if isPut(c2) {
						putDefer = d
						putTop[d] = at
					}
					if sc := c2.Common().StaticCallee(); sc != nil && inModule(sc) && fnPkgPath(sc) == fnPkgPath(fn) {
						walk(sc, at)
					}
				})
			}
			walk(target, nil)
		})
		if putDefer != nil && recDefer != nil {
			before := false
			if putDefer.Block() == recDefer.Block() {
				for _, ins := range putDefer.Block().Instrs {
					if ins == ssa.Instruction(putDefer) {
						before = true
						break
					}
					if ins == ssa.Instruction(recDefer) {
						break
					}
				}
			} else {
				before = putDefer.Block().Dominates(recDefer.Block())
			}
			if putDefer == recDefer {
				// one deferred function does both: it recovers before it decides to pool
				before = recTop[recDefer] != nil && putTop[putDefer] != nil && recTop[recDefer] != putTop[putDefer] && dominates(recTop[recDefer], putTop[putDefer])
			}
			c.Check(rule, "Decompressor.Decode: the release that pools the reader runs after the panic recovery", recDefer.Pos(), before,
				"the deferred release ("+p.Pos(putDefer.Pos())+") is registered after the deferred recovery, so it runs first and sees a nil error while a panic is still in flight: a reader that failed by panicking is returned to the pool and handed to the next Decode")
		}
	}
	// failures reported by panicking inside the functions given to Pool.Get are recovered
	for _, k := range []string{"compress.(*Decompressor).Decode", "compress.(*Compressor).Encode"} {
		obj := p.LookupFunc(k)
		if !c.Anchor(rule, k, obj != nil) {
			continue
		}
		fn := p.SSAFunc(obj)
		panics := false
		for _, a := range fn.AnonFuncs {
			allInstrs(a, true, func(_ *ssa.Function, ins ssa.Instruction) {
				if _, ok := ins.(*ssa.Panic); ok {
					panics = true
				}
			})
		}
		recovers := false
		allCalls(fn, false, func(_ *ssa.Function, call ssa.CallInstruction) {
			d, ok := call.(*ssa.Defer)
			if !ok {
				return
			}
			var target *ssa.Function
			switch v := d.Call.Value.(type) {
			case *ssa.Function:
				target = v
			case *ssa.MakeClosure:
				target, _ = v.Fn.(*ssa.Function)
			}
			if target == nil {
				return
			}
			allCalls(target, true, func(_ *ssa.Function, c2 ssa.CallInstruction) {
				if b, ok := c2.Common().Value.(*ssa.Builtin); ok && b.Name() == "recover" {
					recovers = true
				}
			})
		})
		c.Check(rule, k+": panics of the functions given to the pool are recovered", fn.Pos(), !panics || recovers, k+" hands functions that panic on failure to Pool.Get but defers nothing that recovers: a bad header in the input makes the codec panic instead of returning an error")
	}
	c.Min(rule, 7)
}

func derivesFromCallResult(v ssa.Value, call *ssa.Call, seen map[ssa.Value]bool) bool {
	if v == nil || seen[v] {
		return false
	}
	seen[v] = true
	if v == ssa.Value(call) {
		return true
	}
	switch x := v.(type) {
	case *ssa.FieldAddr:
		return derivesFromCallResult(x.X, call, seen)
	case *ssa.UnOp:
		if a, ok := x.X.(*ssa.Alloc); ok {
			for _, ref := range *a.Referrers() {
				if st, ok := ref.(*ssa.Store); ok && st.Addr == a && derivesFromCallResult(st.Val, call, seen) {
					return true
				}
			}
		}
		return derivesFromCallResult(x.X, call, seen)
	case *ssa.Phi:
		for _, e := range x.Edges {
			if derivesFromCallResult(e, call, seen) {
				return true
			}
		}
	case *ssa.MakeInterface:
		return derivesFromCallResult(x.X, call, seen)
	case *ssa.ChangeType:
		return derivesFromCallResult(x.X, call, seen)
	case *ssa.TypeAssert:
		return derivesFromCallResult(x.X, call, seen)
	}
	return false
}

func c20Stateless(c *Ctx) {
	p := c.P
	rule := "C20.stateless"
	it := p.LookupType("compress.Codec")
	if !c.Anchor(rule, "compress.Codec", it != nil) {
		return
	}
	iface, _ := it.Underlying().(*types.Interface)
	n := 0
	for _, t := range p.Implementations(iface) {
		named := namedOf(t)
		if named == nil {
			continue
		}
		own := fieldsOfStruct(named)
		for _, mn := range []string{"Encode", "Decode"} {
			m, _ := MethodOf(t, mn)
			if m == nil {
				continue
			}
			fn := p.SSAFunc(m)
			if fn == nil || fn.Blocks == nil || len(fn.Params) == 0 {
				continue
			}
			n++
			var bad []string
			for _, w := range ChainWrites(fn) {
				if w.Root != ssa.Value(fn.Params[0]) || len(w.Chain) == 0 || !own[w.Chain[0]] || syncLikeType(w.Chain[0].Type()) {
					continue
				}
				bad = append(bad, chainString(p, w.Chain))
			}
			sort.Strings(bad)
			c.Check(rule, FuncKey(fn)+" keeps the codec value unchanged", fn.Pos(), len(bad) == 0, "the codec value is shared by every writer and reader; "+FuncKey(fn)+" writes "+strings.Join(bad, ", "))
		}
	}
	c.Stats[rule+".methods"] = n
	c.Min(rule, 10)
}

// poolDetachRule: a function that returns memory held in a field of a pooled
// object (w.output.Bytes()) and puts the object back must give the field new
// storage before the Put, in the function (or deferred closure) that performs
// it: otherwise the next user of the pooled object writes into the bytes the
// previous caller still holds.
func poolDetachRule(c *Ctx, rule string, isGet, isPut func(ssa.CallInstruction) bool) {
	p := c.P
	n := 0
	for _, fn := range p.ModuleSSAFuncs() {
		if fn.Origin() != nil || fn.Parent() != nil || fn.Blocks == nil {
			continue
		}
		var gets []*ssa.Call
		allCalls(fn, false, func(_ *ssa.Function, call ssa.CallInstruction) {
			if gv, ok := call.(*ssa.Call); ok && isGet(call) {
				gets = append(gets, gv)
			}
		})
		if len(gets) == 0 {
			continue
		}
		for _, gv := range gets {
			// fields of the pooled object whose memory is returned
			leaked := map[*types.Var]token.Pos{}
			for _, ret := range returnsOf(fn) {
				for i := range ret.Results {
					rv, _ := retResult(ret, i)
					if rv == nil {
						continue
					}
					if _, isSlice := rv.Type().Underlying().(*types.Slice); !isSlice {
						continue
					}
					for _, o := range Origins(rv, OriginOpts{}) {
						var through ssa.Value
						switch o.Kind {
						case OrgCall:
							cc := o.Call.Common()
							if !cc.IsInvoke() && cc.StaticCallee() != nil && cc.StaticCallee().Signature.Recv() != nil && len(cc.Args) > 0 {
								through = cc.Args[0]
							}
						case OrgField:
							if u, ok := o.Val.(*ssa.UnOp); ok {
								through = u.X
							}
						}
						if through == nil || !derivesFromCallResult(through, gv, map[ssa.Value]bool{}) {
							continue
						}
						if fs, _, _ := fieldChain(through); len(fs) > 0 {
							if _, dup := leaked[fs[0]]; !dup {
								leaked[fs[0]] = ret.Pos()
								if !ret.Pos().IsValid() {
									leaked[fs[0]] = gv.Pos()
								}
							}
						}
					}
				}
			}
			if len(leaked) == 0 {
				continue
			}
			// the functions performing the Put
			type putSite struct {
				in   *ssa.Function
				call ssa.CallInstruction
			}
			var puts []putSite
			allCalls(fn, true, func(in *ssa.Function, call ssa.CallInstruction) {
				if isPut(call) {
					puts = append(puts, putSite{in, call})
				}
			})
			var fields []*types.Var
			for f := range leaked {
				fields = append(fields, f)
			}
			sort.Slice(fields, func(i, j int) bool { return fields[i].Name() < fields[j].Name() })
			for _, f := range fields {
				n++
				ok := len(puts) > 0
				for _, ps := range puts {
					replaced := false
					allInstrs(ps.in, false, func(_ *ssa.Function, ins ssa.Instruction) {
						st, isSt := ins.(*ssa.Store)
						if !isSt {
							return
						}
						fs, _, elem := fieldChain(st.Addr)
						if len(fs) == 0 || elem || fs[len(fs)-1] != f {
							return
						}
						for _, o := range Origins(st.Val, OriginOpts{}) {
							if o.Kind == OrgField && o.Field == f {
								return
							}
						}
						if st.Block() == ps.call.Block() || st.Block().Dominates(ps.call.Block()) {
							replaced = true
						}
					})
					if !replaced {
						ok = false
					}
				}
				if len(puts) == 0 {
					ok = true // never pooled again
				}
				c.Check(rule, FuncKey(fn)+": "+p.FieldName(f)+" is given new storage before the pooled object is put back", leaked[f], ok,
					FuncKey(fn)+" returns memory held in "+p.FieldName(f)+" of a pooled object and puts the object back without replacing that field: the next user of the pooled object appends into the bytes this caller still holds")
			}
		}
	}
	c.Stats[rule+".pooled_outputs_returned"] = n
}

// isErrorResultOf: v is (a load of) the named error result of fn.
var errorResultProg *Prog

func isErrorResultOf(fn *ssa.Function, v ssa.Value) bool {
	u, ok := v.(*ssa.UnOp)
	if !ok || u.Op != token.MUL {
		return false
	}
	cell := u.X
	// inside a deferred closure the result cell is a free variable bound to the parent's alloc
	if fv, ok := cell.(*ssa.FreeVar); ok {
		parent := fv.Parent().Parent()
		if parent == nil {
			return false
		}
		for _, ins := range allMakeClosures(parent) {
			if ins.Fn == ssa.Value(fv.Parent()) {
				for i, b := range ins.Bindings {
					if i < len(fv.Parent().FreeVars) && fv.Parent().FreeVars[i] == fv {
						cell = b
					}
				}
			}
		}
	}
	// a helper that is handed the address of its caller's result (`defer
	// d.release(r, &err)`)
	if par, ok := cell.(*ssa.Parameter); ok && par.Parent() != nil && errorResultProg != nil {
		idx := -1
		for i, q := range par.Parent().Params {
			if q == par {
				idx = i
			}
		}
		for _, cs := range callersOf(errorResultProg, par.Parent()) {
			args := cs.Common().Args
			if idx >= 0 && idx < len(args) {
				a := args[idx]
				// the call sits in a (deferred) closure: the address is a free
				// variable bound to the enclosing function's cell
				if fv, ok := a.(*ssa.FreeVar); ok && fv.Parent().Parent() != nil {
					for _, mc := range allMakeClosures(fv.Parent().Parent()) {
						if mc.Fn == ssa.Value(fv.Parent()) {
							for i, b := range mc.Bindings {
								if i < len(fv.Parent().FreeVars) && fv.Parent().FreeVars[i] == fv {
									a = b
								}
							}
						}
					}
				}
				if al, ok := a.(*ssa.Alloc); ok {
					cell = al
				}
			}
		}
	}
	al, ok := cell.(*ssa.Alloc)
	if !ok || !isErrorType(al.Type().(*types.Pointer).Elem()) {
		return false
	}
	// a result cell is loaded by the return sequence of its function
	for _, ret := range returnsOf(al.Parent()) {
		for _, r := range ret.Results {
			if l, ok := r.(*ssa.UnOp); ok && l.X == ssa.Value(al) {
				return true
			}
		}
	}
	return false
}

func allMakeClosures(fn *ssa.Function) []*ssa.MakeClosure {
	var out []*ssa.MakeClosure
	allInstrs(fn, false, func(_ *ssa.Function, ins ssa.Instruction) {
		if mc, ok := ins.(*ssa.MakeClosure); ok {
			out = append(out, mc)
		}
	})
	return out
}

// c20Bound — a block compressor writes into the buffer it is given and fails
// (or, for some inputs, silently stops) when it is too small; the library
// publishes the size that is always enough (CompressBlockBound). Every buffer
// that reaches the dst argument of CompressBlock is sized by that bound: it is
// made with a length computed from it, returned by a module helper that was
// given it, or it is the caller's buffer re-sliced on the false edge of
// `cap(buf) < n` with n computed from the bound.
func c20Bound(c *Ctx) {
	rule := "C20.bound"
	p := c.P
	fromBound := func(v ssa.Value) bool {
		seen := map[ssa.Value]bool{}
		var walk func(v ssa.Value) bool
		walk = func(v ssa.Value) bool {
			if v == nil || seen[v] {
				return false
			}
			seen[v] = true
			switch x := v.(type) {
			case *ssa.Call:
				if f := x.Call.StaticCallee(); f != nil && f.Name() == "CompressBlockBound" {
					return true
				}
			case *ssa.BinOp:
				return walk(x.X) || walk(x.Y)
			case *ssa.Convert:
				return walk(x.X)
			case *ssa.ChangeType:
				return walk(x.X)
			case *ssa.Phi:
				for _, e := range x.Edges {
					if !walk(e) {
						return false
					}
				}
				return len(x.Edges) > 0
			}
			return false
		}
		return walk(v)
	}
	n := 0
	for _, fn := range p.ModuleSSAFuncs() {
		if fn.Origin() != nil || fn.Blocks == nil || !strings.Contains(fnPkgPath(fn), "/compress") {
			continue
		}
		k := 0
		allCalls(fn, false, func(_ *ssa.Function, call ssa.CallInstruction) {
			callee := call.Common().StaticCallee()
			if callee == nil || callee.Name() != "CompressBlock" || inModule(callee) {
				return
			}
			args := call.Common().Args
			dst := args[len(args)-1]
			if callee.Signature.Params().Len() >= 2 {
				// (src, dst []byte, ...) — dst is the second parameter
				off := 0
				if callee.Signature.Recv() != nil {
					off = 1
				}
				dst = args[off+1]
			}
			var bad []string
			seen := map[ssa.Value]bool{}
			var walk func(v ssa.Value)
			walk = func(v ssa.Value) {
				if v == nil || seen[v] {
					return
				}
				seen[v] = true
				switch x := v.(type) {
				case *ssa.Phi:
					for _, e := range x.Edges {
						walk(e)
					}
				case *ssa.MakeSlice:
					if !fromBound(x.Len) {
						bad = append(bad, "make at "+p.Pos(x.Pos())+" with a length not computed from CompressBlockBound")
					}
				case *ssa.Call:
					g := x.Call.StaticCallee()
					ok := false
					if g != nil && inModule(g) {
						for _, a := range x.Call.Args {
							if fromBound(a) {
								ok = true
							}
						}
					}
					if !ok {
						bad = append(bad, "result of "+calleeName(x)+" at "+p.Pos(x.Pos())+", which is not given the bound")
					}
				case *ssa.Slice:
					// the caller's buffer, kept because it is large enough
					guarded := false
					for _, d := range fn.Blocks {
						ifi, isIf := d.Instrs[len(d.Instrs)-1].(*ssa.If)
						if !isIf {
							continue
						}
						bo, isBo := ifi.Cond.(*ssa.BinOp)
						if !isBo || bo.Op != token.LSS || !fromBound(bo.Y) {
							continue
						}
						cp, isCall := bo.X.(*ssa.Call)
						if !isCall {
							continue
						}
						if bi, isB := cp.Call.Value.(*ssa.Builtin); !isB || bi.Name() != "cap" || cp.Call.Args[0] != x.X {
							continue
						}
						if f := d.Succs[1]; len(f.Preds) == 1 && f.Dominates(x.Block()) {
							guarded = true
						}
					}
					if !guarded {
						walk(x.X)
					}
				default:
					bad = append(bad, describeValue(p, v)+", whose size the bound did not decide")
				}
			}
			walk(dst)
			n++
			k++
			sort.Strings(bad)
			c.Check(rule, FuncKey(fn)+" gives CompressBlock a buffer sized by the bound#"+itoa(k), call.Pos(), len(bad) == 0, FuncKey(fn)+" hands CompressBlock a destination that can be "+strings.Join(bad, "; ")+": inputs that do not compress overflow it and Encode fails or returns a block that does not decode to the input")
		})
	}
	c.Min(rule, 2)
}

// c20ReadToEOF — a streaming decoder has produced everything only when its
// reader says so. A function that reads a decompressing reader in a loop
// returns from that loop only where the Read reported an error (io.EOF
// included): every return reachable after the Read is dominated by the
// non-nil edge of a test of the error that Read returned. A shortcut that
// returns because the buffer is full, or the input consumed, truncates the
// output of readers that buffer their input.
func c20ReadToEOF(c *Ctx) {
	rule := "C20.readtoeof"
	p := c.P
	n := 0
	for _, fn := range p.ModuleSSAFuncs() {
		if fn.Origin() != nil || fn.Blocks == nil || fn.Parent() != nil || !strings.Contains(fnPkgPath(fn), "/compress") {
			continue
		}
		for _, b := range fn.Blocks {
			for _, ins := range b.Instrs {
				call, ok := ins.(*ssa.Call)
				if !ok || !call.Call.IsInvoke() || call.Call.Method.Name() != "Read" {
					continue
				}
				if loopHeaderOf(b) == nil {
					continue
				}
				// the blocks where the error of this Read is known to be non-nil
				var errEdges []*ssa.BasicBlock
				for _, r := range *call.Referrers() {
					ex, ok := r.(*ssa.Extract)
					if !ok || !isErrorType(ex.Type()) {
						continue
					}
					for _, b2 := range fn.Blocks {
						ifi, ok := b2.Instrs[len(b2.Instrs)-1].(*ssa.If)
						if !ok {
							continue
						}
						bo, ok := ifi.Cond.(*ssa.BinOp)
						if !ok || !(isNilConst(bo.X) || isNilConst(bo.Y)) {
							continue
						}
						other := bo.X
						if isNilConst(bo.X) {
							other = bo.Y
						}
						if other != ssa.Value(ex) {
							continue
						}
						switch bo.Op {
						case token.NEQ:
							errEdges = append(errEdges, b2.Succs[0])
						case token.EQL:
							errEdges = append(errEdges, b2.Succs[1])
						}
					}
				}
				n++
				var bad []string
				for rb := range reachableAvoidingSet(b, nil, nil) {
					ret, ok := rb.Instrs[len(rb.Instrs)-1].(*ssa.Return)
					if !ok {
						continue
					}
					dominated := false
					for _, e := range errEdges {
						if len(e.Preds) == 1 && e.Dominates(rb) {
							dominated = true
						}
					}
					if !dominated {
						bad = append(bad, p.Pos(ret.Pos()))
					}
				}
				sort.Strings(bad)
				c.Check(rule, FuncKey(fn)+" leaves its read loop only when the reader reports the end", call.Pos(), len(bad) == 0, FuncKey(fn)+" returns at "+strings.Join(bad, ", ")+" without the reader having reported io.EOF or an error: a reader that buffers its input (brotli) has not produced all of its output yet and the result is silently truncated")
			}
		}
	}
	c.Min(rule, 1)
}
