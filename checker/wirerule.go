package main

import (
	"go/token"
	"go/types"
	"sort"
	"strings"

	"golang.org/x/tools/go/ssa"
)

// T-WIRE (DESIGN.md §3): the value stored in a field or passed as an
// argument derives from the named accessor (and tuple index), not from a
// sibling of the same type.
//
// Origin specs:
//   call:<callee>[#k]     result (index k of a tuple) of a call; callee as
//                         rendered by calleeName, e.g. (Page).Bounds#1
//   field:<Type.field>    load of that field
//   len:<Type.field>      len() of that field
//   recv:<callee>:<spec>  result of a method call whose receiver matches spec
//   arg<i>:<callee>:<spec> result of a call whose i-th argument matches spec
//   param:<name>          the function's parameter of that name
//   const                 any constant

type wireSpec struct {
	Fn      string   // function containing the construct
	Sink    string   // "field:Type.field" (stores) or "call:<callee>@<arg index>"
	Allowed []string // origin specs, every origin of the value must match one
	Through bool     // follow arithmetic (x += y, a - b)
	// Require: at least one origin must match each of these (e.g. the real
	// source must be present, not only the accumulator itself)
	Require []string
}

func originDescribe(p *Prog, o Origin) string {
	switch o.Kind {
	case OrgCall:
		s := "call:" + calleeName(o.Call)
		if o.Index >= 0 {
			s += "#" + itoa(o.Index)
		}
		return s
	case OrgField:
		if o.Field != nil {
			return "field:" + p.FieldName(o.Field)
		}
		return "field:?"
	case OrgParam:
		return "param:" + o.Val.Name()
	case OrgConst:
		return "const"
	case OrgGlobal:
		return "global:" + o.Val.Name()
	case OrgAlloc:
		return "alloc"
	case OrgFreeVar:
		return "freevar:" + o.Val.Name()
	}
	return "other:" + o.Val.Name()
}

// wireChain is the call chain of the site being evaluated (nested receiver /
// argument specs resolve helper parameters through it).
var wireChain []ssa.CallInstruction

func originMatches(p *Prog, o Origin, spec string, depth int) bool {
	if depth > 4 {
		return false
	}
	// alternatives (only at the innermost level of recv:/arg specs)
	if !strings.HasPrefix(spec, "recv:") && !strings.HasPrefix(spec, "arg") && strings.Contains(spec, "|") {
		for _, alt := range strings.Split(spec, "|") {
			if originMatches(p, o, alt, depth) {
				return true
			}
		}
		return false
	}
	switch {
	case spec == "const":
		return o.Kind == OrgConst
	case strings.HasPrefix(spec, "call:"):
		if o.Kind != OrgCall {
			return false
		}
		want := spec[len("call:"):]
		idx := -2
		if i := strings.LastIndex(want, "#"); i >= 0 {
			n := 0
			for _, ch := range want[i+1:] {
				n = n*10 + int(ch-'0')
			}
			idx = n
			want = want[:i]
		}
		if calleeName(o.Call) != want {
			return false
		}
		return idx == -2 || idx == o.Index
	case strings.HasPrefix(spec, "field:"):
		want := spec[len("field:"):]
		if strings.HasSuffix(want, ".*") {
			// any field of the struct: the field is chosen by its owner, not by its name
			return o.Kind == OrgField && o.Field != nil && strings.HasPrefix(p.FieldName(o.Field), strings.TrimSuffix(want, "*"))
		}
		return o.Kind == OrgField && o.Field != nil && p.FieldName(o.Field) == want
	case strings.HasPrefix(spec, "param:"):
		return o.Kind == OrgParam && o.Val.Name() == spec[len("param:"):]
	case strings.HasPrefix(spec, "freevar:"):
		return o.Kind == OrgFreeVar && o.Val.Name() == spec[len("freevar:"):]
	case strings.HasPrefix(spec, "len:"):
		if o.Kind != OrgCall {
			return false
		}
		cc := o.Call.Common()
		b, ok := cc.Value.(*ssa.Builtin)
		if !ok || b.Name() != "len" {
			return false
		}
		for _, ao := range originsThrough(cc.Args[0], wireChain, OriginOpts{}) {
			if !originMatches(p, ao, "field:"+spec[len("len:"):], depth+1) {
				return false
			}
		}
		return true
	case strings.HasPrefix(spec, "recv:"), strings.HasPrefix(spec, "arg"):
		if o.Kind != OrgCall {
			return false
		}
		parts := strings.SplitN(spec, ":", 3)
		if len(parts) != 3 {
			return false
		}
		ai := 0
		if parts[0] != "recv" {
			for _, ch := range parts[0][3:] {
				ai = ai*10 + int(ch-'0')
			}
		}
		callee, inner := parts[1], parts[2]
		if calleeName(o.Call) != callee {
			return false
		}
		cc := o.Call.Common()
		var v ssa.Value
		if parts[0] == "recv" {
			if cc.IsInvoke() {
				v = cc.Value
			} else if len(cc.Args) > 0 {
				v = cc.Args[0]
			}
		} else {
			args := cc.Args
			if !cc.IsInvoke() && cc.StaticCallee() != nil && cc.StaticCallee().Signature.Recv() != nil {
				args = args[1:]
			}
			if ai < len(args) {
				v = args[ai]
			}
		}
		if v == nil {
			return false
		}
		for _, ao := range originsThrough(v, wireChain, OriginOpts{}) {
			if !originMatches(p, ao, inner, depth+1) {
				return false
			}
		}
		return true
	}
	return false
}

// scopedFn is a function reached from an anchor function through a chain of
// static same-package calls (the helpers a long function may be split into).
type scopedFn struct {
	fn    *ssa.Function
	chain []ssa.CallInstruction
}

func helperScope(fn *ssa.Function, maxDepth int) []scopedFn {
	out := []scopedFn{{fn: fn}}
	seen := map[*ssa.Function]bool{fn: true}
	for i := 0; i < len(out) && len(out) < 40; i++ {
		cur := out[i]
		if len(cur.chain) >= maxDepth {
			continue
		}
		allCalls(cur.fn, true, func(in *ssa.Function, call ssa.CallInstruction) {
			if in != cur.fn {
				return // calls made from closures cannot be mapped to parameters
			}
			sc := call.Common().StaticCallee()
			if sc == nil || !inModule(sc) || sc.Blocks == nil || fnPkg(sc) != fnPkg(fn) || seen[sc] {
				return
			}
			seen[sc] = true
			chain := append(append([]ssa.CallInstruction{}, cur.chain...), call)
			out = append(out, scopedFn{fn: sc, chain: chain})
		})
	}
	return out
}

// originsThrough is Origins with the parameters of a helper resolved to the
// arguments at the call that leads to it.
func originsThrough(v ssa.Value, chain []ssa.CallInstruction, opts OriginOpts) []Origin {
	var out []Origin
	for _, o := range Origins(v, opts) {
		if o.Kind != OrgParam || len(chain) == 0 {
			out = append(out, o)
			continue
		}
		call := chain[len(chain)-1]
		callee := call.Common().StaticCallee()
		idx := -1
		for i, par := range callee.Params {
			if ssa.Value(par) == o.Val {
				idx = i
			}
		}
		if idx < 0 || idx >= len(call.Common().Args) {
			out = append(out, o)
			continue
		}
		out = append(out, originsThrough(call.Common().Args[idx], chain[:len(chain)-1], opts)...)
	}
	return out
}

func runWire(c *Ctx, rule string, w wireSpec) {
	p := c.P
	obj := p.LookupFunc(w.Fn)
	if !c.Anchor(rule, w.Fn, obj != nil) {
		return
	}
	fn := p.SSAFunc(obj)
	type site struct {
		val   ssa.Value
		pos   token.Pos
		chain []ssa.CallInstruction
	}
	var sites []site
	var curChain []ssa.CallInstruction
	visit := func(f *ssa.Function) {
		switch {
		case strings.HasPrefix(w.Sink, "field:"):
			want := w.Sink[len("field:"):]
			allInstrs(f, false, func(_ *ssa.Function, ins ssa.Instruction) {
				st, ok := ins.(*ssa.Store)
				if !ok {
					return
				}
				fields, _, elem := fieldChain(st.Addr)
				if len(fields) == 0 || elem {
					return
				}
				if p.FieldName(fields[len(fields)-1]) == want {
					sites = append(sites, site{st.Val, st.Pos(), curChain})
				}
			})
		case strings.HasPrefix(w.Sink, "call:"):
			spec := w.Sink[len("call:"):]
			at := strings.LastIndex(spec, "@")
			callee := spec[:at]
			ai := 0
			for _, ch := range spec[at+1:] {
				ai = ai*10 + int(ch-'0')
			}
			allCalls(f, false, func(_ *ssa.Function, call ssa.CallInstruction) {
				if calleeName(call) != callee {
					return
				}
				cc := call.Common()
				args := cc.Args
				if !cc.IsInvoke() && cc.StaticCallee() != nil && cc.StaticCallee().Signature.Recv() != nil {
					args = args[1:]
				}
				if ai < len(args) {
					sites = append(sites, site{args[ai], call.Pos(), curChain})
				}
			})
		}
	}
	visit(fn)
	for _, a := range fn.AnonFuncs {
		visit(a)
	}
	if len(sites) == 0 {
		// the construct may have been moved into a helper of the function
		for _, sf := range helperScope(fn, 2)[1:] {
			curChain = sf.chain
			visit(sf.fn)
		}
		curChain = nil
	}
	key := w.Fn + ": " + w.Sink
	if len(sites) == 0 {
		c.Fail(rule, key, fn.Pos(), "construct not found in %s: %s (the wiring rule cannot be evaluated)", w.Fn, w.Sink)
		return
	}
	for i, s := range sites {
		k := key
		if i > 0 {
			k += "#" + itoa(i)
		}
		var bad []string
		seenReq := map[string]bool{}
		wireChain = s.chain
		for _, o := range originsThrough(s.val, s.chain, OriginOpts{ThroughBinOp: w.Through}) {
			ok := false
			for _, a := range w.Allowed {
				if originMatches(p, o, a, 0) {
					ok = true
				}
			}
			for _, r := range w.Require {
				if originMatches(p, o, r, 0) {
					seenReq[r] = true
				}
			}
			if !ok {
				bad = append(bad, originDescribe(p, o))
			}
		}
		for _, r := range w.Require {
			if !seenReq[r] {
				bad = append(bad, "missing "+r)
			}
		}
		wireChain = nil
		sort.Strings(bad)
		c.Check(rule, k, s.pos, len(bad) == 0, "value wired into "+w.Sink+" in "+w.Fn+" derives from {"+strings.Join(bad, ", ")+"}; allowed sources are {"+strings.Join(w.Allowed, ", ")+"}")
	}
}

// comparisonPolarity checks that in fn there is a branch on
// `callee(args…) <op> 0` whose first argument derives from wantArg0 and that
// op equals wantOp (token.GTR for "replace max when greater", token.LSS for min).
func comparisonGuard(p *Prog, fn *ssa.Function, callee string, arg0Spec string) (ops []token.Token) {
	for _, sf := range helperScope(fn, 2) {
		ops = append(ops, comparisonGuardIn(p, sf, callee, arg0Spec)...)
	}
	return ops
}

func comparisonGuardIn(p *Prog, sf scopedFn, callee string, arg0Spec string) (ops []token.Token) {
	fn := sf.fn
	allInstrs(fn, false, func(_ *ssa.Function, ins ssa.Instruction) {
		bo, ok := ins.(*ssa.BinOp)
		if !ok {
			return
		}
		var call *ssa.Call
		var cst *ssa.Const
		op := bo.Op
		if cl, ok := bo.X.(*ssa.Call); ok {
			call = cl
			cst, _ = bo.Y.(*ssa.Const)
		} else if cl, ok := bo.Y.(*ssa.Call); ok {
			call = cl
			cst, _ = bo.X.(*ssa.Const)
			// mirror the operator
			switch op {
			case token.GTR:
				op = token.LSS
			case token.LSS:
				op = token.GTR
			case token.GEQ:
				op = token.LEQ
			case token.LEQ:
				op = token.GEQ
			}
		}
		if call == nil || cst == nil || cst.Value == nil || cst.Int64() != 0 || calleeName(call) != callee {
			return
		}
		cc := call.Common()
		args := cc.Args
		if !cc.IsInvoke() && cc.StaticCallee() != nil && cc.StaticCallee().Signature.Recv() != nil {
			args = args[1:]
		}
		if len(args) == 0 {
			return
		}
		wireChain = sf.chain
		defer func() { wireChain = nil }()
		for _, o := range originsThrough(args[0], sf.chain, OriginOpts{}) {
			if !originMatches(p, o, arg0Spec, 0) {
				return
			}
		}
		ops = append(ops, op)
	})
	return ops
}

var _ = types.Typ
