package main

import (
	"encoding/json"
	"fmt"
	"go/token"
	"os"
	"path/filepath"
	"sort"
	"strings"
)

// Obl is one rule instance evaluated against a construct of /repo.
type Obl struct {
	Rule   string `json:"rule"`             // e.g. C13.provenance
	Key    string `json:"construct"`        // rule-relative construct key (no line numbers)
	Pos    string `json:"pos,omitempty"`    // file:line, diagnostics only
	OK     bool   `json:"ok"`               // satisfied
	Detail string `json:"detail,omitempty"` // what was examined / why it fails
	Config string `json:"config,omitempty"` // build configuration
}

// Ctx collects obligations of one property run over one build configuration.
type Ctx struct {
	P        *Prog
	Prop     string
	Thorough bool
	Obls     []Obl
	minimums map[string]int
	notes    []string
	seen     map[string]bool
	Stats    map[string]int // measured counters (call sites visited, …)
}

func newCtx(p *Prog, prop string, thorough bool) *Ctx {
	return &Ctx{P: p, Prop: prop, Thorough: thorough, minimums: map[string]int{}, seen: map[string]bool{}, Stats: map[string]int{}}
}

// Check records an obligation. Duplicate (rule,key) pairs are merged: the
// instance fails if any evaluation fails.
func (c *Ctx) Check(rule, key string, pos token.Pos, ok bool, detail string) {
	id := rule + "\x00" + key
	if c.seen[id] {
		for i := range c.Obls {
			if c.Obls[i].Rule == rule && c.Obls[i].Key == key {
				if !ok && c.Obls[i].OK {
					c.Obls[i].OK = false
					c.Obls[i].Detail = detail
					c.Obls[i].Pos = c.P.Pos(pos)
				}
				return
			}
		}
	}
	c.seen[id] = true
	c.Obls = append(c.Obls, Obl{Rule: rule, Key: key, Pos: c.P.Pos(pos), OK: ok, Detail: detail, Config: c.P.Config.Name})
}

// Fail records a failed obligation.
func (c *Ctx) Fail(rule, key string, pos token.Pos, format string, args ...any) {
	c.Check(rule, key, pos, false, fmt.Sprintf(format, args...))
}

// Pass records a satisfied obligation.
func (c *Ctx) Pass(rule, key string, pos token.Pos, format string, args ...any) {
	c.Check(rule, key, pos, true, fmt.Sprintf(format, args...))
}

// Anchor records that a named construct the rule tables rely on exists.
// A missing anchor is a failed check, never a silent pass.
func (c *Ctx) Anchor(rule, what string, found bool) bool {
	if !found {
		c.Check(rule, "anchor:"+what, token.NoPos, false, "anchor not found in the analysed tree: "+what+" (the rule table names a construct that no longer exists; the rule cannot be evaluated)")
	}
	return found
}

// Min declares the number of instances of rule confirmed by hand.
func (c *Ctx) Min(rule string, n int) { c.minimums[rule] = n }

func (c *Ctx) Note(format string, args ...any) {
	c.notes = append(c.notes, fmt.Sprintf(format, args...))
}

func (c *Ctx) finish() {
	counts := map[string]int{}
	for _, o := range c.Obls {
		counts[o.Rule]++
	}
	var rules []string
	for r := range c.minimums {
		rules = append(rules, r)
	}
	sort.Strings(rules)
	for _, r := range rules {
		if counts[r] < c.minimums[r] {
			c.Check(r, "instance-count", token.NoPos, false,
				fmt.Sprintf("rule matched %d instances, fewer than the %d confirmed by hand on the pinned tree: the rule would pass vacuously", counts[r], c.minimums[r]))
		}
	}
}

// ---------------------------------------------------------------------------
// known findings

type KnownFinding struct {
	Property string `json:"property"`
	Rule     string `json:"rule"`
	Key      string `json:"construct"`
	What     string `json:"what"`
	Status   string `json:"status"` // "open" or "fixed"
	Commit   string `json:"commit,omitempty"`
	Line     string `json:"line,omitempty"` // the "fixed: property=… <commit> <what failed>" form
}

type KnownFile struct {
	Comment  string         `json:"comment"`
	Findings []KnownFinding `json:"findings"`
}

func loadKnown(path string) (*KnownFile, error) {
	b, err := os.ReadFile(path)
	if err != nil {
		if os.IsNotExist(err) {
			return &KnownFile{}, nil
		}
		return nil, err
	}
	var k KnownFile
	if err := json.Unmarshal(b, &k); err != nil {
		return nil, fmt.Errorf("%s: %w", path, err)
	}
	return &k, nil
}

func (k *KnownFile) match(prop string, o Obl) *KnownFinding {
	for i := range k.Findings {
		f := &k.Findings[i]
		if f.Status != "open" {
			continue // fixed entries suppress nothing
		}
		if f.Property == prop && f.Rule == o.Rule && f.Key == o.Key {
			return f
		}
	}
	return nil
}

// ---------------------------------------------------------------------------
// evidence

type ruleStat struct {
	Rule       string `json:"rule"`
	Instances  int    `json:"instances"`
	Discharged int    `json:"discharged"`
}

type evidence struct {
	PropertyID  string         `json:"property_id"`
	Tier        string         `json:"tier"`
	Seed        int            `json:"seed"`
	Level       string         `json:"level"`
	Coverage    map[string]any `json:"coverage"`
	Assumptions []string       `json:"assumptions"`
	WallS       float64        `json:"wall_s"`
	Violations  int            `json:"violations"`
	Known       []string       `json:"known_findings_reported"`
}

type runResult struct {
	Config   string
	Obls     []Obl
	Notes    []string
	Stats    map[string]int
	Packages int
	Funcs    int
	Decls    int
	LoadS    float64
	SSAS     float64
}

func writeEvidence(dir string, prop *Property, tier string, seed int, results []runResult, violations []Obl, known []string, wall float64) error {
	stats := map[string]*ruleStat{}
	var order []string
	total, ok := 0, 0
	var samples []any
	perRuleSample := map[string]int{}
	merged := map[string]int{}
	var cfgs []map[string]any
	for _, r := range results {
		cfgs = append(cfgs, map[string]any{"config": r.Config, "module_packages": r.Packages, "ssa_functions": r.Funcs, "module_func_decls": r.Decls, "load_s": round2(r.LoadS), "ssa_s": round2(r.SSAS)})
		for k, v := range r.Stats {
			merged[r.Config+"/"+k] = v
		}
		for _, o := range r.Obls {
			s := stats[o.Rule]
			if s == nil {
				s = &ruleStat{Rule: o.Rule}
				stats[o.Rule] = s
				order = append(order, o.Rule)
			}
			s.Instances++
			total++
			if o.OK {
				s.Discharged++
				ok++
			}
			if perRuleSample[o.Rule] < 3 || !o.OK {
				perRuleSample[o.Rule]++
				samples = append(samples, o)
			}
		}
	}
	sort.Strings(order)
	var rs []ruleStat
	for _, r := range order {
		rs = append(rs, *stats[r])
	}
	var notes []string
	if len(results) > 0 {
		notes = results[0].Notes
	}
	ev := evidence{
		PropertyID: prop.ID,
		Tier:       tier,
		Seed:       seed,
		Level:      "other",
		Coverage: map[string]any{
			"explanation":    prop.Decided + " NOT DECIDED: " + prop.NotDecided,
			"obligations":    total,
			"discharged":     ok,
			"rules":          rs,
			"configurations": cfgs,
			"counters":       merged,
			"samples":        samples,
			"checker_cmd":    fmt.Sprintf("/verif/check %s %s", prop.ID, tier),
			"trusted_base": []string{
				"go/types and go/packages type-checking of /repo with the pinned go1.24.9 toolchain",
				"golang.org/x/tools v0.29.0 go/ssa construction, CHA/VTA call graphs",
				"the frozen rule tables in /verif/checker/rules_*.go (instances confirmed by reading)",
				"assembly (*.s) and goexperiment.simd files are outside the analysed set",
			},
			"notes":      notes,
			"exhaustive": true,
		},
		Assumptions: prop.Assumptions,
		WallS:       round2(wall),
		Violations:  len(violations),
		Known:       known,
	}
	if err := os.MkdirAll(dir, 0o755); err != nil {
		return err
	}
	b, err := json.MarshalIndent(ev, "", " ")
	if err != nil {
		return err
	}
	return os.WriteFile(filepath.Join(dir, prop.ID+".json"), append(b, '\n'), 0o644)
}

func round2(f float64) float64 { return float64(int(f*100+0.5)) / 100 }

// replay files

type replayFile struct {
	Property string `json:"property"`
	Tier     string `json:"tier"`
	Obl      Obl    `json:"obligation"`
	Howto    string `json:"howto"`
}

func writeReplay(dir, prop, tier string, n int, o Obl) string {
	rd := filepath.Join(dir, "replay")
	_ = os.MkdirAll(rd, 0o755)
	name := fmt.Sprintf("%s-%s-%d.json", prop, sanitize(o.Rule), n)
	path := filepath.Join(rd, name)
	b, _ := json.MarshalIndent(replayFile{Property: prop, Tier: tier, Obl: o,
		Howto: "/verif/check " + prop + " " + tier + " -replay " + path + "  (re-evaluates this rule instance against /repo's current tree)"}, "", " ")
	_ = os.WriteFile(path, append(b, '\n'), 0o644)
	return path
}

func sanitize(s string) string {
	return strings.Map(func(r rune) rune {
		if r >= 'a' && r <= 'z' || r >= 'A' && r <= 'Z' || r >= '0' && r <= '9' || r == '-' || r == '_' || r == '.' {
			return r
		}
		return '_'
	}, s)
}
