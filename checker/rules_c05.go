package main

import (
	"go/token"
	"go/types"
	"sort"
	"strings"

	"golang.org/x/tools/go/ssa"
)

// C05 — statistics and page indexes bound the data they describe.

func init() {
	register(&Property{
		ID:          "C05",
		NeedSSA:     true,
		Decided:     "Structural necessary conditions: (indexer) every implementation of ColumnIndexer.IndexPage records the page unconditionally (observe dominates every exit) and gives minValues and maxValues exactly one entry on every path — an unconditional store whose value appends to the same field, never a conditional append and never a raw spread of a variable-length Value.byteArray(); byte-slice bounds kept in a [][]byte are copies; (wire) the values that reach IndexPage, the chunk statistics, the page statistics, the page locations and the level histograms come from the matching accessor of the page (NumValues, NumNulls, Bounds#0 → min, Bounds#1 → max, NumRows), chunk max is replaced only under Compare(max, existing) > 0 and chunk min only under < 0; (order) every indexer passes order(minValues), order(maxValues) in that order to the shared constructor, and boundaryOrderOf claims an order only when both agree; (reset) the per-row-group statistics state of a column writer is re-established by its reset (shared with C17.reset); (sorting) RowGroup.SortingColumns literals take Descending/NullsFirst from the declared sorting column. (boundary) the merged column index decides ascending/descending across chunks on the two pages adjacent to the boundary (last of the earlier chunk, first of the later one) and with the defining bounds (max/min for ascending, min/max for descending); (detach) the min/max arrays an indexer hands to the shared column-index constructor are freshly allocated, not the fields its Reset truncates. (delegate) every logical type that delegates NewColumnIndexer/NewColumnBuffer/NewDictionary/NewPage delegates all of them to the same source; (boundary, cont.) the later chunk of a boundary comparison is searched for with a scan that skips chunks made of null pages. (nanbounds) every Bounds, MinValue or MaxValue method that orders floating-point values — it or what it calls in the module within two calls compares floats with < or >, or calls a bodyless kernel returning floats — also tests for NaN (v != v or math.IsNaN) in that scope, for plain pages, dictionary pages and the column indexes of in-memory pages alike. (freshelem) in every module function that stores elements of a [][]byte (the lists of min/max byte strings of indexers and column indexes), no stored element is an append built on the storage of an element already in a list, and nothing copies into such an element: the strings are shared with the column indexes handed out earlier, which the writer keeps until the footer. (nilpresence) every function that decides whether format.Statistics min/max bounds have been recorded compares them with nil; none compares their length with zero (the empty byte string is a bound). (freshindex) no slice field of a format.ColumnIndex literal built by a method is a (re-slice of a) slice that the method's receiver keeps in one of its own fields: the index handed to the writer shares no storage with the indexer that is reset for the next row group. (unwrap) a Type() method of an object that keeps a pointer to a logical type embedding the physical Type never loads that embedded Type through the pointer: it reports the logical type, whose order the statistics are merged and indexed with.",
		NotDecided:  "that the bounds are true bounds (truncation arithmetic, NaN handling, signed/unsigned order functions, SIMD min/max kernels); that counts are right as numbers; null handling inside the order functions.",
		Assumptions: []string{"value flow is followed through phis, locals, conversions and arithmetic; accessor identity is resolved through go/types (interface method or static callee), never by text"},
		Run:         runC05,
	})
}

func runC05(c *Ctx) {
	indexerRule(c, "C05.indexer")
	c05Wire(c, "C05.wire")
	c05Order(c)
	c05Sorting(c, "C05.sorting")
	c05Boundary(c)
	c05NaNBounds(c)
	c05NilPresence(c)
	c05FreshIndex(c)
	c05Unwrap(c)
	runFreshElemRule(c, "C05.freshelem", func(fn *ssa.Function) bool { return inModule(fn) }, 3)
	delegateSiblingRule(c, "C05.delegate", []string{"NewColumnIndexer", "NewColumnBuffer", "NewDictionary", "NewPage"}, 10)
	// statistics state carried across row groups
	ci := newChainIndex(c.P)
	for _, s := range c17ResetSpecs(c.P) {
		if s.Type == "ColumnWriter" || strings.HasSuffix(s.Type, "ColumnIndexer") {
			if s.Type == "ColumnWriter" {
				s.Reset = []string{"(*ColumnWriter).reset"}
				s.Exempt["ColumnWriter.rowGroupOrdinal"] = "row group ordinal is advanced by writeRowGroup itself, per row group"
				s.Exempt["ColumnWriter.fileUnique"] = "per-file identifier of the encryption state: assigned by the writer's own reset for every column (C18.fileid), constant within a file"
			}
			runResetRule(c, "C05.reset", ci, s)
		}
	}
	c.Min("C05.reset", 20)
}

// indexerRule: sibling cross-check of all ColumnIndexer.IndexPage implementations.
func indexerRule(c *Ctx, rule string) {
	p := c.P
	ifaceT := p.LookupType("ColumnIndexer")
	if !c.Anchor(rule, "ColumnIndexer", ifaceT != nil) {
		return
	}
	iface, _ := ifaceT.Underlying().(*types.Interface)
	impls := p.Implementations(iface)
	observeFn := sharedIndexerMethod(p, "IndexPage")
	if !c.Anchor(rule, "the function every IndexPage implementation calls to record the page", observeFn != nil) {
		return
	}
	n := 0
	for _, t := range impls {
		m, promoted := MethodOf(t, "IndexPage")
		if m == nil || promoted {
			continue
		}
		fn := p.SSAFunc(m)
		if fn == nil || fn.Blocks == nil {
			continue
		}
		n++
		tn := recvString(t)
		rets := returnsOf(fn)
		domAll := func(ins ssa.Instruction) bool {
			for _, r := range rets {
				if r.Block() == fn.Recover {
					continue
				}
				if !dominates(ins, r) {
					return false
				}
			}
			return true
		}
		// (a) observe
		var obs ssa.Instruction
		allCalls(fn, false, func(_ *ssa.Function, call ssa.CallInstruction) {
			if sc := call.Common().StaticCallee(); sc != nil && observeFn != nil && sc == observeFn {
				obs = call.(ssa.Instruction)
			}
		})
		c.Check(rule, tn+".IndexPage records the page (observe) on every path", fn.Pos(), obs != nil && domAll(obs), "the null-page flag and null count of a page are not recorded on every path: the per-page arrays of the column index lose their alignment with the pages")
		// (b) bounds
		st := structOf(t)
		if st == nil {
			continue
		}
		for i := 0; i < st.NumFields(); i++ {
			f := st.Field(i)
			if f.Name() != "minValues" && f.Name() != "maxValues" {
				continue
			}
			var stores []*ssa.Store
			allInstrs(fn, false, func(_ *ssa.Function, ins ssa.Instruction) {
				if s, ok := ins.(*ssa.Store); ok {
					if fs, _, elem := fieldChain(s.Addr); len(fs) > 0 && !elem && fs[len(fs)-1] == f.Origin() {
						stores = append(stores, s)
					}
				}
			})
			key := tn + ".IndexPage appends exactly one " + f.Name() + " entry per page"
			if len(stores) != 1 {
				c.Fail(rule, key, fn.Pos(), "%d assignments of %s in IndexPage (want one unconditional append)", len(stores), f.Name())
				continue
			}
			s := stores[0]
			problem := ""
			if !domAll(s) {
				problem = "the append is conditional: pages for which it is skipped (null bounds) get no entry, so " + f.Name() + " is shorter than nullPages"
			}
			// value: append-like call with the field itself as destination
			for _, o := range Origins(s.Val, OriginOpts{}) {
				if o.Kind != OrgCall {
					problem = "value is not the result of an append"
					continue
				}
				cc := o.Call.Common()
				args := cc.Args
				if len(args) == 0 {
					problem = "append without destination"
					continue
				}
				selfDst := false
				for _, ao := range Origins(args[0], OriginOpts{}) {
					if ao.Kind == OrgField && ao.Field == f.Origin() {
						selfDst = true
					}
				}
				if !selfDst {
					problem = "the appended-to slice is not " + f.Name() + " itself"
				}
				if b, ok := cc.Value.(*ssa.Builtin); ok && b.Name() == "append" && len(args) == 2 {
					if sl, ok := args[1].(*ssa.Slice); ok {
						if a, ok := sl.X.(*ssa.Alloc); ok && a.Comment == "varargs" {
							// single element: if it is a []byte it must be a copy
							if arr, ok := a.Type().Underlying().(*types.Pointer).Elem().Underlying().(*types.Array); ok {
								if _, isSlice := arr.Elem().Underlying().(*types.Slice); isSlice {
									if v := varargElem(a); v != nil && !isCopyOfBytes(v) {
										problem = "the bound stored in the index aliases the page's memory (no copy): later pages overwrite it"
									}
								}
							}
							continue
						}
					}
					// spread append: reject raw Value.byteArray()
					for _, so := range Origins(args[1], OriginOpts{}) {
						if so.Kind == OrgCall {
							if n := calleeName(so.Call); strings.HasSuffix(n, ".byteArray") || strings.HasSuffix(n, ".ByteArray") || strings.HasSuffix(n, ".Bytes") {
								problem = "raw spread-append of " + n + "(): a null bound has no bytes, so a page holding only nulls gets no entry"
							}
						}
					}
				}
			}
			c.Check(rule, key, s.Pos(), problem == "", problem)
		}
	}
	c.Stats[rule+".implementations"] = n
	c.Min(rule, 30)
}

func varargElem(a *ssa.Alloc) ssa.Value {
	for _, ref := range *a.Referrers() {
		if ia, ok := ref.(*ssa.IndexAddr); ok {
			for _, r2 := range *ia.Referrers() {
				if st, ok := r2.(*ssa.Store); ok && st.Addr == ia {
					return st.Val
				}
			}
		}
	}
	return nil
}

func isCopyOfBytes(v ssa.Value) bool {
	for _, o := range Origins(v, OriginOpts{}) {
		switch o.Kind {
		case OrgCall:
			n := calleeName(o.Call)
			if n == "copyBytes" || n == "slices.Clone" || n == "bytes.Clone" || n == "append" {
				continue
			}
			if b, ok := o.Call.Common().Value.(*ssa.Builtin); ok && b.Name() == "append" {
				continue
			}
			return false
		case OrgAlloc, OrgConst:
		default:
			return false
		}
	}
	return true
}

func c05Wire(c *Ctx, rule string) {
	p := c.P
	rp := "(*ColumnWriter).recordPageStats"
	wires := []wireSpec{
		{Fn: rp, Sink: "call:(ColumnIndexer).IndexPage@0", Allowed: []string{"call:(Page).NumValues"}},
		{Fn: rp, Sink: "call:(ColumnIndexer).IndexPage@1", Allowed: []string{"call:(Page).NumNulls"}},
		{Fn: rp, Sink: "call:(ColumnIndexer).IndexPage@2", Allowed: []string{"call:(Page).Bounds#0", "const"}},
		{Fn: rp, Sink: "call:(ColumnIndexer).IndexPage@3", Allowed: []string{"call:(Page).Bounds#1", "const"}},
		{Fn: rp, Sink: "field:format.ColumnMetaData.NumValues", Through: true, Allowed: []string{"field:format.ColumnMetaData.NumValues", "call:(Page).NumValues"}, Require: []string{"call:(Page).NumValues"}},
		{Fn: rp, Sink: "field:format.Statistics.NullCount", Through: true, Allowed: []string{"field:format.Statistics.NullCount", "call:(Page).NumNulls"}, Require: []string{"call:(Page).NumNulls"}},
		{Fn: rp, Sink: "field:format.Statistics.MaxValue", Allowed: []string{"recv:(Value).AppendBytes:call:(Page).Bounds#1|const"}},
		{Fn: rp, Sink: "field:format.Statistics.MinValue", Allowed: []string{"recv:(Value).AppendBytes:call:(Page).Bounds#0|const"}},
		{Fn: rp, Sink: "field:format.Statistics.Max", Allowed: []string{"field:format.Statistics.MaxValue"}},
		{Fn: rp, Sink: "field:format.Statistics.Min", Allowed: []string{"field:format.Statistics.MinValue"}},
		{Fn: rp, Sink: "field:ColumnWriter.numRows", Through: true, Allowed: []string{"field:ColumnWriter.numRows", "call:(Page).NumRows"}, Require: []string{"call:(Page).NumRows"}},
		{Fn: rp, Sink: "field:format.PageLocation.FirstRowIndex", Allowed: []string{"field:ColumnWriter.numRows"}},
		{Fn: rp, Sink: "field:format.PageLocation.Offset", Allowed: []string{"field:format.ColumnMetaData.TotalCompressedSize"}},
		{Fn: "(*ColumnWriter).makePageStatistics", Sink: "field:format.Statistics.NullCount", Allowed: []string{"call:(Page).NumNulls"}},
		{Fn: "(*ColumnWriter).makePageStatistics", Sink: "field:format.Statistics.MinValue", Allowed: []string{"recv:(Value).Bytes:call:(Page).Bounds#0"}},
		{Fn: "(*ColumnWriter).makePageStatistics", Sink: "field:format.Statistics.MaxValue", Allowed: []string{"recv:(Value).Bytes:call:(Page).Bounds#1"}},
		{Fn: "(*ColumnWriter).makePageStatistics", Sink: "field:format.Statistics.Min", Allowed: []string{"recv:(Value).Bytes:call:(Page).Bounds#0"}},
		{Fn: "(*ColumnWriter).makePageStatistics", Sink: "field:format.Statistics.Max", Allowed: []string{"recv:(Value).Bytes:call:(Page).Bounds#1"}},
	}
	for _, w := range wires {
		runWire(c, rule, w)
	}
	// polarity of the chunk-level fold
	if obj := p.LookupFunc(rp); obj != nil {
		fn := p.SSAFunc(obj)
		mx := comparisonGuard(p, fn, "(Type).Compare", "call:(Page).Bounds#1|const")
		mn := comparisonGuard(p, fn, "(Type).Compare", "call:(Page).Bounds#0|const")
		c.Check(rule, rp+": chunk max replaced only when Compare(pageMax, existing) > 0", fn.Pos(), len(mx) == 1 && mx[0] == token.GTR, "the comparison guarding the chunk maximum has the wrong polarity or is missing: found "+opsString(mx))
		c.Check(rule, rp+": chunk min replaced only when Compare(pageMin, existing) < 0", fn.Pos(), len(mn) == 1 && mn[0] == token.LSS, "the comparison guarding the chunk minimum has the wrong polarity or is missing: found "+opsString(mn))
	}
	// observe: null page flag is numValues == numNulls
	if fn := sharedIndexerMethod(p, "IndexPage"); c.Anchor(rule, "the function every IndexPage implementation calls to record the page", fn != nil) {
		ok := false
		allInstrs(fn, false, func(_ *ssa.Function, ins ssa.Instruction) {
			if bo, isB := ins.(*ssa.BinOp); isB && bo.Op == token.EQL {
				px, okx := bo.X.(*ssa.Parameter)
				py, oky := bo.Y.(*ssa.Parameter)
				if okx && oky && px != py {
					ok = true // the two counts it receives are compared with each other
				}
			}
		})
		c.Check(rule, "observe: null page iff numValues == numNulls", fn.Pos(), ok, "the null-page flag is no longer computed as numValues == numNulls")
	}
	c.Min(rule, 20)
}

func opsString(ops []token.Token) string {
	var s []string
	for _, o := range ops {
		s = append(s, o.String())
	}
	return "[" + strings.Join(s, " ") + "]"
}

// c05Order: indexers pass order(min), order(max) in that order; boundaryOrderOf
// claims an order only when both agree.
func c05Order(c *Ctx) {
	p := c.P
	rule := "C05.order"
	ifaceT := p.LookupType("ColumnIndexer")
	if ifaceT == nil {
		return
	}
	iface, _ := ifaceT.Underlying().(*types.Interface)
	ctor := sharedIndexerMethod(p, "ColumnIndex")
	if !c.Anchor(rule, "the constructor every ColumnIndex implementation calls", ctor != nil) {
		return
	}
	n := 0
	for _, t := range p.Implementations(iface) {
		m, promoted := MethodOf(t, "ColumnIndex")
		if m == nil || promoted {
			continue
		}
		fn := p.SSAFunc(m)
		if fn == nil || fn.Blocks == nil {
			continue
		}
		st := structOf(t)
		var minF, maxF *types.Var
		for i := 0; st != nil && i < st.NumFields(); i++ {
			switch st.Field(i).Name() {
			case "minValues":
				minF = st.Field(i).Origin()
			case "maxValues":
				maxF = st.Field(i).Origin()
			}
		}
		if minF == nil || maxF == nil {
			continue
		}
		n++
		tn := recvString(t)
		allCalls(fn, false, func(_ *ssa.Function, call ssa.CallInstruction) {
			if ctor == nil || call.Common().StaticCallee() != ctor {
				return
			}
			args := call.Common().Args // recv, minValues, maxValues, minOrder, maxOrder
			if len(args) != 5 {
				return
			}
			derives := func(v ssa.Value, f *types.Var) (bool, string) {
				// v derives (through calls and conversions) from field f and not from the other
				seen := map[ssa.Value]bool{}
				found, other := false, false
				var walk func(v ssa.Value, d int)
				walk = func(v ssa.Value, d int) {
					if v == nil || seen[v] || d > 8 {
						return
					}
					seen[v] = true
					for _, o := range Origins(v, OriginOpts{}) {
						switch o.Kind {
						case OrgField:
							if o.Field == f {
								found = true
							} else if o.Field == minF || o.Field == maxF {
								other = true
							}
						case OrgCall:
							for _, a := range o.Call.Common().Args {
								walk(a, d+1)
							}
						}
					}
				}
				walk(v, 0)
				return found && !other, ""
			}
			okMin, _ := derives(args[1], minF)
			okMax, _ := derives(args[2], maxF)
			okMinO, _ := derives(args[3], minF)
			okMaxO, _ := derives(args[4], maxF)
			c.Check(rule, tn+".ColumnIndex wires min/max values and orders in position", call.Pos(), okMin && okMax && okMinO && okMaxO, "the values or orders passed to the shared column-index constructor are not (minValues, maxValues, order(minValues), order(maxValues)): bounds or boundary order of the index are swapped or computed from the wrong array")
			// the published arrays are detached from the indexer: Reset truncates
			// minValues/maxValues in place and the next row group appends over them
			// while the column index of this row group is still held by the writer
			var alias []string
			for k, a := range []ssa.Value{args[1], args[2]} {
				if bad := ownedValueProblem(p, a, nil, 0); bad != "" {
					alias = append(alias, []string{"min", "max"}[k]+" values are "+bad)
				}
			}
			c.Check("C05.detach", tn+".ColumnIndex hands out arrays of its own", call.Pos(), len(alias) == 0, tn+".ColumnIndex: "+strings.Join(alias, "; ")+": the indexer's Reset truncates that storage in place and the pages of the next row group overwrite the bounds recorded in the column index of the previous one")
			// floating point bounds can be NaN (a page holding only NaN), which
			// plain comparisons never find out of order: the order function of a
			// float indexer looks for NaN (x != x or math.IsNaN) itself
			if sl, isSlice := minF.Type().Underlying().(*types.Slice); isSlice {
				if b, isBasic := sl.Elem().Underlying().(*types.Basic); isBasic && b.Info()&types.IsFloat != 0 {
					nanAware := false
					for _, o := range Origins(args[3], OriginOpts{}) {
						if o.Kind != OrgCall {
							continue
						}
						if sc := o.Call.Common().StaticCallee(); sc != nil && sc.Blocks != nil {
							allInstrs(sc, false, func(_ *ssa.Function, ins ssa.Instruction) {
								switch x := ins.(type) {
								case *ssa.BinOp:
									if x.Op == token.NEQ && x.X == x.Y {
										nanAware = true
									}
								case ssa.CallInstruction:
									if calleeName(x) == "math.IsNaN" {
										nanAware = true
									}
								}
							})
						}
					}
					c.Check(rule, tn+".ColumnIndex orders bounds that may be NaN with a NaN-aware function", call.Pos(), nanAware, tn+" computes the boundary order of floating point bounds with comparisons alone: the NaN bounds of a page holding only NaN are never out of order, the index is declared ascending around them and the binary search misses values")
				}
			}
			// the two order functions are the same function
			f3, f4 := orderCallee(args[3]), orderCallee(args[4])
			c.Check(rule, tn+".ColumnIndex uses one order function for both arrays", call.Pos(), f3 != "" && f3 == f4, "min and max orders are computed by different functions ("+f3+" / "+f4+")")
		})
	}
	c.Stats[rule+".indexers_with_bounds"] = n
	c.Min("C05.detach", 10)
	// boundaryOrderOf truth table: Ascending/Descending only when minOrder == maxOrder
	if obj := p.LookupFunc("boundaryOrderOf"); c.Anchor(rule, "boundaryOrderOf", obj != nil) {
		fn := p.SSAFunc(obj)
		// every return of a non-Unordered constant is dominated by the true edge of minOrder == maxOrder
		var eqTrue []*ssa.BasicBlock
		for _, b := range fn.Blocks {
			if len(b.Instrs) == 0 {
				continue
			}
			if ifi, ok := b.Instrs[len(b.Instrs)-1].(*ssa.If); ok {
				if bo, ok := ifi.Cond.(*ssa.BinOp); ok && (bo.Op == token.EQL || bo.Op == token.NEQ) {
					_, px := bo.X.(*ssa.Parameter)
					_, py := bo.Y.(*ssa.Parameter)
					if px && py {
						if bo.Op == token.EQL {
							eqTrue = append(eqTrue, b.Succs[0])
						} else {
							eqTrue = append(eqTrue, b.Succs[1])
						}
					}
				}
			}
		}
		ok := len(eqTrue) > 0
		for _, r := range returnsOf(fn) {
			v, _ := retResult(r, 0)
			cst, isC := v.(*ssa.Const)
			if isC && cst.Value != nil && cst.Int64() == 0 { // format.Unordered
				continue
			}
			dom := false
			for _, e := range eqTrue {
				if e.Dominates(r.Block()) {
					dom = true
				}
			}
			if !dom {
				ok = false
			}
		}
		c.Check(rule, "boundaryOrderOf claims an order only when min and max orders agree", fn.Pos(), ok, "an ordered boundary order can be returned although the order of the minimums and of the maximums differ: readers would bisect an index that is not ordered")
	}
	c.Min(rule, 20)
}

func orderCallee(v ssa.Value) string {
	for _, o := range Origins(v, OriginOpts{}) {
		if o.Kind == OrgCall {
			return calleeName(o.Call)
		}
	}
	return ""
}

// c05Sorting: recorded sorting metadata is what was declared.
func c05Sorting(c *Ctx, rule string) {
	for _, fnKey := range []string{"newWriter", "(*writer).writeRowGroup"} {
		runWire(c, rule, wireSpec{Fn: fnKey, Sink: "field:format.SortingColumn.Descending", Allowed: []string{"call:(SortingColumn).Descending"}})
		runWire(c, rule, wireSpec{Fn: fnKey, Sink: "field:format.SortingColumn.NullsFirst", Allowed: []string{"call:(SortingColumn).NullsFirst"}})
	}
	// the writer's sorting columns are made with one zero-valued slot per declared
	// column and filled as matching leaves are found: slots that stay zero
	// would be recorded as {column 0, ascending}, so the slice is cut down to
	// what was filled before it is used
	p := c.P
	sc := p.LookupField("writer", "sortingColumns")
	if obj := p.LookupFunc("newWriter"); obj != nil && c.Anchor(rule, "writer.sortingColumns", sc != nil) {
		fn := p.SSAFunc(obj)
		presized, trimmed := false, false
		allInstrs(fn, false, func(_ *ssa.Function, ins ssa.Instruction) {
			st, ok := ins.(*ssa.Store)
			if !ok {
				return
			}
			fs, _, elem := fieldChain(st.Addr)
			if len(fs) == 0 || elem || fs[len(fs)-1] != sc {
				return
			}
			switch v := st.Val.(type) {
			case *ssa.MakeSlice:
				if k, isConst := v.Len.(*ssa.Const); !isConst || k.Value == nil || k.Value.ExactString() != "0" {
					presized = true
				}
			case *ssa.Slice:
				for _, o := range Origins(v.X, OriginOpts{}) {
					if o.Kind == OrgField && o.Field == sc {
						trimmed = true
					}
				}
			}
		})
		c.Check(rule, "newWriter records only the sorting columns it found in the schema", fn.Pos(), !presized || trimmed, "the writer's sorting columns are pre-sized for the declared columns and never cut down to the ones that matched a leaf: a declared column the schema does not have is recorded as {column 0, ascending}, an order the caller never declared")
	}
	c.Min(rule, 5)
}

// c05Boundary: the boundary order a merged column index claims across two
// chunks is decided on the two pages adjacent across the boundary — the last
// page (with bounds) of the earlier chunk and the first of the later one — and
// with the bounds that define the order: ascending needs max(earlier) <=
// min(later), descending needs min(earlier) >= max(later). The rule classifies
// every MinValue/MaxValue call on an element of the chunk-index slice by
// (element i or i+1, page index counted down from NumPages or up from 0).
func c05Boundary(c *Ctx) {
	p := c.P
	rule := "C05.boundary"
	want := map[string]map[string]string{
		"(*multiColumnIndex).IsAscending":  {"earlier": "MaxValue", "later": "MinValue"},
		"(*multiColumnIndex).IsDescending": {"earlier": "MinValue", "later": "MaxValue"},
	}
	for _, k := range []string{"(*multiColumnIndex).IsAscending", "(*multiColumnIndex).IsDescending"} {
		obj := p.LookupFunc(k)
		if !c.Anchor(rule, k, obj != nil) {
			continue
		}
		fn := p.SSAFunc(obj)
		// which chunk does a receiver value denote?
		chunkOf := func(recv ssa.Value) string {
			for _, o := range Origins(recv, OriginOpts{}) {
				_ = o
			}
			// the later chunk may be found by a helper that is given position i+1
			// (it skips chunks without bounds): its result is a later chunk
			if ex, isEx := recv.(*ssa.Extract); isEx {
				if call, isCall := ex.Tuple.(*ssa.Call); isCall && call.Call.StaticCallee() != nil && inModule(call.Call.StaticCallee()) {
					for _, a := range call.Call.Args {
						if b, ok := a.(*ssa.BinOp); ok && b.Op == token.ADD {
							if k, ok := b.Y.(*ssa.Const); ok && k.Value != nil && k.Value.ExactString() == "1" {
								return "later"
							}
						}
					}
				}
				return ""
			}
			u, ok := recv.(*ssa.UnOp)
			if !ok {
				return ""
			}
			ia, ok := u.X.(*ssa.IndexAddr)
			if !ok {
				return ""
			}
			if b, ok := ia.Index.(*ssa.BinOp); ok && b.Op == token.ADD {
				if k, ok := b.Y.(*ssa.Const); ok && k.Value != nil && k.Value.ExactString() == "1" {
					return "later"
				}
			}
			return "earlier"
		}
		type use struct {
			chunk, method, page string
			pos                 token.Pos
		}
		var uses []use
		allCalls(fn, false, func(_ *ssa.Function, call ssa.CallInstruction) {
			cc := call.Common()
			if !cc.IsInvoke() || (cc.Method.Name() != "MinValue" && cc.Method.Name() != "MaxValue") || len(cc.Args) != 1 {
				return
			}
			chunk := chunkOf(cc.Value)
			if chunk == "" {
				return
			}
			page := "first"
			for _, o := range Origins(cc.Args[0], OriginOpts{ThroughBinOp: true}) {
				if o.Kind == OrgCall && o.Call.Common().IsInvoke() && o.Call.Common().Method.Name() == "NumPages" {
					page = "last"
					if chunkOf(o.Call.Common().Value) != chunk {
						page = "last page of the other chunk"
					}
				}
			}
			uses = append(uses, use{chunk, cc.Method.Name(), page, call.Pos()})
		})
		var probs []string
		seen := map[string]bool{}
		for _, u := range uses {
			seen[u.chunk] = true
			if w := want[k][u.chunk]; u.method != w {
				probs = append(probs, "reads "+u.method+" of the "+u.chunk+" chunk where the order is defined by its "+w+" ("+p.Pos(u.pos)+")")
			}
			wantPage := "last"
			if u.chunk == "later" {
				wantPage = "first"
			}
			if u.page != wantPage {
				probs = append(probs, "takes the bound of the "+u.chunk+" chunk from its "+u.page+" page instead of its "+wantPage+" page, which is the one adjacent to the boundary ("+p.Pos(u.pos)+")")
			}
		}
		// a chunk without any page with bounds does not break the chain: the
		// later chunk is searched for (a scan over the chunk indexes that tests
		// NullPage), not taken at the fixed position i+1
		scans := false
		allCalls(fn, false, func(_ *ssa.Function, call ssa.CallInstruction) {
			sc := call.Common().StaticCallee()
			if sc == nil || !inModule(sc) || sc.Blocks == nil {
				return
			}
			loopIdx, nullPage := false, false
			inl := loopBlocks(sc)
			allInstrs(sc, false, func(_ *ssa.Function, ins ssa.Instruction) {
				switch x := ins.(type) {
				case *ssa.IndexAddr:
					if _, isPhi := x.Index.(*ssa.Phi); isPhi && inl[x.Block()] {
						if fs, _, _ := fieldChain(x.X); len(fs) > 0 {
							loopIdx = true
						}
					}
				case ssa.CallInstruction:
					if x.Common().IsInvoke() && x.Common().Method.Name() == "NullPage" {
						nullPage = true
					}
				}
			})
			if loopIdx && nullPage {
				for _, a := range call.Common().Args {
					if b, ok := a.(*ssa.BinOp); ok && b.Op == token.ADD {
						scans = true
					}
				}
			}
		})
		c.Check(rule, k+" skips chunks that have no page with bounds", fn.Pos(), scans, k+" compares each chunk with the chunk right after it only: when that one is made of null pages the pair is skipped and the chunks on either side of it are never compared, so an index like [10..15], nulls, [0..5] claims to be ordered")
		if len(uses) != 2 || !seen["earlier"] || !seen["later"] {
			probs = append(probs, "expected one bound of each of the two chunks, found "+itoa(len(uses))+" bound reads")
		}
		sort.Strings(probs)
		c.Check(rule, k+" decides the order across chunks on the adjacent pages with the defining bounds", fn.Pos(), len(probs) == 0,
			k+" "+strings.Join(probs, "; ")+": the merged index claims a boundary order that does not hold (or denies one that does), and readers that trust it skip pages containing matching values")
	}
	c.Min(rule, 2)
}

// sharedIndexerMethod finds, by role, the function that every
// implementation of ColumnIndexer.<method> calls on the state they share (the
// common static callee of all implementations that is a method declared in
// this package and is not itself an implementation of the interface method):
// for IndexPage the recorder of per-page null information, for ColumnIndex
// the shared constructor of the thrift structure. Names are not used, so the
// rules survive a rename.
func sharedIndexerMethod(p *Prog, method string) *ssa.Function {
	ifaceT := p.LookupType("ColumnIndexer")
	if ifaceT == nil {
		return nil
	}
	iface, _ := ifaceT.Underlying().(*types.Interface)
	var common map[*ssa.Function]int
	nimpl := 0
	for _, t := range p.Implementations(iface) {
		m, promoted := MethodOf(t, method)
		if m == nil || promoted {
			continue
		}
		fn := p.SSAFunc(m)
		if fn == nil || fn.Blocks == nil {
			continue
		}
		nimpl++
		mine := map[*ssa.Function]bool{}
		allCalls(fn, false, func(_ *ssa.Function, call ssa.CallInstruction) {
			if sc := call.Common().StaticCallee(); sc != nil && inModule(sc) && sc.Signature.Recv() != nil && fnPkg(sc) == p.Root.Types {
				mine[sc] = true
			}
		})
		if common == nil {
			common = map[*ssa.Function]int{}
		}
		for f := range mine {
			common[f]++
		}
	}
	var best *ssa.Function
	for f, k := range common {
		if k == nimpl && nimpl > 1 {
			if best != nil {
				return nil // ambiguous
			}
			best = f
		}
	}
	return best
}

// c05NaNBounds — NaN has no order: a Bounds, MinValue or MaxValue method that orders floating-point
// values (it, or what it calls in the module within two calls, compares floats
// with < or >, or calls a bodyless kernel that returns floats) also tests for
// NaN (`v != v` or math.IsNaN) somewhere in that scope. Plain pages and
// dictionary pages are siblings: without the test, the bounds depend on where
// the NaN values sit in the page and on the build (comparison loop or min/max
// instructions), and values fall outside [min, max].
func c05NaNBounds(c *Ctx) {
	rule := "C05.nanbounds"
	p := c.P
	isFloat := func(t types.Type) bool {
		b, ok := t.Underlying().(*types.Basic)
		return ok && b.Info()&types.IsFloat != 0
	}
	n := 0
	for _, fn := range p.ModuleSSAFuncs() {
		if fn.Origin() != nil || fn.Blocks == nil || fn.Parent() != nil || !(fn.Name() == "Bounds" || fn.Name() == "MinValue" || fn.Name() == "MaxValue") || fn.Signature.Recv() == nil || fnPkgPath(fn) != modPath {
			continue
		}
		scope := map[*ssa.Function]bool{fn: true}
		frontier := []*ssa.Function{fn}
		orders, tests := false, false
		for depth := 0; depth < 3; depth++ {
			var next []*ssa.Function
			for _, g := range frontier {
				allInstrs(g, true, func(_ *ssa.Function, ins ssa.Instruction) {
					switch x := ins.(type) {
					case *ssa.BinOp:
						if !isFloat(x.X.Type()) {
							return
						}
						switch x.Op {
						case token.LSS, token.GTR, token.LEQ, token.GEQ:
							orders = true
						case token.NEQ, token.EQL:
							if x.X == x.Y {
								tests = true
							}
						}
					case ssa.CallInstruction:
						cc := x.Common()
						callee := cc.StaticCallee()
						if callee == nil {
							return
						}
						if calleeName(x) == "math.IsNaN" {
							tests = true
							return
						}
						if !inModule(callee) {
							return
						}
						if callee.Blocks == nil {
							res := callee.Signature.Results()
							for i := 0; i < res.Len(); i++ {
								if isFloat(res.At(i).Type()) {
									orders = true
								}
							}
							return
						}
						if !scope[callee] && depth < 2 {
							scope[callee] = true
							next = append(next, callee)
						}
					}
				})
			}
			frontier = next
		}
		if !orders {
			continue
		}
		n++
		c.Check(rule, FuncKey(fn)+" ignores NaN when it orders floating-point values", fn.Pos(), tests, FuncKey(fn)+" orders floating-point values (comparisons or a min/max kernel) without any NaN test in reach: with a NaN among the values the bounds depend on its position and on the build, values of the page fall outside [min, max], and pages are pruned or ordered by bounds that are not bounds")
	}
	c.Min(rule, 4)
}
