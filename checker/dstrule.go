package main

import (
	"go/token"
	"go/types"
	"sort"
	"strings"

	"golang.org/x/tools/go/ssa"
)

// T-MUSTPASS for history independence (DESIGN.md C04.dst / C20.dst): in an
// Encode/Decode method the contents and length of the reusable output
// buffer `dst` are never observed. The parameter may only be truncated
// (dst[:0]), measured with cap(), handed to a callee whose parameter obeys
// the same rule, handed to a listed library routine that treats it as
// scratch, or returned.
type dstUse struct {
	Pos  token.Pos
	What string
}

var dstLibraryOK = map[string]bool{
	"github.com/klauspost/compress/snappy.Encode": true, "github.com/klauspost/compress/snappy.Decode": true,
	"github.com/golang/snappy.Encode": true, "github.com/golang/snappy.Decode": true,
	"github.com/pierrec/lz4/v4.UncompressBlock": true, "github.com/pierrec/lz4/v4.(*Compressor).CompressBlock": true, "github.com/pierrec/lz4/v4.(*CompressorHC).CompressBlock": true,
	"bytes.NewBuffer": true,
}

// routines that append their output to the slice they are given
var dstLibraryAppends = map[string]bool{
	"github.com/klauspost/compress/zstd.(*Encoder).EncodeAll": true, "github.com/klauspost/compress/zstd.(*Decoder).DecodeAll": true,
}

type dstChecker struct {
	p    *Prog
	memo map[*ssa.Parameter][]dstUse
	busy map[*ssa.Parameter]bool
}

func (d *dstChecker) check(par *ssa.Parameter, depth int) []dstUse {
	if u, ok := d.memo[par]; ok {
		return u
	}
	if d.busy[par] || depth > 4 {
		return nil
	}
	d.busy[par] = true
	defer func() { d.busy[par] = false }()
	var bad []dstUse
	seen := map[ssa.Value]bool{}
	// values that denote dst extended to its full capacity (dst[:cap(dst)]):
	// scratch whose length is the capacity and whose prefix is what a filling
	// routine wrote
	scratch := map[ssa.Value]bool{}
	var visit func(v ssa.Value)
	visit = func(v ssa.Value) {
		if seen[v] {
			return
		}
		seen[v] = true
		refs := v.Referrers()
		if refs == nil {
			return
		}
		for _, r := range *refs {
			switch x := r.(type) {
			case *ssa.DebugRef:
			case *ssa.Slice:
				if x.X != v {
					continue // dst used as an index expression operand? not possible for slices
				}
				if k, ok := x.High.(*ssa.Const); ok && x.Low == nil && k.Value != nil && k.Int64() == 0 {
					continue // dst[:0]
				}
				if depth > 0 && x.Low == nil {
					continue // resize helper: buf[:n] after a capacity check, fully overwritten by the caller
				}
				if x.Low == nil && (isCapOf(x.High, v) || scratch[v]) {
					// dst[:cap(dst)]: the whole backing array as scratch for a routine
					// that fills it; the extended slice obeys the same discipline
					// (its content is never read before it is overwritten), and
					// scratch[:n] is the prefix that was filled
					scratch[x] = true
					visit(x)
					continue
				}
				bad = append(bad, dstUse{x.Pos(), "re-sliced other than dst[:0] (the previous length/content becomes visible)"})
			case *ssa.Phi:
				if scratch[v] {
					scratch[x] = true
				}
				visit(x)
			case *ssa.Return:
			case *ssa.Store:
				// spilled into a local (named result / captured): follow loads of the cell
				if a, ok := x.Addr.(*ssa.Alloc); ok && x.Val == v {
					for _, ar := range *a.Referrers() {
						if u, ok := ar.(*ssa.UnOp); ok && u.Op == token.MUL {
							visit(u)
						}
					}
					continue
				}
				bad = append(bad, dstUse{x.Pos(), "stored"})
			case *ssa.MakeInterface, *ssa.ChangeType, *ssa.Convert:
				visit(x.(ssa.Value))
			case *ssa.IndexAddr, *ssa.Index:
				bad = append(bad, dstUse{x.Pos(), "element access"})
			case *ssa.BinOp:
				// comparison with nil
				if x.Op == token.EQL || x.Op == token.NEQ {
					continue
				}
				bad = append(bad, dstUse{x.Pos(), "operand of " + x.Op.String()})
			case ssa.CallInstruction:
				cc := x.Common()
				if b, ok := cc.Value.(*ssa.Builtin); ok {
					switch b.Name() {
					case "cap":
						continue
					case "len":
						if scratch[v] {
							continue // the length of dst[:cap(dst)] is its capacity
						}
						bad = append(bad, dstUse{x.Pos(), "len(dst) observed"})
					case "append":
						if len(cc.Args) > 0 && cc.Args[0] == v {
							bad = append(bad, dstUse{x.Pos(), "append(dst, …) without truncation keeps the previous content"})
						} else {
							bad = append(bad, dstUse{x.Pos(), "dst appended to another slice"})
						}
					case "copy":
						if len(cc.Args) == 2 && cc.Args[1] == v {
							bad = append(bad, dstUse{x.Pos(), "copy reads dst"})
						}
					default:
						bad = append(bad, dstUse{x.Pos(), "builtin " + b.Name()})
					}
					continue
				}
				callee := cc.StaticCallee()
				name := calleeName(x)
				if callee == nil {
					// interface call (delegation to another Encoding/Codec): same contract
					if cc.IsInvoke() && (strings.HasPrefix(cc.Method.Name(), "Encode") || strings.HasPrefix(cc.Method.Name(), "Decode")) {
						continue
					}
					bad = append(bad, dstUse{x.Pos(), "passed to dynamic call " + name})
					continue
				}
				if dstLibraryAppends[name] {
					// append-style routine: the output follows what dst already holds,
					// so only the truncated slice (which is not tracked further) may be passed
					bad = append(bad, dstUse{x.Pos(), "passed untruncated to " + name + ", which appends to it: the previous content stays in front of the output"})
					continue
				}
				if dstLibraryOK[name] {
					continue
				}
				if name == "github.com/parquet-go/bitpack/unsafecast.Slice" {
					visit(x.(ssa.Value)) // reinterpretation of the same memory
					continue
				}
				if !inModule(callee) {
					bad = append(bad, dstUse{x.Pos(), "passed to " + name + " (not in the list of routines that treat it as scratch)"})
					continue
				}
				for i, a := range cc.Args {
					if a != v || i >= len(callee.Params) {
						continue
					}
					if callee.Blocks == nil {
						continue // assembly kernel: out of the analysed set
					}
					for _, u := range d.check(callee.Params[i], depth+1) {
						bad = append(bad, dstUse{x.Pos(), "via " + FuncKey(callee) + ": " + u.What})
					}
				}
			default:
				bad = append(bad, dstUse{r.Pos(), "used by " + strings.TrimPrefix(strings.TrimPrefix(typeName(r), "*"), "ssa.")})
			}
		}
	}
	visit(par)
	d.memo[par] = bad
	return bad
}

func typeName(v any) string {
	switch v.(type) {
	case *ssa.FieldAddr:
		return "FieldAddr"
	case *ssa.MapUpdate:
		return "MapUpdate"
	case *ssa.Send:
		return "Send"
	case *ssa.MakeClosure:
		return "closure capture"
	}
	return "instruction"
}

// runDstRule checks every method of the given name prefixes in packages under
// the given path prefixes that has a slice parameter named dst.
func runDstRule(c *Ctx, rule string, pkgPrefixes []string, exempt map[string]string) {
	p := c.P
	d := &dstChecker{p: p, memo: map[*ssa.Parameter][]dstUse{}, busy: map[*ssa.Parameter]bool{}}
	n := 0
	for _, fn := range p.ModuleSSAFuncs() {
		if fn.Origin() != nil || fn.Parent() != nil || fn.Signature.Recv() == nil {
			continue
		}
		if !(strings.HasPrefix(fn.Name(), "Encode") || strings.HasPrefix(fn.Name(), "Decode")) {
			continue
		}
		pk := fnPkgPath(fn)
		in := false
		for _, pre := range pkgPrefixes {
			if pk == modPath+pre || strings.HasPrefix(pk, modPath+pre+"/") {
				in = true
			}
		}
		if !in {
			continue
		}
		for _, par := range fn.Params {
			if par.Name() != "dst" && !(par.Name() == "offsets" && strings.HasPrefix(fn.Name(), "Decode")) {
				continue
			}
			if _, ok := par.Type().Underlying().(*types.Slice); !ok {
				continue
			}
			n++
			key := FuncKey(fn) + " never observes " + par.Name()
			if why, ok := exempt[FuncKey(fn)]; ok {
				c.Pass(rule, key, fn.Pos(), "exempt: %s", why)
				continue
			}
			uses := d.check(par, 0)
			var msgs []string
			for _, u := range uses {
				msgs = append(msgs, u.What+" at "+p.Pos(u.Pos))
			}
			sort.Strings(msgs)
			c.Check(rule, key, fn.Pos(), len(msgs) == 0, "the result can depend on what the reused output buffer held before the call: "+strings.Join(msgs, "; "))
		}
	}
	c.Stats[rule+".buffer_parameters"] = n
}

// isCapOf: h is cap(v).
func isCapOf(h, v ssa.Value) bool {
	call, ok := h.(*ssa.Call)
	if !ok {
		return false
	}
	b, ok := call.Call.Value.(*ssa.Builtin)
	return ok && b.Name() == "cap" && len(call.Call.Args) == 1 && call.Call.Args[0] == v
}
