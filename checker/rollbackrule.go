package main

import (
	"go/types"
	"sort"

	"golang.org/x/tools/go/ssa"
)

// T-ROLLBACK — a list whose entries point, by index, at an element that a
// function is about to append to another list (a bloom filter deferred for row
// group len(w.rowGroups)) is only valid if that element ends up recorded. A
// function that appends such entries and can fail before it records the
// element takes the entries back: it contains — in its body or in a closure it
// defers — a store that truncates the list to a length measured before the
// first append.
//
// Lists are found by role: a slice field of the owner whose element is a
// struct with an integer field that some function initialises from
// len(<the owner's target list>).

func runRollbackRule(c *Ctx, rule, ownerType, targetField string, min int) {
	p := c.P
	target := p.LookupField(ownerType, targetField)
	if !c.Anchor(rule, ownerType+"."+targetField, target != nil) {
		return
	}
	isLenOf := func(v ssa.Value, f *types.Var) bool {
		call, ok := v.(*ssa.Call)
		if !ok {
			return false
		}
		if bi, isB := call.Call.Value.(*ssa.Builtin); !isB || bi.Name() != "len" {
			return false
		}
		f2, _, _ := bufVarOf(call.Call.Args[0])
		return f2 == f
	}
	derivesFromLenOf := func(v ssa.Value, f *types.Var) bool {
		for _, o := range resolveFreeVarOrigins(v, 0) {
			if o.Kind == OrgCall {
				if cv, ok := o.Call.(*ssa.Call); ok && isLenOf(cv, f) {
					return true
				}
			}
		}
		return false
	}
	// appends of index-carrying entries: fn → list field → append calls
	type site struct {
		fn    *ssa.Function
		field *types.Var
		calls []*ssa.Call
	}
	sites := map[string]*site{}
	type rollbackHelper struct {
		fn    *ssa.Function
		param int
		field *types.Var
	}
	var helpers []rollbackHelper
	for _, fn := range p.ModuleSSAFuncs() {
		if fn.Origin() != nil || fn.Blocks == nil || fnPkgPath(fn) != modPath {
			continue
		}
		allInstrs(fn, false, func(_ *ssa.Function, ins ssa.Instruction) {
			st, ok := ins.(*ssa.Store)
			if !ok {
				return
			}
			call, ok := st.Val.(*ssa.Call)
			if !ok {
				return
			}
			if bi, isB := call.Call.Value.(*ssa.Builtin); !isB || bi.Name() != "append" || len(call.Call.Args) != 2 {
				return
			}
			fa, ok := st.Addr.(*ssa.FieldAddr)
			if !ok {
				return
			}
			fields, _, elem := fieldChain(fa)
			if len(fields) == 0 || elem {
				return
			}
			f := fields[len(fields)-1]
			sl, ok := f.Type().Underlying().(*types.Slice)
			if !ok || structOf(sl.Elem()) == nil || f == target {
				return
			}
			// the appended element: append(f, T{…}) → the variadic array holds one struct
			vs, ok := call.Call.Args[1].(*ssa.Slice)
			if !ok {
				return
			}
			arr, ok := vs.X.(*ssa.Alloc)
			if !ok {
				return
			}
			carries := false
			for _, r := range *arr.Referrers() {
				ia, ok := r.(*ssa.IndexAddr)
				if !ok {
					continue
				}
				for _, rr := range *ia.Referrers() {
					switch y := rr.(type) {
					case *ssa.FieldAddr:
						for _, r3 := range *y.Referrers() {
							if s3, ok := r3.(*ssa.Store); ok && s3.Addr == ssa.Value(y) && isNumericBasic(s3.Val.Type()) && derivesFromLenOf(s3.Val, target) {
								carries = true
							}
						}
					case *ssa.Store:
						// whole struct stored from a local composite
						if al, ok := y.Val.(*ssa.UnOp); ok {
							if loc, ok := al.X.(*ssa.Alloc); ok {
								for _, r3 := range *loc.Referrers() {
									if fa3, ok := r3.(*ssa.FieldAddr); ok {
										for _, r4 := range *fa3.Referrers() {
											if s4, ok := r4.(*ssa.Store); ok && s4.Addr == ssa.Value(fa3) && isNumericBasic(s4.Val.Type()) && derivesFromLenOf(s4.Val, target) {
												carries = true
											}
										}
									}
								}
							}
						}
					}
				}
			}
			if !carries {
				// a helper that is handed the index: its callers are the ones that append
				for _, r := range *arr.Referrers() {
					ia, ok := r.(*ssa.IndexAddr)
					if !ok {
						continue
					}
					for _, rr := range *ia.Referrers() {
						var fas []*ssa.FieldAddr
						switch y := rr.(type) {
						case *ssa.FieldAddr:
							fas = append(fas, y)
						case *ssa.Store:
							if al, ok := y.Val.(*ssa.UnOp); ok {
								if loc, ok := al.X.(*ssa.Alloc); ok {
									for _, r3 := range *loc.Referrers() {
										if fa3, ok := r3.(*ssa.FieldAddr); ok {
											fas = append(fas, fa3)
										}
									}
								}
							}
						}
						for _, fa2 := range fas {
							for _, r3 := range *fa2.Referrers() {
								s3, ok := r3.(*ssa.Store)
								if !ok || s3.Addr != ssa.Value(fa2) || !isNumericBasic(s3.Val.Type()) {
									continue
								}
								if par, ok := s3.Val.(*ssa.Parameter); ok && fn.Parent() == nil {
									for pi, q := range fn.Params {
										if q == par {
											helpers = append(helpers, rollbackHelper{fn, pi, f})
										}
									}
								}
							}
						}
					}
				}
				return
			}
			top := fn
			for top.Parent() != nil {
				top = top.Parent()
			}
			k := FuncKey(top) + "|" + p.FieldName(f)
			if sites[k] == nil {
				sites[k] = &site{fn: top, field: f}
			}
			sites[k].calls = append(sites[k].calls, call)
		})
	}
	for _, h := range helpers {
		for _, cs := range callersOf(p, h.fn) {
			call, ok := cs.(*ssa.Call)
			if !ok || h.param >= len(call.Call.Args) || !derivesFromLenOf(call.Call.Args[h.param], target) {
				continue
			}
			top := call.Parent()
			for top.Parent() != nil {
				top = top.Parent()
			}
			k := FuncKey(top) + "|" + p.FieldName(h.field)
			if sites[k] == nil {
				sites[k] = &site{fn: top, field: h.field}
			}
			sites[k].calls = append(sites[k].calls, call)
		}
	}
	var keys []string
	for k := range sites {
		keys = append(keys, k)
	}
	sort.Strings(keys)
	for _, k := range keys {
		s := sites[k]
		// can the function fail after an append? (an error return that is not nil)
		canFail := false
		for _, ret := range returnsOf(s.fn) {
			if len(ret.Results) == 0 {
				continue
			}
			rv := ret.Results[len(ret.Results)-1]
			if isErrorType(rv.Type()) && !isNilConst(rv) {
				canFail = true
			}
		}
		if !canFail {
			continue
		}
		// a truncation back to a length measured before the appends
		rolled := false
		allInstrs(s.fn, true, func(in *ssa.Function, ins ssa.Instruction) {
			st, ok := ins.(*ssa.Store)
			if !ok {
				return
			}
			sl, ok := st.Val.(*ssa.Slice)
			if !ok || sl.High == nil || sl.Low != nil {
				return
			}
			fa, ok := st.Addr.(*ssa.FieldAddr)
			if !ok {
				return
			}
			fields, _, elem := fieldChain(fa)
			if len(fields) == 0 || elem || fields[len(fields)-1] != s.field {
				return
			}
			for _, o := range resolveFreeVarOrigins(sl.High, 0) {
				if o.Kind != OrgCall {
					continue
				}
				cv, ok := o.Call.(*ssa.Call)
				if !ok || !isLenOf(cv, s.field) || cv.Parent() != s.fn {
					continue
				}
				before := true
				for _, ap := range s.calls {
					if ap.Parent() == s.fn && !dominates(cv, ap) {
						before = false
					}
				}
				if before {
					rolled = true
				}
			}
		})
		c.Check(rule, FuncKey(s.fn)+" takes back the entries of "+p.FieldName(s.field)+" when it fails", s.fn.Pos(), rolled, FuncKey(s.fn)+" appends to "+p.FieldName(s.field)+" entries that point at element len("+p.FieldName(target)+") and can return an error before that element is recorded, without truncating the list back: the stale entries index a missing element (Close panics) or the element recorded next (its offsets are overwritten)")
	}
	c.Min(rule, min)
}
