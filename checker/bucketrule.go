package main

import (
	"go/token"
	"strings"

	"golang.org/x/tools/go/ssa"
)

// C15.bucket — the slice pools of internal/memory are shared by every reader
// and writer of the process, and the code that takes a slice from bucket i
// relies on it having at least the capacity of bucket i. Every function handed
// to slicePools[i].Get to allocate a missing slice therefore sizes it with
// bucketSize(i), for the same i.
func c15Bucket(c *Ctx) {
	p := c.P
	rule := "C15.bucket"
	n := 0
	cellOf := func(v ssa.Value) ssa.Value {
		if u, ok := v.(*ssa.UnOp); ok && u.Op == token.MUL {
			return u.X
		}
		return v
	}
	for _, fn := range p.ModuleSSAFuncs() {
		if fn.Origin() != nil || fn.Blocks == nil || !strings.HasSuffix(fnPkgPath(fn), "internal/memory") {
			continue
		}
		allCalls(fn, false, func(_ *ssa.Function, call ssa.CallInstruction) {
			cc := call.Common()
			if !strings.HasSuffix(calleeName(call), ".Get") || len(cc.Args) < 2 {
				return
			}
			ia, ok := cc.Args[0].(*ssa.IndexAddr)
			if !ok {
				return
			}
			g := globalOf(ia.X)
			if g == nil || g.Name() != "slicePools" {
				return
			}
			n++
			idx := cellOf(ia.Index)
			mc, _ := cc.Args[1].(*ssa.MakeClosure)
			good, allocs := false, 0
			if mc != nil {
				cl := mc.Fn.(*ssa.Function)
				bound := func(v ssa.Value) ssa.Value {
					v = cellOf(v)
					for k, fv := range cl.FreeVars {
						if ssa.Value(fv) == v && k < len(mc.Bindings) {
							return mc.Bindings[k]
						}
					}
					return nil
				}
				sized := func(size ssa.Value) {
					allocs++
					if bs, ok := size.(*ssa.Call); ok && strings.HasSuffix(calleeName(bs), "bucketSize") && len(bs.Call.Args) == 1 {
						if b := bound(bs.Call.Args[0]); b != nil && (b == idx || b == ia.Index) {
							good = true
						}
						return
					}
					// the size was computed outside the closure and captured
					if b := bound(size); b != nil {
						var vals []ssa.Value
						if al, ok := b.(*ssa.Alloc); ok {
							for _, ref := range *al.Referrers() {
								if st, ok := ref.(*ssa.Store); ok && st.Addr == ssa.Value(al) {
									vals = append(vals, st.Val)
								}
							}
						} else {
							vals = append(vals, b)
						}
						all := len(vals) > 0
						for _, v := range vals {
							bs, ok := v.(*ssa.Call)
							if !ok || !strings.HasSuffix(calleeName(bs), "bucketSize") || len(bs.Call.Args) != 1 || !(cellOf(bs.Call.Args[0]) == idx || bs.Call.Args[0] == ia.Index) {
								all = false
							}
						}
						if all {
							good = true
						}
					}
				}
				allInstrs(cl, false, func(_ *ssa.Function, ins ssa.Instruction) {
					switch x := ins.(type) {
					case *ssa.MakeSlice:
						sized(x.Cap)
					case ssa.CallInstruction:
						if strings.Contains(calleeName(x), "newSlice") && len(x.Common().Args) == 1 {
							sized(x.Common().Args[0])
						}
					}
				})
			}
			c.Check(rule, FuncKey(fn)+": a slice allocated for bucket i of the shared slice pools has the capacity of bucket i", call.Pos(), mc != nil && allocs == 1 && good,
				FuncKey(fn)+" takes a slice from slicePools[i] with an allocation function that does not size the new slice with bucketSize(i): when the slice is put back, any reader or writer of the process that asks bucket i for up to bucketSize(i) bytes may receive a shorter one and panics re-slicing it")
		})
	}
	c.Stats[rule+".get_sites"] = n
	c.Min(rule, 2)
}
