package main

import (
	"go/token"
	"go/types"
	"sort"
	"strings"

	"golang.org/x/tools/go/ssa"
)

// T-ACCUM — a recursive walk (over a schema tree, over embedded structs) that
// receives a running number from its caller — a column index, a level, a byte
// offset — and adds to it hands the running number down: at every recursive
// call the argument in that position is computed from the parameter. An
// argument that no longer depends on the parameter restarts the count at every
// level, which only nested inputs notice.
//
// "Computed from" is a backward walk over the SSA value: arithmetic,
// conversions, phis, results of calls that received it, values looked up in
// maps that were filled with it, and — flow-sensitively — fields of a local
// struct (the definitions that reach the read, killed by a whole-struct store).

func isNumericBasic(t types.Type) bool {
	b, ok := t.Underlying().(*types.Basic)
	return ok && b.Info()&types.IsInteger != 0
}

// reachingFieldStores: the stores that can supply the value read by a load of
// field k of local struct a at instruction at.
func reachingFieldStores(a *ssa.Alloc, k int, at ssa.Instruction) []ssa.Value {
	var out []ssa.Value
	type pos struct {
		b *ssa.BasicBlock
		i int
	}
	seen := map[*ssa.BasicBlock]bool{}
	var scan func(b *ssa.BasicBlock, from int)
	scan = func(b *ssa.BasicBlock, from int) {
		for i := from; i >= 0; i-- {
			st, ok := b.Instrs[i].(*ssa.Store)
			if !ok {
				continue
			}
			if st.Addr == ssa.Value(a) {
				out = append(out, st.Val)
				return
			}
			if fa, ok := st.Addr.(*ssa.FieldAddr); ok && fa.X == ssa.Value(a) && fa.Field == k {
				out = append(out, st.Val)
				return
			}
		}
		for _, p := range b.Preds {
			if !seen[p] {
				seen[p] = true
				scan(p, len(p.Instrs)-1)
			}
		}
	}
	b := at.Block()
	idx := 0
	for i, ins := range b.Instrs {
		if ins == at {
			idx = i
		}
	}
	scan(b, idx-1)
	return out
}

// derivesFrom: is v computed from parameter par (or the free variable that
// captures it)?
func derivesFrom(v ssa.Value, par *ssa.Parameter) bool {
	seen := map[ssa.Value]bool{}
	var walk func(v ssa.Value, depth int) bool
	walk = func(v ssa.Value, depth int) bool {
		if v == nil || seen[v] || depth > 40 {
			return false
		}
		seen[v] = true
		switch x := v.(type) {
		case *ssa.Parameter:
			return x == par
		case *ssa.FreeVar:
			// the cell of the captured parameter
			fn := x.Parent()
			for i, fv := range fn.FreeVars {
				if fv == x && fn.Parent() != nil {
					for _, ins := range instrsOf(fn.Parent()) {
						if mc, ok := ins.(*ssa.MakeClosure); ok && mc.Fn == ssa.Value(fn) && i < len(mc.Bindings) {
							if walk(mc.Bindings[i], depth+1) {
								return true
							}
						}
					}
				}
			}
			return false
		case *ssa.Phi:
			for _, e := range x.Edges {
				if walk(e, depth+1) {
					return true
				}
			}
		case *ssa.BinOp:
			return walk(x.X, depth+1) || walk(x.Y, depth+1)
		case *ssa.UnOp:
			if x.Op != token.MUL {
				return walk(x.X, depth+1)
			}
			switch a := x.X.(type) {
			case *ssa.Alloc:
				if sp := spilledParam(a); sp != nil {
					return sp == par
				}
				for _, r := range *a.Referrers() {
					if st, ok := r.(*ssa.Store); ok && st.Addr == ssa.Value(a) && walk(st.Val, depth+1) {
						return true
					}
				}
			case *ssa.FieldAddr:
				if al, ok := a.X.(*ssa.Alloc); ok {
					for _, d := range reachingFieldStores(al, a.Field, x) {
						if walk(d, depth+1) {
							return true
						}
					}
					return false
				}
				return walk(a.X, depth+1)
			case *ssa.IndexAddr:
				return walk(a.X, depth+1)
			case *ssa.FreeVar:
				return walk(a, depth+1)
			}
		case *ssa.Convert:
			return walk(x.X, depth+1)
		case *ssa.ChangeType:
			return walk(x.X, depth+1)
		case *ssa.MakeInterface:
			return walk(x.X, depth+1)
		case *ssa.Extract:
			return walk(x.Tuple, depth+1)
		case *ssa.Field:
			return walk(x.X, depth+1)
		case *ssa.Index:
			return walk(x.X, depth+1)
		case *ssa.Slice:
			return walk(x.X, depth+1)
		case *ssa.Call:
			for _, a := range x.Call.Args {
				if walk(a, depth+1) {
					return true
				}
			}
		case *ssa.Lookup:
			return walk(x.X, depth+1)
		case *ssa.MakeMap:
			for _, r := range *x.Referrers() {
				if mu, ok := r.(*ssa.MapUpdate); ok && walk(mu.Value, depth+1) {
					return true
				}
			}
		case *ssa.Alloc:
			for _, r := range *x.Referrers() {
				if st, ok := r.(*ssa.Store); ok && st.Addr == ssa.Value(x) && walk(st.Val, depth+1) {
					return true
				}
			}
		}
		return false
	}
	return walk(v, 0)
}

func instrsOf(fn *ssa.Function) []ssa.Instruction {
	var out []ssa.Instruction
	for _, b := range fn.Blocks {
		out = append(out, b.Instrs...)
	}
	return out
}

// addsTo: does fn (or a closure of it) add something to a value derived from
// par?
func addsTo(fn *ssa.Function, par *ssa.Parameter) bool {
	found := false
	allInstrs(fn, true, func(_ *ssa.Function, ins ssa.Instruction) {
		bo, ok := ins.(*ssa.BinOp)
		if !ok || bo.Op != token.ADD || found {
			return
		}
		direct := func(v ssa.Value) bool {
			for d := 0; d < 4; d++ {
				switch x := v.(type) {
				case *ssa.Parameter:
					return x == par
				case *ssa.Convert:
					v = x.X
					continue
				case *ssa.ChangeType:
					v = x.X
					continue
				case *ssa.Phi:
					for _, e := range x.Edges {
						if e == ssa.Value(par) {
							return true
						}
					}
					return false
				case *ssa.UnOp:
					if a, ok := x.X.(*ssa.Alloc); ok && x.Op == token.MUL {
						if sp := spilledParam(a); sp != nil {
							return sp == par
						}
						// a local initialised with the parameter
						for _, r := range *a.Referrers() {
							if st, ok := r.(*ssa.Store); ok && st.Addr == ssa.Value(a) && st.Val == ssa.Value(par) {
								return true
							}
						}
					}
					return false
				}
				return false
			}
			return false
		}
		if direct(bo.X) || direct(bo.Y) {
			found = true
		}
	})
	return found
}

// appendsTo: does fn (or a closure of it) append to a (re-sliced) value of
// parameter par — a path or index prefix extended level by level?
func appendsTo(fn *ssa.Function, par *ssa.Parameter) bool {
	found := false
	allCalls(fn, true, func(_ *ssa.Function, call ssa.CallInstruction) {
		cc := call.Common()
		if bi, ok := cc.Value.(*ssa.Builtin); !ok || bi.Name() != "append" || len(cc.Args) == 0 || found {
			return
		}
		v := cc.Args[0]
		for d := 0; d < 4; d++ {
			switch x := v.(type) {
			case *ssa.Parameter:
				if x == par {
					found = true
				}
				return
			case *ssa.Slice:
				v = x.X
			case *ssa.ChangeType:
				v = x.X
			case *ssa.UnOp:
				if a, ok := x.X.(*ssa.Alloc); ok && x.Op == token.MUL {
					if sp := spilledParam(a); sp == par {
						found = true
					}
				}
				return
			default:
				return
			}
		}
	})
	return found
}

func runAccumRule(c *Ctx, rule string, inScope func(*ssa.Function) bool) {
	p := c.P
	type site struct {
		fn   *ssa.Function
		par  int
		call ssa.CallInstruction
		ok   bool
	}
	var sites []site
	for _, fn := range p.ModuleSSAFuncs() {
		if fn.Origin() != nil || fn.Blocks == nil || fn.Parent() != nil || !inScope(fn) {
			continue
		}
		var rec []ssa.CallInstruction
		allCalls(fn, true, func(_ *ssa.Function, call ssa.CallInstruction) {
			if sc := call.Common().StaticCallee(); sc != nil && originFn(sc) == originFn(fn) {
				if _, isGo := call.(*ssa.Go); !isGo {
					rec = append(rec, call)
				}
			}
		})
		if len(rec) == 0 {
			continue
		}
		for i, par := range fn.Params {
			_, isSlice := par.Type().Underlying().(*types.Slice)
			if !(isNumericBasic(par.Type()) && addsTo(fn, par)) && !(isSlice && appendsTo(fn, par)) {
				continue
			}
			for _, call := range rec {
				args := call.Common().Args
				if i >= len(args) {
					continue
				}
				sites = append(sites, site{fn, i, call, derivesFrom(args[i], par)})
			}
		}
	}
	sort.Slice(sites, func(i, j int) bool { return sites[i].call.Pos() < sites[j].call.Pos() })
	perFn := map[string]int{}
	for _, s := range sites {
		name := s.fn.Params[s.par].Name()
		k := FuncKey(s.fn) + " hands its running " + name + " down"
		perFn[k]++
		c.Stats[rule+".sites."+FuncKey(s.fn)+"."+name]++
		c.Check(rule, k+"#"+itoa(perFn[k]), s.call.Pos(), s.ok, FuncKey(s.fn)+" adds to its parameter "+name+" but the recursive call at "+p.Pos(s.call.Pos())+" passes a value that is not computed from it: the count restarts at every level of nesting (nested groups, embedded structs)")
	}
	c.Stats[rule+".recursive_accumulator_calls"] = len(sites)
}

// runColumnAdvanceRule — a loop that keeps a running leaf-column index while it
// walks the fields of a group advances it by the number of leaf columns of
// every field it passes, whether or not it does anything else with the field:
// once the header phi of such a loop is advanced by the result of one of the
// leaf-counting helpers (numLeafColumns*), no path around the loop leaves it
// unchanged. A field that is skipped without being counted shifts every later
// column by its width.
func runColumnAdvanceRule(c *Ctx, rule string, min int) {
	p := c.P
	n := 0
	for _, fn := range p.ModuleSSAFuncs() {
		if fn.Origin() != nil || fn.Blocks == nil || fnPkgPath(fn) != modPath {
			continue
		}
		k := 0
		for _, b := range fn.Blocks {
			for _, ins := range b.Instrs {
				phi, ok := ins.(*ssa.Phi)
				if !ok || !isNumericBasic(phi.Type()) {
					continue
				}
				unchanged, counted := false, false
				for i, e := range phi.Edges {
					if !b.Dominates(b.Preds[i]) {
						continue
					}
					var walk func(v ssa.Value, seen map[ssa.Value]bool)
					walk = func(v ssa.Value, seen map[ssa.Value]bool) {
						if seen[v] {
							return
						}
						seen[v] = true
						if v == ssa.Value(phi) {
							unchanged = true
							return
						}
						if ph, ok := v.(*ssa.Phi); ok && ph.Block() != b {
							for _, e2 := range ph.Edges {
								walk(e2, seen)
							}
							return
						}
						if bo, ok := v.(*ssa.BinOp); ok && bo.Op == token.ADD && derivesFromValue(bo, phi, map[ssa.Value]bool{}) {
							for _, side := range []ssa.Value{bo.X, bo.Y} {
								for _, o := range Origins(side, OriginOpts{}) {
									if o.Kind == OrgCall && strings.HasPrefix(strings.TrimPrefix(calleeName(o.Call), "("), "numLeafColumns") {
										counted = true
									}
								}
							}
						}
					}
					walk(e, map[ssa.Value]bool{})
				}
				if !counted {
					continue
				}
				n++
				k++
				c.Check(rule, FuncKey(fn)+" counts the leaf columns of every field it passes#"+itoa(k), phi.Pos(), !unchanged, FuncKey(fn)+" advances its running column index ("+phi.Comment+") by the leaf columns of a field on some paths through the loop only: a field that is skipped without being counted shifts the column index of every field after it")
			}
		}
	}
	c.Min(rule, min)
}
