package main

import (
	"go/token"
	"strings"

	"golang.org/x/tools/go/ssa"
)

// C01.timeunit — a stored TIMESTAMP is a count of milli-, micro- or
// nanoseconds. Turning it into a time.Time by first scaling it to nanoseconds
// (count * unit) overflows int64 / time.Duration for counts that the coarser
// units can legitimately hold (anything beyond about 292 years from the
// epoch). In every function that asks for the duration of a time unit, no
// product with that duration reaches time.Unix or Time.Add.
func c01TimeUnit(c *Ctx) {
	p := c.P
	rule := "C01.timeunit"
	n := 0
	isUnitDuration := func(v ssa.Value) bool {
		for depth := 0; depth < 6 && v != nil; depth++ {
			switch x := v.(type) {
			case *ssa.Convert:
				v = x.X
				continue
			case *ssa.ChangeType:
				v = x.X
				continue
			case *ssa.Call:
				name := calleeName(x)
				if strings.HasSuffix(name, "timeUnitDuration") || strings.HasSuffix(name, ".Duration") {
					return true
				}
				if strings.HasSuffix(name, "time.(Duration).Nanoseconds") && len(x.Call.Args) == 1 {
					v = x.Call.Args[0]
					continue
				}
			}
			return false
		}
		return false
	}
	for _, fn := range p.ModuleSSAFuncs() {
		if fn.Origin() != nil || fn.Blocks == nil || fnPkgPath(fn) != modPath {
			continue
		}
		var products []*ssa.BinOp
		asks := false
		allInstrs(fn, false, func(_ *ssa.Function, ins ssa.Instruction) {
			if call, ok := ins.(*ssa.Call); ok && strings.HasSuffix(calleeName(call), "timeUnitDuration") {
				asks = true
			}
			if b, ok := ins.(*ssa.BinOp); ok && b.Op == token.MUL && (isUnitDuration(b.X) || isUnitDuration(b.Y)) {
				products = append(products, b)
			}
		})
		if !asks {
			continue
		}
		n++
		bad := ""
		for _, b := range products {
			seen := map[ssa.Value]bool{}
			var flows func(v ssa.Value) bool
			flows = func(v ssa.Value) bool {
				if seen[v] || v.Referrers() == nil {
					return false
				}
				seen[v] = true
				for _, r := range *v.Referrers() {
					switch y := r.(type) {
					case *ssa.Convert:
						if flows(y) {
							return true
						}
					case *ssa.ChangeType:
						if flows(y) {
							return true
						}
					case *ssa.Phi:
						if flows(y) {
							return true
						}
					case *ssa.Call:
						if name := calleeName(y); name == "time.Unix" || name == "time.(Time).Add" {
							return true
						}
					}
				}
				return false
			}
			if flows(b) {
				bad = p.Pos(b.Pos())
			}
		}
		c.Check(rule, FuncKey(fn)+": a stored count is not scaled to nanoseconds on its way to a time.Time", fn.Pos(), bad == "",
			FuncKey(fn)+" multiplies a stored count by the duration of its unit ("+bad+") and builds a time.Time from the product: the product overflows for millisecond and microsecond timestamps more than about 292 years from the epoch, which are stored correctly and read back as a different date")
	}
	c.Min(rule, 3)
}
