package main

import (
	"go/token"
	"go/types"

	"golang.org/x/tools/go/ssa"
)

// C12.initorder — the internal reader is initialised with the schema and row
// group the enclosing Reader ends up with. Every call of (*reader).init that is
// handed the current value of a field (r.file.schema, r.file.rowGroup) is not
// followed, in the same function, by a store to that field: a conversion
// installed after the call never reaches the reader, and rows are then
// reconstructed against the file's schema instead of the requested one.
func c12InitOrder(c *Ctx) {
	p := c.P
	rule := "C12.initorder"
	n := 0
	chainKey := func(fs []*types.Var) string {
		k := ""
		for _, f := range fs {
			k += "." + f.Name()
		}
		return k
	}
	for _, fn := range p.ModuleSSAFuncs() {
		if fn.Origin() != nil || fn.Blocks == nil || fnPkgPath(fn) != modPath {
			continue
		}
		allCalls(fn, false, func(_ *ssa.Function, call ssa.CallInstruction) {
			if calleeName(call) != "(*reader).init" {
				return
			}
			ci, ok := call.(ssa.Instruction)
			if !ok {
				return
			}
			n++
			var stale []string
			for _, a := range call.Common().Args[1:] {
				u, ok := a.(*ssa.UnOp)
				if !ok || u.Op != token.MUL {
					continue
				}
				fs, _, elem := fieldChain(u.X)
				if len(fs) == 0 || elem {
					continue
				}
				key := chainKey(fs)
				// a store to the same chain reachable after the call
				reach := reachableAvoidingSet(ci.Block(), nil, nil)
				allInstrs(fn, false, func(_ *ssa.Function, ins ssa.Instruction) {
					st, ok := ins.(*ssa.Store)
					if !ok {
						return
					}
					fs2, _, elem2 := fieldChain(st.Addr)
					if len(fs2) == 0 || elem2 || chainKey(fs2) != key {
						return
					}
					after := false
					if st.Block() == ci.Block() {
						after = dominates(ci, st)
					} else {
						after = reach[st.Block()]
					}
					if after {
						stale = append(stale, key[1:]+" (stored at "+p.Pos(st.Pos())+")")
					}
				})
			}
			msg := ""
			for _, s := range stale {
				msg += s + "; "
			}
			c.Check(rule, FuncKey(fn)+": the internal reader is initialised with the fields as the function leaves them", call.Pos(), len(stale) == 0,
				FuncKey(fn)+" calls (*reader).init with the value of "+msg+"and assigns the field afterwards: the schema option (a conversion of the row group) is installed on the Reader but the internal reader keeps the file's own schema and row group, so values read into maps or interfaces come back under the file's columns")
		})
	}
	c.Min(rule, 4)
}
