package main

import (
	"go/token"
	"go/types"
	"sort"
	"strings"

	"golang.org/x/tools/go/ssa"
)

// C02 — every written file is well-formed Parquet.

func init() {
	register(&Property{
		ID:          "C02",
		NeedSSA:     true,
		Decided:     "Structural necessary conditions: (sink) the destination io.Writer is written only inside the three methods of the offset-tracking wrapper, each of which adds the byte count to the offset on every path, and the bufio layer is only Reset/Flushed elsewhere, so every byte that reaches the sink is counted in the offsets the footer records; (offsets) the offset and length fields of column chunks, row groups and page locations derive from that running offset (or differences of it), and the page locations of a chunk are re-based by the data page offset in both the encoded and the copied branch; (header) the fields of each page header come from the matching accessor of the page or buffer (NumValues, NumNulls, NumRows, Encoding(), len(definitions), len(repetitions)), the uncompressed size is taken after the v1 levels are prepended and before compression, the compressed size and CRC after it, all before the header is encoded; (deferred) a buffer that holds a deferred bloom filter is rewound to its start before it is queued; (indexer) per-page index arrays stay aligned with pages (C05.indexer); (own) footer structs do not share storage with live writer state (C17.own); (reset) dictionaries, indexers and column writers start every row group from a clean state (C17.reset instances). (offsets, cont.) the offset added to the page locations of a chunk is the very measurement stored as DataPageOffset, in writeRowGroup and the helpers it calls. (twins) where a function records a struct either by appending a composite literal or by refilling a recycled element of the same list, every numeric field set on both sides from a value computed before the branches part is set from the same value. (deferred, cont.) between the rewind of a deferred bloom filter buffer and the moment it is queued nothing else is called with the buffer (a rewind before the buffer is filled leaves it at its end); every function of the package that queues such a buffer is examined. (queuedrelease) a function that appends to a slice field a struct holding a buffer together with the closure that returns it to its pool neither defers that release where the queueing can follow nor performs it on a path after the append (paths that pass the definition of the buffer again concern another buffer). (onemeasure) in writeRowGroup and its helpers one reading of the file offset is not recorded under two different offset fields of the footer (DictionaryPageOffset, DataPageOffset, BloomFilterOffset, FileOffset) with a call between the two stores that is handed the offset-tracking writer or reaches such a call: the second object starts after what was just written.",
		NotDecided:  "agreement with an independent decoder; thrift encoding; sizes and counts as numbers; row-boundary alignment of pages written through the column-oriented re-encode path (see C11.rows).",
		Assumptions: []string{"the footer records what the struct fields hold; the thrift encoder serialises them faithfully"},
		Run:         runC02,
	})
}

func runC02(c *Ctx) {
	runTwinBranchRule(c, "C02.twins", 4)
	c02Sink(c)
	c02Offsets(c)
	c02OneMeasure(c, "C02.onemeasure")
	c02Header(c, "C02.header")
	c02Deferred(c)
	runQueuedReleaseRule(c, "C02.queuedrelease", 1)
	indexerRule(c, "C02.indexer")
	runOwnRule(c, "C02.own", ownSpec{Owner: "writer", Reset: "(*writer).reset", Exempt: map[string]string{
		"writer.columnIndexes.MinValues": "ColumnIndexer.ColumnIndex() builds the outer [][]byte and the bytes afresh on every call",
		"writer.columnIndexes.MaxValues": "same as MinValues",
	}})
	// per-row-group state of the objects whose content goes into pages and index
	ci := newChainIndex(c.P)
	for _, s := range c17ResetSpecs(c.P) {
		if strings.HasSuffix(s.Type, "Dictionary") || strings.HasSuffix(s.Type, "ColumnIndexer") {
			runResetRule(c, "C02.reset", ci, s)
		}
		if s.Type == "ColumnWriter" {
			s.Reset = []string{"(*ColumnWriter).reset"}
			s.Exempt["ColumnWriter.rowGroupOrdinal"] = "advanced by writeRowGroup itself, per row group"
			s.Exempt["ColumnWriter.fileUnique"] = "per-file identifier of the encryption state: assigned by the writer's own reset for every column (C18.fileid), constant within a file"
			runResetRule(c, "C02.reset", ci, s)
		}
	}
	c.Min("C02.reset", 30)
}

func c02Sink(c *Ctx) {
	p := c.P
	rule := "C02.sink"
	sink := p.LookupField("offsetTrackingWriter", "writer")
	buf := p.LookupField("writer", "buffer")
	if !c.Anchor(rule, "offsetTrackingWriter.writer", sink != nil) || !c.Anchor(rule, "writer.buffer", buf != nil) {
		return
	}
	n := 0
	for _, fn := range p.ModuleSSAFuncs() {
		if fn.Origin() != nil {
			continue
		}
		fk := FuncKey(fn)
		allInstrs(fn, false, func(_ *ssa.Function, ins ssa.Instruction) {
			u, ok := ins.(*ssa.UnOp)
			if !ok || u.Op != token.MUL {
				return
			}
			fa, ok := u.X.(*ssa.FieldAddr)
			if !ok {
				return
			}
			st := structOf(fa.X.Type())
			if st == nil {
				return
			}
			f := st.Field(fa.Field).Origin()
			switch f {
			case sink:
				n++
				okFn := strings.HasPrefix(fk, "(*offsetTrackingWriter).") || fk == "(*writer).writeFileHeader"
				// reading the field to compare it with nil is harmless
				onlyCmp := true
				for _, r := range realReferrers(u) {
					if b, isB := r.(*ssa.BinOp); !isB || (b.Op != token.EQL && b.Op != token.NEQ) {
						onlyCmp = false
					}
				}
				c.Check(rule, fk+" touches the destination writer", u.Pos(), okFn || onlyCmp, fk+" uses the destination io.Writer directly: bytes written there bypass the offset accounting of offsetTrackingWriter and every offset recorded in the footer after them is wrong")
			case buf:
				n++
				for _, r := range realReferrers(u) {
					call, isCall := r.(ssa.CallInstruction)
					if !isCall {
						continue
					}
					name := calleeName(call)
					okCall := strings.HasSuffix(name, ").Reset") || strings.HasSuffix(name, ").Flush") || strings.HasSuffix(name, ").Buffered") || name == "bufio.NewWriterSize"
					c.Check(rule, fk+" calls "+name+" on the write buffer", call.Pos(), okCall, fk+" writes to the bufio layer directly ("+name+"): those bytes are not counted in the offsets")
				}
			}
		})
	}
	c.Stats[rule+".uses"] = n
	c.Min(rule, 4)
}

func c02Offsets(c *Ctx) {
	rule := "C02.offsets"
	off := "field:offsetTrackingWriter.offset"
	wr := "(*writer).writeRowGroup"
	for _, w := range []wireSpec{
		{Fn: wr, Sink: "field:format.ColumnMetaData.DictionaryPageOffset", Allowed: []string{off}},
		{Fn: wr, Sink: "field:format.ColumnMetaData.DataPageOffset", Allowed: []string{off}},
		{Fn: wr, Sink: "field:format.ColumnMetaData.BloomFilterOffset", Allowed: []string{off}},
		{Fn: wr, Sink: "field:format.ColumnMetaData.BloomFilterLength", Through: true, Allowed: []string{off, "field:copiedChunk.*"}},
		{Fn: wr, Sink: "field:format.PageLocation.Offset", Through: true, Allowed: []string{off, "field:format.PageLocation.Offset"}, Require: []string{off}},
		{Fn: wr, Sink: "field:format.RowGroup.FileOffset", Allowed: []string{off}},
		{Fn: "(*writer).writeDeferredBloomFilters", Sink: "field:format.ColumnMetaData.BloomFilterOffset", Allowed: []string{off}},
		{Fn: "(*writer).writeDeferredBloomFilters", Sink: "field:format.ColumnMetaData.BloomFilterLength", Through: true, Allowed: []string{off}},
	} {
		runWire(c, rule, w)
	}
	// page locations are recorded relative to the first data page of the chunk:
	// the offset they are rebased with is the very measurement recorded as
	// DataPageOffset (taken after the dictionary page was written), not another
	// reading of the file offset
	p := c.P
	if obj := p.LookupFunc(wr); obj != nil {
		// writeRowGroup and the helpers it calls (the copy branch may live in one)
		scope := []*ssa.Function{p.SSAFunc(obj)}
		seenFn := map[*ssa.Function]bool{scope[0]: true}
		for i := 0; i < len(scope) && i < 64; i++ {
			allCalls(scope[i], true, func(_ *ssa.Function, call ssa.CallInstruction) {
				if sc := call.Common().StaticCallee(); sc != nil && inModule(sc) && sc.Blocks != nil && fnPkg(sc) == fnPkg(scope[0]) && !seenFn[sc] && len(scope) < 64 {
					seenFn[sc] = true
					scope = append(scope, sc)
				}
			})
		}
		locOff := p.LookupField("format.PageLocation", "Offset")
		dpo := p.LookupField("format.ColumnMetaData", "DataPageOffset")
		if c.Anchor(rule, "format.PageLocation.Offset", locOff != nil) && c.Anchor(rule, "format.ColumnMetaData.DataPageOffset", dpo != nil) {
			type rebase struct {
				st   *ssa.Store
				with []ssa.Value
			}
			nreb := 0
			for _, fn := range scope {
				measured := map[ssa.Value]bool{} // the loads stored into DataPageOffset
				var rebases []rebase
				allInstrs(fn, false, func(_ *ssa.Function, ins ssa.Instruction) {
					st, ok := ins.(*ssa.Store)
					if !ok {
						return
					}
					fs, _, _ := fieldChain(st.Addr)
					if len(fs) == 0 {
						return
					}
					switch fs[len(fs)-1] {
					case dpo:
						for _, o := range Origins(st.Val, OriginOpts{}) {
							if o.Kind == OrgField {
								measured[o.Val] = true
							}
						}
					case locOff:
						b, ok := st.Val.(*ssa.BinOp)
						if !ok || b.Op != token.ADD {
							return
						}
						var with []ssa.Value
						for _, side := range []ssa.Value{b.X, b.Y} {
							for _, o := range Origins(side, OriginOpts{}) {
								if o.Kind == OrgField && o.Field != locOff {
									with = append(with, o.Val)
								}
							}
						}
						rebases = append(rebases, rebase{st, with})
					}
				})
				for i, rb := range rebases {
					ok := len(rb.with) > 0
					for _, v := range rb.with {
						if !measured[v] {
							ok = false
						}
					}
					nreb++
					c.Check(rule, FuncKey(fn)+": page locations rebased with the recorded DataPageOffset #"+itoa(i), rb.st.Pos(), ok, "the offset added to the page locations of the chunk is not the measurement stored as DataPageOffset (it is read from the file offset at another moment, e.g. before the dictionary page is written): the offset index of the chunk points "+"into the dictionary page and seeking in the written file fails")
				}
			}
			c.Check(rule, wr+": page location rebases found", scope[0].Pos(), nreb >= 2, "fewer page-location rebases than on the pinned tree (rule out of date)")
		}
	}
	c.Min(rule, 12)
}

// c02Header: page header wiring and ordering (shared with C01).
func c02Header(c *Ctx, rule string) {
	p := c.P
	wd := "(*ColumnWriter).writeDataPage"
	for _, w := range []wireSpec{
		{Fn: wd, Sink: "field:format.DataPageHeader.NumValues", Allowed: []string{"call:(Page).NumValues"}},
		{Fn: wd, Sink: "field:format.DataPageHeaderV2.NumValues", Allowed: []string{"call:(Page).NumValues"}},
		{Fn: wd, Sink: "field:format.DataPageHeaderV2.NumNulls", Allowed: []string{"call:(Page).NumNulls"}},
		{Fn: wd, Sink: "field:format.DataPageHeaderV2.NumRows", Allowed: []string{"call:(Page).NumRows"}},
		{Fn: wd, Sink: "field:format.DataPageHeader.Encoding", Allowed: []string{"call:(encoding.Encoding).Encoding"}},
		{Fn: wd, Sink: "field:format.DataPageHeaderV2.Encoding", Allowed: []string{"call:(encoding.Encoding).Encoding"}},
		{Fn: wd, Sink: "field:format.DataPageHeaderV2.DefinitionLevelsByteLength", Allowed: []string{"len:writerBuffers.definitions"}},
		{Fn: wd, Sink: "field:format.DataPageHeaderV2.RepetitionLevelsByteLength", Allowed: []string{"len:writerBuffers.repetitions"}},
		{Fn: wd, Sink: "field:format.PageHeader.UncompressedPageSize", Allowed: []string{"call:(*writerBuffers).size"}},
		{Fn: wd, Sink: "field:format.PageHeader.CompressedPageSize", Allowed: []string{"call:(*writerBuffers).size"}},
		{Fn: "(*ColumnWriter).writeDictionaryPage", Sink: "field:format.DictionaryPageHeader.NumValues", Allowed: []string{"call:(Dictionary).Len"}},
		{Fn: "(*ColumnWriter).writeDictionaryPage", Sink: "field:format.PageHeader.UncompressedPageSize", Allowed: []string{"call:(*writerBuffers).size"}},
		{Fn: "(*ColumnWriter).writeDictionaryPage", Sink: "field:format.PageHeader.CompressedPageSize", Allowed: []string{"call:(*writerBuffers).size"}},
	} {
		runWire(c, rule, w)
	}
	// ordering: size() for the uncompressed size after prepend, before compress; for the compressed size after compress
	for _, k := range []string{wd, "(*ColumnWriter).writeDictionaryPage"} {
		obj := p.LookupFunc(k)
		if obj == nil {
			continue
		}
		fn := p.SSAFunc(obj)
		uncomp := p.LookupField("format.PageHeader", "UncompressedPageSize")
		comp := p.LookupField("format.PageHeader", "CompressedPageSize")
		sizeCallOf := func(f *types.Var) ssa.Instruction {
			var res ssa.Instruction
			allInstrs(fn, false, func(_ *ssa.Function, ins ssa.Instruction) {
				st, ok := ins.(*ssa.Store)
				if !ok {
					return
				}
				fs, _, elem := fieldChain(st.Addr)
				if len(fs) == 0 || elem || fs[len(fs)-1] != f {
					return
				}
				for _, o := range Origins(st.Val, OriginOpts{}) {
					if o.Kind == OrgCall && calleeName(o.Call) == "(*writerBuffers).size" {
						res = o.Call.(ssa.Instruction)
					}
				}
			})
			return res
		}
		callsNamed := func(name string) []ssa.Instruction {
			var out []ssa.Instruction
			allCalls(fn, false, func(_ *ssa.Function, call ssa.CallInstruction) {
				if calleeName(call) == name {
					out = append(out, call.(ssa.Instruction))
				}
			})
			return out
		}
		us, cs := sizeCallOf(uncomp), sizeCallOf(comp)
		if us == nil || cs == nil {
			c.Fail(rule, k+": page sizes come from size()", fn.Pos(), "the size() calls feeding the page header were not found")
			continue
		}
		reachAfter := func(from ssa.Instruction, to ssa.Instruction) bool {
			for _, x := range instrsAfter(from) {
				if x == to {
					return true
				}
			}
			return false
		}
		for _, pre := range callsNamed("(*writerBuffers).prependLevelsToDataPageV1") {
			c.Check(rule, k+": uncompressed size measured after the v1 levels are prepended", us.Pos(), !reachAfter(us, pre), "uncompressed_page_size is measured before the repetition/definition levels are prepended to the v1 page body: the header under-reports the size of the body")
		}
		for _, cmp := range callsNamed("(*writerBuffers).compress") {
			c.Check(rule, k+": uncompressed size measured before compression", us.Pos(), !reachAfter(cmp, us) || dominates(us, cmp), "uncompressed_page_size is measured after compression")
			c.Check(rule, k+": compressed size measured after compression", cs.Pos(), !reachAfter(cs, cmp), "compressed_page_size is measured before compression")
		}
		for _, enc := range callsNamed("(*writerBuffers).encode") {
			c.Check(rule, k+": sizes measured after the values are encoded", us.Pos(), !reachAfter(us, enc), "page size measured before the values are encoded")
		}
	}
	c.Min(rule, 18)
}

// c02Deferred: a buffer queued as deferred bloom filter was rewound.
func c02Deferred(c *Ctx) {
	p := c.P
	rule := "C02.deferred"
	bufField := p.LookupField("deferredBloomFilter", "buf")
	obj := p.LookupFunc("(*writer).writeRowGroup")
	if !c.Anchor(rule, "deferredBloomFilter.buf", bufField != nil) || !c.Anchor(rule, "(*writer).writeRowGroup", obj != nil) {
		return
	}
	fn := p.SSAFunc(obj)
	n := 0
	// the deferral sites: writeRowGroup and the unexported functions of the
	// package it hands part of the job to
	var scope []*ssa.Function
	for _, g := range p.ModuleSSAFuncs() {
		if g.Origin() == nil && g.Blocks != nil && fnPkgPath(g) == modPath {
			scope = append(scope, g)
		}
	}
	checkQueued := func(val ssa.Value, at ssa.Instruction) {
		// a Seek(0, io.SeekStart) on the same value dominates the store
		rewound := false
		var names []string
		var vals []ssa.Value
		for _, src := range sourcesOf(val) {
			vals = append(vals, src)
			// the buffer variable may live in a cell (captured by the
			// release closure): every load of the cell denotes the buffer
			if cell, isCell := src.(*ssa.Alloc); isCell {
				for _, r := range *cell.Referrers() {
					if u, ok := r.(*ssa.UnOp); ok && u.Op == token.MUL {
						vals = append(vals, u)
					}
				}
			}
		}
		for _, src := range vals {
			refs := src.Referrers()
			if refs == nil {
				continue
			}
			for _, r := range *refs {
				call, isCall := r.(ssa.CallInstruction)
				if !isCall {
					continue
				}
				cc := call.Common()
				if !cc.IsInvoke() || cc.Method.Name() != "Seek" || len(cc.Args) != 2 {
					continue
				}
				names = append(names, "Seek")
				o, ok1 := cc.Args[0].(*ssa.Const)
				w, ok2 := cc.Args[1].(*ssa.Const)
				seekDominates := dominates(call.(ssa.Instruction), at)
				if ok1 && ok2 && o.Int64() == 0 && w.Int64() == 0 && !seekDominates {
					// the rewind is skipped on some path: acceptable when every such
					// path left a fill of the buffer on its failure edge (the error of
					// a call that was handed the buffer is known to be non-nil), which
					// is not a path on which the buffer is meant to be queued
					skip := map[[2]*ssa.BasicBlock]bool{}
					for _, src2 := range vals {
						if src2.Referrers() == nil {
							continue
						}
						for _, r2 := range *src2.Referrers() {
							users := []ssa.Instruction{r2}
							if ci, ok := r2.(*ssa.ChangeInterface); ok {
								users = append(users, *ci.Referrers()...)
							}
							if mi, ok := r2.(*ssa.MakeInterface); ok {
								users = append(users, *mi.Referrers()...)
							}
							for _, u := range users {
								if fill, ok := u.(ssa.CallInstruction); ok && fill != call {
									for e := range errFailureEdgesThroughNot(fill) {
										skip[e] = true
									}
								}
							}
						}
					}
					seekBlock := call.(ssa.Instruction).Block()
					entry := at.Parent().Blocks[0]
					if len(skip) > 0 && at.Block() != seekBlock && !reachableAvoidingSet(entry, map[*ssa.BasicBlock]bool{seekBlock: true}, skip)[at.Block()] {
						rewound = true
					}
				}
				if ok1 && ok2 && o.Int64() == 0 && w.Int64() == 0 && seekDominates {
					// … and nothing is written into the buffer between the rewind and
					// the moment it is queued (a rewind before the buffer is filled
					// leaves it positioned at its end)
					touched := false
					for _, src2 := range vals {
						if src2.Referrers() == nil {
							continue
						}
						var users []ssa.Instruction
						for _, r2 := range *src2.Referrers() {
							users = append(users, r2)
							// handed over as another interface (io.Writer)
							if ci, ok := r2.(*ssa.ChangeInterface); ok {
								users = append(users, *ci.Referrers()...)
							}
							if mi, ok := r2.(*ssa.MakeInterface); ok {
								users = append(users, *mi.Referrers()...)
							}
						}
						for _, r2 := range users {
							c2, isCall := r2.(ssa.CallInstruction)
							if !isCall || c2 == call {
								continue
							}
							i2 := c2.(ssa.Instruction)
							if dominates(call.(ssa.Instruction), i2) && dominates(i2, at) && i2 != at {
								touched = true
							}
						}
					}
					if !touched {
						rewound = true
					}
				}
			}
		}
		sort.Strings(names)
		c.Check(rule, "writeRowGroup: deferred bloom filter buffer #"+itoa(n-1)+" rewound before it is queued", at.Pos(), rewound, "a buffer holding a deferred bloom filter is queued without Seek(0, io.SeekStart): Close copies from the current position (the end), writes zero filter bytes and records a length of 0 at an offset that holds other data")
	}
	for _, g := range scope {
		allInstrs(g, false, func(_ *ssa.Function, ins ssa.Instruction) {
			st, ok := ins.(*ssa.Store)
			if !ok {
				return
			}
			fs, root, elem := fieldChain(st.Addr)
			if len(fs) == 0 || elem || fs[len(fs)-1] != bufField {
				return
			}
			_ = root
			// the buffer may be handed to a helper that queues it: the rewind is
			// then the business of the callers of the helper
			if par, isPar := st.Val.(*ssa.Parameter); isPar && g.Parent() == nil {
				for pi, q := range g.Params {
					if q != par {
						continue
					}
					for _, cs := range callersOf(p, g) {
						if pi < len(cs.Common().Args) {
							n++
							checkQueued(cs.Common().Args[pi], cs.(ssa.Instruction))
						}
					}
				}
				return
			}
			n++
			checkQueued(st.Val, st)
		})
	}
	c.Check(rule, "writeRowGroup queues deferred bloom filters", fn.Pos(), n >= 2, "expected the two deferral sites (encoded and copied chunks)")
	c.Min(rule, 3)
}

// errFailureEdgesThroughNot: errFailureEdges, also when the comparison of the
// error with nil is kept in a boolean and tested negated (`failed := err != nil;
// if !failed { … }`).
func errFailureEdgesThroughNot(call ssa.CallInstruction) map[[2]*ssa.BasicBlock]bool {
	out := errFailureEdges(call)
	v := call.Value()
	if v == nil || v.Referrers() == nil {
		return out
	}
	var errVals []ssa.Value
	if isErrorType(v.Type()) {
		errVals = append(errVals, v)
	}
	for _, r := range *v.Referrers() {
		if ex, ok := r.(*ssa.Extract); ok && isErrorType(ex.Type()) {
			errVals = append(errVals, ex)
		}
	}
	for _, ev := range errVals {
		if ev.Referrers() == nil {
			continue
		}
		for _, er := range *ev.Referrers() {
			b, ok := er.(*ssa.BinOp)
			if !ok || !(isNilConst(b.X) || isNilConst(b.Y)) || b.Referrers() == nil {
				continue
			}
			for _, br := range *b.Referrers() {
				not, ok := br.(*ssa.UnOp)
				if !ok || not.Op != token.NOT || not.Referrers() == nil {
					continue
				}
				for _, nr := range *not.Referrers() {
					ifi, ok := nr.(*ssa.If)
					if !ok {
						continue
					}
					blk := ifi.Block()
					// !(err != nil) true -> success; false edge is the failure edge
					fail := blk.Succs[1]
					if b.Op == token.EQL {
						fail = blk.Succs[0]
					}
					out[[2]*ssa.BasicBlock{blk, fail}] = true
				}
			}
		}
	}
	return out
}
