package main

import "os"

var os_Stdout = os.Stdout

func osGetenv(k string) string { return os.Getenv(k) }
