package main

import (
	"go/token"
	"sort"
	"strings"

	"golang.org/x/tools/go/ssa"
)

// T-APPENDALIAS: inside a loop, `y := append(x, e…)` where x is the same slice
// on every iteration (a parameter, a field load or a value computed before the
// loop — not the loop-carried `x = append(x, …)`) writes every iteration's
// elements into the same spare capacity of x. When y is retained (stored in a
// field or element, appended to another slice, captured, returned or passed
// on), all retained values alias one backing array and show the elements of
// the last iteration. The accepted idioms are the ones the tree uses: clipping
// the capacity first (x[:len(x):len(x)]) or appending to a fresh/nil slice.

type appendAliasSite struct {
	fn   *ssa.Function
	call *ssa.Call
	how  string
}

func loopBlocks(fn *ssa.Function) map[*ssa.BasicBlock]bool {
	// blocks that lie on a cycle
	out := map[*ssa.BasicBlock]bool{}
	for _, b := range fn.Blocks {
		for _, s := range b.Succs {
			if reachableAvoidingSet(s, nil, nil)[b] {
				out[b] = true
			}
		}
	}
	return out
}

func appendAliasSites(fn *ssa.Function) []appendAliasSite {
	var out []appendAliasSite
	if fn.Blocks == nil {
		return out
	}
	inLoop := loopBlocks(fn)
	for _, b := range fn.Blocks {
		if !inLoop[b] {
			continue
		}
		for _, ins := range b.Instrs {
			call, ok := ins.(*ssa.Call)
			if !ok {
				continue
			}
			bi, ok := call.Call.Value.(*ssa.Builtin)
			if !ok || bi.Name() != "append" || len(call.Call.Args) != 2 {
				continue
			}
			base := call.Call.Args[0]
			if !loopInvariantSlice(base, inLoop) {
				continue
			}
			if how := retained(call, map[ssa.Value]bool{}, 0); how != "" {
				out = append(out, appendAliasSite{fn, call, how})
			}
		}
	}
	return out
}

// loopInvariantSlice: the append destination denotes the same non-empty-capable
// slice on every iteration.
func loopInvariantSlice(v ssa.Value, inLoop map[*ssa.BasicBlock]bool) bool {
	switch x := v.(type) {
	case *ssa.Parameter:
		return !paramAlwaysFull(x)
	case *ssa.FreeVar:
		return false
	case *ssa.Const:
		return false // nil: fresh array on every append
	case *ssa.Slice:
		if x.Max != nil {
			return false // capacity clipped: append must reallocate
		}
		if x.High != nil {
			if k, ok := x.High.(*ssa.Const); ok && k.Value != nil && k.Value.ExactString() == "0" {
				// x[:0] of an invariant slice: reuse idiom, invariant too
				return loopInvariantSlice(x.X, inLoop)
			}
		}
		return loopInvariantSlice(x.X, inLoop)
	case *ssa.Phi:
		if inLoop[x.Block()] {
			return false // loop-carried
		}
		for _, e := range x.Edges {
			if !loopInvariantSlice(e, inLoop) {
				return false
			}
		}
		return true
	case *ssa.UnOp:
		if x.Op != token.MUL {
			return false
		}
		if inLoop[x.Block()] {
			// a load inside the loop: invariant only if nothing in the loop stores to the address
			switch a := x.X.(type) {
			case *ssa.Alloc:
				for _, r := range *a.Referrers() {
					if st, ok := r.(*ssa.Store); ok && st.Addr == a && inLoop[st.Block()] {
						return false
					}
				}
				// the value stored before the loop decides
				for _, r := range *a.Referrers() {
					if st, ok := r.(*ssa.Store); ok && st.Addr == a {
						if !loopInvariantSlice(st.Val, inLoop) {
							return false
						}
					}
				}
				return true
			case *ssa.FieldAddr:
				// x.f read in the loop: invariant unless the loop assigns x.f
				fs, _, _ := fieldChain(a)
				if len(fs) == 0 {
					return false
				}
				assigned := false
				for _, b := range x.Parent().Blocks {
					if !inLoop[b] {
						continue
					}
					for _, ins := range b.Instrs {
						if st, ok := ins.(*ssa.Store); ok {
							if fs2, _, el := fieldChain(st.Addr); len(fs2) > 0 && !el && fs2[len(fs2)-1] == fs[len(fs)-1] {
								assigned = true
							}
						}
					}
				}
				return !assigned
			}
			return false
		}
		return true
	case *ssa.Call:
		if inLoop[x.Block()] {
			return false // computed per iteration
		}
		return true
	case *ssa.MakeSlice, *ssa.Alloc:
		return !inLoop[x.(ssa.Instruction).Block()]
	case *ssa.ChangeType:
		return loopInvariantSlice(x.X, inLoop)
	case *ssa.Convert:
		return loopInvariantSlice(x.X, inLoop)
	}
	return false
}

// retained: does the value outlive the iteration in which it was built?
func retained(v ssa.Value, seen map[ssa.Value]bool, depth int) string {
	if seen[v] || depth > 6 {
		return ""
	}
	seen[v] = true
	refs := v.Referrers()
	if refs == nil {
		return ""
	}
	for _, r := range *refs {
		switch x := r.(type) {
		case *ssa.Store:
			if x.Val != v {
				continue
			}
			if _, local := x.Addr.(*ssa.Alloc); local {
				// a local: retained if the local is (e.g. captured, or read after)
				al := x.Addr.(*ssa.Alloc)
				for _, lr := range *al.Referrers() {
					if u, ok := lr.(*ssa.UnOp); ok && u.Op == token.MUL {
						if how := retained(u, seen, depth+1); how != "" {
							return how
						}
					}
					if mc, ok := lr.(*ssa.MakeClosure); ok {
						if how := retained(mc, seen, depth+1); how != "" {
							return "captured by a closure that is " + how
						}
					}
				}
				continue
			}
			return "stored in " + describeAddr(x.Addr)
		case *ssa.Phi, *ssa.Slice, *ssa.ChangeType, *ssa.Convert, *ssa.MakeInterface:
			if how := retained(x.(ssa.Value), seen, depth+1); how != "" {
				return how
			}
		case *ssa.Return:
			return "" // returned at once: the loop ends here
		case *ssa.MakeClosure:
			if how := retained(x, seen, depth+1); how != "" {
				return "captured by a closure that is " + how
			}
		case *ssa.MapUpdate:
			if x.Value == v {
				return "stored in a map"
			}
		case ssa.CallInstruction:
			cc := x.Common()
			if bi, ok := cc.Value.(*ssa.Builtin); ok {
				if bi.Name() == "append" && len(cc.Args) == 2 && cc.Args[1] == v {
					continue // elements copied out
				}
				if bi.Name() == "append" && cc.Args[0] == v {
					if res := x.Value(); res != nil {
						if how := retained(res, seen, depth+1); how != "" {
							return how
						}
					}
				}
				continue
			}
			// a slice of slices: append(outer, v) passes v as an element of the variadic slice — handled through the Store into the varargs array
			callee := cc.StaticCallee()
			if callee != nil && callee.Blocks != nil && inModule(callee) {
				for i, a := range cc.Args {
					if a == v && i < len(callee.Params) {
						if how := paramRetained(callee, callee.Params[i], depth+1); how != "" {
							return "passed to " + FuncKey(callee) + ", which keeps it (" + how + ")"
						}
					}
				}
				continue
			}
			// unknown callee: assume it does not keep the slice (strings.Join, fmt…)
		}
	}
	return ""
}

func paramRetained(fn *ssa.Function, par *ssa.Parameter, depth int) string {
	if depth > 4 {
		return ""
	}
	how := retained(par, map[ssa.Value]bool{}, depth)
	if how != "" {
		return how
	}
	// returned by the callee: the caller decides; treat as not retained here
	return ""
}

func describeAddr(a ssa.Value) string {
	fs, _, elem := fieldChain(a)
	if len(fs) > 0 {
		s := fs[len(fs)-1].Name()
		if elem {
			s += "[…]"
		}
		return "field " + s
	}
	if elem {
		return "a slice element"
	}
	return "memory outliving the iteration"
}

func runAppendAliasRule(c *Ctx, rule string, scope func(fn *ssa.Function) bool, min int) {
	p := c.P
	n := 0
	buildCallersIndex(p)
	for _, fn := range p.ModuleSSAFuncs() {
		if fn.Origin() != nil || !scope(fn) || fn.Blocks == nil {
			continue
		}
		// count appends in loops (instances examined)
		inLoop := loopBlocks(fn)
		examined := 0
		for _, b := range fn.Blocks {
			if !inLoop[b] {
				continue
			}
			for _, ins := range b.Instrs {
				if call, ok := ins.(*ssa.Call); ok {
					if bi, ok := call.Call.Value.(*ssa.Builtin); ok && bi.Name() == "append" {
						examined++
					}
				}
			}
		}
		if examined == 0 {
			continue
		}
		n += examined
		sites := appendAliasSites(fn)
		var msgs []string
		pos := fn.Pos()
		for _, s := range sites {
			msgs = append(msgs, "append to "+describeValue(p, s.call.Call.Args[0])+" at "+p.Pos(s.call.Pos())+" is "+s.how)
			pos = s.call.Pos()
		}
		sort.Strings(msgs)
		c.Check(rule, FuncKey(fn)+": slices built in a loop by appending to one base slice do not share its spare capacity", pos, len(msgs) == 0,
			strings.Join(msgs, "; ")+": every iteration appends into the same spare capacity of the base slice, so the retained slices alias each other and all show the last iteration's elements once the capacity is large enough")
	}
	c.Stats[rule+".appends_in_loops"] = n
	c.Min(rule, min)
}

// paramAlwaysFull: every static call site of the parameter's function passes
// nil, a capacity-clipped slice (x[:n:n]) or a freshly made slice with
// len == cap for it, so an append to the parameter always reallocates.
// callersIndex must have been built (buildCallersIndex).
var callersIndex map[*ssa.Function][]ssa.CallInstruction

func buildCallersIndex(p *Prog) {
	callersIndex = map[*ssa.Function][]ssa.CallInstruction{}
	for _, fn := range p.ModuleSSAFuncs() {
		allCalls(fn, false, func(_ *ssa.Function, call ssa.CallInstruction) {
			if callee := call.Common().StaticCallee(); callee != nil && inModule(callee) {
				k := callee
				if o := callee.Origin(); o != nil {
					k = o
				}
				callersIndex[k] = append(callersIndex[k], call)
			}
		})
	}
}

var paramFullBusy = map[*ssa.Parameter]bool{}

func paramAlwaysFull(par *ssa.Parameter) bool {
	if paramFullBusy[par] {
		return true // recursive call passing the parameter on: decided by the other call sites
	}
	paramFullBusy[par] = true
	defer delete(paramFullBusy, par)
	fn := par.Parent()
	idx := -1
	for i, q := range fn.Params {
		if q == par {
			idx = i
		}
	}
	sites := callersIndex[fn]
	if idx < 0 || len(sites) == 0 {
		return false
	}
	for _, call := range sites {
		args := call.Common().Args
		if idx >= len(args) {
			return false
		}
		if !fullSlice(args[idx], 0) {
			return false
		}
	}
	return true
}

func fullSlice(v ssa.Value, depth int) bool {
	if depth > 6 {
		return false
	}
	switch x := v.(type) {
	case *ssa.Const:
		return x.IsNil()
	case *ssa.Slice:
		return x.Max != nil
	case *ssa.Phi:
		for _, e := range x.Edges {
			if !fullSlice(e, depth+1) {
				return false
			}
		}
		return true
	case *ssa.Parameter:
		return paramAlwaysFull(x)
	case *ssa.UnOp:
		if a, ok := x.X.(*ssa.Alloc); ok && x.Op == token.MUL {
			n := 0
			for _, r := range *a.Referrers() {
				if st, ok := r.(*ssa.Store); ok && st.Addr == a {
					n++
					if !fullSlice(st.Val, depth+1) {
						return false
					}
				}
			}
			return n > 0
		}
	}
	return false
}
