package main

import (
	"fmt"
	"go/token"
	"go/types"
	"strings"

	"golang.org/x/tools/go/ssa"
)

// E3 specialised to pooled page buffers: where do the *contents* of a
// *buffer[byte] handed to a decoder come from?

type provLeaf struct {
	OK    bool
	Fn    *ssa.Function // function in which the leaf was decided
	Kind  string        // e.g. "verified:(*FilePages).readPage", "raw-fill:io.ReadFull"
	Pos   token.Pos
	Trail string // how the walk got there
}

type callSite struct {
	Caller *ssa.Function
	Call   ssa.CallInstruction
}

type BufProv struct {
	p *Prog
	// results of these functions (key -> result index, -1 single) carry
	// checksum-verified bytes
	Verified map[string]int
	// []byte results (#0) of these functions are authenticated plaintext
	Auth map[string]bool
	// parameters of these functions are caller-supplied bytes outside the
	// property (public decode API, writer-side re-read)
	EntryExempt map[string]string
	// byte-slice consumers that only read their argument
	Readers map[string]bool

	callers map[*ssa.Function][]callSite
	depth   int
}

func NewBufProv(p *Prog) *BufProv {
	b := &BufProv{p: p, Verified: map[string]int{}, Auth: map[string]bool{}, EntryExempt: map[string]string{}, Readers: map[string]bool{}, depth: 8}
	b.callers = map[*ssa.Function][]callSite{}
	for _, fn := range p.ModuleSSAFuncs() {
		allCalls(fn, false, func(in *ssa.Function, call ssa.CallInstruction) {
			if callee := staticCallee(call); callee != nil {
				o := callee
				if callee.Origin() != nil {
					o = callee.Origin()
				}
				b.callers[o] = append(b.callers[o], callSite{in, call})
			}
		})
	}
	return b
}

func originFn(f *ssa.Function) *ssa.Function {
	if o := f.Origin(); o != nil {
		return o
	}
	return f
}

// rootsAt reports whether v is derived from buffer value b through field
// addresses, loads, slicing and the SliceBuffer accessor methods.
func rootsAt(v ssa.Value, b ssa.Value) bool {
	seen := map[ssa.Value]bool{}
	var walk func(v ssa.Value) bool
	walk = func(v ssa.Value) bool {
		if v == nil || seen[v] {
			return false
		}
		seen[v] = true
		if v == b {
			return true
		}
		switch x := v.(type) {
		case *ssa.FieldAddr:
			return walk(x.X)
		case *ssa.Field:
			return walk(x.X)
		case *ssa.UnOp:
			return walk(x.X)
		case *ssa.Slice:
			return walk(x.X)
		case *ssa.IndexAddr:
			return walk(x.X)
		case *ssa.ChangeType:
			return walk(x.X)
		case *ssa.Convert:
			return walk(x.X)
		case *ssa.Phi:
			for _, e := range x.Edges {
				if walk(e) {
					return true
				}
			}
		case *ssa.Call:
			// accessor methods: x.data.Slice(), x.Slice()
			cc := x.Common()
			if callee := cc.StaticCallee(); callee != nil && callee.Signature.Recv() != nil && len(cc.Args) > 0 {
				switch fnName(callee) {
				case "Slice", "Bytes":
					return walk(cc.Args[0])
				}
			}
		}
		return false
	}
	return walk(v)
}

// ClassifyBuffer returns the provenance leaves of buffer value v in fn.
func (b *BufProv) ClassifyBuffer(v ssa.Value, fn *ssa.Function, depth int, trail string) []provLeaf {
	if depth > b.depth {
		return []provLeaf{{OK: false, Fn: fn, Kind: "depth-exceeded", Pos: v.Pos(), Trail: trail}}
	}
	var out []provLeaf
	for _, o := range Origins(v, OriginOpts{}) {
		switch o.Kind {
		case OrgConst:
			out = append(out, provLeaf{OK: true, Fn: fn, Kind: "nil-or-const", Pos: v.Pos(), Trail: trail})
		case OrgCall:
			callee := staticCallee(o.Call)
			if callee == nil {
				out = append(out, provLeaf{OK: false, Fn: fn, Kind: "dynamic-producer:" + calleeName(o.Call), Pos: o.Call.Pos(), Trail: trail})
				continue
			}
			key := FuncKey(callee)
			if idx, ok := b.Verified[key]; ok && (idx == o.Index || idx == -1 && o.Index <= 0) {
				out = append(out, provLeaf{OK: true, Fn: fn, Kind: "verified:" + key, Pos: o.Call.Pos(), Trail: trail})
				continue
			}
			switch {
			case fnName(callee) == "get" && strings.Contains(key, "bufferPool"):
				out = append(out, b.fills(fn, o.Val, depth, trail+" <- fresh "+key)...)
			case key == "newBuffer":
				args := o.Call.Common().Args
				out = append(out, b.ClassifyBytes(args[0], fn, depth+1, trail+" <- newBuffer")...)
			case inModule(callee) && callee.Blocks != nil:
				// summary: every return of the callee
				idx := o.Index
				for _, ret := range returnsOf(callee) {
					ri := idx
					if ri < 0 {
						ri = 0
					}
					rv, rec := retResult(ret, ri)
					if rv == nil || rec {
						continue
					}
					out = append(out, b.ClassifyBuffer(rv, callee, depth+1, trail+" <- result of "+key)...)
				}
			default:
				out = append(out, provLeaf{OK: false, Fn: fn, Kind: "unknown-producer:" + key, Pos: o.Call.Pos(), Trail: trail})
			}
		case OrgParam:
			out = append(out, b.ascend(o.Val.(*ssa.Parameter), fn, depth, trail, true)...)
		case OrgField:
			name := "?"
			if o.Field != nil {
				name = b.p.FieldName(o.Field)
			}
			out = append(out, provLeaf{OK: false, Fn: fn, Kind: "field-load:" + name, Pos: v.Pos(), Trail: trail})
		case OrgAlloc:
			// spilled local with no store, or make(): treat like fresh storage
			out = append(out, b.fills(fn, o.Val, depth, trail+" <- local")...)
		default:
			out = append(out, provLeaf{OK: false, Fn: fn, Kind: fmt.Sprintf("untracked:%T", o.Val), Pos: v.Pos(), Trail: trail})
		}
	}
	return out
}

func (b *BufProv) ascend(par *ssa.Parameter, fn *ssa.Function, depth int, trail string, isBuffer bool) []provLeaf {
	key := FuncKey(fn)
	if why, ok := b.EntryExempt[key]; ok {
		return []provLeaf{{OK: true, Fn: fn, Kind: "exempt-entry:" + key + " (" + why + ")", Pos: fn.Pos(), Trail: trail}}
	}
	idx := -1
	for i, q := range fn.Params {
		if q == par {
			idx = i
		}
	}
	sites := b.callers[originFn(fn)]
	if idx < 0 || len(sites) == 0 {
		return []provLeaf{{OK: false, Fn: fn, Kind: "param-without-static-callers:" + key + "." + par.Name(), Pos: fn.Pos(), Trail: trail}}
	}
	var out []provLeaf
	for _, s := range sites {
		args := s.Call.Common().Args
		if idx >= len(args) {
			continue
		}
		t := trail + " <- " + par.Name() + " of " + key
		if isBuffer {
			out = append(out, b.ClassifyBuffer(args[idx], s.Caller, depth+1, t)...)
		} else {
			out = append(out, b.ClassifyBytes(args[idx], s.Caller, depth+1, t)...)
		}
	}
	return out
}

// fills finds what writes the content of the fresh buffer buf in fn.
func (b *BufProv) fills(fn *ssa.Function, buf ssa.Value, depth int, trail string) []provLeaf {
	var out []provLeaf
	allCalls(fn, false, func(in *ssa.Function, call ssa.CallInstruction) {
		cc := call.Common()
		if bi, ok := cc.Value.(*ssa.Builtin); ok {
			if bi.Name() == "copy" && len(cc.Args) == 2 && rootsAt(cc.Args[0], buf) {
				out = append(out, b.ClassifyBytes(cc.Args[1], fn, depth+1, trail+" <- copy(src)")...)
			}
			return
		}
		callee := cc.StaticCallee()
		args := cc.Args
		for i, a := range args {
			if _, isSlice := a.Type().Underlying().(*types.Slice); !isSlice {
				continue
			}
			if !rootsAt(a, buf) {
				continue
			}
			name := calleeName(call)
			if callee != nil && callee.Signature.Recv() != nil && i == 0 {
				continue // method on the derived value itself
			}
			if b.Readers[name] {
				continue
			}
			out = append(out, provLeaf{OK: false, Fn: fn, Kind: "raw-fill:" + name, Pos: call.Pos(), Trail: trail})
		}
	})
	if len(out) == 0 {
		out = append(out, provLeaf{OK: false, Fn: fn, Kind: "fresh-buffer-without-visible-fill", Pos: buf.Pos(), Trail: trail})
	}
	return out
}

// ClassifyBytes: provenance of a []byte value.
func (b *BufProv) ClassifyBytes(v ssa.Value, fn *ssa.Function, depth int, trail string) []provLeaf {
	if depth > b.depth {
		return []provLeaf{{OK: false, Fn: fn, Kind: "depth-exceeded", Pos: v.Pos(), Trail: trail}}
	}
	var out []provLeaf
	for _, o := range Origins(v, OriginOpts{}) {
		switch o.Kind {
		case OrgConst:
			out = append(out, provLeaf{OK: true, Fn: fn, Kind: "nil-or-const", Pos: v.Pos(), Trail: trail})
		case OrgCall:
			key := calleeName(o.Call)
			if b.Auth[key] && o.Index <= 0 {
				out = append(out, provLeaf{OK: true, Fn: fn, Kind: "authenticated:" + key, Pos: o.Call.Pos(), Trail: trail})
			} else {
				out = append(out, provLeaf{OK: false, Fn: fn, Kind: "unknown-bytes-producer:" + key, Pos: o.Call.Pos(), Trail: trail})
			}
		case OrgParam:
			out = append(out, b.ascend(o.Val.(*ssa.Parameter), fn, depth, trail, false)...)
		default:
			out = append(out, provLeaf{OK: false, Fn: fn, Kind: fmt.Sprintf("untracked-bytes:%T", o.Val), Pos: v.Pos(), Trail: trail})
		}
	}
	return out
}
